(* Correspondence for C11 (mechanism T): for every scenario the harness ran on real sessions, the
   model explores EVERY interleaving of the reader's steps with the helper events the scenario
   performed (event loop add/notify, the closers' steps, clock/timer) and returns the set of possible
   outcomes; the observed error class must be in that set, and the set must not contain "blocked for
   ever" (a bounded, executable cross-check of the invariants proved in Proofs/WaitProofs.v).
   Evaluated with vm_compute by ./check C11. *)
From Coq Require Import List ZArith Bool Arith.
From Shm Require Import Gen.Consts Model.Wait.
Import ListNotations.
Open Scope Z_scope.

(* 0 ok, 1 timeout, 2 end of stream, 3 stream closed, 7 blocked for ever, 6 out of fuel *)
Definition res_code (r : option result) : Z :=
  match r with
  | Some (ROk _) => 0 | Some RErrTimeout => 1 | Some RErrEOS => 2 | Some RErrClosed => 3 | None => 7
  end.

Definition reader_moves (s : st) : list ev :=
  match rd s with
  | RParked =>
    (if token s then [RWake BNotify] else []) ++ (if closeN s then [RWake BClose] else [])
    ++ (if use_t s && tch s then [RWake BTimer] else [])
  | RIdle | RDone => []
  | _ => [RStep]
  end.

(* the runtime delivers a due timer value at any moment *)
Definition rt_moves (s : st) : list ev :=
  match tmr s with Some t => if t <=? now s then [Fire] else [] | None => [] end.

Fixpoint explore (fuel : nat) (s : st) (helpers : list ev) : list Z :=
  match fuel with
  | O => [6]
  | S f =>
    match rd s with
    | RDone => [res_code (res s)]
    | _ =>
      let rm := reader_moves s ++ rt_moves s in
      let via_reader := flat_map (fun e => explore f (step s e) helpers) rm in
      match helpers with
      | [] => match rm with [] => [7] | _ => via_reader end
      | h :: t => via_reader ++ explore f (step s h) t
      end
    end
  end.

Fixpoint zmem (x : Z) (l : list Z) : bool :=
  match l with [] => false | y :: r => (x =? y) || zmem x r end.

Record wcase := {
  w_prefix : list ev;     (* before the call: data already buffered, SetReadDeadline ... *)
  w_min : nat;            (* readMore's minSize *)
  w_helpers : list ev;    (* the releasing event, as the steps of the thread that performs it *)
  w_obs : Z }.            (* observed error class; 8 = the call did not return within the bound *)

(* 0 = fine; 1 = observed class impossible in the model; 2 = the model can block for ever; 3 = fuel *)
Definition check_case (c : wcase) : Z :=
  let s0 := step (run (w_prefix c) init) (RCall (w_min c)) in
  let outs := explore 40 s0 (w_helpers c) in
  if zmem 6 outs then 3
  else if w_obs c =? 8 then (if zmem 7 outs then 0 else 1)   (* observed: did not return; the model must be able to block *)
  else if zmem 7 outs then 2
  else if zmem (w_obs c) outs then 0 else 1.

Fixpoint mismatches_from (n : nat) (cs : list wcase) : list (nat * Z) :=
  match cs with
  | [] => []
  | c :: r => let k := check_case c in
              if k =? 0 then mismatches_from (S n) r else (n, k) :: mismatches_from (S n) r
  end.
Definition mismatches := mismatches_from 0.

(* Flush: observed result against the model for "queue full for ever" *)
Definition flush_full_result : fres * nat := flush_retry true (fun _ => FPutFull).

(* the peer's Close with the io queue full: error? and where is the notification *)
Definition peer_close_queue_full : bool * bool * bool :=
  let s := pc_run true [PcEnvQ true; PcCas; PcNotify] in (pc_err s, in_queue s, in_sock s).

Definition selftest : list (nat * Z) :=
  mismatches [ {| w_prefix := []; w_min := 1; w_helpers := [EAdd 5; EFin]; w_obs := 0 |};
               {| w_prefix := [EAdd 5; EFin]; w_min := 1; w_helpers := []; w_obs := 0 |};
               {| w_prefix := [SetDL (Some 40)]; w_min := 1; w_helpers := [Tick 40]; w_obs := 1 |};
               {| w_prefix := []; w_min := 1; w_helpers := [LLoad; LCas; LClean; LNotify]; w_obs := 3 |};
               {| w_prefix := []; w_min := 1; w_helpers := [LLoad; LCas; LClean; LNotify]; w_obs := 2 |};
               {| w_prefix := []; w_min := 1; w_helpers := [PClose1; PClose2]; w_obs := 2 |};
               {| w_prefix := []; w_min := 1; w_helpers := [SClose]; w_obs := 3 |};
               {| w_prefix := [EAdd 4; EFin]; w_min := 8; w_helpers := [LDefer1; LDefer2; SClose; LLoad; LCas; LNotify; LClean]; w_obs := 3 |};
               {| w_prefix := [EAdd 4; EFin]; w_min := 8; w_helpers := [LDefer1; LDefer2]; w_obs := 3 |} ].
