(* Correspondence for the manager layer (C01/C02): same op sequence on the real bufferManager and on
   Model/FreeListMgr.v; compared: which buffers every allocation returned. *)
From Coq Require Import List ZArith Bool Arith.
From Shm Require Import Gen.Consts Model.FreeListMgr.
Import ListNotations.
Open Scope Z_scope.

Fixpoint list_eqb {A} (eqb : A -> A -> bool) (a b : list A) : bool :=
  match a, b with
  | [], [] => true
  | x :: a', y :: b' => eqb x y && list_eqb eqb a' b'
  | _, _ => false
  end.

(* class described by capPerBuffer, absolute offset of its region, number of slots *)
Definition mk_class (d : Z * Z * Z) : cls :=
  let '(cpb, base, n) := d in
  {| c_cpb := cpb; c_free := map (fun k => base + Z.of_nat k * (cpb + c_bufferHeaderSize)) (seq 0 (Z.to_nat n)) |}.

Definition res_code (r : mres) : list Z :=
  match r with RBuf None => [-1] | RBuf (Some o) => [o] | RBufs l => l | RUnit => [] end.

Record mcase := { mc_classes : list (Z * Z * Z); mc_ops : list mop; mc_res : list (list Z) }.

Definition check_case (c : mcase) : bool :=
  let m0 := {| classes := map mk_class (mc_classes c); mheld := [] |} in
  list_eqb (list_eqb Z.eqb) (map res_code (fst (mrun m0 (mc_ops c)))) (mc_res c).

Fixpoint mismatches_from (n : nat) (cs : list mcase) : list nat :=
  match cs with [] => [] | c :: r => if check_case c then mismatches_from (S n) r else n :: mismatches_from (S n) r end.
Definition mismatches := mismatches_from 0.
