(* Correspondence check for the pool model (C15, mechanism D): run the model on the history the real
   SessionManager ran, compare the projected observables after every op.  Evaluated by vm_compute. *)
From Coq Require Import List ZArith Bool Arith.
From Shm Require Import Gen.Consts Model.Pool.
Import ListNotations.
Open Scope Z_scope.

(* an op of the harness: a model label, or the macro "the server side of the current session goes
   away and the manager rebuilds" = SessLoss; SessCleanup cur; BgPop * pooled; Rebuild *)
Inductive hop := HL (l : label) | HSessLoss | HEndWin
  | HPut (c x : nat).   (* a complete PutBack with nothing interleaved: PutPrepare; PutPush *)
(* HEndWin = the part after the shutdown flag: SessCleanup cur; BgPop * pooled; Rebuild *)

Record snap := {
  sn_active : Z; sn_head : Z; sn_tail : Z; sn_ring : list Z;
  sn_streams : list (list Z);    (* per stream: state, rlen, rslices, npend, slen, sslices, infb *)
  sn_unhealthy : Z; sn_sess : Z; sn_shut : Z }.

Record pstep := { p_op : hop; p_res : Z; p_got : Z; p_snap : snap }.
Record pcase := { p_fx : bool; p_fy : bool; p_cap : Z; p_steps : list pstep }.

Definition b2z (b : bool) : Z := if b then 1 else 0.
Definition zlen {A} (l : list A) : Z := Z.of_nat (length l).

Definition stream_obs (v : stream) : list Z :=
  [sstate_code (sst v); sumz (rbuf v); zlen (rbuf v); zlen (pend v); sumz (sbuf v); zlen (sbuf v); b2z (infb v)].

Definition model_snap (s : st) : snap :=
  let k := sessions s (cur s) in
  {| sn_active := zlen (table k); sn_head := head s; sn_tail := tail s;
     sn_ring := map Z.of_nat (ring_list s);
     sn_streams := map (fun x => stream_obs (streams s x)) (seq 0 (nstreams s));
     sn_unhealthy := b2z (unhealthy k); sn_sess := Z.of_nat (cur s); sn_shut := b2z (shut k) |}.

Fixpoint list_eqb {A} (eqb : A -> A -> bool) (a b : list A) : bool :=
  match a, b with
  | [], [] => true
  | x :: a', y :: b' => eqb x y && list_eqb eqb a' b'
  | _, _ => false
  end.

(* 0 = equal; otherwise the code of the first differing field *)
Definition snap_diff (a b : snap) : Z :=
  if negb (sn_active a =? sn_active b) then 1
  else if negb ((sn_head a =? sn_head b) && (sn_tail a =? sn_tail b)) then 2
  else if negb (list_eqb Z.eqb (sn_ring a) (sn_ring b)) then 3
  else if negb (list_eqb (list_eqb Z.eqb) (sn_streams a) (sn_streams b)) then 4
  else if negb (sn_unhealthy a =? sn_unhealthy b) then 5
  else if negb ((sn_sess a =? sn_sess b) && (sn_shut a =? sn_shut b)) then 6
  else 0.

Definition res_code (r : result) : Z * Z :=
  match r with
  | RGot x => (0, Z.of_nat x) | RUnhealthy => (1, -1) | RShutdown => (2, -1)
  | RNone => (-1, -1) | RIgnored => (-2, -1)
  end.

Definition end_window (s1 : st) : st :=
  let s2 := fst (step s1 (SessCleanup (cur s1))) in
  let s3 := run s2 (repeat BgPop (Z.to_nat (tail s2 - head s2))) in
  fst (step s3 Rebuild).

Definition run_hop (s : st) (o : hop) : st * result :=
  match o with
  | HL l => step s l
  | HSessLoss => (end_window (fst (step s SessLoss)), RNone)
  | HEndWin => (end_window s, RNone)
  | HPut c x => let '(s1, r1) := step s (PutPrepare c x) in (fst (step s1 (PutPush c x)), r1)
  end.

(* first step at which model and implementation differ: (step index, field code);
   field code 7 = the result of the op (error class / identity of the returned stream) *)
Fixpoint first_diff (s : st) (l : list pstep) (n : nat) : option (nat * Z) :=
  match l with
  | [] => None
  | p :: r =>
    let '(s', res) := run_hop s (p_op p) in
    let '(rc, got) := res_code res in
    let res_ok := match p_op p with
                  | HL (Get _) => (rc =? p_res p) && (got =? p_got p)
                  | HL _ => negb (rc =? -2)         (* the harness never issues an op the model ignores *)
                  | HSessLoss | HEndWin => true
                  | HPut _ _ => negb (rc =? -2)
                  end in
    if negb res_ok then Some (n, 7)
    else let d := snap_diff (model_snap s') (p_snap p) in
         if d =? 0 then first_diff s' r (S n) else Some (n, d)
  end.

Definition check_case (c : pcase) : option (nat * Z) := first_diff (init (p_fx c) (p_fy c) (p_cap c)) (p_steps c) 0.

Fixpoint mismatches_from (n : nat) (cs : list pcase) : list (nat * nat * Z) :=
  match cs with
  | [] => []
  | c :: r => match check_case c with
              | None => mismatches_from (S n) r
              | Some (k, d) => (n, k, d) :: mismatches_from (S n) r
              end
  end.
Definition mismatches := mismatches_from 0.

(* diagnostics: the model's snapshot after the first k ops *)
Fixpoint run_hops (s : st) (l : list hop) : st :=
  match l with [] => s | o :: r => run_hops (fst (run_hop s o)) r end.
Definition model_after (c : pcase) (k : nat) : snap :=
  model_snap (run_hops (init (p_fx c) (p_fy c) (p_cap c)) (firstn k (map p_op (p_steps c)))).
