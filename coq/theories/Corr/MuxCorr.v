(* Correspondence check for the multiplexing model (C07): the implementation's observed histories
   (real session pairs; per direction the sequence of Flush/Close operations with the transport each
   one took, executed one at a time with quiescence in between; and the directed race schedules) are
   replayed on the model and the per-stream delivery sequences are compared.
   Evaluated with vm_compute by ./check C07. *)
From Coq Require Import List ZArith Bool Arith.
From Shm Require Import Gen.Consts Model.Wakeup Model.Mux.
Import ListNotations.
Open Scope nat_scope.

Fixpoint ditems_eqb (a b : list ditem) : bool :=
  match a, b with
  | [], [] => true
  | x :: a', y :: b' => ditem_eqb x y && ditems_eqb a' b'
  | _, _ => false
  end.

(* history actions: a writer performs its next operation to completion (the send loop runs while it
   waits in waitForSend) | n steps of one thread *)
Inductive act := ADo (i : nat) | AStep (w : who) (n : nat).

Definition pc_of (st : mst) (i : nat) : mpc :=
  match nth_error (mprods st) i with Some p => mpc_ p | None => MIdle end.
Definition is_idle (c : mpc) : bool := match c with MIdle => true | _ => false end.
Definition is_wait (c : mpc) : bool := match c with MWait => true | _ => false end.

Fixpoint steps (st : mst) (w : who) (n : nat) : mst :=
  match n with O => st | S k => steps (mstep st w) w k end.

Fixpoint finish_op (fuel : nat) (st : mst) (i : nat) : mst :=
  match fuel with
  | O => st
  | S f => let st1 := mstep st (WProd i) in
           if is_idle (pc_of st1 i) then st1
           else if is_wait (pc_of st1 i) then finish_op f (steps st1 WSend 6) i
           else finish_op f st1 i
  end.

Definition exec (st : mst) (a : act) : mst :=
  match a with
  | ADo i => finish_op 20 st i
  | AStep w n => steps st w n
  end.

Record mcase := {
  c_progs : list (list mop);
  c_acts : list act;
  c_seen : list (list ditem);     (* observed on the implementation, per stream index *)
  c_prefix : list bool }.         (* per stream: the reader closed locally, compare a prefix only *)

Definition final (c : mcase) : mst := fold_left exec (c_acts c) (minit (c_progs c)).

Fixpoint cmp (st : mst) (i : nat) (obs : list (list ditem)) (pf : list bool) : option nat :=
  match obs with
  | [] => None
  | o :: r =>
    let ok := match pf with
              | true :: _ => is_prefix o (seen i st)
              | _ => ditems_eqb o (seen i st)
              end in
    if ok then cmp st (S i) r (tl pf) else Some i
  end.

(* None = agree; Some i = stream index i differs *)
Definition check_case (c : mcase) : option nat :=
  cmp (final c) 0 (c_seen c) (c_prefix c).

Fixpoint mismatches_from (n : nat) (cs : list mcase) : list (nat * nat) :=
  match cs with
  | [] => []
  | c :: r => match check_case c with
              | None => mismatches_from (S n) r
              | Some i => (n, i) :: mismatches_from (S n) r
              end
  end.
Definition mismatches := mismatches_from 0.

Definition model_seen (c : mcase) : list (list ditem) :=
  let st := final c in
  map (fun i => seen i st) (seq 0 (length (c_progs c))).

(* ---------- the synchronous reader: driver histories replayed on Model/MuxReader.v ---------- *)
From Shm Require Import Model.MuxReader.
Definition res_code (s : rst) : nat :=
  match rp s with RDone ROk => 1 | RDone REos => 2 | RDone RClosedErr => 3 | RDone RTimeout => 4 | _ => 0 end.
Record rcase := { ra : list ract; rm : nat; rr : nat }.   (* rr: what the implementation's blocking read returned *)
Fixpoint rmismatches_from (n : nat) (cs : list rcase) : list (nat * nat) :=
  match cs with
  | [] => []
  | c :: r => let m := res_code (rrun (ra c) (rm c)) in
              if Nat.eqb m (rr c) then rmismatches_from (S n) r else (n, m) :: rmismatches_from (S n) r
  end.
Definition rmismatches := rmismatches_from 0.
