(* Correspondence (mechanism T) for C16: the hot-restart model run as an ACCEPTOR over the event
   history observed on the real Listener / SessionManager.  Every observed event must be an enabled
   transition of the model, the data it carries (epoch on the wire, result of HotRestart, result of
   a GetStream probe) must be what the model computes, and wherever the harness took a snapshot of
   the bookkeeping under the locks the model's state must project to the same observables.
   Evaluated with vm_compute by props/C16.py. *)
From Coq Require Import List ZArith Bool Arith.
From Shm Require Import Gen.Consts Model.HotRestart.
Import ListNotations.
Open Scope Z_scope.

Record obs := {
  o_lstate : Z; o_lepoch : Z; o_lack : Z;
  o_lsess : list Z;                       (* per connection: server session state, or -1 if not in the table *)
  o_mstate : Z; o_mepoch : Z;
  o_pools : list (Z * bool);              (* per pool: epoch of the current session, not closed *)
  o_reserve : list (option (Z * bool)) }. (* per pool: parked session, if any *)

Inductive oevent :=
| OHotRestart (e : Z) (res : Z)                 (* 0 nil, 1 ErrHotRestartInProgress, 2 ErrInHandshakeStage *)
| ODeliverRestart (i : nat) (e : Z) (ok : bool) (* e = epoch read from the wire *)
| ODeliverAck (i : nat) (e : Z)
| OGetStream (k : nat) (ok : bool)
| OEv (ev : event).

Definition zb_eqb (a b : Z * bool) : bool := (fst a =? fst b) && Bool.eqb (snd a) (snd b).
Definition ozb_eqb (a b : option (Z * bool)) : bool :=
  match a, b with Some x, Some y => zb_eqb x y | None, None => true | _, _ => false end.
Fixpoint list_eqb {A} (eqb : A -> A -> bool) (a b : list A) : bool :=
  match a, b with
  | [], [] => true
  | x :: a', y :: b' => eqb x y && list_eqb eqb a' b'
  | _, _ => false
  end.

Definition project (s : state) : obs :=
  {| o_lstate := l_state (lis s); o_lepoch := l_epoch (lis s); o_lack := l_ack (lis s);
     o_lsess := map (fun x => if ls_present x then ls_state x else -1) (l_sess (lis s));
     o_mstate := m_state (mgr s); o_mepoch := m_epoch (mgr s);
     o_pools := map (fun c => (cs_epoch c, cs_alive c)) (m_pools (mgr s));
     o_reserve := map (fun o => match o with Some c => Some (cs_epoch c, cs_alive c) | None => None end)
                      (m_reserve (mgr s)) |}.

(* which component differs: 0 none, 1 listener state, 2 listener epoch, 3 ack count, 4 server session
   states, 5 manager state, 6 manager epoch, 7 pools, 8 reserve pools *)
Definition obs_diff (a b : obs) : Z :=
  if negb (o_lstate a =? o_lstate b) then 1
  else if negb (o_lepoch a =? o_lepoch b) then 2
  else if negb (o_lack a =? o_lack b) then 3
  else if negb (list_eqb Z.eqb (o_lsess a) (o_lsess b)) then 4
  else if negb (o_mstate a =? o_mstate b) then 5
  else if negb (o_mepoch a =? o_mepoch b) then 6
  else if negb (list_eqb zb_eqb (o_pools a) (o_pools b)) then 7
  else if negb (list_eqb ozb_eqb (o_reserve a) (o_reserve b)) then 8
  else 0.

Definition head_of (ch : list (list Z)) (i : nat) : option Z :=
  match nth_error ch i with Some (e :: _) => Some e | _ => None end.

Definition hr_code (r : hr_result) : Z := match r with HrOk => 0 | HrInProgress => 1 | HrInHandshake => 2 end.

(* one observed event: Some s' if accepted.  Error codes: 20 not enabled, 21 wrong epoch on the wire,
   22 wrong HotRestart result, 23 wrong GetStream result *)
Definition accept_one (s : state) (oe : oevent) : state + Z :=
  match oe with
  | OHotRestart e res =>
      let '(s', r) := hot_restart s e in
      if hr_code r =? res then inl s' else inr 22
  | ODeliverRestart i e ok =>
      if negb (enabled s (DeliverRestart i ok)) then inr 20
      else match head_of (to_client s) i with
           | Some e' => if e' =? e then inl (step s (DeliverRestart i ok)) else inr 21
           | None => inr 20
           end
  | ODeliverAck i e =>
      if negb (enabled s (DeliverAck i)) then inr 20
      else match head_of (to_server s) i with
           | Some e' => if e' =? e then inl (step s (DeliverAck i)) else inr 21
           | None => inr 20
           end
  | OGetStream k ok =>
      if negb (enabled s (GetStream k)) then inr 20
      else if Bool.eqb (get_stream s k) ok then inl s else inr 23
  | OEv ev => if enabled s ev then inl (step s ev) else inr 20
  end.

(* history = list of (event, optional snapshot taken after it).  Result: None = accepted, or
   (position, code) of the first rejection (codes 1..8: snapshot component that differs). *)
Fixpoint accept_from (pos : nat) (s : state) (h : list (oevent * option obs)) : option (nat * Z) :=
  match h with
  | [] => None
  | (oe, oo) :: r =>
      match accept_one s oe with
      | inr c => Some (pos, c)
      | inl s' =>
          match oo with
          | Some o => let d := obs_diff (project s') o in
                      if d =? 0 then accept_from (S pos) s' r else Some (pos, d)
          | None => accept_from (S pos) s' r
          end
      end
  end.

Record hcase := { h_n : nat; h_hist : list (oevent * option obs) }.

Definition accepts (c : hcase) : option (nat * Z) := accept_from 0 (init (h_n c)) (h_hist c).

Fixpoint mismatches_from (k : nat) (cs : list hcase) : list (nat * nat * Z) :=
  match cs with
  | [] => []
  | c :: r => match accepts c with
              | None => mismatches_from (S k) r
              | Some (p, code) => (k, p, code) :: mismatches_from (S k) r
              end
  end.
Definition mismatches := mismatches_from 0.

(* diagnostics for replay files: the model's projection after the accepted prefix *)
Fixpoint state_after (s : state) (h : list (oevent * option obs)) (fuel : nat) : state :=
  match fuel, h with
  | S f, (oe, _) :: r => match accept_one s oe with inl s' => state_after s' r f | inr _ => s end
  | _, _ => s
  end.
