(* Correspondence check for the slot-accounting model (C09, mechanism D): run the model on the history
   the real session pair ran (with the slots the real allocator handed out and the observed slice sizes
   as inputs), compare the per-class in-use counts and the queue occupancy after every op. *)
From Coq Require Import List ZArith Bool Arith.
From Shm Require Import Gen.Consts Model.Accounting.
Import ListNotations.
Open Scope Z_scope.

(* HFlush / HClose: the op followed by the run of the peer's event loop that the wake-up triggers when
   an element was queued *)
Inductive hop := HL (l : label) | HFlush (e : bool) (sid : nat) (sizes : list Z) (wpos : nat) | HClose (e : bool) (sid : nat).

Record astep := { a_op : hop; a_inuse : list Z; a_qs : Z; a_qc : Z }.
Record acase := { a_fx : bool; a_caps : list nat; a_qcap : Z; a_steps : list astep }.

Definition with_wake (e : bool) (s s1 : st) : st :=
  if (length (queue_to (negb e) s) <? length (queue_to (negb e) s1))%nat then do_poll (negb e) s1 else s1.

Definition run_hop (s : st) (o : hop) : option st :=
  match o with
  | HL l => step s l
  | HFlush e sid sizes wpos => Some (with_wake e s (do_flush e sid sizes wpos s))
  | HClose e sid => Some (with_wake e s (do_close e sid s))
  end.

Fixpoint class_inuse (base : Z) (caps : list nat) (fr : list Z) : list Z :=
  match caps with
  | [] => []
  | c :: r =>
    (Z.of_nat c - Z.of_nat (length (filter (fun x => (base <=? x) && (x <? base + Z.of_nat c)) fr)))
      :: class_inuse (base + Z.of_nat c) r fr
  end.

Fixpoint list_eqb (a b : list Z) : bool :=
  match a, b with
  | [], [] => true
  | x :: a', y :: b' => (x =? y) && list_eqb a' b'
  | _, _ => false
  end.

(* (step, code): 1 = in-use counts differ, 2 = queue occupancy differs, 9 = the op is not enabled in the
   model (e.g. the allocator handed out a slot the model holds elsewhere) *)
Fixpoint first_diff (caps : list nat) (s : st) (l : list astep) (n : nat) : option (nat * Z) :=
  match l with
  | [] => None
  | a :: r =>
    match run_hop s (a_op a) with
    | None => Some (n, 9)
    | Some s' =>
      if negb (list_eqb (class_inuse 0 caps (free s')) (a_inuse a)) then Some (n, 1)
      else if negb ((Z.of_nat (length (q_srv s')) =? a_qs a) && (Z.of_nat (length (q_cli s')) =? a_qc a)) then Some (n, 2)
      else first_diff caps s' r (S n)
    end
  end.

Definition check_case (c : acase) : option (nat * Z) :=
  first_diff (a_caps c) (init (a_fx c) (fold_right Nat.add O (a_caps c)) (a_qcap c)) (a_steps c) 0.

Fixpoint mismatches_from (n : nat) (cs : list acase) : list (nat * nat * Z) :=
  match cs with
  | [] => []
  | c :: r => match check_case c with
              | None => mismatches_from (S n) r
              | Some (k, d) => (n, k, d) :: mismatches_from (S n) r
              end
  end.
Definition mismatches := mismatches_from 0.

(* diagnostics *)
Fixpoint run_hops (s : st) (l : list hop) : st :=
  match l with [] => s | o :: r => run_hops (match run_hop s o with Some s' => s' | None => s end) r end.
Definition model_inuse_after (c : acase) (k : nat) : list Z :=
  class_inuse 0 (a_caps c)
    (free (run_hops (init (a_fx c) (fold_right Nat.add O (a_caps c)) (a_qcap c)) (firstn k (map a_op (a_steps c))))).
