(* Correspondence check for the slot-accounting model (C09, mechanism D): run the model on the history
   the real session pair ran (with the slots the real allocator handed out and the observed slice sizes
   as inputs), compare the per-class in-use counts and the queue occupancy after every op. *)
From Coq Require Import List ZArith Bool Arith.
From Shm Require Import Gen.Consts Model.Accounting Model.AccountingConc.
Import ListNotations.
Open Scope Z_scope.

(* HFlush / HClose: the op followed by the run of the peer's event loop that the wake-up triggers when
   an element was queued *)
Inductive hop := HL (l : label) | HFlush (e : bool) (sid : nat) (sizes : list Z) (wpos : nat) | HClose (e : bool) (sid : nat)
  | HSync.   (* the quiescent point after a concurrent phase: nothing happens, the snapshot is compared *)

(* a_cmp = false: the op ran inside a concurrent phase; its enabledness is checked, its snapshot is not *)
Record astep := { a_op : hop; a_cmp : bool; a_inuse : list Z; a_qs : Z; a_qc : Z }.
Record acase := { a_fx : bool; a_gx : bool; a_caps : list nat; a_qcap : Z; a_steps : list astep }.

Definition with_wake (e : bool) (s s1 : st) : st :=
  if (length (queue_to (negb e) s) <? length (queue_to (negb e) s1))%nat then do_poll (negb e) s1 else s1.

Definition run_hop (s : st) (o : hop) : option st :=
  match o with
  | HL l => step s l
  | HFlush e sid sizes wpos => Some (with_wake e s (do_flush e sid sizes wpos s))
  | HClose e sid => Some (with_wake e s (do_close e sid s))
  | HSync => Some s
  end.

Fixpoint class_inuse (base : Z) (caps : list nat) (fr : list Z) : list Z :=
  match caps with
  | [] => []
  | c :: r =>
    (Z.of_nat c - Z.of_nat (length (filter (fun x => (base <=? x) && (x <? base + Z.of_nat c)) fr)))
      :: class_inuse (base + Z.of_nat c) r fr
  end.

Fixpoint list_eqb (a b : list Z) : bool :=
  match a, b with
  | [], [] => true
  | x :: a', y :: b' => (x =? y) && list_eqb a' b'
  | _, _ => false
  end.

(* (step, code): 1 = in-use counts differ, 2 = queue occupancy differs, 9 = the op is not enabled in the
   model (e.g. the allocator handed out a slot the model holds elsewhere) *)
Fixpoint first_diff (caps : list nat) (s : st) (l : list astep) (n : nat) : option (nat * Z) :=
  match l with
  | [] => None
  | a :: r =>
    match run_hop s (a_op a) with
    | None => Some (n, 9)
    | Some s' =>
      if negb (a_cmp a) then first_diff caps s' r (S n)
      else if negb (list_eqb (class_inuse 0 caps (free s')) (a_inuse a)) then Some (n, 1)
      else if negb ((Z.of_nat (length (q_srv s')) =? a_qs a) && (Z.of_nat (length (q_cli s')) =? a_qc a)) then Some (n, 2)
      else first_diff caps s' r (S n)
    end
  end.

(* ---- the same history on the fine-grained model (Model/AccountingConc.v): every op of the harness is the
   sequence of critical sections the code runs for it when nothing interleaves; stream objects are
   resolved through the session table, as the harness (which always uses the current object) does ---- *)
Definition crun_opt (s : cst) (l : list clabel) : cst := crun s l.
Definition drain (e : bool) (s : cst) : cst :=
  crun s (flat_map (fun _ => [PollOne e; LoopAdd e; LoopCheck e]) (cqueue_to e s)).
Definition cwith_wake (e : bool) (s s1 : cst) : cst :=
  if (length (cqueue_to (negb e) s) <? length (cqueue_to (negb e) s1))%nat then drain (negb e) s1 else s1.
(* the peer's loop handles the socket events that an op produced (the harness waits for that): for each
   item first everything queued (62f988f), then the item itself *)
Definition settle_sock (e : bool) (s : cst) : cst :=
  fold_left (fun s1 _ => cstep' (drain e s1) (SockStep e)) (sock_to e s) s.
Definition settle (s : cst) : cst := settle_sock true (settle_sock false s).

(* the object the harness holds for (e, sid): the one in the table, or - after its Close - the most recent
   object created for that id (the harness keeps using its pointer for writes / flushes after Close) *)
Definition last_obj (e : bool) (sid : nat) (s : cst) : option nat :=
  fold_left (fun acc o => if Bool.eqb (oe (objs s o)) e && Nat.eqb (osid (objs s o)) sid then Some o else acc)
            (seq 0 (nobjs s)) None.
Definition obj_for (e : bool) (sid : nat) (s : cst) : option nat :=
  match tbl s (key e sid) with Some o => Some o | None => last_obj e sid s end.
Definition on_obj (e : bool) (sid : nat) (s : cst) (f : nat -> option cst) : option cst :=
  match obj_for e sid s with Some o => f o | None => Some s end.
Definition opt_or (s : cst) (r : option cst) : option cst := match r with Some x => Some x | None => Some s end.

Definition crun_hop (s : cst) (o : hop) : option cst :=
  match o with
  | HL (Open sid) => cstep s (COpen sid)
  | HL (Write e sid new heap) => match obj_for e sid s with Some ob => cstep s (CWrite ob new heap) | None => None end
  | HL (Flush e sid sizes wpos) => on_obj e sid s (fun ob => Some (settle (cstep' s (CFlush ob sizes wpos))))
  | HFlush e sid sizes wpos =>
      on_obj e sid s (fun ob => Some (settle (cwith_wake e s (cstep' s (CFlush ob sizes wpos)))))
  | HL (Poll e) => Some (drain e s)
  | HL (Read e sid kind k) => on_obj e sid s (fun ob => Some (crun s [MoveTo ob; ReadK ob kind k]))
  | HL (Release e sid) => on_obj e sid s (fun ob => Some (cstep' s (CRelease ob)))
  | HL (Reuse e sid) => on_obj e sid s (fun ob => Some (cstep' s (CReuse ob)))
  | HL (Close e sid) => on_obj e sid s (fun ob => Some (settle (crun s (repeat (CloseStep ob) 6))))
  | HClose e sid => on_obj e sid s (fun ob => Some (settle (cwith_wake e s (crun s (repeat (CloseStep ob) 6)))))
  | HL (ExtHold new) => cstep s (CExtHold new)
  | HL ExtReturn => cstep s CExtReturn
  | HL (Inject t sid chain) => cstep s (CInject t sid chain)
  | HSync => Some s
  end.

(* codes 11 / 12 / 19: as 1 / 2 / 9 but for the fine-grained model *)
Fixpoint cfirst_diff (caps : list nat) (s : cst) (l : list astep) (n : nat) : option (nat * Z) :=
  match l with
  | [] => None
  | a :: r =>
    match crun_hop s (a_op a) with
    | None => Some (n, 19)
    | Some s' =>
      if negb (a_cmp a) then cfirst_diff caps s' r (S n)
      else if negb (list_eqb (class_inuse 0 caps (cfree s')) (a_inuse a)) then Some (n, 11)
      else if negb ((Z.of_nat (length (cq_srv s')) =? a_qs a) && (Z.of_nat (length (cq_cli s')) =? a_qc a)) then Some (n, 12)
      else cfirst_diff caps s' r (S n)
    end
  end.

Definition check_case (c : acase) : option (nat * Z) :=
  let n := fold_right Nat.add O (a_caps c) in
  match first_diff (a_caps c) (init (a_fx c) (a_gx c) n (a_qcap c)) (a_steps c) 0 with
  | Some d => Some d
  | None => cfirst_diff (a_caps c) (cinit (a_fx c) (a_gx c) n (a_qcap c)) (a_steps c) 0
  end.

Fixpoint mismatches_from (n : nat) (cs : list acase) : list (nat * nat * Z) :=
  match cs with
  | [] => []
  | c :: r => match check_case c with
              | None => mismatches_from (S n) r
              | Some (k, d) => (n, k, d) :: mismatches_from (S n) r
              end
  end.
Definition mismatches := mismatches_from 0.

(* diagnostics *)
Fixpoint run_hops (s : st) (l : list hop) : st :=
  match l with [] => s | o :: r => run_hops (match run_hop s o with Some s' => s' | None => s end) r end.
Definition model_inuse_after (c : acase) (k : nat) : list Z :=
  class_inuse 0 (a_caps c)
    (free (run_hops (init (a_fx c) (a_gx c) (fold_right Nat.add O (a_caps c)) (a_qcap c)) (firstn k (map a_op (a_steps c))))).
