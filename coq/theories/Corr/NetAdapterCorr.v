(* Correspondence for C19 (mechanism T): the model run as an acceptor of the API-level history the
   harness observed on the real Listen/Accept/Close code, plus a deterministic replay of every
   Read/Write trace through lb_read.  Evaluated with vm_compute by ./check C19.

   The steps of the per-session accept goroutine (Wrap, Enqueue, Lose, PostCheck, GDrain, AcceptErr),
   the adapter's own Closes of conns it took aside (CloseTaken) and the individual steps of a
   listener.Close call (LStep) are not observable from outside; the acceptor therefore tracks the SET of model states reachable by any number of
   such internal steps after each observed event (so a lagging implementation is still accepted),
   and an observed event must be enabled in at least one state of the set. *)
From Coq Require Import List ZArith Bool Arith.
From Shm Require Import Model.NetAdapter.
Import ListNotations.
Open Scope Z_scope.

Inductive obs :=
| OConnect                        (* a client connected, its handshake finished and the server side went through the
                                     closed-test + registration (RawAccept; SessionUp) *)
| ORawConnect                     (* a client connected at the socket level only: the server is in its handshake *)
| OHandshakeDone                  (* that client has now completed its handshake (SessionUp) *)
| OOpen (s : nat)                 (* client s opened a stream and flushed its first bytes *)
| OAccept (s k : nat)             (* Accept returned the conn of the k-th stream of session s *)
| OAcceptErr                      (* Accept returned an error *)
| OClose (s k : nat)              (* Close() on that conn (any number of times) *)
| ODie (s : nat)                  (* client session s was closed: the server session dies *)
| OLClose                         (* listener.Close() ran to completion *)
| OLCloseCall                     (* listener.Close() was called ... *)
| ORawClose (cc : bool) (bl ac : nat) (* ... it is now inside the raw listener's Close (hook): is closeCh closed?
                                     len(l.backlog); number of conns the adapter has Closed itself so far *)
| OBacklogLen (n : nat)           (* inside the hook: len(l.backlog) at quiescence *)
| OHookEnd                        (* the hook returns: the Close call goes on *)
| OLCloseRet                      (* ... and has returned *)
| OFinal (closed : list bool).    (* at quiescence: IsClosed() of every server session *)

Definition bz (b : bool) : Z := if b then 1 else 0.
Definition nz (n : nat) : Z := Z.of_nat n.
Definition loop_key (p : loop_pc) : list Z :=
  match p with LAccepting => [0] | LSelecting w => [1; nz w] | LExited => [2] | LPostEnq => [3] | LDraining => [4] end.
Definition cl_key (c : close_pc) : Z :=
  match c with CStart => 0 | CSig => 1 | CDrain => 2 | CRel => 3 | CDone => 4 end.
Definition sess_key (x : sess) : list Z :=
  [refs x; bz (in_map x); bz (registered x); bz (sclosed x); bz (wg_zero x); nz (inq x)] ++ loop_key (loop x).
Definition wr_key (x : wrapper) : list Z := [nz (w_sess x); nz (w_ord x); bz (w_closed x)].
Definition key (st : state) : list Z :=
  [nz (nsess st); nz (nwr st); nz (ncl st); bz (lmark st); bz (closeCh st); bz (lreleased st); bz (panic st)]
  ++ map (fun k => cl_key (cl_of st k)) (seq 0 (ncl st))
  ++ flat_map (fun s => sess_key (sess_of st s)) (seq 0 (nsess st))
  ++ flat_map (fun w => wr_key (wr st w)) (seq 0 (nwr st))
  ++ (nz (length (backlog st)) :: map nz (backlog st))
  ++ (nz (length (delivered st)) :: map nz (delivered st))
  ++ map nz (closing st).
(* (the ghost lists aclosed / enq_log / recv_log are not part of the key: they record only the ORDER in
   which things happened, which no later transition or observation depends on) *)

Fixpoint zlist_eqb (a b : list Z) : bool :=
  match a, b with
  | [], [] => true
  | x :: a', y :: b' => (x =? y) && zlist_eqb a' b'
  | _, _ => false
  end.

(* keys are compared through a hash first (a plain number), the lists only on a hash hit *)
Definition hash (k : list Z) : Z := fold_left (fun h x => (h * 1000003 + x + 7) mod 2305843009213693951) k 17.
Definition hkey := (Z * list Z)%type.
Definition mk_hkey (st : state) : hkey := let k := key st in (hash k, k).
Definition hkey_eqb (a b : hkey) : bool := (fst a =? fst b) && zlist_eqb (snd a) (snd b).

Definition known (ks : list hkey) (k : hkey) : bool := existsb (hkey_eqb k) ks.

(* add the states of `xs` whose key is new *)
Fixpoint add_new (xs : list state) (acc : list state) (ks : list hkey) (fresh : list state)
  : list state * list hkey * list state :=
  match xs with
  | [] => (acc, ks, fresh)
  | x :: r => let k := mk_hkey x in
              if known ks k then add_new r acc ks fresh
              else add_new r (x :: acc) (k :: ks) (x :: fresh)
  end.

(* Partial-order reduction: the adapter's Close of a conn it took aside (CloseTaken) commutes with every
   other step and no observation other than the final one (made at quiescence) depends on it; it only
   ever enables more (a counter reaching zero).  The acceptor therefore performs it eagerly, which
   keeps the tracked state set small (no 2^n subsets of pending Closes). *)
Definition flush_closing (st : state) : state :=
  fold_left (fun a w => if enabled a (CloseTaken w) then step a (CloseTaken w) else a) (closing st) st.

(* fz ("frozen"): the harness holds the listener.Close call inside the raw listener's Close (hook), so
   the Close threads cannot step *)
Definition internal_events (fz : bool) (st : state) : list event :=
  flat_map (fun s => [Wrap s; Enqueue s; Lose s; PostCheck s; GDrain s; AcceptErr s]) (seq 0 (nsess st))
  ++ (if fz then [] else map LStep (seq 0 (ncl st))).
Definition succs (fz : bool) (st : state) : list state :=
  map (fun e => flush_closing (step st e)) (filter (enabled st) (internal_events fz st)).
Definition settled_fz (fz : bool) (st : state) : bool :=
  match filter (enabled st) (internal_events fz st) with [] => true | _ => false end.
Definition settled := settled_fz false.

(* budget: the lag-tolerant pass gives up growing a state set beyond this size (the history was already
   rejected by the quiet pass; a set this large means the verdict stays "not accepted") *)
Definition budget : nat := 600.

Fixpoint closure (fz : bool) (fuel : nat) (frontier acc : list state) (ks : list hkey) : list state :=
  match fuel with
  | O => acc
  | S f =>
    match frontier with
    | [] => acc
    | _ => if (budget <? length acc)%nat then acc else
           let '(acc', ks', fresh) := add_new (flat_map (succs fz) frontier) acc ks [] in
           closure fz f fresh acc' ks'
    end
  end.

Definition close_set_fz (fz : bool) (sts : list state) : list state :=
  let '(acc, ks, fresh) := add_new sts [] [] [] in closure fz 64 fresh acc ks.
Definition close_set := close_set_fz false.

Fixpoint find_w (st : state) (s k : nat) (ws : list nat) : option nat :=
  match ws with
  | [] => None
  | w :: r => if Nat.eqb (w_sess (wr st w)) s && Nat.eqb (w_ord (wr st w)) k then Some w else find_w st s k r
  end.

Definition fire (st : state) (e : event) : list state := if enabled st e then [flush_closing (step st e)] else [].

Definition apply_obs (st : state) (o : obs) : list state :=
  match o with
  | OConnect => flat_map (fun a => fire a SessionUp) (fire st RawAccept)
  | ORawConnect => fire st RawAccept
  | OHandshakeDone => fire st SessionUp
  | OOpen s => fire st (StreamIn s)
  | OAccept s k =>
    match backlog st with
    | w :: _ => if Nat.eqb (w_sess (wr st w)) s && Nat.eqb (w_ord (wr st w)) k then fire st Accept else []
    | [] => []
    end
  | OAcceptErr => fire st AcceptFail
  | OClose s k => match find_w st s k (delivered st) with Some w => fire st (WClose w) | None => [] end
  | ODie s => fire st (SessionDie s)
  | OLClose => fire st LCall   (* its steps are internal; the call has RETURNED: see obs_step *)
  | OLCloseCall => fire st LCall
  | ORawClose cc bl ac =>
    (* the call that won the CAS is between its CAS and close(closeCh): that is where the raw listener is closed *)
    if existsb (fun k => match cl_of st k with CSig => true | _ => false end) (seq 0 (ncl st))
       && Bool.eqb (closeCh st) cc && Nat.eqb (length (backlog st)) bl && Nat.eqb (length (aclosed st)) ac then [st] else []
  | OBacklogLen n => if Nat.eqb (length (backlog st)) n then [st] else []
  | OHookEnd => [st]
  | OLCloseRet => [st]
  | OFinal flags =>
    if settled st && zlist_eqb (map bz flags) (map (fun s => bz (sclosed (sess_of st s))) (seq 0 (nsess st)))
    then [st] else []
  end.

Definition closers_done (st : state) : bool :=
  forallb (fun k => is_cdone (cl_of st k)) (seq 0 (ncl st)).

(* the harness issues listener.Close calls one after the other and records them on return.
   `quiet` = keep only the states in which no unobservable step is enabled any more (the harness waits
   for quiescence after every operation): a fast first pass.  A history rejected by the quiet pass is
   re-run with quiet = false, i.e. tolerating an implementation that lags behind at every observation,
   and only that verdict counts. *)
Definition obs_step (quiet fz : bool) (sts : list state) (o : obs) : list state :=
  let r := match o with
           | OLClose | OLCloseRet => filter closers_done (close_set_fz fz (flat_map (fun st => apply_obs st o) sts))
           | _ => close_set_fz fz (flat_map (fun st => apply_obs st o) sts)
           end in
  match o with
  | OLCloseCall => r     (* the call may be held inside the hook: not yet at rest *)
  | _ => if quiet then filter (settled_fz fz) r else r
  end.

Definition fz_after (fz : bool) (o : obs) : bool :=
  match o with ORawClose _ _ _ => true | OHookEnd => false | _ => fz end.
(* an observation made inside the hook is matched against the states BEFORE any further internal step of
   the held call; the freeze takes effect for ORawClose itself *)
Definition fz_for (fz : bool) (o : obs) : bool :=
  match o with ORawClose _ _ _ => true | OHookEnd => false | _ => fz end.

(* index of the first observation that no state of the set accepts; the first `nq` observations are
   processed quietly, the rest tolerating lag *)
Fixpoint run_obs_q (nq : nat) (fz : bool) (sts : list state) (os : list obs) (n : nat) : option nat :=
  match os with
  | [] => None
  | o :: r => match obs_step (0 <? nq)%nat (fz_for fz o) sts o with
              | [] => Some n
              | sts' => run_obs_q (pred nq) (fz_after fz o) sts' r (S n)
              end
  end.
(* quiet pass; if it rejects at observation k, a second pass tolerates lag from observation k - 4 on
   (a lag can only stem from the last few operations) and only that verdict counts *)
Definition run_obs (sts : list state) (os : list obs) (n : nat) : option nat :=
  match run_obs_q (S (length os)) false sts os n with
  | None => None
  | Some k => run_obs_q (k - n - 4) false sts os n
  end.

(* ---- Read/Write traces ---- *)
Inductive ioev :=
| IOW (bs : list Z)                         (* a Write of these bytes succeeded and has arrived at the reader *)
| IOR (lenp : nat) (err : Z) (bs : list Z)  (* Read(p), len p = lenp, returned these bytes and error class
                                               (0 none, 1 timeout, 2 end of stream, 3 stream closed) *)
| IOPeerClose.                              (* the writer closed the stream and the close has arrived *)

Record iost := { ib : lbuf; ipend : list (list byte); ipc : bool }.
Definition iost0 : iost := {| ib := {| slices := []; blen := 0 |}; ipend := []; ipc := false |}.

Definition err_code (e : option rerr) : Z :=
  match e with None => 0 | Some RTimeout => 1 | Some REndOfStream => 2 | Some RStreamClosed => 3 end.

Definition io_check1 (st : iost) (e : ioev) : option iost :=
  match e with
  | IOW bs => Some {| ib := ib st; ipend := ipend st ++ [bs]; ipc := ipc st |}
  | IOPeerClose => Some {| ib := ib st; ipend := ipend st; ipc := true |}
  | IOR lenp err bs =>
    let waits := (blen (ib st) <? 1)%nat && negb (Nat.eqb lenp 0) in
    let m := match ipend st with
             | [] => MoreErr (if ipc st then REndOfStream else RTimeout)
             | p => MoreOk p
             end in
    let '(out, e', b') := lb_read (ib st) lenp m in
    if (err_code e' =? err) && zlist_eqb out bs
    then Some {| ib := b'; ipend := if waits then [] else ipend st; ipc := ipc st |}
    else None
  end.

Fixpoint io_check (st : iost) (es : list ioev) (n : nat) : option nat :=
  match es with
  | [] => None
  | e :: r => match io_check1 st e with None => Some n | Some st' => io_check st' r (S n) end
  end.

Record ncase := { n_cap : nat; n_obs : list obs; n_pipes : list (list ioev) }.

Fixpoint pipes_check (ps : list (list ioev)) (i : nat) : option (nat * nat) :=
  match ps with
  | [] => None
  | p :: r => match io_check iost0 p 0 with Some n => Some (i, n) | None => pipes_check r (S i) end
  end.

(* (case, kind, a, b): kind 1 = observation a of the history is not accepted;
   kind 2 = Read/Write trace a disagrees with lb_read at event b *)
Fixpoint mismatches_from (n : nat) (cs : list ncase) : list (nat * Z * nat * nat) :=
  match cs with
  | [] => []
  | c :: r =>
    let rest := mismatches_from (S n) r in
    match run_obs (close_set [init (n_cap c)]) (n_obs c) 0 with
    | Some k => (n, 1, k, O) :: rest
    | None => match pipes_check (n_pipes c) 0 with
              | Some (i, k) => (n, 2, i, k) :: rest
              | None => rest
              end
    end
  end.
Definition mismatches := mismatches_from 0.

(* self-test: the history that used to pin the session is accepted only with the session closed *)
Definition selftest_neg : bool :=
  match mismatches [ {| n_cap := 1; n_obs := [OConnect; OOpen 0; OLClose; OFinal [false]]; n_pipes := [] |} ] with
  | [(_, 1, 3%nat, _)] => true    (* the pinned outcome must be REJECTED at the final observation *)
  | _ => false
  end.

(* the order of listener.Close's steps is tied to the code through the hook: at the raw Close the backlog
   has NOT been drained yet and closeCh is still open; a stream queued inside the hook is drained later *)
Definition hook_history (bl_at_hook ac_at_hook : nat) (final : bool) : ncase :=
  {| n_cap := 4;
     n_obs := [OConnect; OOpen 0; OAccept 0 0; OOpen 0; OLCloseCall; ORawClose false bl_at_hook ac_at_hook; OOpen 0; OBacklogLen (S bl_at_hook);
               OHookEnd; OLCloseRet; OClose 0 0; OFinal [final]];
     n_pipes := [] |}.
Definition selftest_hook : bool :=
  match mismatches [hook_history 1 0 true], mismatches [hook_history 0 1 true], mismatches [hook_history 1 0 false] with
  | [], [(_, 1, 5%nat, _)], [(_, 1, 11%nat, _)] => true
  | _, _, _ => false
  end.

Definition selftest : list (nat * Z * nat * nat) :=
  (if selftest_neg then [] else [(99%nat, 9, O, O)]) ++ (if selftest_hook then [] else [(98%nat, 9, O, O)]) ++
  mismatches [ {| n_cap := 1;
                  n_obs := [OConnect; OOpen 0; OLClose; OAcceptErr; OFinal [true]];
                  n_pipes := [[IOW [1; 2; 3]; IOR 2 0 [1; 2]; IOR 0 0 []; IOR 5 0 [3]; IOR 4 1 []; IOPeerClose; IOR 1 2 []]] |} ].
