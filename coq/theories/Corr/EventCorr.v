(* Correspondence check for Model/Event.v (C13): the model is run on the byte strings, session
   abstractions and cuttings the real Session.handleEvents / handshake code ran on, and the projected
   observables are compared.  Evaluated with vm_compute by ./check C13. *)
From Coq Require Import List ZArith Bool Arith Uint63.
From Shm Require Import Gen.Consts Model.Event.
Import ListNotations.
Open Scope Z_scope.

Fixpoint zlist_eqb (a b : list Z) : bool :=
  match a, b with
  | [], [] => true
  | x :: a', y :: b' => (x =? y) && zlist_eqb a' b'
  | _, _ => false
  end.

(* byte strings are handed over as 7-byte little-endian limbs in primitive integers (cheap for coqc to read) *)
Fixpoint unpack (k : nat) (n : int) : list Z :=
  match k with O => [] | S k' => Uint63.to_Z (Uint63.land n 255%uint63) :: unpack k' (Uint63.lsr n 8%uint63) end.
Fixpoint unlimbs (len : nat) (ls : list int) : list Z :=
  match ls with [] => [] | n :: r => unpack (Nat.min len 7) n ++ unlimbs (len - 7) r end.
Definition bytes_of (len : Z) (ls : list int) : list Z := unlimbs (Z.to_nat len) ls.
Definition nats (l : list Z) : list nat := map Z.to_nat l.

(* the harness' checksum of a byte string *)
Definition cksum (l : list Z) : Z := fold_left (fun acc b => (acc * 31 + u8 b + 1) mod 1000003) l 0.

Definition panic_code (p : panic_kind) : Z :=
  match p with PMakeslice => 10 | PSliceBounds => 11 | PNilListener => 12 | PNilManager => 13 end.

(* outcome code of one read callback: handleEvents, then the posted lambdas *)
Definition call_code (s : sess) (r : result) : Z :=
  match r_outcome r with
  | Panic p => panic_code p
  | OutOfFuel => 99
  | o => match run_posted s (r_actions r) with
         | Panic p => panic_code p
         | _ => match o with Ok => 0 | _ => 1 end
         end
  end.

Record obs := {
  o_calls : list (Z * Z);                 (* per callback: consumed, outcome code *)
  o_streams : list (Z * Z * Z * Z);       (* id, state, number of bytes received, checksum *)
  o_new : list Z;                         (* ids announced through OnNewStream, in order *)
  o_polls : Z; o_fallbacks : Z; o_acks : Z; o_state : Z;
  o_posted : list Z;                      (* epochs seen by the session manager *)
  o_leftover : Z }.

Record ecase := { e_sess : sess; e_bytes : list Z; e_cuts : list (list nat); e_obs : list obs }.

Record mrun := { m_sess : sess; m_calls : list (Z * Z); m_acts : list action; m_left : Z }.

Fixpoint run_pieces (s : sess) (pending data : list Z) (pieces : list nat) : mrun :=
  match pieces with
  | [] => {| m_sess := s; m_calls := []; m_acts := []; m_left := zlen pending |}
  | n :: ps =>
    let buf := pending ++ firstn n data in
    let r := handle_events s buf in
    let code := call_code s r in
    (* a panic inside handleEvents unwinds before `consumed` is returned: the caller sees 0 *)
    let cons := if (10 <=? code) && (code <=? 12) then 0 else r_consumed r in
    if code =? 0 then
      let m := run_pieces (r_sess r) (skipn (Z.to_nat (r_consumed r)) buf) (skipn n data) ps in
      {| m_sess := m_sess m; m_calls := (r_consumed r, code) :: m_calls m; m_acts := r_actions r ++ m_acts m;
         m_left := m_left m |}
    else {| m_sess := r_sess r; m_calls := [(cons, code)]; m_acts := r_actions r;
            m_left := zlen buf - cons |}
  end.

Definition data_of (id : Z) (acts : list action) : list Z :=
  flat_map (fun a => match a with AData i _ d => if i =? id then d else [] | _ => [] end) acts.
Definition new_ids (acts : list action) : list Z :=
  flat_map (fun a => match a with ANewStream i => [i] | _ => [] end) acts.
Definition count (f : action -> bool) (acts : list action) : Z := zlen (filter f acts).
Definition posted_epochs (acts : list action) : list Z :=
  flat_map (fun a => match a with APostHotRestart e => [e] | _ => [] end) acts.

Definition pair_eqb (a b : Z * Z) : bool := (fst a =? fst b) && (snd a =? snd b).
Fixpoint plist_eqb (a b : list (Z * Z)) : bool :=
  match a, b with
  | [], [] => true
  | x :: a', y :: b' => pair_eqb x y && plist_eqb a' b'
  | _, _ => false
  end.

(* field code of the first difference: 0 = agree *)
Definition compare (s0 : sess) (m : mrun) (o : obs) : Z :=
  if negb (plist_eqb (m_calls m) (o_calls o)) then 1
  else if negb ((length (s_streams (m_sess m)) =? length (o_streams o))%nat &&
                forallb (fun x => let '(id, st, len, ck) := x in
                                  match find_stream id (s_streams (m_sess m)) with
                                  | Some st' => (st' =? st) && (zlen (data_of id (m_acts m)) =? len)
                                                && (cksum (data_of id (m_acts m)) =? ck)
                                  | None => false
                                  end) (o_streams o)) then 2
  else if negb (s_client s0) && negb (zlist_eqb (new_ids (m_acts m)) (o_new o)) then 3
  else if negb (count (fun a => match a with APoll => true | _ => false end) (m_acts m) =? o_polls o) then 4
  else if negb (count (fun a => match a with AFallback _ _ _ => true | _ => false end) (m_acts m) =? o_fallbacks o) then 5
  else
    let acks := count (fun a => match a with AHotRestartAck _ true => true | _ => false end) (m_acts m) in
    if negb (acks =? o_acks o) then 6
    else if negb (s_state (m_sess m) =? o_state o) then 7
    else if negb (zlist_eqb (if s_has_manager s0 then posted_epochs (m_acts m) else []) (o_posted o)) then 8
    else if negb (m_left m =? o_leftover o) then 9
    else 0.

Fixpoint compare_all (s0 : sess) (data : list Z) (cuts : list (list nat)) (os : list obs) (k : nat) : option (nat * Z) :=
  match cuts, os with
  | c :: cs, o :: os' =>
    let d := compare s0 (run_pieces s0 [] data c) o in
    if d =? 0 then compare_all s0 data cs os' (S k) else Some (k, d)
  | [], [] => None
  | _, _ => Some (k, 100)
  end.

Fixpoint mismatches_from (n : nat) (cs : list ecase) : list (nat * nat * Z) :=
  match cs with
  | [] => []
  | c :: r => match compare_all (e_sess c) (e_bytes c) (e_cuts c) (e_obs c) 0 with
              | None => mismatches_from (S n) r
              | Some (k, d) => (n, k, d) :: mismatches_from (S n) r
              end
  end.
Definition mismatches := mismatches_from 0.

(* diagnostics for replay files *)
Definition model_run (c : ecase) (k : nat) := run_pieces (e_sess c) [] (e_bytes c) (nth k (e_cuts c) []).

(* ---------------- handshake metadata ---------------- *)
Record metacase := { mc_body : list Z; mc_panic : bool; mc_err : bool; mc_q : list Z; mc_b : list Z }.
Definition meta_ok (c : metacase) : bool :=
  match extract_shm_metadata (mc_body c) with
  | MetaPanic => mc_panic c
  | MetaErr => negb (mc_panic c) && mc_err c
  | MetaOk q b => negb (mc_panic c) && negb (mc_err c) && zlist_eqb (map u8 q) (mc_q c) && zlist_eqb (map u8 b) (mc_b c)
  end.
Fixpoint meta_mismatches_from (n : nat) (cs : list metacase) : list nat :=
  match cs with
  | [] => []
  | c :: r => if meta_ok c then meta_mismatches_from (S n) r else n :: meta_mismatches_from (S n) r
  end.
Definition meta_mismatches := meta_mismatches_from 0.

(* ---------------- handshake ---------------- *)
(* observed class: 0 handshake succeeded, 1 returned an error, 2 panicked.  The harness' peer sends the bytes,
   closes its sending side, and no shared memory exists under the paths it names: every model outcome other
   than a panic is an error return there. *)
Record hscase := { hc_bytes : list Z; hc_class : Z; hc_replies : list Z }.
Definition enc_header (x : Z * Z * Z) : list Z :=
  let '(len, ver, typ) := x in
  [(len / 16777216) mod 256; (len / 65536) mod 256; (len / 256) mod 256; len mod 256;
   (c_magicNumber / 256) mod 256; c_magicNumber mod 256; ver mod 256; typ mod 256].
Definition hs_ok (c : hscase) : bool :=
  let r := server_handshake (hc_bytes c) in
  (match hs_out r with HsPanic => 2 | _ => 1 end =? hc_class c) &&
  zlist_eqb (flat_map enc_header (hs_replies r)) (hc_replies c).
Fixpoint hs_mismatches_from (n : nat) (cs : list hscase) : list nat :=
  match cs with
  | [] => []
  | c :: r => if hs_ok c then hs_mismatches_from (S n) r else n :: hs_mismatches_from (S n) r
  end.
Definition hs_mismatches := hs_mismatches_from 0.
