(* C12 correspondence: run the handshake model on the inputs the implementation ran on and compare
   projected observables.  Evaluated with vm_compute by ./check C12.

   Three kinds of case:
   - codec:   generateShmMetadata's bytes / extractShmMetadata's result (or error) vs. generate / extract;
   - peer:    one REAL end (client or server) against a scripted byte-level peer: the frames the real
              end wrote, its outcome class and version vs. the model's end run on the same script;
   - pairing: two REAL ends: outcome classes, versions, same-memory vs. the model's run. *)
From Coq Require Import List ZArith Bool Arith.
From Shm Require Import Gen.Consts Model.Handshake.
Import ListNotations.
Open Scope Z_scope.

Fixpoint list_eqb {A} (eqb : A -> A -> bool) (a b : list A) : bool :=
  match a, b with
  | [], [] => true
  | x :: a', y :: b' => eqb x y && list_eqb eqb a' b'
  | _, _ => false
  end.

Definition frame_eqb (a b : frame) : bool :=
  match a, b with
  | FBytes x, FBytes y => bytes_eqb x y
  | FFds x, FFds y => Nat.eqb (length x) (length y)     (* descriptor numbers are process-local *)
  | _, _ => false
  end.

(* ---------------- codec ---------------- *)
Record codec_case := {
  cc_ver : Z; cc_ty : Z; cc_q : bytes; cc_b : bytes;
  cc_bytes : bytes;                 (* what generateShmMetadata produced *)
  cc_body : bytes;                  (* the body handed to extractShmMetadata (may be malformed) *)
  cc_err : bool;                    (* extractShmMetadata returned an error *)
  cc_ext_b : bytes; cc_ext_q : bytes }.

(* 0 agree; 1 generate differs; 2 extract differs *)
Definition check_codec (c : codec_case) : Z :=
  if negb (bytes_eqb (generate (cc_ver c) (cc_ty c) (cc_q c) (cc_b c)) (cc_bytes c)) then 1
  else match extract (cc_body c) with
       | Bad _ => if cc_err c then 0 else 2
       | Ok (b, q) => if cc_err c then 2
                      else if bytes_eqb b (cc_ext_b c) && bytes_eqb q (cc_ext_q c) then 0 else 2
       end.

(* ---------------- one real end against a script ---------------- *)
(* outcome class: 0 success, 1 still waiting when the timer fired, 2 error, 3 panic *)
Definition class_of_c (pc : cpc_t) : Z :=
  match pc with CDone ROk => 0 | CDone (RErr _) => 2 | CDone (RPanic _) => 3 | _ => 1 end.
Definition class_of_s (pc : spc_t) : Z :=
  match pc with SDone ROk => 0 | SDone (RErr _) => 2 | SDone (RPanic _) => 3 | _ => 1 end.

Definition class_of_ret (r : option result) : Z :=
  match r with Some ROk => 0 | None => 1 | Some (RErr ETimeout) => 1 | Some (RErr _) => 2 | Some (RPanic _) => 3 end.

Record peer_case := {
  pc_client : bool;                 (* the real end is the client *)
  pc_cfg : config;
  pc_script : list frame;           (* what the scripted peer sends, in order *)
  pc_close : bool;                  (* ... and then closes (true) or falls silent (false) *)
  pc_late : bool;                   (* the script is sent only after the real end's init timer has fired *)
  pc_files : list mapping;          (* /dev/shm as the real server saw it *)
  pc_obs_frames : list frame; pc_obs_class : Z; pc_obs_ver : Z; pc_obs_mapped : bool }.

Definition preload (cfg : config) (to_s to_c : list frame) (files : list mapping) : world :=
  let w := init cfg in
  {| wc := wc w; ws := ws w; c2s := to_s; s2c := to_c; fs := files;
     c_out := []; c_cons := []; s_out := []; s_cons := [] |}.

Definition fuel : list nat := [0; 1; 2; 3; 4; 5; 6; 7]%nat.

Definition run_peer (c : peer_case) : world :=
  let cfg := pc_cfg c in
  if pc_client c then
    let w := preload cfg [] (pc_script c) (fs (init cfg)) in
    let w := run cfg (map (fun _ => LC) fuel) w in
    if pc_close c then run cfg (LDieS :: map (fun _ => LC) fuel) w else w
  else if pc_late c then
    let w := preload cfg [] [] (pc_files c) in
    let w := run cfg [LS; LTimerS; LS; LRetS] w in
    let w := {| wc := wc w; ws := ws w; c2s := c2s w ++ pc_script c; s2c := s2c w; fs := fs w;
                c_out := c_out w; c_cons := c_cons w; s_out := s_out w; s_cons := s_cons w |} in
    run cfg (map (fun _ => LS) fuel ++ [LRetS]) w
  else
    let w := preload cfg (pc_script c) [] (pc_files c) in
    let w := run cfg (map (fun _ => LS) fuel) w in
    if pc_close c then run cfg (LDieC :: map (fun _ => LS) fuel) w else w.

(* the real end's outcome: for the late-script cases what newSession returned, else how the goroutine ended *)
Definition s_class (c : peer_case) (w : world) : Z :=
  if pc_late c then class_of_ret (sret (ws w)) else class_of_s (spc (ws w)).

(* 0 agree; 1 frames differ; 2 class differs; 3 version differs; 4 mapped-or-not differs *)
Definition check_peer (c : peer_case) : Z :=
  let w := run_peer c in
  if pc_client c then
    if negb (list_eqb frame_eqb (c_out w) (pc_obs_frames c)) then 1
    else if negb (class_of_c (cpc (wc w)) =? pc_obs_class c) then 2
    else if (pc_obs_class c =? 0) && negb (cver (wc w) =? pc_obs_ver c) then 3
    else 0
  else
    if negb (list_eqb frame_eqb (s_out w) (pc_obs_frames c)) then 1
    else if negb (s_class c w =? pc_obs_class c) then 2
    else if (pc_obs_class c =? 0) && negb (sver (ws w) =? pc_obs_ver c) then 3
    else if (pc_obs_class c =? 0) &&
            negb (Bool.eqb (match smapq (ws w), smapb (ws w) with Some _, Some _ => true | _, _ => false end)
                           (pc_obs_mapped c)) then 4
    else 0.

(* ---------------- two real ends ---------------- *)

Record pair_case := {
  pp_cfg : config;
  pp_sched : Z;                     (* 0 fault-free; 1 queue file removed before the server runs;
                                       2 client rejected the configuration and closed *)
  pp_c_class : Z; pp_s_class : Z; pp_c_ver : Z; pp_s_ver : Z; pp_same : bool }.

Definition pair_schedule (k : Z) : list label :=
  if k =? 1 then [LC; LRetC; LRmQ; LS; LRetS]
  else if k =? 2 then [LDieC; LS; LRetS]
  else happy.

(* 0 agree; 1 client class; 2 server class; 3 client version; 4 server version; 5 same-memory *)
Definition check_pair (c : pair_case) : Z :=
  let cfg := pp_cfg c in
  let w := run cfg (pair_schedule (pp_sched c)) (init cfg) in
  if negb (class_of_ret (cret (wc w)) =? pp_c_class c) then 1
  else if negb (class_of_ret (sret (ws w)) =? pp_s_class c) then 2
  else if (pp_c_class c =? 0) && negb (cver (wc w) =? pp_c_ver c) then 3
  else if (pp_s_class c =? 0) && negb (sver (ws w) =? pp_s_ver c) then 4
  else if (pp_c_class c =? 0) && (pp_s_class c =? 0) &&
          negb (Bool.eqb (match smapq (ws w), cmapq (wc w), smapb (ws w), cmapb (wc w) with
                          | Some (_, a), Some (_, a'), Some (_, b), Some (_, b') => (a =? a') && (b =? b')
                          | _, _, _, _ => false
                          end) (pp_same c)) then 5
  else 0.

(* ---------------- header validity ---------------- *)
(* checkEventValid on a header with the given magic / version byte / type byte: 0 valid, 1 ErrInvalidVersion
   (magic or version), 2 ErrInvalidMsgType — compared for all 256 version bytes *)
Record valid_case := { vc_magic : Z; vc_ver : Z; vc_type : Z; vc_obs : Z }.
Definition check_validity (c : valid_case) : Z :=
  let h := {| h_len := c_headerSize; h_magic := vc_magic c; h_ver := vc_ver c; h_type := vc_type c |} in
  let m := match check_valid h with None => 0 | Some EInvalidVersion => 1 | Some EInvalidMsgType => 2 | Some _ => 3 end in
  if m =? vc_obs c then 0 else 31.

Inductive hcase := HCodec (c : codec_case) | HPeer (c : peer_case) | HPair (c : pair_case) | HValid (c : valid_case).

Definition check_case (c : hcase) : Z :=
  match c with
  | HCodec c => check_codec c
  | HPeer c => let k := check_peer c in if k =? 0 then 0 else 10 + k
  | HPair c => let k := check_pair c in if k =? 0 then 0 else 20 + k
  | HValid c => check_validity c
  end.

Fixpoint mismatches_from (n : nat) (cs : list hcase) : list (nat * Z) :=
  match cs with
  | [] => []
  | c :: r => let k := check_case c in
              if k =? 0 then mismatches_from (S n) r else (n, k) :: mismatches_from (S n) r
  end.
Definition mismatches := mismatches_from 0.

(* diagnostics for replay files: what the model's end wrote and how it ended *)
Definition model_peer (c : peer_case) : list frame * Z * Z :=
  let w := run_peer c in
  if pc_client c then (c_out w, class_of_c (cpc (wc w)), cver (wc w))
  else (s_out w, s_class c w, sver (ws w)).
