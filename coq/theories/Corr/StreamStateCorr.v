(* Correspondence check for the stream state machine (mechanism S): run the model under the schedule
   the instrumented implementation ran under and compare the access trace step by step, the bytes each
   OnData invocation was offered, and the final state.  Evaluated with vm_compute by ./check C20 / C10.

   Granularity.  The model is finer than the instrumented build: go/verisched puts a scheduling point in
   front of the atomic accesses of stream.go only (and the harness adds marks in front of each inbound
   event and at the begin/end of OnData), whereas the model also makes the mutex-protected pendingData
   operations, the racy len(pending) read, wg.Add/Done, the spawn and the parts of clean() separate
   steps.  One implementation step of thread t therefore corresponds to: the silent model steps t is
   standing at, ONE step with an event, and the silent steps that follow (`bstep`).  The theorems
   quantify over all fine-grained schedules, a superset. *)
From Coq Require Import List ZArith Bool Arith.
From Shm Require Import Gen.Consts Model.StreamState.
Import ListNotations.
Open Scope Z_scope.

Record event := { ek : Z; ecell : Z; ea : Z; eb : Z; ec : Z }.
Definition ev_ k c a b d := Some {| ek := k; ecell := c; ea := a; eb := b; ec := d |}.
Definition kR := 0. Definition kW := 1. Definition kCAS := 3. Definition kLock := 4. Definition kBusy := 5.
Definition kMark := 7. Definition kWalk := 8. Definition kUnlock := 6.
Definition cellState := 0. Definition cellInproc := 1. Definition cellCstate := 2.
Definition cellWg := -3. Definition cellMark := -4. Definition cellMutex := -2. Definition cellWalk := -5.
Definition cellSel := -6.   (* readMore's select: Lock a = 1 took the recvNotifyCh token, a = 2 closeNotifyCh closed; Busy: parked *)
Definition b2z (b : bool) : Z := if b then 1 else 0.

Definition cev (s : est) (c : cpc) : option event :=
  match c with
  | KStart => if cbset s then ev_ kW cellCstate v_callbackWaitExit 0 0 else None
  | KLdIn => ev_ kR cellInproc (inproc s) 0 0
  | KHalf => ev_ kCAS cellState c_streamOpened v_streamLocalHalfClosed (b2z (st s =? c_streamOpened))
  | CLd => ev_ kR cellState (st s) 0 0
  | CCas old => ev_ kCAS cellState old c_streamClosed (b2z (st s =? old))
  | CWait _ => if wg s <=? 0 then ev_ kLock cellWg 0 0 0 else ev_ kBusy cellWg 0 0 0
  | CTbl _ => ev_ kR cellState (st s) 0 0
  | _ => None
  end.
Definition cterm (c : cpc) : bool := match c with KRet => true | _ => false end.

Definition step_ev (s : est) (w : who) : option event :=
  match w with
  | WEv => match epc s with
           | EIdle => match inbox s with [] => None | EData _ :: _ => ev_ kMark cellMark 1 0 0 | EClose :: _ => ev_ kMark cellMark 2 0 0 end
           | EHalf => ev_ kCAS cellState c_streamOpened c_streamHalfClosed (b2z (st s =? c_streamOpened))
           | EChk => ev_ kR cellState (st s) 0 0
           | ENotify => ev_ kMark cellMark 16 0 0  (* scheduling point in front of asyncNotify(s.recvNotifyCh) *)
           | ECas => ev_ kCAS cellInproc 0 1 (b2z (inproc s =? 0))
           | EWgAdd => ev_ kMark cellMark 14 0 0   (* harness scheduling point in front of wg.Add(1) *)
           | _ => None
           end
  | WGor i => match nth_error (gors s) i with
              | None => None
              | Some g => match g with
                          | GChk => ev_ kR cellState (st s) 0 0
                          | GSw => ev_ kR cellState (st s) 0 0
                          | GCb => ev_ kMark cellMark 10 0 0
                          | GCbEnd => ev_ kMark cellMark 11 0 0
                          | GClr => ev_ kW cellInproc 0 0 0
                          | GLdCs => ev_ kR cellCstate (cstate s) 0 0
                          | GCas => ev_ kCAS cellInproc 0 1 (b2z (inproc s =? 0))
                          | GCbClose c _ | GClose c => cev s c
                          | GRdPark _ _ =>
                              if rnotify s then (if cnotify s && hd false (picks s) then ev_ kLock cellSel 2 0 0 else ev_ kLock cellSel 1 0 0)
                              else if cnotify s then ev_ kLock cellSel 2 0 0 else ev_ kBusy cellSel 0 0 0
                          | GRdLd _ => ev_ kR cellState (st s) 0 0
                          | _ => None
                          end
              end
  | WClo i => match nth_error (clos s) i with None => None | Some c => cev s c end
  | WSet => match spc s with
            | SCas => ev_ kCAS cellInproc 0 1 (b2z (inproc s =? 0))
            | SWgAdd => ev_ kMark cellMark 14 0 0
            | _ => None
            end
  | WUser i => match nth_error (users s) i with
               | None => None
               | Some u => match upc u with
                           | UIdle => match utodo u with [] => None | _ => ev_ kMark cellMark 13 0 0 end
                           | UWr _ | ULd _ => ev_ kR cellState (st s) 0 0
                           | UPut _ _ => None
                           end
               end
  | WSync => None
  end.

Definition terminal (s : est) (w : who) : bool :=
  match w with
  | WEv => match epc s, inbox s with EIdle, [] => true | _, _ => false end
  | WGor i => match nth_error (gors s) i with None => true | Some GExit => true | _ => false end
  | WClo i => match nth_error (clos s) i with None => true | Some c => cterm c end
  | WSet => match spc s with SDone => true | _ => false end
  | WUser i => match nth_error (users s) i with
               | None => true
               | Some u => match upc u, utodo u with UIdle, [] => true | _, _ => false end
               end
  | WSync => match sypc s with
             | SyCons _ => false
             | SyIdle => if cbset s then true else
                         match spc s, sytodo s with SIdle, _ :: _ => false | _, _ => true end
             end
  end.
(* the harness puts an (event-less) scheduling point in front of SetCallbacks, so that installing the
   callbacks and the CAS on callbackInProcess are two implementation steps *)
Definition forced (s : est) (w : who) : bool :=
  match w with WSet => match spc s with SIdle => true | _ => false end | _ => false end.
Definition silent (s : est) (w : who) : bool :=
  negb (terminal s w) && negb (forced s w) && match step_ev s w with None => true | Some _ => false end.

(* the run is over the fine-grained machine (Model/StreamState.v, "The pendingData mutex"): the instrumented build
   has scheduling points at pendingData's Lock/Unlock and in front of every element access of the walks *)
Definition fstep_ev (f : fst_) (w : who) : option event :=
  match faction f w with
  | FPlain => step_ev (base f) w
  | FLock => ev_ kLock cellMutex 0 0 0
  | FBusy => ev_ kBusy cellMutex 0 0 0
  | FWalk i => ev_ kWalk cellWalk (Z.of_nat i) 0 0
  | FCommit => None
  | FUnlock => ev_ kUnlock cellMutex 0 0 0
  end.
Definition fsilent (f : fst_) (w : who) : bool :=
  match faction f w with
  | FPlain => silent (base f) w
  | FCommit => true
  | _ => false
  end.

Fixpoint skip_silent (fuel : nat) (f : fst_) (w : who) : fst_ :=
  match fuel with O => f | S k => if fsilent f w then skip_silent k (fstep f w) w else f end.
Definition bstep (f : fst_) (w : who) : fst_ * option event :=
  let f1 := skip_silent 12 f w in
  (skip_silent 12 (fstep f1 w) w, fstep_ev f1 w).

Fixpoint btrace_f (sched : list who) (f : fst_) : list (option event) * fst_ :=
  match sched with
  | [] => ([], f)
  | w :: r => let '(f', e) := bstep f w in let '(t, ff) := btrace_f r f' in (e :: t, ff)
  end.
Definition btrace (sched : list who) (s : est) : list (option event) * est :=
  let '(t, f) := btrace_f sched (finit s) in (t, base f).

Definition ev_eqb (a b : event) : bool :=
  (ek a =? ek b) && (ecell a =? ecell b) && (ea a =? ea b) && (eb a =? eb b) && (ec a =? ec b).
Definition oev_eqb (a b : option event) : bool :=
  match a, b with Some x, Some y => ev_eqb x y | None, None => true | _, _ => false end.
Fixpoint list_eqb {A} (eqb : A -> A -> bool) (a b : list A) : bool :=
  match a, b with
  | [], [] => true
  | x :: a', y :: b' => eqb x y && list_eqb eqb a' b'
  | _, _ => false
  end.
Fixpoint first_diff {A} (eqb : A -> A -> bool) (a b : list A) (n : nat) : option nat :=
  match a, b with
  | [], [] => None
  | x :: a', y :: b' => if eqb x y then first_diff eqb a' b' (S n) else Some n
  | _, _ => Some n
  end.

Record scase := {
  s_cb0 : bool; s_inb : list ev; s_ncl : nat; s_script : list (nat * nat); s_sy : list nat; s_ups : list (list (list Z));
  s_needs : list nat; s_picks : list bool;
  s_sched : list who;
  s_events : list (option event);           (* observed, one per implementation step *)
  s_offers : list (list Z);                 (* observed: what each OnData invocation found in recvBuf *)
  s_consumed : list Z;                      (* observed: concatenation of what the OnData calls read *)
  s_final : list Z;                         (* observed: state, inproc, cstate, in-table, OnLocalClose, OnRemoteClose, close elements sent, data elements sent, closeNotifyCh closed *)
  s_recv : list Z; s_pend : list Z;         (* observed: bytes left in recvBuf / in pendingData *)
  s_finished : bool;
  s_ures : list (list bool) }.              (* observed: per user thread, did each Flush return nil *)                      (* every implementation thread ran to completion *)

Fixpoint all_terminal_g (s : est) (n : nat) : bool :=
  match n with O => true | S k => terminal s (WGor k) && all_terminal_g s k end.
Fixpoint all_terminal_c (s : est) (n : nat) : bool :=
  match n with O => true | S k => terminal s (WClo k) && all_terminal_c s k end.
Definition model_quiescent (s : est) (setter : bool) : bool :=
  terminal s WEv && all_terminal_g s (length (gors s)) && all_terminal_c s (length (clos s)) && terminal s WSync.

(* 0 agree; 1 trace differs (position); 2 offers differ; 3 consumed differ; 4 final scalars differ; 5 leftover bytes differ;
   6 the implementation's threads all finished but a model thread still has steps to take;
   7 the results of the user Flush calls differ *)
Definition check_case (c : scase) : Z * option nat :=
  let s0 := init_rd (s_cb0 c) (s_inb c) (s_ncl c) (s_script c) (s_ups c) (s_sy c) (s_needs c) (s_picks c) in
  let '(tr, s) := btrace (s_sched c) s0 in
  match first_diff oev_eqb tr (s_events c) 0 with
  | Some n => (1, Some n)
  | None =>
    if negb (list_eqb (list_eqb Z.eqb) (offers s) (s_offers c)) then (2, None)
    else if negb (list_eqb Z.eqb (consumed s) (s_consumed c)) then (3, None)
    else if negb (list_eqb Z.eqb [st s; inproc s; cstate s; b2z (intable s);
                                  (* the callbacks are only observable when installed *)
                                  (if cbset s then nlocal s else 0); (if cbset s then nremote s else 0);
                                  Z.of_nat (length (filter (fun e => match e with EClose => true | _ => false end) (out s)));
                                  Z.of_nat (length (filter (fun e => match e with EData _ => true | _ => false end) (out s)));
                                  b2z (cnotify s)]   (* closeNotifyCh is closed *)
                           (s_final c)) then (4, None)
    else if negb (list_eqb Z.eqb (recv s) (s_recv c) && list_eqb Z.eqb (concat (pending s)) (s_pend c)) then (5, None)
    else if s_finished c && negb (model_quiescent s false) then (6, None)
    else if negb (list_eqb (list_eqb Bool.eqb) (map (fun u => map fst (ures u)) (users s)) (s_ures c)) then (7, None)
    else (0, None)
  end.

Fixpoint mismatches_from (n : nat) (cs : list scase) : list (nat * Z * option nat) :=
  match cs with
  | [] => []
  | c :: r => let '(k, pos) := check_case c in
              if k =? 0 then mismatches_from (S n) r else (n, k, pos) :: mismatches_from (S n) r
  end.
Definition mismatches := mismatches_from 0.

(* diagnostics for replay files *)
Definition model_trace (c : scase) := fst (btrace (s_sched c) (init_rd (s_cb0 c) (s_inb c) (s_ncl c) (s_script c) (s_ups c) (s_sy c) (s_needs c) (s_picks c))).
Definition model_final (c : scase) :=
  let s := snd (btrace (s_sched c) (init_rd (s_cb0 c) (s_inb c) (s_ncl c) (s_script c) (s_ups c) (s_sy c) (s_needs c) (s_picks c))) in
  (offers s, consumed s, [st s; inproc s; cstate s; b2z (intable s); nlocal s; nremote s], recv s, concat (pending s)).
