(* Correspondence check for the read side of Model/EventConn.v (C18): the buffer geometry the real connEventHandler
   showed at every callback (len(readBuffer), readStartOff, window) and what the callback consumed are replayed on
   the model.  Between two callbacks the kernel delivered delta = window' - window bytes; the geometry reached does
   not depend on how the kernel split them (the buffer is doubled exactly when it is full, right before the next
   read call), except that a callback issued by the onDataThreshold test sees the buffer before that expansion.
   Evaluated with vm_compute by ./check C18. *)
From Coq Require Import List ZArith Bool.
From Shm Require Import Model.EventConn.
Import ListNotations.
Open Scope Z_scope.

Fixpoint fill (fuel : nat) (g : geom) (delta : Z) : geom :=
  match fuel with
  | O => g
  | S f => if delta <=? 0 then g
           else let g' := g_expand g in
                let n := Z.min delta (g_room g') in
                fill f (g_read g' n) (delta - n)
  end.

Definition geom_is (g : geom) (len start win : Z) : bool :=
  (g_len g =? len) && (g_start g =? start) && (g_window g =? win).

Record ccase := { cc_cfg : cfg; cc_cbs : list (Z * Z * Z * Z) }.

Fixpoint replay (c : cfg) (g : geom) (cbs : list (Z * Z * Z * Z)) (i : nat) : option nat :=
  match cbs with
  | [] => None
  | (len, start, win, k) :: r =>
    let delta := win - g_window g in
    if delta <? 0 then Some i
    else
      let g1 := fill 200 g delta in
      let seen :=
        if geom_is g1 len start win && ((0 <? g_room g1) || (g_window g1 >=? threshold c)) then Some g1
        else if (g_room g1 =? 0) && geom_is (g_expand g1) len start win then Some (g_expand g1)
        else None in
      match seen with
      | None => Some i
      | Some g2 => if (0 <=? k) && (k <=? win) then replay c (g_commit c g2 k) r (S i) else Some i
      end
  end.

Fixpoint mismatches_from (n : nat) (cs : list ccase) : list (nat * nat) :=
  match cs with
  | [] => []
  | c :: r => match replay (cc_cfg c) (g_init (cc_cfg c)) (cc_cbs c) 0 with
              | None => mismatches_from (S n) r
              | Some i => (n, i) :: mismatches_from (S n) r
              end
  end.
Definition mismatches := mismatches_from 0.

(* ---------------- handleEvent dispatch ---------------- *)
(* the harness calls the real connEventHandler.handleEvent with every combination of EPOLLRDHUP / EPOLLIN /
   EPOLLOUT and records which of onRemoteClose / onReadReady / onWriteReady ran *)
Record dcase := { dc_rdhup : bool; dc_in : bool; dc_out : bool; dc_ran_close : bool; dc_ran_read : bool; dc_ran_write : bool }.
Definition ran (c : hcall) (l : list hcall) : bool :=
  existsb (fun x => match x, c with
                    | CRemoteClose, CRemoteClose | CReadReady, CReadReady | CWriteReady, CWriteReady => true
                    | _, _ => false end) l.
Definition dispatch_ok (d : dcase) : bool :=
  let l := handle_event {| ev_rdhup := dc_rdhup d; ev_in := dc_in d; ev_out := dc_out d |} in
  Bool.eqb (ran CRemoteClose l) (dc_ran_close d) && Bool.eqb (ran CReadReady l) (dc_ran_read d)
  && Bool.eqb (ran CWriteReady l) (dc_ran_write d).
Fixpoint dispatch_mismatches_from (n : nat) (ds : list dcase) : list nat :=
  match ds with
  | [] => []
  | d :: r => if dispatch_ok d then dispatch_mismatches_from (S n) r else n :: dispatch_mismatches_from (S n) r
  end.
Definition dispatch_mismatches := dispatch_mismatches_from 0.
