(* C14 correspondence: the bookkeeping model run on the event segments the real sessions went through
   (each segment ends at a quiescent point), compared on the observables the harness can read:
   reference counts of the two buffer managers in the process-wide table, whether they are still in
   the table, how many sessions have released everything.  Evaluated with vm_compute by ./check C14. *)
From Coq Require Import List ZArith Bool Arith.
From Shm Require Import Gen.Consts Model.Lifecycle.
Import ListNotations.
Open Scope Z_scope.

Record lseg := { lg_labels : list label; lg_obs : list Z }.   (* [ref p1; ref p2; in-table p1; in-table p2; released] *)
Record lcase := { lc_p1 : Z; lc_p2 : Z; lc_segs : list lseg }.

Definition observe (p1 p2 : Z) (w : world) : list Z :=
  [refcount p1 w; refcount p2 w;
   match tbl_get p1 (tbl w) with Some _ => 1 | None => 0 end;
   match tbl_get p2 (tbl w) with Some _ => 1 | None => 0 end;
   Z.of_nat (length (filter sess_released (ss w)))].

Fixpoint zlist_eqb (a b : list Z) : bool :=
  match a, b with
  | [], [] => true
  | x :: a', y :: b' => (x =? y) && zlist_eqb a' b'
  | _, _ => false
  end.

Fixpoint run_segs (p1 p2 : Z) (w : world) (segs : list lseg) (n : nat) : option nat :=
  match segs with
  | [] => if faults w =? 0 then None else Some n
  | g :: r => let w' := run (lg_labels g) w in
              if zlist_eqb (observe p1 p2 w') (lg_obs g) then run_segs p1 p2 w' r (S n) else Some n
  end%nat.

Definition check_case (c : lcase) : option nat := run_segs (lc_p1 c) (lc_p2 c) init (lc_segs c) 0.

Fixpoint mismatches_from (n : nat) (cs : list lcase) : list (nat * nat) :=
  match cs with
  | [] => []
  | c :: r => match check_case c with
              | None => mismatches_from (S n) r
              | Some k => (n, k) :: mismatches_from (S n) r
              end
  end.
Definition mismatches := mismatches_from 0.

Definition model_obs (c : lcase) : list (list Z) :=
  (fix go (w : world) (segs : list lseg) : list (list Z) :=
     match segs with [] => [] | g :: r => let w' := run (lg_labels g) w in observe (lc_p1 c) (lc_p2 c) w' :: go w' r end)
    init (lc_segs c).
