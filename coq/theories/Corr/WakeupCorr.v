(* Correspondence check for the wake-up model: run the model on the schedule the implementation
   (real queue.put/pop/markWorking/markNotWorking, Session.wakeUpPeer, handlePolling) ran under and
   compare access by access and, after every step, the observable protocol state.
   Evaluated with vm_compute by ./check C05. *)
From Coq Require Import List ZArith Bool Arith.
From Shm Require Import Gen.Consts Model.Wakeup.
Import ListNotations.
Open Scope Z_scope.

Definition ev_eqb (a b : event) : bool :=
  (ek a =? ek b) && (ecell a =? ecell b) && (ea a =? ea b) && (eb a =? eb b) && (ec a =? ec b).
Definition oev_eqb (a b : option event) : bool :=
  match a, b with Some x, Some y => ev_eqb x y | None, None => true | _, _ => false end.

Definition obs_eqb (a b : Z * bool * nat * bool) : bool :=
  let '(n1, f1, p1, i1) := a in let '(n2, f2, p2, i2) := b in
  (n1 =? n2) && Bool.eqb f1 f2 && Nat.eqb p1 p2 && Bool.eqb i1 i2.

Fixpoint first_diff {A} (eqb : A -> A -> bool) (a b : list A) (n : nat) : option nat :=
  match a, b with
  | [], [] => None
  | x :: a', y :: b' => if eqb x y then first_diff eqb a' b' (S n) else Some n
  | _, _ => Some n
  end.

(* observable state after every step, at the implementation's granularity *)
Fixpoint obs_trace (sched : list who) (s : st) : list (Z * bool * nat * bool) :=
  match sched with
  | [] => []
  | w :: r => let s' := istep s w in obs s' :: obs_trace r s'
  end.

Record wcase := {
  w_progs : list (list op);
  w_sched : list who;
  w_events : list (option event);            (* observed on the implementation, one per step *)
  w_obs : list (Z * bool * nat * bool);      (* observed after each step: size, flag, polling events in flight, consumer idle *)
  w_marks : nat; w_written : nat; w_handled : nat }.   (* counted on the implementation *)

(* 0 = agree; 1 = access traces differ; 2 = observable states differ; 3 = final counters differ *)
Definition check_case (c : wcase) : Z * option nat :=
  let s0 := init (w_progs c) in
  match first_diff oev_eqb (trace (w_sched c) s0) (w_events c) 0 with
  | Some n => (1, Some n)
  | None =>
    match first_diff obs_eqb (obs_trace (w_sched c) s0) (w_obs c) 0 with
    | Some n => (2, Some n)
    | None =>
      let s := irun (w_sched c) s0 in
      if Nat.eqb (marks s) (w_marks c) && Nat.eqb (written s) (w_written c) && Nat.eqb (handled s) (w_handled c)
      then (0, None) else (3, None)
    end
  end.

Fixpoint mismatches_from (n : nat) (cs : list wcase) : list (nat * Z * option nat) :=
  match cs with
  | [] => []
  | c :: r => let '(k, pos) := check_case c in
              if k =? 0 then mismatches_from (S n) r else (n, k, pos) :: mismatches_from (S n) r
  end.
Definition mismatches := mismatches_from 0.

(* what the model says for a case (for diagnostics in replay files) *)
Definition model_trace (c : wcase) := trace (w_sched c) (init (w_progs c)).

(* the quiescence verdict of the model for a case: Some (tail - head) if the final state is quiescent *)
Definition p_done (p : plocal) : bool :=
  match pc p, todo p with PIdle, [] => true | _, _ => false end.
Definition quiescent (s : st) : bool :=
  forallb p_done (prods s) && Nat.eqb (npoll (sock s)) 0 && Nat.eqb (npoll (sendch s)) 0 &&
  match sl s with SIdle => true | _ => false end && c_idle (cons s).
Definition model_final (c : wcase) : bool * Z :=
  let s := irun (w_sched c) (init (w_progs c)) in (quiescent s, tail s - head s).
