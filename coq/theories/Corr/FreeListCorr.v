(* Correspondence check for the free-list model (C01, C02): run the model under the schedule the
   implementation ran under; compare every shared access and every operation result. *)
From Coq Require Import List ZArith Bool Arith.
From Shm Require Import Gen.Consts Model.FreeList.
Import ListNotations.
Open Scope Z_scope.

Definition ev_eqb (a b : event) : bool :=
  (ek a =? ek b) && (ecell a =? ecell b) && (ea a =? ea b) && (eb a =? eb b) && (ec a =? ec b).
Definition oev_eqb (a b : option event) : bool :=
  match a, b with Some x, Some y => ev_eqb x y | None, None => true | _, _ => false end.

Fixpoint list_eqb {A} (eqb : A -> A -> bool) (a b : list A) : bool :=
  match a, b with
  | [], [] => true
  | x :: a', y :: b' => eqb x y && list_eqb eqb a' b'
  | _, _ => false
  end.
Fixpoint first_diff {A} (eqb : A -> A -> bool) (a b : list A) (n : nat) : option nat :=
  match a, b with
  | [], [] => None
  | x :: a', y :: b' => if eqb x y then first_diff eqb a' b' (S n) else Some n
  | _, _ => Some n
  end.

(* results as the harness encodes them: alloc -> offset or -1; done -> 0; panic -> -2 *)
Definition res_code (r : fres) : Z :=
  match r with RAlloc (Some o) => o | RAlloc None => -1 | RDone => 0 | RPanic => -2 end.

Record fcase := {
  f_n : Z; f_cpb : Z; f_base : Z; f_len : Z; f_progs : list (list fop); f_sched : list nat;
  f_events : list (option event); f_res : list (list Z); f_final : list Z }.

(* 0 agree; 1 trace differs (position); 2 results differ; 3 final header fields differ *)
Definition check_case (c : fcase) : Z * option nat :=
  let s0 := init (f_n c) (f_cpb c) (f_base c) (f_len c) (f_progs c) in
  match first_diff oev_eqb (trace (f_sched c) s0) (f_events c) 0 with
  | Some n => (1, Some n)
  | None =>
    let s := run (f_sched c) s0 in
    if negb (list_eqb (list_eqb Z.eqb) (map (fun p => map res_code (res p)) (thr s)) (f_res c)) then (2, None)
    else if negb (list_eqb Z.eqb [m_size (mm s); m_head (mm s); m_tail (mm s); m_counter (mm s)] (f_final c)) then (3, None)
    else (0, None)
  end.

Fixpoint mismatches_from (n : nat) (cs : list fcase) : list (nat * Z * option nat) :=
  match cs with
  | [] => []
  | c :: r => let '(k, pos) := check_case c in
              if k =? 0 then mismatches_from (S n) r else (n, k, pos) :: mismatches_from (S n) r
  end.
Definition mismatches := mismatches_from 0.
Definition model_trace (c : fcase) := trace (f_sched c) (init (f_n c) (f_cpb c) (f_base c) (f_len c) (f_progs c)).
