(* Correspondence check for the queue model: run the model on the schedule the implementation ran
   under and compare event by event, result by result.  Evaluated with vm_compute by ./check. *)
From Coq Require Import List ZArith Bool Arith.
From Shm Require Import Gen.Consts Model.Queue.
Import ListNotations.
Open Scope Z_scope.

Definition ev_eqb (a b : event) : bool :=
  (ek a =? ek b) && (ecell a =? ecell b) && (ea a =? ea b) && (eb a =? eb b) && (ec a =? ec b).
Definition oev_eqb (a b : option event) : bool :=
  match a, b with Some x, Some y => ev_eqb x y | None, None => true | _, _ => false end.
Definition elem_eqb (a b : elem) : bool := (f1 a =? f1 b) && (f2 a =? f2 b) && (f3 a =? f3 b).
Definition oelem_eqb (a b : option elem) : bool :=
  match a, b with Some x, Some y => elem_eqb x y | None, None => true | _, _ => false end.

Fixpoint list_eqb {A} (eqb : A -> A -> bool) (a b : list A) : bool :=
  match a, b with
  | [], [] => true
  | x :: a', y :: b' => eqb x y && list_eqb eqb a' b'
  | _, _ => false
  end.

(* position of the first difference, or None *)
Fixpoint first_diff {A} (eqb : A -> A -> bool) (a b : list A) (n : nat) : option nat :=
  match a, b with
  | [], [] => None
  | x :: a', y :: b' => if eqb x y then first_diff eqb a' b' (S n) else Some n
  | _, _ => Some n
  end.

Record qcase := {
  q_cap : Z; q_progs : list (list elem); q_npop : nat; q_sched : list (option nat);
  q_events : list (option event);      (* observed on the implementation, one per schedule step *)
  q_results : list (list bool);        (* per producer: put returned nil? *)
  q_out : list (option elem) }.        (* consumer: popped element or empty *)

(* 0 = agree; 1 = events differ; 2 = put results differ; 3 = pop results differ *)
Definition check_case (c : qcase) : Z * option nat :=
  let s0 := init (q_cap c) (q_progs c) (q_npop c) in
  match first_diff oev_eqb (trace (q_sched c) s0) (q_events c) 0 with
  | Some n => (1, Some n)
  | None =>
    let s := run (q_sched c) s0 in
    if negb (list_eqb (list_eqb Bool.eqb) (map results (prods s)) (q_results c)) then (2, None)
    else if negb (list_eqb oelem_eqb (out s) (q_out c)) then (3, None)
    else (0, None)
  end.

Fixpoint mismatches_from (n : nat) (cs : list qcase) : list (nat * Z * option nat) :=
  match cs with
  | [] => []
  | c :: r => let '(k, pos) := check_case c in
              if k =? 0 then mismatches_from (S n) r else (n, k, pos) :: mismatches_from (S n) r
  end.
Definition mismatches := mismatches_from 0.

(* what the model says for a case (for diagnostics in replay files) *)
Definition model_trace (c : qcase) := trace (q_sched c) (init (q_cap c) (q_progs c) (q_npop c)).
