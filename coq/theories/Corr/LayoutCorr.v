(* Correspondence check for the layout model (C03, mechanism D): run the model on the configurations
   the implementation ran on and compare the projected observables (outcome class, class geometry
   on the creating and on the mapping side, the two manager-header words, queue geometry and wiring).
   Evaluated with vm_compute by ./check.  Imports the model only, so it still runs when a proof breaks. *)
From Coq Require Import List ZArith Bool.
From Shm Require Import Gen.Consts Model.Layout.
Import ListNotations.
Open Scope Z_scope.

Definition class_eqb (a b : class) : bool :=
  (cl_off a =? cl_off b) && (cl_regionOff a =? cl_regionOff b) && (cl_regionLen a =? cl_regionLen b)
  && (cl_size a =? cl_size b) && (cl_cap a =? cl_cap b) && (cl_head a =? cl_head b)
  && (cl_tail a =? cl_tail b) && (cl_capPerBuffer a =? cl_capPerBuffer b).

Definition queue_eqb (a b : queue) : bool :=
  (q_cap a =? q_cap b) && (q_head_at a =? q_head_at b) && (q_tail_at a =? q_tail_at b)
  && (q_flag_at a =? q_flag_at b) && (q_lo a =? q_lo b) && (q_hi a =? q_hi b).

Fixpoint list_eqb {A} (eqb : A -> A -> bool) (a b : list A) : bool :=
  match a, b with
  | [], [] => true
  | x :: a', y :: b' => eqb x y && list_eqb eqb a' b'
  | _, _ => false
  end.

(* observed outcome classes: 0 = Ok, 1 = Err, 2 = Panic, 3 = not run *)
Definition kind_of {A} (o : outcome A) : Z := match o with Ok _ => 0 | Err _ => 1 | Panic _ => 2 end.

Record bcase := {
  b_pairs : list (Z * Z); b_memLen : Z; b_fill : Z;
  b_create : Z; b_cclasses : list class; b_listnum : Z; b_usedlen : Z;
  b_map : Z; b_mclasses : list class;
  b_alloc : list (Z * Z * Z) }.   (* per class: the (size, head, tail) words after the creator's allocations; [] = none *)

(* the creator's allocator writes size / head / tail of a class through the creator's pointers *)
Fixpoint apply_alloc (m : mem) (cs : list class) (al : list (Z * Z * Z)) : mem :=
  match cs, al with
  | c :: cs', (sz, hd, tl) :: al' =>
    let m := upd m (w32 (cl_off c + off_create_list_size)) sz in
    let m := upd m (w32 (cl_off c + off_create_list_head)) hd in
    let m := upd m (w32 (cl_off c + off_create_list_tail)) tl in
    apply_alloc m cs' al'
  | _, _ => m
  end.

(* 0 = agree; 1 = create outcome class differs; 2 = creator geometry differs; 3 = manager header words
   differ; 4 = mapper outcome class differs; 5 = mapper geometry differs *)
Definition check_bcase (c : bcase) : Z :=
  match create_bm_fast (b_pairs c) (b_memLen c) (fun _ => b_fill c) with
  | Ok (cs, m') =>
    if negb (b_create c =? 0) then 1
    else if negb (list_eqb class_eqb cs (b_cclasses c)) then 2
    else if negb ((w16 (m' 0) =? b_listnum c) && (m' c_bmCapOffset =? b_usedlen c)) then 3
    else match map_bm (b_memLen c) (apply_alloc m' cs (b_alloc c)) with
         | Ok ms => if negb (b_map c =? 0) then 4
                    else if negb (list_eqb class_eqb ms (b_mclasses c)) then 5 else 0
         | o => if b_map c =? kind_of o then 0 else 4
         end
  | o => if b_create c =? kind_of o then 0 else 1
  end.

Record qcase := {
  qc_kind : Z;               (* 0: one queue over heap bytes; 1: queue manager pair on a file; 2: on a memfd *)
  qc_cap : Z; qc_dataLen : Z; qc_fill : Z;
  qc_create : Z; qc_a : list queue;     (* creator: [q] or [send; recv] *)
  qc_map : Z; qc_b : list queue;        (* mapper:  [q] or [send; recv] *)
  qc_memSize : Z }.

(* 0 = agree; 11 = create outcome; 12 = creator geometry; 13 = mapping size; 14 = mapper outcome;
   15 = mapper geometry *)
Definition check_qm (create : Z -> mem -> outcome (qmanager * Z * mem)) (map : Z -> mem -> outcome qmanager)
  (c : qcase) : Z :=
  match create (qc_cap c) (fun _ => qc_fill c) with
  | Ok (a, memSize, m') =>
    if negb (qc_create c =? 0) then 11
    else if negb (list_eqb queue_eqb [qm_send a; qm_recv a] (qc_a c)) then 12
    else if negb (memSize =? qc_memSize c) then 13
    else match map memSize m' with
         | Ok b => if negb (qc_map c =? 0) then 14
                   else if negb (list_eqb queue_eqb [qm_send b; qm_recv b] (qc_b c)) then 15 else 0
         | o => if qc_map c =? kind_of o then 0 else 14
         end
  | o => if qc_create c =? kind_of o then 0 else 11
  end.

Definition check_qcase (c : qcase) : Z :=
  if qc_kind c =? 1 then check_qm create_qm map_qm c
  else if qc_kind c =? 2 then check_qm create_qm_memfd map_qm_memfd c
  else
    match create_q 0 (qc_dataLen c) (qc_dataLen c) (qc_cap c) (fun _ => qc_fill c) with
    | Ok (a, m') =>
      if negb (qc_create c =? 0) then 11
      else if negb (list_eqb queue_eqb [a] (qc_a c)) then 12
      else match map_q 0 (qc_dataLen c) (qc_dataLen c) m' with
           | Ok b => if negb (qc_map c =? 0) then 14
                     else if negb (list_eqb queue_eqb [b] (qc_b c)) then 15 else 0
           | o => if qc_map c =? kind_of o then 0 else 14
           end
    | o => if qc_create c =? kind_of o then 0 else 11
    end.

Fixpoint mism_from {A} (chk : A -> Z) (n : nat) (cs : list A) : list (nat * Z) :=
  match cs with
  | [] => []
  | c :: r => let k := chk c in
              if k =? 0 then mism_from chk (S n) r else (n, k) :: mism_from chk (S n) r
  end.
Definition mismatches_b := mism_from check_bcase 0.
Definition mismatches_q := mism_from check_qcase 0.

(* what the model says (for replay files / diagnostics) *)
Definition model_create (c : bcase) :=
  match create_bm_fast (b_pairs c) (b_memLen c) (fun _ => b_fill c) with
  | Ok (cs, _) => Ok cs | Err e => Err e | Panic p => Panic p end.
