(* Correspondence check for the linked-buffer pipe model: run the model on the op sequence the
   implementation ran on and compare the projected observables op by op (outcome class, numeric
   result, length + hash of returned bytes, Len of both buffers, per-class free counts).
   Evaluated with vm_compute by ./check C06 and ./check C08. *)
From Coq Require Import List ZArith Bool Arith.
From Shm Require Import Gen.Consts Gen.SwitchC06 Model.LinkedBuffer.
Import ListNotations.
Close Scope Z_scope.
Open Scope nat_scope.

(* content = keyed function of the absolute byte index (same function in the Go harness) *)
Definition kbyte (z : Z) : byte := ((z * 131 + (z / 251) * 17 + 7) mod 256)%Z.
Fixpoint zseq (s : Z) (n : nat) : list Z := match n with O => [] | S k => s :: zseq (s + 1)%Z k end.
Definition kb (start : Z) (n : nat) : list byte := map kbyte (zseq start n).
(* what "other" streams scribble into the slots they hold *)
Definition fb (tag n : nat) : list byte :=
  map (fun j => ((Z.of_nat tag * 7 + Z.of_nat j * 13 + 101) mod 256)%Z) (seq 0 n).

Definition bhash (bs : list byte) : Z := fold_left (fun h b => ((h * 31 + b + 1) mod 1000003)%Z) bs 0%Z.

Record obs := { o_cls : Z;    (* 0 ok, 1 error, 2 panic, 3 blocked *)
                o_n : Z;      (* numeric result (n, byte) or -1 *)
                o_dlen : Z; o_dhash : Z;   (* returned bytes, or -1 / 0 *)
                o_rlen : Z; o_slen : Z;    (* direction 0: Len of B's receive buffer, of A's send buffer *)
                o_rlen1 : Z; o_slen1 : Z;  (* direction 1: Len of A's receive buffer, of B's send buffer *)
                o_free : list Z }.

Record lcase := { c_cfg : list (nat * nat); c_ops : list dop; c_obs : list obs }.

Definition res_n (r : res) : Z :=
  match r with RN n => Z.of_nat n | RB b => b | _ => (-1)%Z end.
Definition res_dlen (r : res) : Z := match r with RData bs => Z.of_nat (length bs) | _ => (-1)%Z end.
Definition res_dhash (r : res) : Z := match r with RData bs => bhash bs | _ => 0%Z end.

Fixpoint zlist_eqb (a b : list Z) : bool :=
  match a, b with
  | [], [] => true
  | x :: a', y :: b' => (x =? y)%Z && zlist_eqb a' b'
  | _, _ => false
  end.

(* ghost check (C08): every live lease of the receive buffer still denotes the same bytes and its
   slot is in no free list *)
Definition lease_ok (m : shm) (le : lease) : bool :=
  if l_shm le then
    negb (existsb (fun f => existsb (Nat.eqb (l_off le)) f) (free m)) &&
    match nth_error (slots m) (l_off le) with
    | Some t => zlist_eqb (firstn (l_hi le - l_lo le) (skipn (l_lo le) (st_data t))) (l_bytes le)
    | None => false
    end
  else true.
Definition leases_ok (D : dsys) : bool :=
  forallb (lease_ok (d_mem D)) (leases (h_rcv (d_0 D))) && forallb (lease_ok (d_mem D)) (leases (h_rcv (d_1 D))).

(* field codes: 1 class, 2 n, 3 data length, 4 data hash, 5 receive Len, 6 send Len, 7 free counts,
   8 model lease broken, 9 observation list shorter/longer than the run, 10 / 11 receive / send Len of
   direction 1 *)
Definition cmp (s' : dsys) (r : res) (o : obs) : Z :=
  if negb (o_cls o =? 0)%Z then 1%Z
  else if negb (res_n r =? o_n o)%Z then 2%Z
  else if negb (res_dlen r =? o_dlen o)%Z then 3%Z
  else if negb (res_dhash r =? o_dhash o)%Z then 4%Z
  else if negb (len (h_rcv (d_0 s')) =? o_rlen o)%Z then 5%Z
  else if negb (len (h_snd (d_0 s')) =? o_slen o)%Z then 6%Z
  else if negb (len (h_rcv (d_1 s')) =? o_rlen1 o)%Z then 10%Z
  else if negb (len (h_snd (d_1 s')) =? o_slen1 o)%Z then 11%Z
  else if negb (zlist_eqb (map Z.of_nat (free_counts (d_mem s'))) (o_free o)) then 7%Z
  else if negb (leases_ok s') then 8%Z
  else 0%Z.

(* the model follows the swap decision the translator found in stream.go (Gen/SwitchC06.v): the harness runs
   the REAL Stream.ReleaseReadAndReuse.  Flush and the peer's close are stubs of the level-(i) harness (no
   session there): the stub's fallback flag is sticky and it never sweeps, so the comparison uses that variant;
   the source's decisions for those two are tied to the model in Props/C06.v / Props/C08.v and exercised on real
   session pairs (modes c06m, c08cb). *)
Definition mstep := dstep_gen sw_reuse_needs_len0 sw_reuse_needs_one_slice true true.

Fixpoint run_cmp (s : dsys) (ops : list dop) (os : list obs) (i : nat) : option (nat * Z) :=
  match ops, os with
  | [], [] => None
  | o :: ops', ob :: os' =>
    match mstep s o with
    | Ok (r, s') => let c := cmp s' r ob in if (c =? 0)%Z then run_cmp s' ops' os' (S i) else Some (i, c)
    | Err _ => if (o_cls ob =? 1)%Z then None else Some (i, 1%Z)       (* the run stops at an error *)
    | Panic _ => if (o_cls ob =? 2)%Z then None else Some (i, 1%Z)     (* ... and at a panic *)
    | Blocked => if (o_cls ob =? 3)%Z then run_cmp s ops' os' (S i) else Some (i, 1%Z)
    end
  | _, _ => Some (i, 9%Z)
  end.

Definition check_case (c : lcase) : option (nat * Z) := run_cmp (init_dsys (c_cfg c)) (c_ops c) (c_obs c) 0.

Fixpoint mismatches_from (n : nat) (cs : list lcase) : list (nat * nat * Z) :=
  match cs with
  | [] => []
  | c :: r => match check_case c with
              | None => mismatches_from (S n) r
              | Some (i, k) => (n, i, k) :: mismatches_from (S n) r
              end
  end.
Definition mismatches := mismatches_from 0.

(* diagnostics: what the model says for the ops of a case *)
Fixpoint model_obs (s : dsys) (ops : list dop) : list (Z * Z * Z * Z * list Z * list Z) :=
  match ops with
  | [] => []
  | o :: r =>
    let lens D := [len (h_rcv (d_0 D)); len (h_snd (d_0 D)); len (h_rcv (d_1 D)); len (h_snd (d_1 D))] in
    match mstep s o with
    | Ok (x, s') => (0%Z, res_n x, res_dlen x, res_dhash x, lens s', map Z.of_nat (free_counts (d_mem s'))) :: model_obs s' r
    | Err e => [(1%Z, e, 0%Z, 0%Z, [], [])]
    | Panic w => [(2%Z, w, 0%Z, 0%Z, [], [])]
    | Blocked => (3%Z, 0%Z, 0%Z, 0%Z, lens s, map Z.of_nat (free_counts (d_mem s))) :: model_obs s r
    end
  end.
