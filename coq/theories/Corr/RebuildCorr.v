(* Correspondence (mechanism T) for C17: the rebuild-watcher model run as an ACCEPTOR over the
   history observed on the real SessionManager.  The watcher goroutines' own steps are not
   observable; the acceptor schedules them deterministically: after every observed event each
   watcher takes the steps it takes without waiting for a timer (reload the pool, react to a closed
   session, react to a cancelled context), and the timer + dial steps are taken exactly when a
   rebuilt session is observed in a pool object.  Every observed event must be enabled, a rebuild
   must be what the model's watcher does at that point (same pool object, a session is created),
   GetStream results must agree and the snapshots taken under the manager's lock must equal the
   model's projection.  Evaluated with vm_compute by props/C17.py. *)
From Coq Require Import List ZArith Bool Arith.
From Shm Require Import Gen.Consts Model.HotRestart Model.Rebuild.
Import ListNotations.
Open Scope Z_scope.

Record robs := {
  ro_state : Z; ro_epoch : Z;
  ro_pools : list nat;                 (* pool object behind every id *)
  ro_objs : list (Z * bool);           (* per pool object: epoch of its session, not closed *)
  ro_reserve : list (option nat) }.

Inductive roevent :=
| OLost (o : nat)
| ORebuilt (id : nat) (o : nat)
| OHREvent (i : nat) (e : Z) (ok : bool)
| OHRTick | OHRTimeout
| ODialled (id : nat)                (* a test hook between the dial's Unlock and what follows saw the dial succeed *)
| OTimer (id : nat)                  (* the rebuild dial of pool id was seen on the wire: its timer has fired *)
| OCloseBegin | OCloseEnd
| OGetStreamR (k : nat) (ok : bool).

Definition settle_one (s : rstate) (id : nat) : rstate :=
  let s1 := r_step s (WLoad id) in
  let s2 := if closed s1 then r_step s1 (WakeCtx id) else r_step s1 (WakeClose id) in
  if closed s2 then r_step s2 (WakeCtx id) else s2.
Definition settle (s : rstate) : rstate := fold_left settle_one (seq 0 (length (watchers s))) s.

Fixpoint list_eqb {A} (eqb : A -> A -> bool) (a b : list A) : bool :=
  match a, b with
  | [], [] => true
  | x :: a', y :: b' => eqb x y && list_eqb eqb a' b'
  | _, _ => false
  end.
Definition zb_eqb (a b : Z * bool) : bool := (fst a =? fst b) && Bool.eqb (snd a) (snd b).
Definition onat_eqb (a b : option nat) : bool :=
  match a, b with Some x, Some y => Nat.eqb x y | None, None => true | _, _ => false end.

Definition r_project (s : rstate) : robs :=
  {| ro_state := r_state s; ro_epoch := r_epoch s; ro_pools := pools s;
     ro_objs := map (fun p => (o_epoch p, o_alive p)) (objs s); ro_reserve := reserve s |}.

(* 0 equal; 1 state; 2 epoch; 3 pools; 4 pool objects (epoch / liveness); 5 reserve pools *)
Definition robs_diff (a b : robs) : Z :=
  if negb (ro_state a =? ro_state b) then 1
  else if negb (ro_epoch a =? ro_epoch b) then 2
  else if negb (list_eqb Nat.eqb (ro_pools a) (ro_pools b)) then 3
  else if negb (list_eqb zb_eqb (ro_objs a) (ro_objs b)) then 4
  else if negb (list_eqb onat_eqb (ro_reserve a) (ro_reserve b)) then 5
  else 0.

(* codes: 20 not enabled; 24 the model's watcher is not waiting for its timer; 25 it holds another pool
   object; 26 the model's watcher does not rebuild here (guard); 23 GetStream result differs *)
Definition r_accept_one (s : rstate) (oe : roevent) : rstate + Z :=
  match oe with
  | OLost o => if r_enabled s (SessionLost o) then inl (r_step s (SessionLost o)) else inr 20
  | OTimer id => if r_enabled s (TimerFires id) then inl (r_step s (TimerFires id)) else inr 24
  | ODialled id =>
      (* timer (if not yet), then the critical section with a successful dial *)
      let already := match w_pc (watcher_of s id) with WCompare => true | _ => false end in
      if negb already && negb (r_enabled s (TimerFires id)) then inr 24
      else
        let s1 := if already then s else r_step s (TimerFires id) in
        let s2 := r_step s1 (Compare id true) in
        if Nat.eqb (created s2) (S (created s1)) then inl s2 else inr 26
  | ORebuilt id o =>
      match w_pc (watcher_of s id) with
      | WStore =>                                   (* variant store_late: the dial was seen before *)
          if Nat.eqb (w_pool (watcher_of s id)) o then inl (r_step s (Store id)) else inr 25
      | _ =>
          let already := match w_pc (watcher_of s id) with WCompare => true | _ => false end in
          if negb already && negb (r_enabled s (TimerFires id)) then inr 24
          else
            let s1 := if already then s else r_step s (TimerFires id) in
            if negb (Nat.eqb (w_pool (watcher_of s1 id)) o) then inr 25
            else
              let s2 := r_step s1 (Compare id true) in
              if Nat.eqb (created s2) (S (created s1)) then inl (r_step s2 (Store id)) else inr 26
      end
  | OHREvent i e ok => if r_enabled s (HREvent i e ok) then inl (r_step s (HREvent i e ok)) else inr 20
  | OHRTick => if r_enabled s HRTick then inl (r_step s HRTick) else inr 20
  | OHRTimeout => if r_enabled s HRTimeout then inl (r_step s HRTimeout) else inr 20
  | OCloseBegin =>
      (* SessionManager.Close is called: cancelFunc *)
      match cprog s with
      | CCancel :: _ => inl (r_step s CloseStep)
      | _ => inr 20
      end
  | OCloseEnd =>
      (* SessionManager.Close has returned: every remaining statement of its body must be able to run, in
         order (27: the model's wg.Wait cannot return: a watcher has not returned) *)
      let fix go (fuel : nat) (t : rstate) : rstate + Z :=
        match fuel with
        | O => inr 27
        | S f => match cprog t with
                 | [] => inl t
                 | _ => if r_enabled t CloseStep then go f (settle (r_step t CloseStep)) else inr 27
                 end
        end in
      match cprog s with
      | [] => inr 20
      | _ => go 6%nat s
      end
  | OGetStreamR k ok =>
      if negb (r_enabled s (GetStreamR k)) then inr 20
      else match get_stream_r s k, ok with
           | GsOk, true | GsErr, false => inl s
           | _, _ => inr 23
           end
  end.

Fixpoint r_accept_from (pos : nat) (s : rstate) (h : list (roevent * option robs)) : option (nat * Z) :=
  match h with
  | [] => None
  | (oe, oo) :: r =>
      match r_accept_one s oe with
      | inr c => Some (pos, c)
      | inl s1 =>
          let s' := settle s1 in
          match oo with
          | Some o => let d := robs_diff (r_project s') o in
                      if d =? 0 then r_accept_from (S pos) s' r else Some (pos, d)
          | None => r_accept_from (S pos) s' r
          end
      end
  end.

(* rc_early: what the harness read from the source of background(): false = the identity check stands after
   the timer receive, in the Lock region of the dial (the shape the theorems are about) *)
Record rcase := { rc_n : nat; rc_early : bool; rc_late : bool; rc_hist : list (roevent * option robs) }.
Definition rc_init (c : rcase) : rstate := r_init_gen close_prog (rc_early c) (rc_late c) (rc_n c).

Definition r_accepts (c : rcase) : option (nat * Z) := r_accept_from 0 (settle (rc_init c)) (rc_hist c).

Fixpoint r_mismatches_from (k : nat) (cs : list rcase) : list (nat * nat * Z) :=
  match cs with
  | [] => []
  | c :: r => match r_accepts c with
              | None => r_mismatches_from (S k) r
              | Some (p, code) => (k, p, code) :: r_mismatches_from (S k) r
              end
  end.
Definition r_mismatches := r_mismatches_from 0.

(* what the model ends with (ghost counters), for the evidence *)
Fixpoint r_final (s : rstate) (h : list (roevent * option robs)) : rstate :=
  match h with
  | [] => s
  | (oe, _) :: r => match r_accept_one s oe with inl s1 => r_final (settle s1) r | inr _ => s end
  end.
Definition r_counters (c : rcase) : nat * nat :=
  let s := r_final (settle (rc_init c)) (rc_hist c) in (created s, bad s).
