(* C17 — The session manager heals lost sessions and only those.
   Only the property theorems (closed by `exact`), their axiom reports and non-vacuity examples.
   Model: Model/Rebuild.v; proofs: Proofs/RebuildProofs.v.

   Quantification: any number of pools, every state (heals, guard, fail_fast are step-level facts about
   ANY state satisfying their premises), every event history (close_stops, not_twice).

   Not proved (observed by the harness): that the rebuild timer fires after rebuildInterval, that a
   dial reaches a listening server, that a cancelled context is seen before a fresh timer fires,
   goroutine scheduling and termination of the watcher goroutines. *)
From Coq Require Import List ZArith Lia Bool Arith.
From Shm Require Import Gen.Consts Model.HotRestart Model.Rebuild Proofs.RebuildProofs.
Import ListNotations.
Open Scope Z_scope.

(* ---- C17_heals: the watcher of pool id is waiting on the session of the pool object that is
   sm.pools[id]; that session is lost; no hot restart is in progress; the manager is not closed.  Then
   the watcher's own steps — wake, [timer, failed dial]^k for ANY k, timer, successful dial (with its store) — end with
   GetStream on that pool succeeding, exactly one session created, none into a stale object. *)
Theorem C17_heals : forall k s id,
  Lost s id WSelect -> r_state s <> st_hr -> obj_alive s (pool_of s id) = false ->
  let s' := r_run ([WakeClose id; TimerFires id] ++ retries id k ++ [Compare id true]) s in
  get_stream_r s' id = GsOk /\ w_pc (watcher_of s' id) = WTop /\ created s' = S (created s) /\ bad s' = bad s.
Proof. exact heals. Qed.
Print Assumptions C17_heals.

(* while the manager is in hotRestartState the watcher neither loads a pool nor rebuilds *)
Theorem C17_paused_by_hot_restart : forall s id, r_state s = st_hr ->
  (w_pc (watcher_of s id) = WTop -> r_step s (WLoad id) = s) /\
  (w_pc (watcher_of s id) = WSelect -> created (r_step s (WakeClose id)) = created s /\ objs (r_step s (WakeClose id)) = objs s).
Proof. exact paused_by_hot_restart. Qed.
Print Assumptions C17_paused_by_hot_restart.

(* ---- C17_not_twice.  The watcher is modelled by its real steps: detect the loss / close the pool; wait
   for the rebuild timer; then ONE critical section of sm's lock: `sm.pools[id] != pool` ? give up : dial,
   `session.manager = sm`, `pool.session.Store(session)`.  The guard: a watcher whose pool object was
   swapped out does not dial, whatever the epochs are. *)
Theorem C17_not_twice_guard : forall s id ok, check_early s = false ->
  in_range s id = true -> w_pc (watcher_of s id) = WCompare ->
  pool_of s id <> w_pool (watcher_of s id) ->
  let s' := r_step s (Compare id ok) in
  created s' = created s /\ objs s' = objs s /\ pools s' = pools s /\ bad s' = bad s /\ w_pc (watcher_of s' id) = WTop.
Proof. exact guard_swapped. Qed.
Print Assumptions C17_not_twice_guard.

(* for ALL histories: no watcher ever stores a rebuilt session into a pool object that is no longer
   sm.pools[id].  The proof depends on the identity check being made AFTER the wait and on check, dial and
   Store being one critical section of the lock the hot-restart handler takes (C17_example_check_after_wait,
   C17_example_store_race show the two other orders violating it; the second is the order the code had
   before its repair, regression scenario "storerace" of the harness). *)
Definition C17_not_twice_full : Prop := forall n evs, bad (r_run evs (r_init n)) = 0%nat.
Theorem C17_not_twice : C17_not_twice_full.
Proof. exact not_twice_full. Qed.
Print Assumptions C17_not_twice.

Theorem C17_rebuild_into_current : forall s id ok, check_early s = false ->
  created (r_step s (Compare id ok)) = S (created s) -> w_pool (watcher_of s id) = pool_of s id.
Proof. exact rebuild_into_current. Qed.
Print Assumptions C17_rebuild_into_current.

(* ---- C17_fail_fast: GetStream never blocks; it fails exactly when the pool's current session is closed *)
Theorem C17_fail_fast : forall s k,
  get_stream_r s k <> GsBlocked /\
  (get_stream_r s k = GsErr <-> obj_alive s (pool_of s k) = false) /\
  (get_stream_r s k = GsOk <-> obj_alive s (pool_of s k) = true).
Proof. exact fail_fast. Qed.
Print Assumptions C17_fail_fast.

(* ---- C17_close_stops: from the moment cancelFunc has been called, over every further history, the
   number of sessions created by watchers can grow at most by the number of watchers that were already
   past their wait (timer fired, about to dial) — and not at all once every watcher has returned, which
   is the condition under which Close gets past wg.Wait *)
Theorem C17_close_stops : forall evs s, closed s = true ->
  closed (r_run evs s) = true /\ (created (r_run evs s) + pending (r_run evs s) <= created s + pending s)%nat.
Proof. exact close_stops. Qed.
Print Assumptions C17_close_stops.

Theorem C17_close_final : forall evs s, all_exited s -> all_exited (r_run evs s) /\ created (r_run evs s) = created s.
Proof. exact close_final. Qed.
Print Assumptions C17_close_final.

(* ---- Close returned.  SessionManager.Close is modelled statement by statement IN THE ORDER OF THE CODE
   (cancelFunc; wg.Wait; then in one critical section of sm's lock: pools[i].close(), parked pools closed),
   and the hot-restart handler returns at once when the context is cancelled.  For ALL histories: whenever
   Close has returned, every watcher has returned, every pool's session is closed and nothing is parked.
   The proof uses the order of the statements: wg.Wait returns only when every watcher has returned, so a
   watcher that was past its timer has stored its replacement session BEFORE the pools are closed.
   (Before the repair of the handler / of Close's locking this needed the hypothesis "no hot-restart event
   after cancel" and was refuted without it; that history is the regression scenario "closerace".) *)
Theorem C17_close_returned_full : forall n evs,
  cprog (r_run evs (r_init n)) = [] -> Quiesced (r_run evs (r_init n)).
Proof. exact close_returned. Qed.
Print Assumptions C17_close_returned_full.

Theorem C17_hr_event_after_cancel : forall s i e ok, closed s = true -> r_step s (HREvent i e ok) = s.
Proof. exact hr_event_after_cancel. Qed.
Print Assumptions C17_hr_event_after_cancel.

(* that state is final: over every further history no session is created, neither by a watcher nor by
   the hot-restart handler (no pool object is added; an event needs a live session of the manager) *)
Theorem C17_close_quiesced_forever : forall evs s, Quiesced s ->
  Quiesced (r_run evs s) /\ created (r_run evs s) = created s /\ length (objs (r_run evs s)) = length (objs s).
Proof. exact close_quiesced_forever. Qed.
Print Assumptions C17_close_quiesced_forever.

(* after cancel and outside hotRestartState every watcher not just past its timer can return by its own
   steps without creating anything ... *)
Theorem C17_close_exit_path : forall s id, closed s = true -> r_state s <> st_hr -> in_range s id = true ->
  w_pc (watcher_of s id) <> WCompare -> w_pc (watcher_of s id) <> WStore ->
  let s' := r_run (exit_path id (w_pc (watcher_of s id))) s in
  w_pc (watcher_of s' id) = WExit /\ created s' = created s /\ objs s' = objs s.
Proof. exact close_exit_path. Qed.
Print Assumptions C17_close_exit_path.

(* ... whereas at its loop head in hotRestartState no sequence of its own steps moves it: Close waits for
   the end of the hot restart (bounded by C16's checker; the bound itself is timer behaviour) *)
Theorem C17_close_waits_for_hot_restart : forall evs s id,
  forallb (own id) evs = true -> r_state s = st_hr -> w_pc (watcher_of s id) = WTop ->
  r_run evs s = s.
Proof. exact close_waits_for_hot_restart. Qed.
Print Assumptions C17_close_waits_for_hot_restart.

(* ---- non-vacuity *)
(* two pools; pool 1 loses its session, two dials fail (server down), the third succeeds *)
Example C17_example_heal :
  let s := r_run ([WLoad 0; WLoad 1; SessionLost 1; GetStreamR 1; WakeClose 1; TimerFires 1] ++ retries 1 2 ++ [Compare 1 true; WLoad 1]) (r_init 2) in
  get_stream_r s 1 = GsOk /\ created s = 1%nat /\ bad s = 0%nat /\
  get_stream_r (r_run [WLoad 0; WLoad 1; SessionLost 1] (r_init 2)) 1 = GsErr /\
  map w_pc (watchers s) = [WSelect; WSelect].
Proof. vm_compute. repeat split. Qed.

(* hot restart with a fresh epoch: the parked pool dies later, the watcher does not rebuild it;
   the same with epoch 0 (equal epochs): neither *)
Example C17_example_not_twice :
  let h e := [WLoad 0; HREvent 0 e true; HRTick; SessionLost 0; WakeClose 0; TimerFires 0; Compare 0 true; WLoad 0] in
  created (r_run (h 7) (r_init 1)) = 0%nat /\ get_stream_r (r_run (h 7) (r_init 1)) 0 = GsOk /\
  created (r_run (h 0) (r_init 1)) = 0%nat /\ get_stream_r (r_run (h 0) (r_init 1)) 0 = GsOk.
Proof. vm_compute. repeat split. Qed.

(* Close while a rebuild is pending: the watcher leaves without dialling *)
Example C17_example_close :
  let s := r_run [WLoad 0; SessionLost 0; WakeClose 0; CloseStep; TimerFires 0; WakeCtx 0; Compare 0 true; CloseStep; CloseStep] (r_init 1) in
  created s = 0%nat /\ map w_pc (watchers s) = [WExit] /\ get_stream_r s 0 = GsErr /\ cprog s = [].
Proof. vm_compute. repeat split. Qed.

(* Close while the rebuild dial is in flight (timer fired before cancel).  Order of the code: wg.Wait is
   not enabled until the watcher has stored the replacement and returned, the pools are closed after
   that: Close returns with the pool's session closed.  Seeded order (pools closed before wg.Wait): the
   same events end with Close returned and a LIVE session in the pool, GetStream succeeds. *)
Example C17_example_close_order :
  let mid := r_run inflight_history (r_init 1) in
  let good := r_run (inflight_history ++ [CloseStep]) (r_init 1) in
  let seeded := r_run inflight_history (r_init_prog seeded_close_prog 1) in
  (* code order: after the same events Close has only got past wg.Wait; its closing section follows *)
  cprog mid = [CCloseAll] /\ cprog good = [] /\ get_stream_r good 0 = GsErr /\ created good = 1%nat /\
  cprog seeded = [] /\ get_stream_r seeded 0 = GsOk /\ created seeded = 1%nat /\
  map w_pc (watchers seeded) = [WExit].
Proof. vm_compute. repeat split. Qed.

(* a hot-restart event arriving on a parked session after cancel: ignored, Close closes everything *)
Example C17_example_close_race :
  let s := r_run close_race_history (r_init 1) in
  cprog s = [] /\ get_stream_r s 0 = GsErr /\ length (objs s) = 2%nat.
Proof. vm_compute. repeat split. Qed.

(* a session lost in defaultState, then the hot-restart event for that pool handled DURING the rebuild
   wait.  The code (check after the wait, in the critical section of dial and store): the watcher does not
   dial.  A variant that checks BEFORE the wait and dials unconditionally afterwards: it dials and stores a
   second live session into the parked pool. *)
Example C17_example_check_after_wait :
  let code := r_run swap_during_wait_history (r_init 1) in
  let early := r_run swap_during_wait_history (r_init_gen close_prog true false 1) in
  created code = 0%nat /\ bad code = 0%nat /\ get_stream_r code 0 = GsOk /\ length (objs code) = 2%nat /\
  created early = 1%nat /\ bad early = 1%nat /\ obj_alive early 0 = true /\ get_stream_r early 0 = GsOk.
Proof. vm_compute. repeat split. Qed.

(* the order the code had before its repair: Store AFTER sm.Unlock().  The handler gets the lock between the
   two, swaps the pool, and the replacement lands in the pool just parked.  In the code's order the same
   events leave the replacement in the pool object that the handler then parks as a whole — stored before the
   swap, into what was sm.pools[id] — and nothing is counted *)
Example C17_example_store_race :
  let late := r_run store_race_history (r_init_gen close_prog false true 1) in
  let code := r_run store_race_history (r_init 1) in
  created late = 1%nat /\ bad late = 1%nat /\ obj_alive late 0 = true /\ pool_of late 0 = 1%nat /\
  created code = 1%nat /\ bad code = 0%nat /\ pool_of code 0 = 1%nat.
Proof. vm_compute. repeat split. Qed.
