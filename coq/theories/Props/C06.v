(* C06 — A stream is a faithful byte pipe whatever the write and read granularity.
   Only the property theorems (closed by `exact`), their axiom reports, a non-vacuity example.
   Model: Model/LinkedBuffer.v (allocator, slices, writer ops, done/flush, moveTo, reader ops);
   proofs: Proofs/LinkedBufferProofs.v.  Specification: the byte queue {pw; infl; av}.

   STATUS (after the fix round: Discard and Reserve guard size <= 0 like ReadBytes/Peek already did)
   * C06_full (all size-class configurations, all op sequences of the whole op set incl. slots
     pre-held by others, op by op the byte queue's outputs, no panic) is stated below as a
     Definition.  It used to be REFUTED by Discard(0) on an empty buffer and by Reserve(0) with shm
     exhausted (two nil dereferences, reproduced on the real code, repaired by
     .work/fixes/C06_discard0.diff and C06_reserve0.diff); the former witnesses are now the regression
     theorems C06_discard0_total / C06_reserve0_total / C06_size0_regression, and the harness keeps
     both scenarios as its first two cases.
   * PROVED (for every store, every well-formed receive buffer — any mix of shm / heap slices, any
     slice sizes, any slice boundaries, front slice possibly exhausted — and every sequence):
       C06_partial_reader   ReadBytes, Peek, Discard, ReadByte, ReadString, Read, ReleasePreviousRead,
                            releasePreviousReadAndReserve with sizes 0 <= n <= Len() (the former
                            hypothesis 0 < n is gone): exactly the byte queue's bytes / n / Len, Peek
                            consumes nothing, never a panic, the invariant "len = |content| and only
                            the front slice may be exhausted" is kept;
       C06_partial_fallback the same after any number of fallback (socket) deliveries of any sizes
                            into the initial buffer of any configuration;
       C06_fallback_delivery / C06_append_slice: what moveTo's appendBufferSlice needs and gives.
   * NOT PROVED HERE (covered by the correspondence harness go/harness/c06_*.go only): the writer
     operations (WriteBytes, WriteByte, Reserve, WriteString, Write), done()/Flush, the shm chain
     re-read by moveTo (incl. the empty-slice unlinking), reads that trigger readMore's move, and the
     interleaving with other owners of slots. *)
From Coq Require Import List ZArith Lia Bool Arith.
From Shm Require Import Gen.Consts Model.LinkedBuffer Proofs.LinkedBufferProofs.
Import ListNotations.
Close Scope Z_scope.
Open Scope nat_scope.

Definition C06_full : Prop := forall cfg ops, agrees (init_sys cfg) spec0 ops.

(* regression of the two former refutations: at size 0 both calls are total no-ops in every state *)
Theorem C06_discard0_total : forall s, step s (RDiscard 0) = Ok (RN 0, s).
Proof. exact discard0_ok. Qed.
Print Assumptions C06_discard0_total.

Theorem C06_reserve0_total : forall s, step s (WReserve []) = Ok (RUnit, s).
Proof. exact reserve0_ok. Qed.
Print Assumptions C06_reserve0_total.

Theorem C06_size0_regression :
  agrees (init_sys [(16, 2)]) spec0 [RDiscard 0; OAlloc 16; WReserve []; RDiscard 0].
Proof. exact size0_regression. Qed.
Print Assumptions C06_size0_regression.

Theorem C06_partial_reader : forall ops s sp,
  WF (mem s) (rcv s) -> content (mem s) (rcv s) = av sp -> len (snd s) = Z.of_nat (length (pw sp)) ->
  covered_all sp ops -> agrees s sp ops.
Proof. exact reader_refines. Qed.
Print Assumptions C06_partial_reader.

Theorem C06_partial_fallback : forall cfg ds ops,
  Forall (fun d => d <> []) ds ->
  let s0 := init_sys cfg in
  exists l', move_to (mem s0) (rcv s0) (map (fun d => PFallback (fallback_slice d)) ds) = Ok (mem s0, l')
    /\ (covered_all {| pw := []; infl := []; av := concat ds |} ops ->
        agrees (with_mem_rcv s0 (mem s0) l') {| pw := []; infl := []; av := concat ds |} ops).
Proof. exact fallback_pipe_refines. Qed.
Print Assumptions C06_partial_fallback.

Theorem C06_fallback_delivery : forall m l d, WF m l -> d <> [] ->
  WF m (append_slice l (fallback_slice d)) /\ content m (append_slice l (fallback_slice d)) = content m l ++ d.
Proof. exact fallback_delivery. Qed.
Print Assumptions C06_fallback_delivery.

Theorem C06_append_slice : forall m l s, WF m l -> slice_ok m s -> 0 < ssize s ->
  WF m (append_slice l s) /\ content m (append_slice l s) = content m l ++ body m s.
Proof. exact append_slice_ok. Qed.
Print Assumptions C06_append_slice.

(* non-vacuity: classes 16 x 4 and 64 x 3; a 40-byte write lands in a 64-byte slot, a 100-byte write
   spans slots, both travel through shared memory; the reader takes 16 (fast path, zero copy),
   peeks 30 (slow path over the chain), discards 25 over a slice edge, reads a string to the end *)
Fixpoint outs (s : sys) (ops : list op) : list (option res) :=
  match ops with
  | [] => []
  | o :: r => match step s o with Ok (y, s') => Some y :: outs s' r | _ => [None] end
  end.
Example C06_example_run :
  let bs := map Z.of_nat (seq 0 140) in
  outs (init_sys [(16, 4); (64, 3)])
       [WBytes (firstn 40 bs); WFlush; WBytes (skipn 40 bs); WFlush;
        RBytes 16; RPeek 30; RDiscard 25; RString 99; RRelease]
  = map Some [RN 40; RUnit; RN 100; RUnit; RData (firstn 16 bs); RData (firstn 30 (skipn 16 bs)); RN 25;
              RData (skipn 41 bs); RUnit].
Proof. vm_compute. reflexivity. Qed.
