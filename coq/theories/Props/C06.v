(* C06 — A stream is a faithful byte pipe whatever the write and read granularity.
   Only the property theorems (closed by `exact`), their axiom reports, a non-vacuity example.
   Model: Model/LinkedBuffer.v (allocator, slices, writer ops, done/flush, moveTo, reader ops);
   proofs: Proofs/LinkedBufferProofs.v (reader side), LinkedBufferStore.v (allocator, alloc fits
   tightly), LinkedBufferWriter.v (WriteBytes / WriteByte / Reserve three-way), LinkedBufferXfer.v
   (done() stamps a chain, moveTo re-reads it and unlinks empty slices), LinkedBufferPipe.v (global
   invariant preserved by every operation).  Specification: the byte queue {pw; infl; av}.

   STATUS: C06_full IS PROVED (theorem C06).  For every size-class configuration with positive slice
   capacities (cfg_ok: exactly the guard createFreeBufferList enforces), every number of slots per
   class, every operation sequence over the WHOLE op set — WriteBytes, WriteByte, WriteString,
   Reserve, Write, Flush, ReadBytes, Peek, Discard, ReadByte, ReadString, Read of ANY size (0, below,
   at, above a slice capacity, above the largest class, above what is available), ReleasePreviousRead,
   releasePreviousReadAndReserve, recycle, the reset slice ReleaseReadAndReuse leaves in the send
   position, and allocate / overwrite / free by other owners (any degree of exhaustion, any moment) —
   the model never panics and answers op by op exactly like the byte queue: same bytes, same n, Len of
   both buffers, Peek consumes nothing, a read that exceeds what was flushed blocks and changes nothing;
   and this is independent of the transport (one shm slice, several slices from allocShmBuffers, heap
   fallback with its 4096 minimum, chains with empty slices, fallback after shm).
   The statement used to be refuted at size 0 (Discard(0) on an empty buffer, Reserve(0) with shm
   exhausted: nil dereferences, reproduced on the real code, repaired by .work/fixes/C06_*.diff); the
   former witnesses are the regression theorems below and the first two cases of every harness run.

   The theorems C06_partial_* are kept: they hold for ANY store and ANY well-formed receive buffer
   (not only reachable ones).

   BOTH DIRECTIONS OF A STREAM PAIR (Stream.ReleaseReadAndReuse swaps the receive buffer of a stream with
   its own send buffer, i.e. with the writer side of the other direction): modelled by
   Model/LinkedBuffer.dstep; the swap decision is translated from stream.go on every run
   (Gen/SwitchC06.v; any other shape of the statement is a broken correspondence).
     PROVED   C06_reuse_keeps_unread: ReleaseReadAndReuse never changes the unread byte sequence of the
              releasing stream, leaves a stream without unflushed writes without unflushed writes, changes no
              payload byte and touches nothing else (for every well-formed state; the proof is about the
              decision found in the source and stops compiling if the Len test disappears:
              C06_reuse_without_len_test_loses_unread shows what is lost then).
     PROVED   C06_duplex (= C06_duplex_full): for every configuration with positive capacities and every
              sequence of operations of BOTH directions (all operations of C06 in either direction, plus
              ReleaseReadAndReuse by either stream, incl. the swap, the adopted slice used for the echo, the
              fallback flag a reader inherits from a fallback delivery) the two-direction model never panics and
              agrees op by op with two byte queues (bytes, n, Len of all four buffers), under the explicit guard
              dop_ok: ReleaseReadAndReuse is only called by a stream WITHOUT written-but-unflushed bytes.
              C06_duplex_invariant_op / _reuse: the invariant of the pair (each direction satisfies the pipe
              invariant with the slots of the other direction as untouched, never-free externals).
     REFUTED without the guard: C06_duplex_unguarded_refuted (the documented misuse: write 3 bytes, do not
              flush, ReleaseReadAndReuse -> the swap puts the stream's own unflushed bytes into its read buffer;
              cf. the unflushed-data test in Stream.reset).  C06_duplex_example: the guard is satisfiable with a
              real swap (the echo is written into the adopted slot: no new allocation) .

   TWO TRANSPORTS: the model's flush takes its transport decision from Gen/SwitchC07.v (sticky fallback
   flag, translated from Stream.Flush; the proof of C06 stops compiling for the non-sticky variant);
   C06_transport_keeps_order: with that decision every resumption pattern of a receiver that drains the
   queue before the socket delivers the flushes in order - which is what justifies the single ordered
   pending list of the model; C06_nonsticky_transport_reorders: the non-sticky variant does not.

   Outside the model (assumptions recorded in the evidence): negative sizes, uint32 truncation of
   sizes above 2^31, concurrency (one writer and one reader goroutine per direction; the lock-free
   allocator is C01/C02's subject), Stream.Flush's queue/socket (level (i) correspondence). *)
From Coq Require Import List ZArith Lia Bool Arith.
From Shm Require Import Gen.Consts Gen.SwitchC06 Gen.SwitchC07 Model.LinkedBuffer Proofs.LinkedBufferProofs Proofs.LinkedBufferStore
  Proofs.LinkedBufferWriter Proofs.LinkedBufferXfer Proofs.LinkedBufferPipe Proofs.LinkedBufferDuplex.
Import ListNotations.
Close Scope Z_scope.
Open Scope nat_scope.

(* The model is parametrized by the decisions the translators read off the source.  Every theorem below is
   about the variant [true true true]; the generated switches of C06's subject (swap condition of
   ReleaseReadAndReuse, Gen/SwitchC06.v; sticky fallback of Stream.Flush, Gen/SwitchC07.v) select exactly it.
   The sweep condition (last parameter) is C08's subject and stays a variable here. *)
Theorem C06_model_is_the_source_variant : forall sweepc,
  dstep_gen sw_reuse_needs_len0 sw_reuse_needs_one_slice sw_fallback_sticky sweepc = dstep_gen true true true sweepc
  /\ flush_gen sw_fallback_sticky = flush.
Proof. intros sweepc. split; reflexivity. Qed.
Print Assumptions C06_model_is_the_source_variant.

Definition C06_full : Prop := forall cfg ops, cfg_ok cfg -> agrees (init_sys cfg) spec0 ops.

Theorem C06 : C06_full.
Proof. exact pipe_refines. Qed.
Print Assumptions C06.

Theorem C06_no_panic : forall cfg ops, cfg_ok cfg -> forall w, run (init_sys cfg) ops <> Panic w.
Proof. exact no_panic. Qed.
Print Assumptions C06_no_panic.

(* the inductive invariant behind C06 (store, ownership of every slot, send buffer = pending bytes with
   the write slice last, chains in the headers, receive buffer with only the front slice possibly
   exhausted, leases): every operation preserves it and answers like the byte queue *)
Theorem C06_step : forall ext Eg s sp idss o, Inv ext Eg s sp idss ->
  match spec_step sp o with
  | None => step s o = Blocked
  | Some (x, sp') => exists y s' idss', step s o = Ok (y, s') /\ res_agree o x y /\ Inv ext Eg s' sp' idss'
  end.
Proof. exact step_inv. Qed.
Print Assumptions C06_step.

(* the transfer lemma: after moveTo, content = content before ++ bytes of the flushed chains and
   fallback slices; no panic; every slot of a chain is appended or free again (ml_cnt) *)
Theorem C06_move_to : forall ps idss bs m l,
  store_ok m -> WF m l -> pend_ok m ps idss bs ->
  (forall x, cnt (frees m) x + cnt (offs (slices l)) x + cnt (concat idss) x <= 1) ->
  (idss <> [] -> Forall (fun s => shmf s = true) (slices l)) ->
  exists m' l', move_to m l ps = Ok (m', l') /\ movedL m l (concat idss) bs m' l'
                /\ ((forall d, ~ In (PFallback d) ps) -> Forall (fun s => shmf s = true) (slices l) ->
                    Forall (fun s => shmf s = true) (slices l')).
Proof. exact move_to_spec. Qed.
Print Assumptions C06_move_to.

(* writer operations refine "append to the pending bytes" in every allocator state *)
Theorem C06_write_bytes : forall m l bs, wpre m l -> bs <> [] ->
  exists m' l', write_bytes bs m l = Ok (length bs, m', l') /\ wrote m l bs m' l'.
Proof. exact write_bytes_ok. Qed.
Print Assumptions C06_write_bytes.

Theorem C06_reserve : forall m l bs, wpre m l -> bs <> [] ->
  exists m' l', reserve bs m l = Ok (m', l') /\ wrote m l bs m' l'.
Proof. exact reserve_ok. Qed.
Print Assumptions C06_reserve.

(* ---- both directions: Stream.ReleaseReadAndReuse ---- *)
Definition C06_duplex_full : Prop :=
  forall cfg ops, cfg_ok cfg -> dagrees (init_dsys cfg) spec0 spec0 ops.

Theorem C06_duplex : C06_duplex_full.
Proof. exact duplex_refines. Qed.
Print Assumptions C06_duplex.

Definition C06_duplex_unguarded : Prop :=
  forall cfg ops, cfg_ok cfg -> dagrees_unguarded (init_dsys cfg) spec0 spec0 ops.

Theorem C06_duplex_unguarded_refuted : ~ C06_duplex_unguarded.
Proof. exact duplex_unguarded_refuted. Qed.
Print Assumptions C06_duplex_unguarded_refuted.

Theorem C06_duplex_invariant_op : forall D sp0 sp1 d o, DInv D sp0 sp1 ->
  match dspec_step sp0 sp1 (DOp d o) with
  | None => mdstep D (DOp d o) = Blocked
  | Some (x, sp0', sp1') => exists y D', mdstep D (DOp d o) = Ok (y, D') /\ res_agree o x y /\ DInv D' sp0' sp1'
  end.
Proof. exact dstep_op_inv. Qed.
Print Assumptions C06_duplex_invariant_op.

Theorem C06_duplex_invariant_reuse : forall D sp0 sp1 d, DInv D sp0 sp1 -> dop_ok sp0 sp1 (DReuse d) ->
  exists D', mdstep D (DReuse d) = Ok (RUnit, D') /\ DInv D' sp0 sp1.
Proof. exact dstep_reuse_inv. Qed.
Print Assumptions C06_duplex_invariant_reuse.

Example C06_duplex_example :
  let ops := [DOp false (WBytes [1; 2; 3; 4]%Z); DOp false WFlush; DOp false (RBytes 4); DReuse false;
              DOp true (WBytes [7; 8; 9]%Z); DOp true WFlush; DOp true (RBytes 3); DReuse true] in
  douts (init_dsys [(16, 4)]) ops
    = map Some [RN 4; RUnit; RData [1; 2; 3; 4]%Z; RUnit; RN 3; RUnit; RData [7; 8; 9]%Z; RUnit]
  /\ match drun (init_dsys [(16, 4)]) (firstn 5 ops) with
     | Some D => free_counts (d_mem D) = [3] /\ length (slices (h_snd (d_1 D))) = 1
     | None => False
     end.
Proof. exact duplex_echo_through_adopted_slice. Qed.

Theorem C06_reuse_keeps_unread : forall D d,
  let h := dhalf D d in let o := dhalf D (negb d) in
  WF (d_mem D) (h_rcv h) -> content (d_mem D) (h_snd o) = [] ->
  exists D', mdstep D (DReuse d) = Ok (RUnit, D') /\
    let h' := dhalf D' d in let o' := dhalf D' (negb d) in
    content (d_mem D') (h_rcv h') = content (d_mem D) (h_rcv h) /\
    content (d_mem D') (h_snd o') = [] /\
    same_data (d_mem D) (d_mem D') /\
    h_snd h' = h_snd h /\ h_pend h' = h_pend h /\ h_infb h' = h_infb h /\
    h_rcv o' = h_rcv o /\ h_pend o' = h_pend o /\ h_infb o' = h_infb o /\ d_oth D' = d_oth D.
Proof. exact reuse_keeps_unread. Qed.
Print Assumptions C06_reuse_keeps_unread.

Theorem C06_reuse_without_len_test_loses_unread :
  let bs := map Z.of_nat (seq 0 10) in
  let run st ops := fold_left (fun D o => match D with Some D => match dstep_gen false true true true D o with Ok (_, D') => Some D' | _ => None end | None => None end) ops (Some st) in
  match run (init_dsys [(16, 4)]) [DOp false (WBytes bs); DOp false WFlush; DOp false (RBytes 4); DReuse false] with
  | Some D => content (d_mem D) (h_rcv (d_0 D)) = [] /\ len (h_snd (d_1 D)) = 6%Z
  | None => False
  end.
Proof. exact reuse_without_len_test_loses_unread. Qed.
Print Assumptions C06_reuse_without_len_test_loses_unread.

(* ---- two transports (queue / socket): why the pipe may keep ONE ordered list of pending deliveries ---- *)
(* the transport decision is the one of Stream.Flush (Gen/SwitchC07.v: inFallbackState is sticky); a receiver
   that resumes with data in both channels drains the queue first; any resumption pattern delivers in order *)
Theorem C06_transport_keeps_order : forall infb fl chunks,
  concat chunks = choose sw_fallback_sticky infb fl -> deliver chunks = concat (map (@Datatypes.snd _ _) fl).
Proof. exact transport_keeps_order. Qed.
Print Assumptions C06_transport_keeps_order.

Theorem C06_nonsticky_transport_reorders :
  let big := [1; 2; 3]%Z in let small := [9]%Z in
  deliver [choose false false [(false, big); (true, small)]] = small ++ big.
Proof. exact nonsticky_transport_reorders. Qed.
Print Assumptions C06_nonsticky_transport_reorders.

(* regression of the two former refutations: at size 0 both calls are total no-ops in every state *)
Theorem C06_discard0_total : forall s, step s (RDiscard 0) = Ok (RN 0, s).
Proof. exact discard0_ok. Qed.
Print Assumptions C06_discard0_total.

Theorem C06_reserve0_total : forall s, step s (WReserve []) = Ok (RUnit, s).
Proof. exact reserve0_ok. Qed.
Print Assumptions C06_reserve0_total.

Theorem C06_size0_regression :
  agrees (init_sys [(16, 2)]) spec0 [RDiscard 0; OAlloc 16; WReserve []; RDiscard 0].
Proof. exact size0_regression. Qed.
Print Assumptions C06_size0_regression.

Theorem C06_partial_reader : forall ops s sp,
  WF (mem s) (rcv s) -> content (mem s) (rcv s) = av sp -> len (snd s) = Z.of_nat (length (pw sp)) ->
  covered_all sp ops -> agrees s sp ops.
Proof. exact reader_refines. Qed.
Print Assumptions C06_partial_reader.

Theorem C06_partial_fallback : forall cfg ds ops,
  Forall (fun d => d <> []) ds ->
  let s0 := init_sys cfg in
  exists l', move_to (mem s0) (rcv s0) (map (fun d => PFallback (fallback_slice d)) ds) = Ok (mem s0, l')
    /\ (covered_all {| pw := []; infl := []; av := concat ds |} ops ->
        agrees (with_mem_rcv s0 (mem s0) l') {| pw := []; infl := []; av := concat ds |} ops).
Proof. exact fallback_pipe_refines. Qed.
Print Assumptions C06_partial_fallback.

(* non-vacuity: classes 16 x 4 and 64 x 3; a 40-byte write lands in a 64-byte slot, a 100-byte write
   spans slots, both travel through shared memory; the reader takes 16 (fast path, zero copy),
   peeks 30 (slow path over the chain), discards 25 over a slice edge, reads a string to the end *)
Fixpoint outs (s : sys) (ops : list op) : list (option res) :=
  match ops with
  | [] => []
  | o :: r => match step s o with Ok (y, s') => Some y :: outs s' r | _ => [None] end
  end.
Example C06_example_run :
  let bs := map Z.of_nat (seq 0 140) in
  outs (init_sys [(16, 4); (64, 3)])
       [WBytes (firstn 40 bs); WFlush; WBytes (skipn 40 bs); WFlush;
        RBytes 16; RPeek 30; RDiscard 25; RString 99; RRelease]
  = map Some [RN 40; RUnit; RN 100; RUnit; RData (firstn 16 bs); RData (firstn 30 (skipn 16 bs)); RN 25;
              RData (skipn 41 bs); RUnit].
Proof. vm_compute. reflexivity. Qed.
