(* C09 — All shared memory comes back once streams are finished.
   Only the property theorems (closed by `exact`), their axiom reports and a non-vacuity example.
   Model: Model/Accounting.v; proofs: Proofs/AccountingProofs.v.

   Quantification: every number of slots n, every queue capacity qc (also 0 and negative = always
   full), every history h of the labels of Model/Accounting.v on both endpoints — opens, writes with ANY
   allocation outcome (any set of free slots, none = allocation failure/heap fallback), flushes with any
   byte counts (queue full, non-open stream, fallback included), runs of either event loop at any
   point (data for unknown / closed streams included), ReadBytes/Discard/Peek of any size, releases,
   pool reuse, closes from either side, the application holding and returning slots, elements injected
   for arbitrary stream ids.  A label that is not enabled is a no-op, so every list of labels is a
   history - writes, Reserve and flushes AFTER a stream's Close included.  [init f g n qc]: f = true is the
   model of linkedBuffer.recycle() that also cleans the pinned list (f = false: the code before a234a74);
   g = true the model of a write side that takes no shared memory for a closed stream (g = false: no state
   check in linkedBuffer).  Which variant /repo is, is decided by Gen/SwitchC09.v, regenerated from
   buffer.go on every run; the headline theorems are stated for that variant. *)
From Coq Require Import List ZArith Lia Bool Arith Permutation.
From Shm Require Import Gen.Consts Gen.SwitchC09 Model.Accounting Proofs.AccountingProofs Model.AccountingConc Proofs.AccountingConcProofs.
Import ListNotations.
Open Scope Z_scope.

(* the location lists (free, held by the application, pinned lists of dead stream objects, the two
   queues, and per stream: send buffer, receive buffer, pinned list, pending data), concatenated, are a
   permutation of the slots: pairwise disjoint and covering *)
Theorem C09_inv : forall f g n qc h,
  Permutation (all_slots (run (init f g n qc) h)) (map Z.of_nat (seq 0 n)).
Proof. exact inv_thm. Qed.
Print Assumptions C09_inv.

Theorem C09_inv_disjoint_cover : forall f g n qc h,
  let s := run (init f g n qc) h in
  NoDup (all_slots s) /\ forall x, In x (all_slots s) <-> (0 <= x < Z.of_nat n).
Proof. exact inv_nodup_cover. Qed.
Print Assumptions C09_inv_disjoint_cover.

(* THE statement, for the tree as it is (the switch is regenerated from buffer.go on every run: true =
   linkedBuffer.recycle() cleans the pinned list, a234a74): once every stream is closed on both ends,
   nothing is in flight and the application holds nothing, every slot is free (in-use = 0) — whatever
   happened before.  If the call disappears from recycle() the switch becomes false and this file no
   longer compiles. *)
Theorem C09 : forall n qc h,
  let s := run (init sw_recycle_cleans_pinned sw_write_after_close_rejected n qc) h in
  (ext s = [] /\ q_srv s = [] /\ q_cli s = [] /\ forall k, alive (streams s k) = false) ->
  Permutation (free s) (map Z.of_nat (seq 0 n)) /\ length (free s) = n.
Proof. exact fixed_thm. Qed.
Print Assumptions C09.

(* "Flush error exits recycle the outgoing chain" - for EVERY exit of Flush: whatever Flush returns (nil,
   ErrStreamClosed for a stream that is not open, ErrQueueFull after the retries, or the result of the socket send
   of the fallback path - ErrConnectionWriteTimeout with the session still alive included, because writeFallback
   recycles BEFORE it sends and independently of the send's outcome) the flushing stream's send buffer holds no
   slice afterwards ... *)
Theorem C09_flush_leaves_no_slice : forall e sid sizes wpos s,
  0 < sumz sizes -> sendb (streams (do_flush e sid sizes wpos s) (key e sid)) = [].
Proof. exact flush_leaves_no_slice. Qed.
Print Assumptions C09_flush_leaves_no_slice.

(* ... and on every exit that does not hand the chain to the peer (stream not open / fallback / queue full) every
   slice of the send buffer is back in the free lists *)
Theorem C09_flush_error_exits_recycle : forall e sid sizes wpos s x,
  0 < sumz sizes ->
  (let v := streams s (key e sid) in
   negb (is_open v) || (sheap v || infb v) || (Z.of_nat (length (queue_to (negb e) s)) >=? qcap s)) = true ->
  In x (sendb (streams s (key e sid))) -> In x (free (do_flush e sid sizes wpos s)).
Proof. exact flush_error_exits_recycle. Qed.
Print Assumptions C09_flush_error_exits_recycle.

(* for either variant of recycle(): nothing is lost in any history in which each Close finds an empty
   pinned list (ReleasePreviousRead before Close); with the switch on, the hypothesis is void *)
Theorem C09_either_variant : forall f g n qc h,
  guarded (fun s l => match l with
                      | Close e sid => fx s = true \/ pinned (streams s (key e sid)) = []
                      | Write e sid _ _ => gx s = true \/ alive (streams s (key e sid)) = true
                      | _ => True
                      end) (init f g n qc) h ->
  let s := run (init f g n qc) h in
  (ext s = [] /\ q_srv s = [] /\ q_cli s = [] /\ forall k, alive (streams s k) = false) ->
  Permutation (free s) (map Z.of_nat (seq 0 n)) /\ length (free s) = n.
Proof. exact partial_thm. Qed.
Print Assumptions C09_either_variant.

(* ---- every interleaving of user calls with the two event loops (Model/AccountingConc.v) ----
   Labels are the critical sections of the code: the event loop pops ONE element and looks the stream up
   (streamLock), adds it to pendingData (pendingData lock), re-checks the state (late-data path under
   recycleMux); Stream.close() is six steps (CAS, table delete, pendingData.clear, recvBuf.recycle,
   sendBuf.recycle, notification); moveTo and the reads are separate; stream OBJECTS (what owners and event
   loops hold pointers to) are distinct from ids (the server may accept a new object for an id whose old
   object is still being closed).  Any number of objects/owners; every list of labels is an interleaving. *)
Theorem C09_inv_interleaved : forall f g n qc h,
  Permutation (call_slots (crun (cinit f g n qc) h)) (map Z.of_nat (seq 0 n)).
Proof. exact cinv_thm. Qed.
Print Assumptions C09_inv_interleaved.

(* current tree: once every stream object is closed and its close() has returned, both event loops are
   between elements, nothing is in flight and the application holds nothing, every slot is free -
   whichever way closes, late data, lookups and re-created streams interleaved before *)
Theorem C09_interleaved : forall n qc h,
  let s := crun (cinit sw_recycle_cleans_pinned sw_write_after_close_rejected n qc) h in
  (cext s = [] /\ cq_srv s = [] /\ cq_cli s = [] /\ loop_c s = LIdle /\ loop_s s = LIdle /\
   forall o, (o < nobjs s)%nat -> ocpc (objs s o) = 6%nat) ->
  Permutation (cfree s) (map Z.of_nat (seq 0 n)) /\ length (cfree s) = n.
Proof. exact cfinished_thm. Qed.
Print Assumptions C09_interleaved.

(* non-vacuity of the interleaved model: the late-data race.  The server's loop pops the element and
   finds the stream (PollOne) BEFORE the owner's close() starts; the owner runs CAS, table delete and
   pendingData.clear; only then the loop adds the data to the closed object (LoopAdd) - the slot sits in
   pendingData of a closed, unreachable stream - and the re-check (LoopCheck) gives it back.  A second
   element for the same id then makes the server accept a NEW object while the old one is still closing. *)
Example C09_late_data_interleaving :
  let h := [COpen 1%nat; CWrite 0%nat [0] false; CFlush 0%nat [100] 0%nat;
            PollOne true;                                   (* server loop holds (object 1, data) *)
            CWrite 0%nat [1] false; CFlush 0%nat [50] 0%nat;  (* a second message is in flight *)
            CloseStep 1%nat; CloseStep 1%nat; CloseStep 1%nat;   (* CAS, table delete, pendingData.clear *)
            LoopAdd true] in
  let s1 := crun (cinit true true 4 8) h in
  let s2 := crun s1 [LoopCheck true; PollOne true; LoopAdd true; LoopCheck true;
                     CloseStep 1%nat; CloseStep 1%nat; CloseStep 1%nat] in
  (pslots (opend (objs s1 1)), oclosed (objs s1 1), tbl s1 (key true 1)) = ([0], true, None) /\
  (length (cfree s2), nobjs s2, tbl s2 (key true 1), pslots (opend (objs s2 2)), ocpc (objs s2 1)) = (3%nat, 3%nat, Some 2%nat, [1], 6%nat).
Proof. vm_compute. split; reflexivity. Qed.

(* regression, about the code WITHOUT the state check on the write side: a WriteBytes after the local
   Close allocates a slice that nothing returns unless the user also flushes *)
Example C09_write_after_close_leaked :
  ~ (forall n qc h,
     let s := run (init true false n qc) h in
     (ext s = [] /\ q_srv s = [] /\ q_cli s = [] /\ forall k, alive (streams s k) = false) ->
     Permutation (free s) (map Z.of_nat (seq 0 n)) /\ length (free s) = n).
Proof. exact write_after_close_refuted. Qed.

(* regression, about the OLD code only (recycle() without cleanPinnedList, before a234a74): the same
   statement was false — the pinned-at-Close history leaves slot 0 in the pinned list of a dead stream *)
Example C09_old_code_leaked :
  ~ (forall n qc h,
     let s := run (init false true n qc) h in
     (ext s = [] /\ q_srv s = [] /\ q_cli s = [] /\ forall k, alive (streams s k) = false) ->
     Permutation (free s) (map Z.of_nat (seq 0 n)) /\ length (free s) = n).
Proof. exact full_refuted. Qed.

(* non-vacuity: a history with queue full, a flush on a half-closed stream, data for an unknown
   stream, an allocation failure with fallback, partial reads and a release; everything is closed at the
   end and all 6 slots are free again *)
Example C09_example_run :
  let h := [Open 1%nat; Write false 1%nat [0; 1] false; Flush false 1%nat [100; 50] 1%nat; Poll true;
            Read true 1%nat RBytes 120; Release true 1%nat;
            ExtHold [2; 3]; Inject true 9%nat [(2, 10)]; Inject true 11%nat [(3, 10)];
            Write false 1%nat [4] false; Flush false 1%nat [7] 0%nat;          (* queue full (qcap 2): recycled *)
            Poll true; Close true 1%nat; Poll false;
            Write false 1%nat [5] false; Flush false 1%nat [9] 0%nat;          (* stream half-closed: recycled *)
            Write false 1%nat [] true; Flush false 1%nat [30] 0%nat;           (* heap slice on a closed stream *)
            Close false 1%nat; Poll true; Close true 9%nat; Close true 11%nat; Poll false; Read true 1%nat RDiscard 30] in
  let s := run (init false false 6 2) h in
  (length (free s), ext s, leaked s, q_srv s, q_cli s, keys s) = (6%nat, [], [], [], [], [2; 3; 19; 23]%nat) /\
  map (fun k => alive (streams s k)) (keys s) = [false; false; false; false].
Proof. vm_compute. split; reflexivity. Qed.

(* the old-code witness leaks exactly the pinned slot; on the current model it does not *)
Example C09_witness :
  length (free (run (init true true 4 8) witness_pinned)) = 4%nat /\ leaked (run (init false true 4 8) witness_pinned) = [0] /\
  length (free (run (init true true 4 8) witness_write_after_close)) = 4%nat /\
  sendb (streams (run (init true false 4 8) witness_write_after_close) 2) = [0].
Proof. exact witness_fixed_ok. Qed.
