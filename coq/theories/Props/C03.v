(* C03 — Both processes derive the same memory layout from any configuration.
   This file contains only the property theorems (closed by `exact`), their axiom reports and
   non-vacuity examples.  Model: Model/Layout.v; proofs and statement vocabulary: Proofs/LayoutProofs.v.

   Quantification: every list of (size, percent) pairs (any length, any order, ANY percentages,
   sizes bounded by the mapping length as VerifyConfig demands), every mapping length, every initial
   content of the memory; every queue capacity.  Numbers are Z; the uint32/uint64/uint16 arithmetic
   of the Go code is explicit in the model.

   Status.  The full statements (C03_*_full) are FALSE of the faithful model at the 4 GiB corner and
   are refuted below by computed witnesses; the strongest proved versions carry exactly the guards
   the proofs forced:
     (G1) memLen + 36 < 2^32     mapping shorter than 4 GiB - 36 B (implies size + 20 < 2^32)
     (G2) 24 + 12*cap < 2^32     queue byte size does not wrap
     (G3) #pairs < 65536         the list count is stored in a uint16 (only needed for the peer view;
                                 no refuting input is known under G1 — VerifyConfig's sum=100 rule
                                 allows at most 100 classes)
   A negative region capacity (more list headers than bytes) needs NO guard: the bounds checks of
   createFreeBufferList reject or contain it. *)
From Coq Require Import List ZArith Lia Bool.
From Shm Require Import Gen.Consts Model.Layout Proofs.LayoutProofs.
Import ListNotations.
Open Scope Z_scope.

(* ---------------------------------------------------------------------------------------------- *)
(* the full statements *)

(* createBufferManager fails with an error, or yields classes (one per pair, capPerBuffer = the
   configured size, at least one slot each) whose slots are pairwise disjoint within and across
   classes, lie inside the mapping, behind their own list header and the manager header, and no list
   header overlaps another header or a slot.  It never panics. *)
Definition C03_buffers_full : Prop :=
  forall pairs memLen m0,
    0 <= memLen < 9223372036854775808 -> uint32_pairs pairs -> pairs_ok memLen pairs ->
    match create_bm pairs memLen m0 with
    | Err _ => True
    | Panic _ => False
    | Ok (cs, _) =>
      map cl_capPerBuffer cs = map fst pairs /\
      Forall (fun c => 1 <= cl_cap c) cs /\
      slots_in_bounds memLen cs /\ slots_disjoint cs /\ headers_clear cs
    end.

(* a peer that maps the memory the creator wrote reconstructs exactly the creator's classes:
   capPerBuffer, cap, size, region offset, region length, head, tail, header offset *)
Definition C03_peer_view_full : Prop :=
  forall pairs memLen m0 cs m',
    0 <= memLen < 9223372036854775808 -> uint32_pairs pairs -> pairs_ok memLen pairs ->
    create_bm pairs memLen m0 = Ok (cs, m') -> map_bm memLen m' = Ok cs.

(* the queue pair: both queues hold `cap` elements directly behind their 24-byte headers, lie in the
   mapping, do not overlap, and the mapping side's send queue IS the creating side's receive queue
   (same capacity, same header-field addresses, same ring) and vice versa.  create_qm / map_qm place
   the queues on the halves given by the generated indices off_halves_* of Gen/Consts.v *)
Definition C03_queues_full : Prop :=
  forall cap m, 0 <= cap < 4294967296 ->
    exists A memSize m' B,
      create_qm cap m = Ok (A, memSize, m') /\ map_qm memSize m' = Ok B /\
      queues_ok cap A memSize /\
      qm_send B = qm_recv A /\ qm_recv B = qm_send A.

(* ---------------------------------------------------------------------------------------------- *)
(* buffers *)
Theorem C03_buffers_partial : forall pairs memLen m0,
  0 <= memLen -> pairs_ok memLen pairs ->
  memLen + c_bufferListHeaderSize < 4294967296 ->                         (* G1 *)
  match create_bm pairs memLen m0 with
  | Err _ => True
  | Panic _ => False
  | Ok (cs, _) =>
    map cl_capPerBuffer cs = map fst pairs /\
    Forall (fun c => 1 <= cl_cap c) cs /\
    slots_in_bounds memLen cs /\ slots_disjoint cs /\ headers_clear cs
  end.
Proof. exact buffers_partial. Qed.
Print Assumptions C03_buffers_partial.

(* without G1, first witness: a 4 GiB - 1 mapping and one slice size of 2^32 - 20: size + 20 wraps to
   0 and createBufferManager divides by zero *)
Theorem C03_buffers_refuted : ~ C03_buffers_full.
Proof. exact buffers_refuted. Qed.
Print Assumptions C03_buffers_refuted.

(* without G1, second witness, all sizes far below 2^32 - 20: three one-slot classes and a percentage
   of 2^32 - 1 (LayoutProofs.wit_caseB); the third region is placed at offset 0, over the manager
   header and the first class *)
Theorem C03_buffers_refuted_small_sizes : ~ C03_buffers_full.
Proof. exact buffers_refuted_small_sizes. Qed.
Print Assumptions C03_buffers_refuted_small_sizes.

(* ---------------------------------------------------------------------------------------------- *)
(* peer view *)
Theorem C03_peer_view_partial : forall pairs memLen m0 cs m',
  0 <= memLen -> pairs_ok memLen pairs ->
  memLen + c_bufferListHeaderSize < 4294967296 ->                         (* G1 *)
  Z.of_nat (length pairs) < 65536 ->                                      (* G3 *)
  create_bm pairs memLen m0 = Ok (cs, m') -> map_bm memLen m' = Ok cs.
Proof. exact peer_view_partial. Qed.
Print Assumptions C03_peer_view_partial.

(* the same witness: the creator accepts, the mapper returns an error *)
Theorem C03_peer_view_refuted : ~ C03_peer_view_full.
Proof. exact peer_view_refuted. Qed.
Print Assumptions C03_peer_view_refuted.

(* the offsets at which the mapping side reads the geometric header fields are the offsets at which
   the creating side writes them (both generated from the Go source); fields do not overlap *)
Theorem C03_offsets_agree :
  off_map_list_size = off_create_list_size /\ off_map_list_cap = off_create_list_cap /\
  off_map_list_head = off_create_list_head /\ off_map_list_tail = off_create_list_tail /\
  off_map_list_capPerBuffer = off_create_list_capPerBuffer.
Proof. exact offsets_agree. Qed.
Print Assumptions C03_offsets_agree.

(* the initial free chain written by createFreeBufferList (model: the loop itself, initial_chain) links
   slot i, at i*(capPerBuffer+20) in the region, to slot i+1 and leaves the last slot — the tail —
   without successor: walking it from head = 0 visits exactly the slots of C03_buffers, each once.
   The side condition holds for every class created under G1. *)
Theorem C03_initial_chain : forall num cpb,
  0 <= cpb -> 0 <= num -> num * (cpb + c_bufferHeaderSize) < 4294967296 ->
  initial_chain num cpb =
  map (fun k => let i := Z.of_nat k in
                (i * (cpb + c_bufferHeaderSize),
                 if i <? num - 1 then Some ((i + 1) * (cpb + c_bufferHeaderSize)) else None))
      (seq 0 (Z.to_nat num)).
Proof. exact initial_chain_spec. Qed.
Print Assumptions C03_initial_chain.

(* ---------------------------------------------------------------------------------------------- *)
(* queues *)
Theorem C03_queues_partial : forall cap m,
  0 <= cap ->
  c_queueHeaderLength + c_queueElementLen * cap < 4294967296 ->           (* G2 *)
  exists A memSize m' B,
    create_qm cap m = Ok (A, memSize, m') /\ map_qm memSize m' = Ok B /\
    queues_ok cap A memSize /\
    qm_send B = qm_recv A /\ qm_recv B = qm_send A.
Proof. exact queues_spec. Qed.
Print Assumptions C03_queues_partial.

(* the same for the memfd back-end (createQueueManagerWithMemFd / mappingQueueManagerMemfd) *)
Theorem C03_queues_memfd_partial : forall cap m,
  0 <= cap ->
  c_queueHeaderLength + c_queueElementLen * cap < 4294967296 ->           (* G2 *)
  exists A memSize m' B,
    create_qm_memfd cap m = Ok (A, memSize, m') /\ map_qm_memfd memSize m' = Ok B /\
    queues_ok cap A memSize /\
    qm_send B = qm_recv A /\ qm_recv B = qm_send A.
Proof. exact queues_spec_memfd. Qed.
Print Assumptions C03_queues_memfd_partial.

(* the cross-wiring on the half indices generated from the four functions of queue.go
   (0 = mem[:size/2], 1 = mem[size/2:]): create.send = map.recv, create.recv = map.send, and the two
   queues of one side sit on different halves — for both back-ends.  A wiring edit in the Go source
   changes Gen/Consts.v and is re-checked here (and in the two theorems above) at coqc time. *)
Theorem C03_cross_wiring :
  (off_halves_mappingQueueManager_sendQueue = off_halves_createQueueManager_recvQueue /\
   off_halves_mappingQueueManager_recvQueue = off_halves_createQueueManager_sendQueue /\
   ((off_halves_createQueueManager_sendQueue = 0 /\ off_halves_createQueueManager_recvQueue <> 0) \/
    (off_halves_createQueueManager_sendQueue <> 0 /\ off_halves_createQueueManager_recvQueue = 0))) /\
  (off_halves_mappingQueueManagerMemfd_sendQueue = off_halves_createQueueManagerWithMemFd_recvQueue /\
   off_halves_mappingQueueManagerMemfd_recvQueue = off_halves_createQueueManagerWithMemFd_sendQueue /\
   ((off_halves_createQueueManagerWithMemFd_sendQueue = 0 /\ off_halves_createQueueManagerWithMemFd_recvQueue <> 0) \/
    (off_halves_createQueueManagerWithMemFd_sendQueue <> 0 /\ off_halves_createQueueManagerWithMemFd_recvQueue = 0))).
Proof. exact (conj wiring_file wiring_memfd). Qed.
Print Assumptions C03_cross_wiring.

(* without G2: cap = 357913940, 24 + 12*cap = 2^32 + 8, data[24:8] panics *)
Theorem C03_queues_refuted : ~ C03_queues_full.
Proof. exact queues_refuted. Qed.
Print Assumptions C03_queues_refuted.

(* ---------------------------------------------------------------------------------------------- *)
(* the function evaluated by the correspondence check is the model *)
Theorem C03_corr_evaluates_model : forall pairs memLen m0,
  create_bm_fast pairs memLen m0 = create_bm pairs memLen m0.
Proof. exact create_bm_fast_eq. Qed.
Print Assumptions C03_corr_evaluates_model.

(* ---------------------------------------------------------------------------------------------- *)
(* non-vacuity: a 1 MiB mapping (initial content garbage) with three unsorted classes is accepted
   with 307 + 3145 + 102 slots, uses 1046776 of the 1048576 bytes, and the peer sees the same classes *)
Example C03_example_layout :
  let pairs := [(1004, 30); (80, 30); (4076, 40)] in
  match create_bm pairs 1048576 (fun _ => 2779096485) with
  | Ok (cs, m') =>
    map cl_cap cs = [307; 3145; 102] /\ map cl_regionOff cs = [44; 314448; 628984] /\
    map cl_tail cs = [313344; 314400; 413696] /\ map_bm 1048576 m' = Ok cs
  | _ => False
  end.
Proof. vm_compute. repeat split. Qed.

(* non-vacuity for the queues: capacity 3 *)
Example C03_example_queues :
  match create_qm 3 (fun _ => 0) with
  | Ok (A, memSize, m') =>
    memSize = 120 /\ q_lo (qm_send A) = 24 /\ q_hi (qm_send A) = 60 /\ q_lo (qm_recv A) = 84 /\
    q_hi (qm_recv A) = 120 /\
    map_qm memSize m' = Ok {| qm_send := qm_recv A; qm_recv := qm_send A |}
  | _ => False
  end.
Proof. vm_compute. repeat split. Qed.
