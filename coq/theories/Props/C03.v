(* C03 — Both processes derive the same memory layout from any configuration.
   This file contains only the property theorems (closed by `exact`), their axiom reports and
   non-vacuity examples.  Model: Model/Layout.v; proofs and statement vocabulary: Proofs/LayoutProofs.v.

   Quantification: every list of (size, percent) pairs (any length, any order, ANY percentages,
   sizes bounded by the mapping length as VerifyConfig demands), every mapping length, every initial
   content of the memory; every queue capacity.  Numbers are Z; the uint32/uint64/uint16 arithmetic
   of the Go code is explicit in the model.

   Status.
   * Queues: the full statement holds (C03_queues, C03_queues_memfd) since /repo 97d22d3.
   * Buffers / peer view, arbitrary inputs: the full statements (C03_buffers_full, C03_peer_view_full:
     ANY uint32 percentages, any mapping length) are FALSE of the faithful model at the 4 GiB corner and
     are refuted below by computed witnesses; proved under the forced guards
       (G1) memLen + 36 < 2^32     mapping shorter than 4 GiB - 36 B (implies size + 20 < 2^32)
       (G3) #pairs < 65536         the list count is a uint16 (peer view only)
     (C03_buffers_partial, C03_peer_view_partial).  A negative region capacity (more list headers than
     bytes) needs NO guard: the bounds checks of createFreeBufferList reject or contain it.
   * Buffers / peer view, configurations the real code ACCEPTS (config_ok = what VerifyConfig and the
     type of Config.ShareMemoryBufferCap enforce: capacity < 2^32, at least one pair, every size <=
     capacity, percentages summing to 100 IN INT): C03_buffers_config and C03_peer_view_config hold up
     to the last byte below 4 GiB, with ONE extra hypothesis the code does not enforce:
       (H2) 36*#pairs + 8 <= capacity.  VerifyConfig does not bound the number of pairs; together with
            C03_buffers_partial the only accepted configurations left uncovered have a capacity within
            36 bytes of 4 GiB AND more than 119 million pairs.
     (The former hypothesis H1, size + 20 < 2^32, is gone: since /repo db4e530 createBufferManager rejects
     a size whose stride wraps instead of dividing by zero — C03_regression_slice_size_wrap.)
     The refuting witness (wit_caseB: a percentage of 2^32-1) is rejected by VerifyConfig — its percent
     sum in int is 4294967318, not 100 — and so is every configuration with a wrapping percentage
     (C03_refutation_vs_VerifyConfig). *)
From Coq Require Import List ZArith Lia Bool.
From Shm Require Import Gen.Consts Model.Layout Proofs.LayoutProofs.
Import ListNotations.
Open Scope Z_scope.

(* ---------------------------------------------------------------------------------------------- *)
(* the full statements *)

(* createBufferManager fails with an error, or yields classes (one per pair, capPerBuffer = the
   configured size, at least one slot each) whose slots are pairwise disjoint within and across
   classes, lie inside the mapping, behind their own list header and the manager header, and no list
   header overlaps another header or a slot.  It never panics. *)
Definition C03_buffers_full : Prop :=
  forall pairs memLen m0,
    0 <= memLen < 9223372036854775808 -> uint32_pairs pairs -> pairs_ok memLen pairs ->
    match create_bm pairs memLen m0 with
    | Err _ => True
    | Panic _ => False
    | Ok (cs, _) =>
      map cl_capPerBuffer cs = map fst pairs /\
      Forall (fun c => 1 <= cl_cap c) cs /\
      slots_in_bounds memLen cs /\ slots_disjoint cs /\ headers_clear cs
    end.

(* a peer that maps the memory the creator wrote reconstructs exactly the creator's classes:
   capPerBuffer, cap, size, region offset, region length, head, tail, header offset *)
Definition C03_peer_view_full : Prop :=
  forall pairs memLen m0 cs m',
    0 <= memLen < 9223372036854775808 -> uint32_pairs pairs -> pairs_ok memLen pairs ->
    create_bm pairs memLen m0 = Ok (cs, m') -> map_bm memLen m' = Ok cs.

(* the queue pair: both queues hold `cap` elements directly behind their 24-byte headers, lie in the
   mapping, do not overlap, and the mapping side's send queue IS the creating side's receive queue
   (same capacity, same header-field addresses, same ring) and vice versa.  create_qm / map_qm place
   the queues on the halves given by the generated indices off_halves_* of Gen/Consts.v *)
Definition C03_queues_full : Prop :=
  forall cap m, 0 <= cap < 4294967296 ->
    exists A memSize m' B,
      create_qm cap m = Ok (A, memSize, m') /\ map_qm memSize m' = Ok B /\
      queues_ok cap A memSize /\
      qm_send B = qm_recv A /\ qm_recv B = qm_send A.

(* ---------------------------------------------------------------------------------------------- *)
(* buffers *)
Theorem C03_buffers_partial : forall pairs memLen m0,
  0 <= memLen -> pairs_ok memLen pairs ->
  memLen + c_bufferListHeaderSize < 4294967296 ->                         (* G1 *)
  match create_bm pairs memLen m0 with
  | Err _ => True
  | Panic _ => False
  | Ok (cs, _) =>
    map cl_capPerBuffer cs = map fst pairs /\
    Forall (fun c => 1 <= cl_cap c) cs /\
    slots_in_bounds memLen cs /\ slots_disjoint cs /\ headers_clear cs
  end.
Proof. exact buffers_partial. Qed.
Print Assumptions C03_buffers_partial.

(* without G1 and with arbitrary uint32 percentages: a 4 GiB - 1 mapping, three one-slot classes with
   sizes far below 2^32 and a percentage of 2^32 - 1 (LayoutProofs.wit_caseB); the third region is
   placed at offset 0, over the manager header and the first class *)
Theorem C03_buffers_refuted : ~ C03_buffers_full.
Proof. exact buffers_refuted. Qed.
Print Assumptions C03_buffers_refuted.

(* configurations the code accepts (VerifyConfig + uint32 capacity) plus H2: valid up to 4 GiB - 1 *)
Theorem C03_buffers_config : forall pairs memLen m0,
  config_ok memLen pairs ->
  match create_bm pairs memLen m0 with
  | Err _ => True
  | Panic _ => False
  | Ok (cs, _) =>
    map cl_capPerBuffer cs = map fst pairs /\
    Forall (fun c => 1 <= cl_cap c) cs /\
    slots_in_bounds memLen cs /\ slots_disjoint cs /\ headers_clear cs
  end.
Proof. exact buffers_config. Qed.
Print Assumptions C03_buffers_config.

(* the refuting witness is not a configuration the real code accepts: VerifyConfig sums the percentages
   in int and demands 100 *)
Theorem C03_refutation_vs_VerifyConfig : sum_pct wit_caseB <> 100.
Proof. exact wit_caseB_rejected_by_VerifyConfig. Qed.
Print Assumptions C03_refutation_vs_VerifyConfig.

(* regression (documents the behaviour repaired by db4e530, fixed known finding
   "C03:slice-size-plus-header-wraps"): capacity 2^32 - 1 with the single pair (2^32 - 20, 100) is accepted
   by VerifyConfig (it is config_ok); the uint32 stride Size + 20 is 0 — the divisor of the former
   integer divide by zero — and createBufferManager now returns an error *)
Example C03_regression_slice_size_wrap :
  config_ok wit_mem wit_div0 /\
  w32 (4294967276 + c_bufferHeaderSize) = 0 /\ create_bm wit_div0 wit_mem zero_mem = Err 6.
Proof. exact (conj wit_div0_config_ok wit_div0_regression). Qed.

(* ---------------------------------------------------------------------------------------------- *)
(* peer view *)
Theorem C03_peer_view_config : forall pairs memLen m0 cs m',
  config_ok memLen pairs ->
  create_bm pairs memLen m0 = Ok (cs, m') -> map_bm memLen m' = Ok cs.
Proof. exact peer_view_config. Qed.
Print Assumptions C03_peer_view_config.

Theorem C03_peer_view_partial : forall pairs memLen m0 cs m',
  0 <= memLen -> pairs_ok memLen pairs ->
  memLen + c_bufferListHeaderSize < 4294967296 ->                         (* G1 *)
  Z.of_nat (length pairs) < 65536 ->                                      (* G3 *)
  create_bm pairs memLen m0 = Ok (cs, m') -> map_bm memLen m' = Ok cs.
Proof. exact peer_view_partial. Qed.
Print Assumptions C03_peer_view_partial.

(* the same witness: the creator accepts, the mapper returns an error *)
Theorem C03_peer_view_refuted : ~ C03_peer_view_full.
Proof. exact peer_view_refuted. Qed.
Print Assumptions C03_peer_view_refuted.

(* The peer's view does not depend on the allocation state at the moment it maps.  The allocator
   (bufferList.pop / push, on either side) changes only the size, head and tail words of the list
   headers (state_cell: the addresses of those three words of every class).  For EVERY memory m2 that
   differs from what the creator wrote at most in those words — any number of allocations and
   releases, any values at all — mappingBufferManager yields the creator's classes with unchanged
   header offset, region offset, region length, cap and capPerBuffer (restate m2 c = c with
   size/head/tail re-read from m2): every extent is derived from the cap and capPerBuffer words. *)
Theorem C03_peer_view_independent_of_allocation_state : forall pairs memLen m0 cs m',
  config_ok memLen pairs -> create_bm pairs memLen m0 = Ok (cs, m') ->
  forall m2, (forall a, ~ state_cell cs a -> m2 a = m' a) ->
  map_bm memLen m2 = Ok (map (restate m2) cs) /\
  Forall (fun c => cl_off (restate m2 c) = cl_off c /\ cl_regionOff (restate m2 c) = cl_regionOff c /\
                   cl_regionLen (restate m2 c) = cl_regionLen c /\ cl_cap (restate m2 c) = cl_cap c /\
                   cl_capPerBuffer (restate m2 c) = cl_capPerBuffer c) cs.
Proof. exact peer_view_independent_config_geom. Qed.
Print Assumptions C03_peer_view_independent_of_allocation_state.

(* the same for arbitrary uint32 percentages under G1, G3 *)
Theorem C03_peer_view_independent_of_allocation_state_partial : forall pairs memLen m0 cs m',
  0 <= memLen -> pairs_ok memLen pairs ->
  memLen + c_bufferListHeaderSize < 4294967296 -> Z.of_nat (length pairs) < 65536 ->
  create_bm pairs memLen m0 = Ok (cs, m') ->
  forall m2, (forall a, ~ state_cell cs a -> m2 a = m' a) ->
  map_bm memLen m2 = Ok (map (restate m2) cs).
Proof. exact peer_view_independent_partial. Qed.
Print Assumptions C03_peer_view_independent_of_allocation_state_partial.

(* the offsets at which the mapping side reads the geometric header fields are the offsets at which
   the creating side writes them (both generated from the Go source); fields do not overlap *)
Theorem C03_offsets_agree :
  off_map_list_size = off_create_list_size /\ off_map_list_cap = off_create_list_cap /\
  off_map_list_head = off_create_list_head /\ off_map_list_tail = off_create_list_tail /\
  off_map_list_capPerBuffer = off_create_list_capPerBuffer.
Proof. exact offsets_agree. Qed.
Print Assumptions C03_offsets_agree.

(* the initial free chain written by createFreeBufferList (model: the loop itself, initial_chain) links
   slot i, at i*(capPerBuffer+20) in the region, to slot i+1 and leaves the last slot — the tail —
   without successor: walking it from head = 0 visits exactly the slots of C03_buffers, each once.
   The side condition holds for every class created under G1. *)
Theorem C03_initial_chain : forall num cpb,
  0 <= cpb -> 0 <= num -> num * (cpb + c_bufferHeaderSize) < 4294967296 ->
  initial_chain num cpb =
  map (fun k => let i := Z.of_nat k in
                (i * (cpb + c_bufferHeaderSize),
                 if i <? num - 1 then Some ((i + 1) * (cpb + c_bufferHeaderSize)) else None))
      (seq 0 (Z.to_nat num)).
Proof. exact initial_chain_spec. Qed.
Print Assumptions C03_initial_chain.

(* ---------------------------------------------------------------------------------------------- *)
(* queues *)
(* holds for EVERY uint32 capacity since /repo commit 97d22d3 (ring end computed in int).  What the
   model does not contain and the theorem therefore does not speak about: the size of the mapping is
   a Go int (2*(24+12*cap) < 2^37, no wrap on the 64-bit platforms the library supports); whether
   ftruncate/mmap of that many bytes succeeds is the kernel's business (an error, not a layout); the
   arm64 branch of mappingQueueFromBytes (other header-field offsets, QueueCap % 8 = 0 demanded by
   VerifyConfig) is not modelled. *)
Theorem C03_queues : C03_queues_full.
Proof. exact queues_full_holds. Qed.
Print Assumptions C03_queues.

(* the same for the memfd back-end (createQueueManagerWithMemFd / mappingQueueManagerMemfd) *)
Theorem C03_queues_memfd : forall cap m, 0 <= cap < 4294967296 ->
  exists A memSize m' B,
    create_qm_memfd cap m = Ok (A, memSize, m') /\ map_qm_memfd memSize m' = Ok B /\
    queues_ok cap A memSize /\
    qm_send B = qm_recv A /\ qm_recv B = qm_send A.
Proof. exact queues_full_memfd_holds. Qed.
Print Assumptions C03_queues_memfd.

(* the cross-wiring on the half indices generated from the four functions of queue.go
   (0 = mem[:size/2], 1 = mem[size/2:]): create.send = map.recv, create.recv = map.send, and the two
   queues of one side sit on different halves — for both back-ends.  A wiring edit in the Go source
   changes Gen/Consts.v and is re-checked here (and in the two theorems above) at coqc time. *)
Theorem C03_cross_wiring :
  (off_halves_mappingQueueManager_sendQueue = off_halves_createQueueManager_recvQueue /\
   off_halves_mappingQueueManager_recvQueue = off_halves_createQueueManager_sendQueue /\
   ((off_halves_createQueueManager_sendQueue = 0 /\ off_halves_createQueueManager_recvQueue <> 0) \/
    (off_halves_createQueueManager_sendQueue <> 0 /\ off_halves_createQueueManager_recvQueue = 0))) /\
  (off_halves_mappingQueueManagerMemfd_sendQueue = off_halves_createQueueManagerWithMemFd_recvQueue /\
   off_halves_mappingQueueManagerMemfd_recvQueue = off_halves_createQueueManagerWithMemFd_sendQueue /\
   ((off_halves_createQueueManagerWithMemFd_sendQueue = 0 /\ off_halves_createQueueManagerWithMemFd_recvQueue <> 0) \/
    (off_halves_createQueueManagerWithMemFd_sendQueue <> 0 /\ off_halves_createQueueManagerWithMemFd_recvQueue = 0))).
Proof. exact (conj wiring_file wiring_memfd). Qed.
Print Assumptions C03_cross_wiring.

(* regression (documents the behaviour repaired by 97d22d3, the three fixed known_findings entries "C03:queue-cap-wrap-..."): with
   the former uint32 formula the ring end for cap = 357913940 is 8 — below the 24-byte header, the slice
   expression data[24:8] panicked — and for cap = 357913942 it is 32: a queue that claims 357913942
   elements over a ring of 8 bytes.  The int formula gives 4294967328. *)
Example C03_regression_queue_cap_wrap :
  ring_end_uint32 357913940 = 8 /\ ring_end_uint32 357913942 = 32 /\
  c_queueHeaderLength + 357913942 * c_queueElementLen = 4294967328.
Proof. exact ring_end_uint32_regression. Qed.

(* ---------------------------------------------------------------------------------------------- *)
(* the function evaluated by the correspondence check is the model *)
Theorem C03_corr_evaluates_model : forall pairs memLen m0,
  create_bm_fast pairs memLen m0 = create_bm pairs memLen m0.
Proof. exact create_bm_fast_eq. Qed.
Print Assumptions C03_corr_evaluates_model.

(* ---------------------------------------------------------------------------------------------- *)
(* non-vacuity: a 1 MiB mapping (initial content garbage) with three unsorted classes is accepted
   with 307 + 3145 + 102 slots, uses 1046776 of the 1048576 bytes, and the peer sees the same classes *)
Example C03_example_layout :
  let pairs := [(1004, 30); (80, 30); (4076, 40)] in
  match create_bm pairs 1048576 (fun _ => 2779096485) with
  | Ok (cs, m') =>
    map cl_cap cs = [307; 3145; 102] /\ map cl_regionOff cs = [44; 314448; 628984] /\
    map cl_tail cs = [313344; 314400; 413696] /\ map_bm 1048576 m' = Ok cs
  | _ => False
  end.
Proof. vm_compute. repeat split. Qed.

(* non-vacuity for the queues: capacity 3 *)
Example C03_example_queues :
  match create_qm 3 (fun _ => 0) with
  | Ok (A, memSize, m') =>
    memSize = 120 /\ q_lo (qm_send A) = 24 /\ q_hi (qm_send A) = 60 /\ q_lo (qm_recv A) = 84 /\
    q_hi (qm_recv A) = 120 /\
    map_qm memSize m' = Ok {| qm_send := qm_recv A; qm_recv := qm_send A |}
  | _ => False
  end.
Proof. vm_compute. repeat split. Qed.
