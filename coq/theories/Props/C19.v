(* C19 — The net.Listener / net.Conn adapter behaves like a stream socket.
   Only the property theorems (closed by `exact`), their axiom reports and non-vacuity examples.
   Model: Model/NetAdapter.v; proofs: Proofs/NetAdapterProofs.v.

   Quantification: every backlog capacity c, every list of events `evs` (connects, stream arrivals,
   wraps, the two outcomes of the delivery select and their follow-ups, Accept, wrapper Close — also
   repeated —, session death, any number of possibly overlapping listener.Close calls stepped one
   atomic action at a time (CAS, close(closeCh), every round of the backlog drain, release), any
   number of sessions and streams).  `run` skips an event that is not enabled in the current state, so the
   theorems cover exactly the histories the state machine can produce.

   PROVED here: the reference-count / delivery protocol and the Read/Write contract of the copy
   loops.  NOT proved (observed by the harness): that a goroutine parked in wg.Wait / select is
   eventually scheduled, deadlines (C11), the byte transport itself (C06). *)
From Coq Require Import List ZArith Lia Bool Arith.
From Shm Require Import Model.NetAdapter Proofs.NetAdapterProofs.
Import ListNotations.
Open Scope Z_scope.

(* every wrapper (= one stream handed out by AcceptStream, wrapped once) is in exactly one place:
   delivered by Accept, waiting in the backlog, taken aside by the adapter to be Closed, Closed by the
   adapter, or still at the delivery select; it was sent into the backlog at most once and received
   from it at most once, in FIFO order; and per session: streams arrived = streams still in acceptCh
   + wrappers made + streams closed unwrapped because the listener had already released the session *)
Theorem C19_once : forall c evs, let st := run evs (init c) in
  recv_log st ++ backlog st = enq_log st /\
  NoDup (places st) /\
  (forall w, In w (places st) -> (w < nwr st)%nat) /\
  selecting_ok st /\
  (forall w, (w < nwr st)%nat -> In w (places st) \/ loop (sess_of st (w_sess (wr st w))) = LSelecting w) /\
  (length (backlog st) <= cap st)%nat /\
  (forall s, (s < nsess st)%nat ->
     arrived (sess_of st s) = (inq (sess_of st s) + count (fun w => Nat.eqb (w_sess (wr st w)) s) (nwr st)
                               + refused (sess_of st s))%nat).
Proof. exact once. Qed.
Print Assumptions C19_once.

(* the WaitGroup counter never goes negative (no panic) and always equals
   [listener still holds its reference] + number of wrappers of the session not yet closed *)
Theorem C19_refcount : forall c evs, let st := run evs (init c) in
  panic st = false /\
  forall s, (s < nsess st)%nat ->
    0 <= refs (sess_of st s) /\
    refs (sess_of st s) = b2z (in_map (sess_of st s)) + Z.of_nat (open_w st s).
Proof. exact refcount. Qed.
Print Assumptions C19_refcount.

(* the adapter closes the session (counter reached zero, wg.Wait released) iff at some moment the
   listener had released its reference and every wrapper made so far was closed *)
Theorem C19_refcount_closed_iff : forall c evs s, let st := run evs (init c) in
  (s < nsess st)%nat ->
  (wg_zero (sess_of st s) = true <->
   exists evs1 evs2, evs = evs1 ++ evs2 /\
     let st1 := run evs1 (init c) in
     (s < nsess st1)%nat /\ registered (sess_of st1 s) = true /\
     in_map (sess_of st1 s) = false /\ open_w st1 s = O).
Proof. exact refcount_closed_iff. Qed.
Print Assumptions C19_refcount_closed_iff.

(* FULL statement of "closing the listener lets sessions end once their connections are closed":
   once a listener.Close has run and the adapter is at rest (no Close call in progress, no accept
   goroutine between its select and the follow-up of the branch it took, no conn taken aside and not
   yet Closed), every session whose conns handed out by Accept are all closed is closed.  The user
   can only close conns that Accept returned; everything else is the adapter's job. *)
Definition C19_sessions_end_full : Prop :=
  forall c evs, let st := run evs (init c) in
    lreleased st = true -> at_rest st = true ->
    forall s, (s < nsess st)%nat ->
      (forall w, In w (delivered st) -> w_sess (wr st w) = s -> w_closed (wr st w) = true) ->
      sclosed (sess_of st s) = true.

(* TRUE of the repaired adapter (fix: the accept goroutine Closes a conn that lost to closeCh and
   re-checks closeCh after a successful enqueue; listener.Close drains the backlog).  Before the
   repair this statement was refuted (a conn left in the backlog, or dropped by the select, pinned
   its session); the two refuting histories are the regression examples at the end of this file and
   scenarios 0 and 1 of the harness. *)
Theorem C19_sessions_end : C19_sessions_end_full.
Proof. exact sessions_end. Qed.
Print Assumptions C19_sessions_end.

(* independent of rest: every wrapper of the session closed and the listener's reference released
   => the session is closed *)
Theorem C19_sessions_end_if_all_closed : forall c evs, let st := run evs (init c) in
  lreleased st = true ->
  forall s, (s < nsess st)%nat ->
    (forall w, (w < nwr st)%nat -> w_sess (wr st w) = s -> w_closed (wr st w) = true) ->
    sclosed (sess_of st s) = true /\
    (registered (sess_of st s) = true -> wg_zero (sess_of st s) = true /\ refs (sess_of st s) = 0).
Proof. exact sessions_end_if_all_closed. Qed.
Print Assumptions C19_sessions_end_if_all_closed.

(* FULL statement "the adapter uses its sync.WaitGroup within the contract: no Add on a counter that has
   already reached zero (the wg.Wait goroutine it released may not have returned yet)" *)
Definition C19_no_waitgroup_reuse_full : Prop := forall c evs e, add_from_zero (run evs (init c)) e = false.

(* TRUE of the repaired adapter (fix: the accept goroutine takes the stream's reference under l.mu and only
   while the session is still in l.sessions, i.e. while the listener's own reference is held; otherwise it
   closes the stream unwrapped).  Before the repair it was refuted (listener.Close releases the last
   reference, then a stream of that session arrives and is wrapped) and the real process died with
   "sync: WaitGroup is reused before previous Wait has returned"; regression: harness family stress/held=false
   and the example below. *)
Theorem C19_no_waitgroup_reuse : C19_no_waitgroup_reuse_full.
Proof. exact no_waitgroup_reuse. Qed.
Print Assumptions C19_no_waitgroup_reuse.

Example C19_regression_stream_after_release_is_refused :
  let st := run witness_reuse (init 1) in
  accepts (init 1) witness_reuse = true /\ nwr st = O /\ refused (sess_of st 0%nat) = 1%nat /\
  refs (sess_of st 0%nat) = 0 /\ loop (sess_of st 0%nat) = LExited /\ sclosed (sess_of st 0%nat) = true.
Proof. vm_compute. repeat split. Qed.

(* io.Reader: Read(p) with p non-empty and data buffered returns no error and exactly the next
   min(len p, available) >= 1 bytes of the stream, leaving the rest, for every slicing of the data *)
Theorem C19_io_read : forall b lenp m,
  blen b = total (slices b) -> (0 < lenp)%nat -> (1 <= blen b)%nat ->
  let avail := concat (slices b) in
  let '(out, err, b') := lb_read b lenp m in
  err = None /\ out = firstn lenp avail /\ length out = Nat.min lenp (length avail) /\
  (1 <= length out <= lenp)%nat /\
  avail = out ++ concat (slices b') /\ blen b' = total (slices b').
Proof. exact read_contract. Qed.
Print Assumptions C19_io_read.

(* Read on an empty buffer: 0 bytes with readMore's error, or (readMore succeeded) the same contract *)
Theorem C19_io_read_wait : forall b lenp m,
  blen b = total (slices b) -> (0 < lenp)%nat -> blen b = O ->
  match m with
  | MoreErr e => lb_read b lenp m = ([], Some e, b)
  | MoreOk moved =>
    (1 <= total moved)%nat ->
    let avail := concat (slices b ++ moved) in
    let '(out, err, b') := lb_read b lenp m in
    err = None /\ out = firstn lenp avail /\ (1 <= length out <= lenp)%nat /\
    avail = out ++ concat (slices b') /\ blen b' = total (slices b')
  end.
Proof. exact read_contract_wait. Qed.
Print Assumptions C19_io_read_wait.

(* io.Writer: Write returns len p or an error, never more than len p *)
Theorem C19_io_write : forall lenp wb fl,
  let '(n, err) := lb_write lenp wb fl in
  (n = lenp \/ err = true) /\ (err = false -> n = lenp) /\ (n <= lenp)%nat.
Proof. exact write_contract. Qed.
Print Assumptions C19_io_write.

(* any sequence of Writes (cut into slices arbitrarily, Flush failing or not) and Reads of any size:
   bytes read ++ bytes still buffered = bytes written successfully, and every Read/Write kept its contract *)
Theorem C19_io_stream : forall ops, let p := io_run ops in
  io_ok p = true /\ readout p ++ concat (slices (pbuf p)) = written p /\ blen (pbuf p) = total (slices (pbuf p)).
Proof. exact io_stream. Qed.
Print Assumptions C19_io_stream.

(* FULL DUPLEX: one goroutine Reads a conn while another one Writes it (net.Conn allows that).  For EVERY
   interleaving of the peer's data arriving, Reads of any size, and the two halves of Writes (WriteBytes / Flush):
   every Read keeps its contract and returns exactly the next bytes the peer delivered (never bytes of our own
   writes, never (0, nil)); the bytes handed to the peer are exactly the bytes of the Writes that returned
   (len p, nil), in order, plus those of the Write in progress *)
Theorem C19_io_duplex : forall evs, let d := dx_run false evs in
  dx_ok d = true /\
  dx_got d ++ concat (slices (dx_recv d)) = dx_arrived d /\
  dx_wire d ++ dx_sendbuf d = dx_written d ++ match dx_wpc d with Some p => p | None => [] end /\
  (dx_wpc d = None -> dx_wire d = dx_written d).
Proof. exact io_duplex. Qed.
Print Assumptions C19_io_duplex.

(* the frame property this rests on (and that the plugin checks against the source of copyRead /
   copyWriteAndFlush / Flush on every run): Read does not touch the send side, Write not the receive side *)
Theorem C19_io_read_frame : forall d lenp, let d' := dx_step false d (DxRead lenp) in
  dx_sendbuf d' = dx_sendbuf d /\ dx_wire d' = dx_wire d /\ dx_wpc d' = dx_wpc d /\ dx_written d' = dx_written d.
Proof. exact dx_read_frame. Qed.
Print Assumptions C19_io_read_frame.

Theorem C19_io_write_frame : forall d e, (exists p, e = DxWriteBytes p) \/ e = DxFlush -> let d' := dx_step false d e in
  dx_recv d' = dx_recv d /\ dx_got d' = dx_got d /\ dx_arrived d' = dx_arrived d /\ dx_ok d' = dx_ok d.
Proof. exact dx_write_frame. Qed.
Print Assumptions C19_io_write_frame.

(* without the frame property (VARIANT dx_step true: a Read that drains the receive buffer swaps recvBuf and
   sendBuf) a Read that ends exactly at the end of the buffered data while a Write is between WriteBytes and
   Flush breaks both directions: the Write returns (len p, nil) but nothing reaches the peer, and the next Read
   returns the conn's OWN outgoing bytes *)
Example C19_swap_on_drain_breaks_duplex :
  let d := dx_run true [DxArrive [[1; 2]]; DxWriteBytes [7; 8; 9]; DxRead 2; DxFlush; DxRead 3] in
  dx_written d = [7; 8; 9] /\ dx_wire d = [] /\ dx_arrived d = [1; 2] /\ dx_got d = [1; 2; 7; 8; 9].
Proof. vm_compute. repeat split. Qed.

Example C19_duplex_example :
  let d := dx_run false [DxArrive [[1; 2]]; DxWriteBytes [7; 8; 9]; DxRead 2; DxFlush; DxRead 3; DxArrive [[3]]; DxRead 3] in
  dx_written d = [7; 8; 9] /\ dx_wire d = [7; 8; 9] /\ dx_got d = [1; 2; 3] /\ dx_ok d = true.
Proof. vm_compute. repeat split. Qed.

(* non-vacuity: two sessions, backlog 1; one conn delivered and closed twice, one lost to closeCh and
   Closed by the accept goroutine, one received by listener.Close's drain; both sessions end *)
Example C19_example_run :
  let evs := [RawAccept; RawAccept; SessionUp; SessionUp; StreamIn 0; StreamIn 1; Wrap 0; Enqueue 0; PostCheck 0; Wrap 1; StreamIn 0;
              Accept; Enqueue 1; PostCheck 1; Wrap 0; LCall; LStep 0; LStep 0; Lose 0; LStep 0; LStep 0; CloseTaken 2;
              CloseTaken 1; LStep 0; WClose 0; WClose 0] in
  let st := run evs (init 1) in
  accepts (init 1) evs = true /\ delivered st = [0]%nat /\ aclosed st = [2; 1]%nat /\ panic st = false /\
  at_rest st = true /\
  map (fun s => refs (sess_of st s)) [0; 1]%nat = [0; 0] /\
  map (fun s => sclosed (sess_of st s)) [0; 1]%nat = [true; true].
Proof. vm_compute. repeat split. Qed.

(* regression: the two histories that refuted the statement before the repair *)
Example C19_regression_conn_left_in_backlog :
  let evs := [RawAccept; RawAccept; SessionUp; StreamIn 0; Wrap 0; Enqueue 0; PostCheck 0; LCall; LStep 0; LStep 0; LStep 0; LStep 0; CloseTaken 0; LStep 0] in
  let st := run evs (init 1) in
  accepts (init 1) evs = true /\ at_rest st = true /\ lreleased st = true /\ delivered st = [] /\
  sclosed (sess_of st 0%nat) = true.
Proof. vm_compute. repeat split. Qed.

Example C19_regression_conn_lost_to_closeCh :
  let evs := [RawAccept; RawAccept; SessionUp; StreamIn 0; Wrap 0; Enqueue 0; PostCheck 0; StreamIn 0; Wrap 0; LCall; LStep 0; LStep 0; Lose 0;
              LStep 0; LStep 0; LStep 0; CloseTaken 1; CloseTaken 0] in
  let st := run evs (init 1) in
  accepts (init 1) evs = true /\ at_rest st = true /\ lreleased st = true /\ delivered st = [] /\
  sclosed (sess_of st 0%nat) = true.
Proof. vm_compute. repeat split. Qed.

(* the closed-test must sit in ONE critical section with the registration, AFTER the handshake: a session whose
   handshake completes after listener.Close is closed on the spot and never registered (first example, the real
   machine); with the test moved before the handshake (VARIANT run_check_before_handshake) a Close that falls
   into the handshake window leaves a session registered in the closed listener with a reference nobody
   releases: at rest, after Close, no conn was ever handed out - and the session stays open *)
Example C19_handshake_completing_after_close_is_rejected :
  let st := run [RawAccept; LCall; LStep 0; LStep 0; LStep 0; LStep 0; SessionUp] (init 4) in
  at_rest st = true /\ lreleased st = true /\ nsess st = 1%nat /\
  registered (sess_of st 0%nat) = false /\ in_map (sess_of st 0%nat) = false /\ sclosed (sess_of st 0%nat) = true.
Proof. vm_compute. repeat split. Qed.

Example C19_closed_test_before_handshake_refutes_sessions_end :
  let st := run_check_before_handshake [RawAccept; LCall; LStep 0; LStep 0; LStep 0; LStep 0; SessionUp] (init 4) in
  at_rest st = true /\ lreleased st = true /\ delivered st = [] /\
  in_map (sess_of st 0%nat) = true /\ refs (sess_of st 0%nat) = 1 /\ sclosed (sess_of st 0%nat) = false.
Proof. vm_compute. repeat split. Qed.

(* the CAS in streamWrapper.Close is essential: with Close split into check / stream.Close / mark + Done, two
   goroutines closing the SAME conn both pass the check and both give a reference back.  Listener closed,
   conns 0 and 1 of one session open: the session is closed while conn 1 is still open, and the counter no
   longer equals [listener reference] + open wrappers (C19_refcount's equation fails); one more Close - of
   conn 1 - makes the counter negative: panic.  (WClose in the real model is one CAS-guarded step:
   a second Close is a no-op, see C19_example_run.) *)
Example C19_split_close_refutes_refcount :
  let st0 := run [RawAccept; RawAccept; SessionUp; StreamIn 0; StreamIn 0; Wrap 0; Enqueue 0; PostCheck 0; Accept; Wrap 0; Enqueue 0; PostCheck 0; Accept;
                  LCall; LStep 0; LStep 0; LStep 0; LStep 0] (init 4) in
  let st2 := wclose_finish (wclose_finish st0 0) 0 in
  let st3 := wclose_finish st2 1 in
  wclose_check st0 0 = true /\                               (* both goroutines see closed == 0 in st0 *)
  refs (sess_of st0 0%nat) = 2 /\ refs (sess_of st2 0%nat) = 0 /\
  sclosed (sess_of st2 0%nat) = true /\ w_closed (wr st2 1%nat) = false /\ open_w st2 0 = 1%nat /\
  panic st2 = false /\ panic st3 = true.
Proof. vm_compute. repeat split. Qed.

(* the ORDER of listener.Close's steps is essential: with the drain moved before close(closeCh)
   (run_drain_first: CAS -> drain -> close(closeCh) -> release) a stream that is queued between the drain
   and close(closeCh) passes the goroutine's re-check (closeCh still open) and is never drained: at rest,
   after Close, every Accept-ed conn closed - and the session stays open.  So the statement proved above
   is false for that order; the harness ties the real order to the model through a hook inside the raw
   listener's Close (observation ORawClose). *)
Example C19_drain_before_signal_refutes_sessions_end :
  let evs := [RawAccept; RawAccept; SessionUp; StreamIn 0; Wrap 0; Enqueue 0; PostCheck 0; Accept;     (* conn 0 delivered and held *)
              LCall; LStep 0; LStep 0;                                           (* CAS; drain (empty) *)
              StreamIn 0; Wrap 0; Enqueue 0; PostCheck 0;                        (* a stream arrives: closeCh still open *)
              LStep 0; LStep 0;                                                  (* close(closeCh); release *)
              WClose 0] in
  let st := run_drain_first evs (init 4) in
  at_rest st = true /\ lreleased st = true /\ delivered st = [0]%nat /\ w_closed (wr st 0%nat) = true /\
  backlog st = [1]%nat /\ sclosed (sess_of st 0%nat) = false.
Proof. vm_compute. repeat split. Qed.

(* the race the repair has to survive: the enqueue wins the select AFTER listener.Close drained *)
Example C19_regression_enqueue_after_drain :
  let evs := [RawAccept; RawAccept; SessionUp; StreamIn 0; Wrap 0; LCall; LStep 0; LStep 0; LStep 0; LStep 0; Enqueue 0; PostCheck 0; GDrain 0;
              GDrain 0; CloseTaken 0] in
  let st := run evs (init 1) in
  accepts (init 1) evs = true /\ at_rest st = true /\ lreleased st = true /\ sclosed (sess_of st 0%nat) = true.
Proof. vm_compute. repeat split. Qed.

Example C19_example_io :
  let p := io_run [IoWrite [[1; 2; 3]; [4]] false; IoRead 2; IoWrite [[5; 6]] true; IoWrite [[7]] false; IoRead 10; IoRead 0] in
  readout p = [1; 2; 3; 4; 7] /\ written p = [1; 2; 3; 4; 7] /\ io_ok p = true.
Proof. vm_compute. repeat split. Qed.
