(* C14 — Peer death and session close are contained and release every resource.
   Only the property theorems (closed by `exact`), their axiom reports and a non-vacuity example.
   Model: Model/Lifecycle.v; proofs: Proofs/LifecycleProofs.v.

   Quantification: any number of sessions sharing any buffer managers, any number of streams, and
   EVERY schedule of Open / Close (= exitErr) / remote-close / dispatcher-lambda / OnData begin-end /
   user-thread-enters-Flush / user-thread-touches-the-queue events.  "Every crash point" is covered
   by stating the close procedure from EVERY state satisfying the invariant WInv, which holds in
   every reachable state (C14_flags, C14_refcount are its projections). *)
From Coq Require Import List ZArith Lia Bool.
From Shm Require Import Gen.Consts Model.Lifecycle Proofs.LifecycleProofs.
Import ListNotations.
Open Scope Z_scope.

(* the close procedure (Close / exitErr / onRemoteClose, then the posted cleanup) from any invariant
   state: the session is shut down, every stream fails its pending and later calls (closed and
   notified; a stream inside OnData is half-closed and notified — its callbacks are C10's subject),
   connection, buffer-manager reference and queue mapping are released, the manager's count drops by
   exactly one and the LAST reference unmaps + unlinks, exactly then *)
Theorem C14_close_from_any_state : forall w i s,
  WInv w -> nth_error (ss w) i = Some s -> cleaned s = false ->
  let w' := step (step w (LClose i)) (LLambda i) in
  exists s', nth_error (ss w') i = Some s' /\
    sd s' = true /\ chclosed s' = true /\ cleaned s' = true /\ posted s' = false /\ sess_released s' = true /\
    Forall (fun st => strm_dead st = true) (streams s') /\
    Forall (fun st => st_incb st = false -> st_state st = c_streamClosed) (streams s') /\
    length (streams s') = length (streams s) /\
    (forall p, bm s = Some p ->
       refcount p w' = refcount p w - 1 /\
       (refcount p w = 1 -> tbl_get p (tbl w') = None /\ unmaps w' = unmaps w ++ [p]) /\
       (1 < refcount p w -> unmaps w' = unmaps w)) /\
    (forall q, qmap s = Some q -> qunmaps w' = qunmaps w ++ [q]) /\
    WInv w'.
Proof. exact close_from_any_state. Qed.
Print Assumptions C14_close_from_any_state.

(* every reachable state satisfies the invariant the theorem above starts from *)
Theorem C14_invariant_reachable : forall sch, WInv (run sch init).
Proof. intros sch. exact (winv_run sch init winv_init). Qed.
Print Assumptions C14_invariant_reachable.

(* idempotence: once shutdown is set every further Close / exitErr is a no-op (CAS), a cleanup runs
   only if it was posted, and (C14_flags) posted -> not yet cleaned, cleaned -> nothing held *)
Theorem C14_idempotent_close : forall w i s, nth_error (ss w) i = Some s -> sd s = true -> step w (LClose i) = w.
Proof. exact close_again_noop. Qed.
Print Assumptions C14_idempotent_close.
Theorem C14_idempotent_cleanup : forall w i s, nth_error (ss w) i = Some s -> posted s = false -> step w (LLambda i) = w.
Proof. exact lambda_without_post_noop. Qed.
Print Assumptions C14_idempotent_cleanup.
Theorem C14_flags : forall sch i s, nth_error (ss (run sch init)) i = Some s -> sinv s.
Proof. exact flags_inv. Qed.
Print Assumptions C14_flags.

(* the table's count is the number of live sessions holding the manager, never negative, and a
   manager is unmapped at most once per mapping — present in the table iff mapped and not unmapped *)
Theorem C14_refcount : forall sch p,
  let w := run sch init in
  refcount p w = holders p (ss w) /\ 0 <= refcount p w /\
  count_occ_z p (unmaps w) <= count_occ_z p (creates w) /\
  count_occ_z p (creates w) - count_occ_z p (unmaps w) = match tbl_get p (tbl w) with Some _ => 1 | None => 0 end.
Proof. exact refcount_exact. Qed.
Print Assumptions C14_refcount.

(* the peer's death as the dispatcher sees it: an epoll event carrying EPOLLRDHUP closes the session
   WHATEVER the first read(2) would return — 0 (the peer had consumed everything), ECONNRESET (bytes this
   end wrote were still unread in the dead peer's socket), data, EAGAIN: handleEvent looks at EPOLLRDHUP
   before it reads.  From any WInv state. *)
Theorem C14_peer_death_event_closes : forall w i s ev,
  WInv w -> nth_error (ss w) i = Some s -> conn_open s = true -> e_rdhup ev = true ->
  let w' := step w (LEvent i ev) in
  exists s', nth_error (ss w') i = Some s' /\ sd s' = true /\ chclosed s' = true /\ conn_open s' = false /\
             (posted s' = true \/ cleaned s' = true) /\
             Forall (fun st => st_notified st = true) (streams s') /\ WInv w'.
Proof. exact peer_death_event_closes. Qed.
Print Assumptions C14_peer_death_event_closes.

(* ... and why the order of the two tests matters: without the EPOLLRDHUP bit an EOF read still closes,
   but a read ERROR is swallowed by onReadReady (`if errCode != 0 { return }`, err = nil) — nothing is
   reported.  The kernel reports a dead peer with EPOLLRDHUP (assumption, observed by the harness's
   "peer hung with unread bytes" crash points), so the error outcome never arrives without the bit. *)
Theorem C14_read_outcomes_without_rdhup : forall w i ev,
  e_rdhup ev = false -> e_in ev = true ->
  (e_read ev = RdEOF -> step w (LEvent i ev) = remote_close w i) /\
  (e_read ev = RdErr -> step w (LEvent i ev) = w).
Proof. exact read_eof_closes_read_error_is_silent. Qed.
Print Assumptions C14_read_outcomes_without_rdhup.

(* a session establishment that FAILS next to established siblings (the buffer manager of a path is shared
   process-wide): the error path gives back exactly the reference it took — no session changes, every
   path keeps its count, while anybody holds the path nothing is unmapped and the entry stays; and when
   nobody does, no stale entry is left for the next establishment *)
Theorem C14_failed_open_neutral : forall w p,
  WInv w ->
  let w' := step w (LOpenFail p) in
  ss w' = ss w /\ (forall p', refcount p' w' = refcount p' w) /\
  (1 <= holders p (ss w) -> unmaps w' = unmaps w /\ tbl_get p (tbl w') = tbl_get p (tbl w)) /\
  (tbl_get p (tbl w) = None -> tbl_get p (tbl w') = None) /\ WInv w'.
Proof. exact failed_open_neutral. Qed.
Print Assumptions C14_failed_open_neutral.

(* "no user thread touches the queue after it was unmapped" — false: there is no hand-shake between
   the posted cleanup and a thread that is already past Flush's state check *)
Definition C14_no_access_after_unmap_full : Prop := no_access_after_unmap_full.
Theorem C14_no_access_after_unmap_refuted : ~ C14_no_access_after_unmap_full.
Proof. exact no_access_after_unmap_refuted. Qed.
Print Assumptions C14_no_access_after_unmap_refuted.
(* ... what holds: schedules in which no user thread is inside Flush never fault *)
Theorem C14_no_access_after_unmap_partial : forall sch, forallb quiet_label sch = true -> faults (run sch init) = O.
Proof. exact no_fault_without_inflight. Qed.
Print Assumptions C14_no_access_after_unmap_partial.

(* OpenStream racing Close / peer death (OpenStream = check step + registration step; the cleanup posted
   by Close is its own step and drops the stream table): with the repaired OpenStream NO schedule makes a
   call panic — no hypothesis on the interleaving *)
Theorem C14_open_after_close_safe : forall sch, panics (orun true sch oinit) = O.
Proof. exact open_after_close_safe. Qed.
Print Assumptions C14_open_after_close_safe.

(* ... a registration that finds the table dropped returns the shutdown error and changes nothing else;
   a check after shutdown refuses at once *)
Theorem C14_open_after_cleanup_returns_error : forall w i s op',
  remove_one i (opening w) = Some op' -> nth_error (ss (ob w)) i = Some s -> cleaned s = true ->
  let w' := ostep true w (OReg i) in
  ob w' = ob w /\ late w' = late w /\ open_errs w' = S (open_errs w) /\ panics w' = panics w /\ opening w' = op'.
Proof. exact open_reg_on_dropped_table. Qed.
Print Assumptions C14_open_after_cleanup_returns_error.

(* ... a stream registered between Close's notification loop and the cleanup is closed by the cleanup:
   no late stream belongs to a session whose table was dropped; and the base world under the layer still
   satisfies WInv, so every theorem above applies to it *)
Theorem C14_late_streams_closed_by_cleanup : forall fixed sch j,
  In j (late (orun fixed sch oinit)) -> table_dropped (ob (orun fixed sch oinit)) j = false.
Proof. exact late_streams_closed_by_cleanup. Qed.
Print Assumptions C14_late_streams_closed_by_cleanup.
Theorem C14_open_layer_keeps_invariant : forall fixed sch, WInv (ob (orun fixed sch oinit)).
Proof. intros fixed sch. exact (ob_winv fixed sch oinit winv_init). Qed.
Print Assumptions C14_open_layer_keeps_invariant.

(* regression: the OpenStream before the repair (`fixed = false`) — the statement "no call panics" is
   false of it; witness: check, Close, cleanup, registration => assignment to entry in nil map
   (reproduced on the real code by the harness scenario openstream-racing-close) *)
Definition C14_open_after_close_unrepaired_full : Prop := forall sch, panics (orun false sch oinit) = O.
Theorem C14_open_after_close_unrepaired_refuted : ~ C14_open_after_close_unrepaired_full.
Proof. exact open_racing_close_unrepaired_panics. Qed.
Print Assumptions C14_open_after_close_unrepaired_refuted.
Example C14_example_open_race_repaired :
  let w := orun true open_race_witness oinit in panics w = O /\ open_errs w = 1%nat /\ opening w = [] /\ late w = [].
Proof. exact open_race_witness_repaired. Qed.

(* the slices a dead session's streams hold (unread received data, pending data, written-but-unflushed
   data).  The buffer manager is shared by every session on its path and lives on while any of them does;
   the cleanup of a dead session (stream.Close -> close -> clean -> recycle for every stream of the table
   it drops, the session already shut down) returns every slice the session held: its holding is 0
   afterwards, exactly that much came back, the siblings' holdings are untouched, nothing is taken.
   From any invariant state; independent of the manager's reference count. *)
Theorem C14_dead_session_returns_slices : forall w i s,
  PInv w -> nth_error (ss (pb w)) i = Some s -> cleaned s = false ->
  let w' := pstep code_ok (pstep code_ok w (PBase (LClose i))) (PBase (LLambda i)) in
  held_by i (holds w') = O /\
  returned w' = (returned w + held_by i (holds w))%nat /\
  (forall j, i <> j -> held_by j (holds w') = held_by j (holds w)) /\
  taken w' = taken w /\ PInv w'.
Proof. exact dead_session_returns_slices. Qed.
Print Assumptions C14_dead_session_returns_slices.

(* ... over all schedules: every slice ever taken is back in the free lists or held by a stream of a
   session whose cleanup has not run yet *)
Theorem C14_slices_conserved : forall sch,
  let w := prun code_ok sch pinit in
  taken w = (returned w + total_held (holds w))%nat /\
  (forall h, In h (holds w) -> table_dropped (pb w) (fst h) = false) /\ WInv (pb w).
Proof. exact slices_conserved. Qed.
Print Assumptions C14_slices_conserved.

(* regression: a Stream.clean that returns early once the session is closed ("a closed session releases
   its share memory as a whole") — conservation is false of it while a sibling keeps the manager alive *)
Definition C14_early_return_clean_full : Prop :=
  forall sch, let w := prun code_early_return_clean sch pinit in taken w = (returned w + total_held (holds w))%nat.
Theorem C14_early_return_clean_refuted : ~ C14_early_return_clean_full.
Proof. exact early_return_loses_slices. Qed.
Print Assumptions C14_early_return_clean_refuted.
(* regression: a Flush parked in the queue-full retry that RETURNS on the close notification instead of going
   through the common buf.recycle() — Session.Close / exitErr notify every stream first and recycle later, in
   the posted cleanup, so the woken Flush leaves nothing for the cleanup and the chain is lost while a sibling
   keeps the manager alive.  (With the code that exists, code_ok, that exit is a PGive like every other exit
   of Flush: C14_slices_conserved and C14_dead_session_returns_slices cover it.) *)
Definition C14_flush_close_exit_returns_full : Prop :=
  forall sch, let w := prun code_flush_returns_on_close sch pinit in taken w = (returned w + total_held (holds w))%nat.
Theorem C14_flush_close_exit_returns_refuted : ~ C14_flush_close_exit_returns_full.
Proof. exact flush_close_exit_loses_slices. Qed.
Print Assumptions C14_flush_close_exit_returns_refuted.
Example C14_example_flush_closed_while_parked :
  let w := prun code_ok flush_close_witness pinit in
  taken w = 8%nat /\ returned w = 8%nat /\ holds w = [] /\ refcount 7 (pb w) = 1.
Proof. exact flush_close_witness_ok. Qed.
Example C14_example_slices :
  let w := prun code_ok slices_witness pinit in
  taken w = 55%nat /\ returned w = 50%nat /\ holds w = [(1%nat, 5%nat)] /\ refcount 7 (pb w) = 1.
Proof. exact slices_witness_ok. Qed.

(* non-vacuity: two sessions share manager 7; the first is closed twice and by the remote side, the
   second once; the manager is unmapped exactly once, by the last one *)
Example C14_example_run :
  let w := run [LOpen 7 100 2; LOpen 7 101 1; LOpenFail 7; LCbBegin 0 1; LClose 0; LClose 0; LRemote 0; LLambda 0; LLambda 0;
                LCbEnd 0 1; LRemote 1; LLambda 1; LOpenFail 7] init in
  map sess_released (ss w) = [true; true] /\ unmaps w = [7; 7] /\ creates w = [7; 7] /\ qunmaps w = [100; 101] /\ tbl w = [] /\ faults w = O /\
  map (fun s => map st_state (streams s)) (ss w) = [[c_streamClosed; c_streamHalfClosed]; [c_streamClosed]].
Proof. vm_compute. repeat split. Qed.
