(* C11 — No stream or session call blocks forever.
   Only the property theorems (closed by `exact`), their axiom reports and non-vacuity examples.
   Model: Model/Wait.v; proofs: Proofs/WaitInv.v, Proofs/WaitProofs.v.

   Safety form of liveness: the theorems are invariants over EVERY schedule `evs` of the protocol state
   machines (reader, event loop, peer close, local close, session close, SetReadDeadline, clock and
   timer, in any interleaving, any number of calls, any data sizes and deadlines): whenever the
   releasing event has happened and the waiter is parked (or about to park), its wake-up branch is
   ready or the thread that makes it ready is at that very step; a ready branch stays ready until the
   reader takes it.  PARTIAL: that a ready branch is eventually taken (Go scheduler fairness), that
   timers fire on time, that the event loop is scheduled (epoll) is Go-runtime / kernel behaviour,
   observed by the harness within generous bounds, not proved. *)
From Coq Require Import List ZArith Lia Bool Arith.
From Shm Require Import Gen.Consts Model.Wait Proofs.WaitInv Proofs.WaitProofs.
Import ListNotations.
Open Scope Z_scope.

(* (a) data sits in pendingData while the reader is between its failed test and the select, or parked
       => the token is in recvNotifyCh, or the event loop is between `add` and `asyncNotify`;
   (b) the stream is not open => closeNotifyCh is closed, or the closer is between its CAS and
       safeCloseNotify (halfClose: ppc; Stream.close: lc; a Stream.Close deferred because an OnData
       callback is in progress: dpc);
   (c) Session.Close has visited the stream => closeNotifyCh is closed — UNCONDITIONALLY, whatever the
       state of the stream: it is the only event that releases a reader parked inside such an OnData *)
Theorem C11_no_lost_notify : forall evs, let s := run evs init in
  ((0 < pend s)%nat -> rd_waiting (rd s) = true -> token s = true \/ epc s = true) /\
  (ss s <> SOpen -> closeN s = true \/ ppc s = true \/ lc_mid_open (lc s) = true \/ dpc s = true) /\
  (sclosing s = true -> closeN s = true).
Proof. exact no_lost_notify. Qed.
Print Assumptions C11_no_lost_notify.

(* a parked reader for which a releasing event has happened (data pending, stream closed by either
   end, session closing, deadline passed) has a ready select branch, or a helper (event loop, closer,
   runtime timer) is enabled at the step that makes one ready *)
Theorem C11_wake_or_helper : forall evs, let s := run evs init in
  rd s = RParked ->
  ((0 < pend s)%nat \/ ss s <> SOpen \/ sclosing s = true) ->
  wake_enabled s = true \/ helper_pending s = true.
Proof. exact wake_or_helper. Qed.
Print Assumptions C11_wake_or_helper.

(* ... and for the deadline: the timer value is in the call's channel, or the runtime is at the step that
   puts it there (FireB), or the expiry is enabled (Fire / FireA) *)
Theorem C11_wake_or_helper_deadline : forall evs, let s := run evs init in
  rd s = RParked -> use_t s = true -> armed s <= now s ->
  tch s = true \/ ptick s = true \/ tmr s = Some (armed s).
Proof. exact wake_or_helper_deadline. Qed.
Print Assumptions C11_wake_or_helper_deadline.

(* the death of the session releases a parked reader in EVERY stream state (open, closed, half-closed
   by the peer, half-closed by a deferred local Close) *)
Theorem C11_session_close_releases : forall evs, let s := run evs init in
  rd s = RParked -> sclosing s = true -> wake_enabled s = true.
Proof. exact session_close_releases. Qed.
Print Assumptions C11_session_close_releases.

(* FULL statement of "a read returns when either end closes the stream" *)
Definition C11_close_releases_full : Prop :=
  forall evs, let s := run evs init in
    rd s = RParked -> ss s <> SOpen -> wake_enabled s = true \/ helper_pending s = true.

(* TRUE of the repaired code (fix: a Stream.Close that finds an OnData callback in progress calls
   safeCloseNotify after its CAS).  Before the repair it was refuted: that path only marked the stream
   half-closed, a read parked inside the callback was released by nothing but the death of the session
   (regression scenarios ondata-deferred-close-only / -peer-close of the harness). *)
Theorem C11_close_releases : C11_close_releases_full.
Proof. exact close_releases. Qed.
Print Assumptions C11_close_releases.

(* "the closer is at the step that readies it" is not an empty promise: within two of the closer's OWN steps,
   enabled whatever the reader does, closeNotifyCh is closed - with callbacks installed Stream.close notifies
   BEFORE it waits for the callback goroutine; without callbacks its clean() waits for nothing *)
Theorem C11_close_helper_enabled : forall s,
  ppc s = true \/ lc_mid_open (lc s) = true \/ dpc s = true ->
  exists es, (length es <= 2)%nat /\ forallb (fun e => negb (is_reader_ev e)) es = true /\ closeN (run es s) = true.
Proof. exact close_helper_enabled. Qed.
Print Assumptions C11_close_helper_enabled.

(* REGRESSION (the order of Stream.close before the repair: Wait ; clean ; notify): Close reads
   callbackInProcess == 0, data arrives, OnData parks in a read, close() wins its CAS and waits for the callback
   goroutine before it would notify: the reader is parked on a CLOSED stream with no ready branch and every
   closer step is blocked - Close waits for OnData, OnData waits for Close (harness scenario
   close-vs-callback-start, signature C11:close-waits-for-ondata-that-waits-for-close-notification) *)
Example C11_regression_old_close_order_deadlocks :
  let s := run_old_close witness_close_waits_for_ondata init in
  rd s = RParked /\ ss s = SClosed /\ wake_enabled s = false /\ lc s = LCased SOpen /\
  step_old_close s LClean = s /\ step_old_close s LNotify = s /\ step_old_close s PClose1 = s /\
  step_old_close s PClose2 = s /\ step_old_close s LDefer1 = s /\ step_old_close s LDefer2 = s /\ step_old_close s EFin = s.
Proof. exact old_close_order_deadlocks. Qed.

Example C11_regression_new_close_order_releases :
  let s := run (witness_close_waits_for_ondata ++ [LNotify; RWake BClose; RStep; LClean]) init in
  res s = Some RErrClosed /\ lc s = LIdle /\ closeN s = true.
Proof. exact new_close_order_releases. Qed.

(* ... and a ready branch stays ready, and the reader parked, under every step of every other thread *)
Theorem C11_wake_stable : forall s e, rd s = RParked -> wake_enabled s = true -> is_reader_ev e = false ->
  rd (step s e) = RParked /\ wake_enabled (step s e) = true.
Proof. exact wake_stable. Qed.
Print Assumptions C11_wake_stable.

(* FULL statement of "ErrTimeout is never early": over EVERY schedule, the runtime's two-step timer expiry
   (FireA: the timer has expired, Stop() reports false; FireB: its value reaches the channel) included *)
Definition C11_timeout_not_early_full : Prop :=
  forall evs e, let s := run evs init in
    res (step s e) = Some RErrTimeout -> res s <> Some RErrTimeout ->
    exists d, dl s = Some d /\ d <= now s.

(* TRUE of the repaired code (fix: readMore uses a timer of its own for every wait).  While it re-armed one
   shared timer the statement was refuted by the two-step expiry (a value that had expired but not yet reached
   the channel survived Stop + drain and made the NEXT Read time out at once) and reproduced on the real code;
   the refuting history is the regression Example below, the scenario deadline-race of the harness keeps its
   signature C11:stale-timer-tick-makes-next-read-time-out-early. *)
Theorem C11_timeout_not_early : C11_timeout_not_early_full.
Proof. exact timeout_not_early. Qed.
Print Assumptions C11_timeout_not_early.

Example C11_regression_stale_tick :
  let s := run witness_stale_tick init in
  rd s = RParked /\ use_t s = true /\ tch s = false /\ step s (RWake BTimer) = s.
Proof. exact stale_tick_regression. Qed.

(* the timer value a parked call can see is in ITS channel only at/after the deadline this call armed *)
Theorem C11_timer_sound : forall evs, let s := run evs init in
  rd_pre (rd s) = false -> use_t s = true -> tch s = true -> armed s <= now s /\ dl s = Some (armed s).
Proof. exact timer_sound. Qed.
Print Assumptions C11_timer_sound.

(* readMore returns nil only with Len >= minSize *)
Theorem C11_enough : forall evs n, let s := run evs init in res s = Some (ROk n) -> (minsz s <= n)%nat.
Proof. exact enough. Qed.
Print Assumptions C11_enough.

(* Flush: whatever the queue does (full for ever included), the retry loop performs at most
   c_flushRetryBound select rounds and returns; ErrQueueFull only after exactly that many full puts *)
Theorem C11_flush_bounded : forall first_full env,
  let '(r, k) := flush_retry first_full env in
  (Z.of_nat k <= c_flushRetryBound) /\
  (r = FRQueueFull -> Z.of_nat k = c_flushRetryBound /\ forall j, (j < k)%nat -> env j = FPutFull).
Proof. exact flush_bounded. Qed.
Print Assumptions C11_flush_bounded.

(* AcceptStream / initProtocol against Session.Close and the init timer *)
Theorem C11_session_waiters : forall evs, let s := run2 evs init2 in
  (shutdown_flag s = true -> shutdownCh s = true \/ closer s = CFlagged \/ closer s = CNotified) /\
  (acc s = WShutdown -> shutdownCh s = true) /\
  (forall e, acc s = WParked -> shutdownCh s = true ->
     (forall b, e <> AccWake b) -> e <> AccCall -> acc (step2 s e) = WParked /\ shutdownCh (step2 s e) = true) /\
  (ini s = WTimeout -> t_start s + t_out s <= now2 s) /\
  (ini s = WParked -> itmr s = true \/ itch s = true).
Proof. exact session_waiters. Qed.
Print Assumptions C11_session_waiters.

(* the socket-write hand-off (send loop vs. fast-path writers): a send loop waiting for the write token
   has a value in notifyContinueWriteCh or the holder is about to release/notify; writers exclude each other *)
Theorem C11_handoff_no_lost_wake : forall c evs, let s := runh evs (inith c) in
  (sl s = SLSpin -> htok s = true \/ fp s = FPHold \/ fp s = FPNotify) /\
  (hwriting s = true <-> (sl s = SLWrite \/ fp s = FPHold)) /\
  ~ (sl s = SLWrite /\ fp s = FPHold).
Proof. exact handoff. Qed.
Print Assumptions C11_handoff_no_lost_wake.

(* FULL statement "wakeUpPeer / hotRestart (hence Flush, Stream.Close) never block" *)
Definition C11_wakeup_never_blocks_full : Prop := forall c evs, fp (runh evs (inith c)) <> FPBlocked.

(* FALSE of the faithful model: the slow path `s.sendCh <- sendReady{...}` has no select.  Witness
   (capacity 2; the real one is 4096): the peer stops reading, the send loop blocks in write holding
   `writing`, waitForSend callers time out but leave their items in sendCh until it is full, then a
   fast-path CAS fails.  Reproduced on the real code (scenario flush-sendch-full). *)
Theorem C11_wakeup_never_blocks_refuted : ~ C11_wakeup_never_blocks_full.
Proof. exact wakeup_never_blocks_refuted. Qed.
Print Assumptions C11_wakeup_never_blocks_refuted.

(* strongest provable form: the slow-path send blocks ONLY when sendCh is full while another writer
   holds `writing` ... *)
Theorem C11_partial_slow_send_blocks_only_when_full : forall s e,
  fp s <> FPBlocked -> fp (steph s e) = FPBlocked -> e = HFpTry /\ hwriting s = true /\ sq s = scap s \/ (scap s < sq s)%nat.
Proof. exact slow_send_blocks_only_when_full. Qed.
Print Assumptions C11_partial_slow_send_blocks_only_when_full.

(* ... and then, with the send loop blocked on a full socket, NOTHING but the peer reading again changes
   the state: the caller is blocked for as long as the peer stays stopped (no timeout anywhere) *)
Theorem C11_stuck_until_peer_resumes : forall s e, stuckh s = true -> (forall b, e <> HSock b) -> steph s e = s.
Proof. exact stuck_until_peer_resumes. Qed.
Print Assumptions C11_stuck_until_peer_resumes.

Example C11_example_stuck_reachable : stuckh (runh witness_sendch_full (inith 2)) = true.
Proof. exact stuck_reachable. Qed.

(* "the other end closed the stream" reaches us: once the peer's Stream.close has run its notify block, a
   close notification is in the io queue or in the socket, or has been handled here, or the session is
   dead, or the closing side got a socket-write timeout (the socket itself is stuck) - for every
   interleaving with the queue filling up / draining, the stream entering fallback state, the session dying *)
Theorem C11_peer_close_notification_in_flight : forall evs, let s := pc_run true evs in
  pc_notified s = true -> pc_covered s = true.
Proof. exact peer_close_notification_in_flight. Qed.
Print Assumptions C11_peer_close_notification_in_flight.

(* the fall-through from a full io queue to the socket path is essential: without it (pc_run false) a Close
   issued while the queue is full returns ErrQueueFull and nothing is in flight - the reader on the other
   end is never told (harness family peer-close-queue-full) *)
Example C11_no_fall_through_loses_the_close :
  let s := pc_run false [PcEnvQ true; PcCas; PcNotify; PcEnvQ false] in
  pc_notified s = true /\ pc_err s = true /\ pc_covered s = false.
Proof. vm_compute. repeat split. Qed.

Example C11_fall_through_example :
  let s := pc_run true [PcEnvQ true; PcCas; PcNotify; PcEnvQ false; PcDeliverSock] in
  pc_notified s = true /\ pc_err s = false /\ got_close s = true.
Proof. vm_compute. repeat split. Qed.

(* PEER DEATH reaches the session: every epoll event on the control connection that carries the hang-up bit calls
   onRemoteClose (-> exitErr -> Session.Close), whatever else the event carries and whatever a read on the fd
   would find - data, EAGAIN, EOF, or an ERROR such as ECONNRESET when the peer went away with bytes of ours
   unread in its socket; and Session.Close releases a parked reader in every stream state.  The dispatch table
   EventConn.handle_event is compared with the real handleEvent by C18 and, for the hang-up masks with a read
   that fails, by this property's harness (dispatch-hangup). *)
Theorem C11_peer_death_releases : forall e rr evs, EventConn.ev_rdhup e = true ->
  closes_session e rr = true /\
  (let s := run (evs ++ [SClose]) init in rd s = RParked -> wake_enabled s = true).
Proof. exact peer_death_releases. Qed.
Print Assumptions C11_peer_death_releases.

Theorem C11_eof_closes_session : forall e, EventConn.ev_rdhup e = false -> EventConn.ev_in e = true -> closes_session e RdEOF = true.
Proof. exact eof_closes_session. Qed.
Print Assumptions C11_eof_closes_session.

(* the hang-up test must not be made conditional on "nothing to read": with `RDHUP && !IN` (VARIANT
   handle_event_in_first) an event IN|RDHUP whose read fails calls nobody - the fd is edge-triggered, no further
   event comes, the session is never closed (harness family peer-gone-unread) *)
Example C11_hangup_after_read_loses_peer_death :
  let e := {| EventConn.ev_rdhup := true; EventConn.ev_in := true; EventConn.ev_out := true |} in
  closes_session_with handle_event_in_first e RdErr = false /\ closes_session e RdErr = true.
Proof. vm_compute. split; reflexivity. Qed.

(* non-vacuity: the race the property is about — data arrives after the reader's failed test and
   before it parks; then a deadline case; then peer close *)
Example C11_example_race :
  let s := run [RCall 4; RStep; RStep; EAdd 6; EFin; RStep; RWake BNotify; RStep] init in
  res s = Some (ROk 6) /\ token s = false /\ pend s = O.
Proof. vm_compute. repeat split. Qed.

Example C11_example_deadline :
  let s := run [SetDL (Some 50); RCall 1; RStep; RStep; RStep; Tick 49; Fire; RWake BTimer; Tick 1; Fire; RWake BTimer] init in
  res s = Some RErrTimeout /\ now s = 50 /\ tch s = false /\ tmr s = None.
Proof. vm_compute. repeat split. Qed.

Example C11_example_close :
  let s := run [RCall 8; RStep; RStep; RStep; EAdd 3; PClose1; EFin; PClose2; RWake BClose; RStep] init in
  res s = Some RErrEOS /\ rbuf s = 3%nat.
Proof. vm_compute. repeat split. Qed.

(* the seeded history: reader parked inside OnData, deferred local Close, then the session dies *)
Example C11_example_deferred_close_then_session_dies :
  let s := run [RCall 8; RStep; RStep; RStep; EAdd 4; EFin; RWake BNotify; RStep; LDefer1; SClose; RWake BClose; RStep] init in
  res s = Some RErrClosed /\ dpc s = true /\ closeN s = true /\ ss s = SLocalHalf.
Proof. vm_compute. repeat split. Qed.

(* regression: the deferred Close alone now releases the reader parked inside OnData *)
Example C11_regression_deferred_close_releases :
  let s := run [RCall 8; RStep; RStep; RStep; EAdd 4; EFin; RWake BNotify; RStep; LDefer1; LDefer2; RWake BClose; RStep] init in
  res s = Some RErrClosed.
Proof. vm_compute. repeat split. Qed.

(* the four stream states are the four distinct constants of the Go source (Gen/Consts.v) *)
Example C11_stream_state_codes :
  map sst_code [SOpen; SClosed; SHalf; SLocalHalf] = [0; 1; 2; 3].
Proof. vm_compute. reflexivity. Qed.

Example C11_example_flush :
  flush_retry true (fun _ => FPutFull) = (FRQueueFull, Z.to_nat c_flushRetryBound) /\
  flush_retry true (fun i => if Nat.eqb i 3 then FPutOk else FPutFull) = (FROk, 4%nat).
Proof. vm_compute. repeat split. Qed.
