(* C05 — An enqueued element is never stranded without a wake-up.
   This file contains only the property theorems (closed by `exact`), their axiom reports and
   non-vacuity examples.  Model: Model/Wakeup.v; proofs: Proofs/WakeupProofs.v.

   Quantification: any number of producers (length progs), every program (any mix of
   "enqueue + wakeUpPeer" and other writers of the control connection), every schedule (list of
   thread choices: producer i / the consumer's event loop / the send loop; one shared access per
   step), i.e. every moment at which a polling event is written, delivered or handled. *)
From Coq Require Import List ZArith Lia Bool Arith.
From Shm Require Import Gen.Consts Model.Wakeup Proofs.WakeupProofs.
Import ListNotations.
Open Scope Z_scope.

(* In every reachable state: a non-empty queue with an idle consumer has a polling event in flight
   on the connection, or one queued to be sent (on sendCh / in the send loop's hands), or some
   producer is between the publication of its element and the completion of its wake-up. *)
Theorem C05_inv : forall progs sched,
  let s := run sched (init progs) in
  tail s > head s -> cons s = CIdle ->
  (npoll (sock s) > 0)%nat \/ (queued_to_send s > 0)%nat \/
  exists i p, nth_error (prods s) i = Some p /\ waking p.
Proof. exact inv_stranded. Qed.
Print Assumptions C05_inv.

(* The property: once no producer is in the middle of a send, no polling event is in flight or
   queued to be sent, and the consumer has gone idle, the queue is empty. *)
Theorem C05 : forall progs sched,
  let s := run sched (init progs) in
  (forall i p, nth_error (prods s) i = Some p -> ~ waking p) ->
  npoll (sock s) = 0%nat -> queued_to_send s = 0%nat -> cons s = CIdle ->
  tail s = head s.
Proof. exact quiescent_empty. Qed.
Print Assumptions C05.

(* ... in particular when all producers have finished their programs *)
Theorem C05_finished : forall progs sched,
  let s := run sched (init progs) in
  (forall p, In p (prods s) -> finished p) ->
  npoll (sock s) = 0%nat -> queued_to_send s = 0%nat -> cons s = CIdle ->
  tail s = head s.
Proof. exact quiescent_empty_finished. Qed.
Print Assumptions C05_finished.

(* polling events written <= successful markWorking; handled + in flight = written *)
Theorem C05_events_le_marks : forall progs sched,
  let s := run sched (init progs) in
  (written s <= marks s)%nat /\ (handled s + npoll (sock s) = written s)%nat.
Proof. exact events_le_marks. Qed.
Print Assumptions C05_events_le_marks.

(* the flag is never left up with an idle consumer and no wake-up on its way *)
Theorem C05_flag_up_has_wakeup : forall progs sched,
  let s := run sched (init progs) in
  flag s = true -> cons s = CIdle -> (Wt s > 0)%nat.
Proof. exact flag_up_has_wakeup. Qed.
Print Assumptions C05_flag_up_has_wakeup.

Definition summary (s : st) := (head s, tail s, marks s, written s, handled s, c_idle (cons s), sock s, sendch s, flag s).

(* non-vacuity 1: producer 1 publishes after the consumer's "store flag 0" and loses markWorking
   against the consumer's "store flag 1": no event is written for its element, the re-check of
   markNotWorking picks it up; the run ends quiescent with both elements consumed and ONE event. *)
Example C05_example_recheck :
  let P i n := repeat (WProd i) n in let C n := repeat WCons n in
  summary (run (P 0%nat 6%nat ++ C 7%nat ++ P 1%nat 1%nat ++ C 3%nat ++ P 1%nat 1%nat ++ C 8%nat)
               (init [[OpSend]; [OpSend]]))
  = (2, 2, 1%nat, 1%nat, 1%nat, true, [], [], false).
Proof. vm_compute. reflexivity. Qed.

(* non-vacuity 2: the slow path: the send loop holds `writing` for another event (a stream-close event), the
   producer's polling event travels through sendCh and arrives behind it; the consumer empties the queue
   in front of the stream-close event, so the polling event finds it empty *)
Example C05_example_slow_path :
  let P i n := repeat (WProd i) n in let C n := repeat WCons n in let S n := repeat WSend n in
  summary (run (P 1%nat 1%nat ++ S 2%nat ++ P 0%nat 4%nat ++ S 5%nat ++ C 1%nat ++ S 1%nat ++ C 14%nat)
               (init [[OpSend]; [OpOther]]))
  = (1, 1, 1%nat, 1%nat, 1%nat, true, [], [], false).
Proof. vm_compute. reflexivity. Qed.
