(* C08 — Zero-copy read results stay valid until they are released.
   Only the property theorems (closed by `exact`), their axiom reports, a non-vacuity example.
   Model: Model/LinkedBuffer.v (ghost leases: every fast-path ReadBytes/Peek result is recorded as
   (slot, lo, hi, bytes); ReleasePreviousRead / releasePreviousReadAndReserve / recycle drop them);
   proofs: Proofs/LinkedBufferProofs.v, Part D.

   PROVED (all stores, all states, no bound on the history):
     C08_bytes_stable_step / C08_bytes_stable   no operation except a writer operation or a fill by the
        owner of a slot changes one payload byte of the store: reads of any size (fast, slow), Peek,
        Discard, ReadByte, ReadString, Read, the move of pending data incl. the header surgery of the
        empty-slice unlinking, both releases, Close, and allocations / frees by any other stream.
        Hence what a lease denotes is unchanged by any history of such operations (C08_lease_stable).
     C08_release_frees   after ReleasePreviousRead every parked (fully consumed, leased) shm slot is in a
        free list again, the parked list and the leases are empty.
     C08_copies_*        ReadString, Read, ReadByte, Discard create no lease (their results are copies).
   NOT PROVED HERE (checked on every generated history by the model-side lease check of
   Corr/LinkedBufferCorr.v — field code 8 — and by the harness oracle on the real code): that a leased
   slot is in no free list and is never handed to another writer before the release (needs the global
   ownership invariant of C01/C02 for the sequential allocator), and the slow paths of ReadBytes/Peek
   creating no lease. *)
From Coq Require Import List ZArith Lia Bool Arith.
From Shm Require Import Gen.Consts Model.LinkedBuffer Proofs.LinkedBufferProofs.
Import ListNotations.
Close Scope Z_scope.
Open Scope nat_scope.

Theorem C08_bytes_stable_step : forall s o y s',
  nonwriting o = true -> step s o = Ok (y, s') -> same_data (mem s) (mem s').
Proof. exact step_same_data. Qed.
Print Assumptions C08_bytes_stable_step.

Theorem C08_bytes_stable : forall ops s s',
  forallb nonwriting ops = true -> run s ops = Ok s' -> same_data (mem s) (mem s').
Proof. exact run_same_data. Qed.
Print Assumptions C08_bytes_stable.

Theorem C08_lease_stable : forall m m' le, same_data m m' -> lease_bytes m' le = lease_bytes m le.
Proof. exact lease_bytes_same. Qed.
Print Assumptions C08_lease_stable.

Theorem C08_release_frees : forall m l p,
  shm_wf m -> In p (pinned l) -> shmf p = true -> In (cap p) (cls m) ->
  let '(m', l') := release m l in In (off p) (concat (free m')) /\ pinned l' = [] /\ leases l' = [].
Proof. exact release_frees_parked. Qed.
Print Assumptions C08_release_frees.

Theorem C08_copies_read_string : forall m n l, WF m l -> 0 < n -> (Z.of_nat n <= len l)%Z ->
  exists l', read_string m n l = Ok (firstn n (content m l), l')
          /\ content m l' = skipn n (content m l) /\ WF m l' /\ leases l' = leases l.
Proof. exact read_string_refines. Qed.
Print Assumptions C08_copies_read_string.

Theorem C08_copies_read : forall m n l, WF m l -> 0 < n ->
  let k := Nat.min n (length (content m l)) in
  exists l', read_copy m n l = Ok (firstn k (content m l), l')
          /\ content m l' = skipn k (content m l) /\ WF m l' /\ leases l' = leases l.
Proof. exact read_copy_refines. Qed.
Print Assumptions C08_copies_read.

Theorem C08_copies_read_byte : forall m l, WF m l -> (0 < len l)%Z ->
  exists b l', read_byte m l = Ok (b, l') /\ content m l = b :: content m l' /\ WF m l' /\ leases l' = leases l.
Proof. exact read_byte_refines. Qed.
Print Assumptions C08_copies_read_byte.

Theorem C08_copies_discard : forall m n l, WF m l -> (Z.of_nat n <= len l)%Z ->
  exists l', discard n l = Ok (n, l') /\ content m l' = skipn n (content m l) /\ WF m l' /\ leases l' = leases l.
Proof. exact discard_refines. Qed.
Print Assumptions C08_copies_discard.

(* non-vacuity: a 10-byte zero-copy read of a 16-byte slot, then the rest of the chain is read
   across the slot edge (parking the leased slot), another owner allocates and scribbles; the lease
   still denotes its bytes; the release puts the parked slot (id 0) back into its free list *)
Example C08_example_run :
  let bs := map Z.of_nat (seq 0 40) in
  match run (init_sys [(16, 4)]) [WBytes bs; WFlush; RBytes 10; RBytes 20; OAlloc 16; OFill 0 (repeat 255%Z 16)] with
  | Ok s => map l_bytes (leases (rcv s)) = [firstn 10 bs]
            /\ map (lease_bytes (mem s)) (leases (rcv s)) = [firstn 10 bs]
            /\ map off (pinned (rcv s)) = [0]
            /\ existsb (Nat.eqb 0) (concat (free (mem s))) = false
            /\ existsb (Nat.eqb 0) (concat (free (fst (release (mem s) (rcv s))))) = true
  | _ => False
  end.
Proof. vm_compute. repeat split. Qed.
