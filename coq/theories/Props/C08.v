(* C08 — Zero-copy read results stay valid until they are released.
   Only the property theorems (closed by `exact`), their axiom reports, a non-vacuity example.
   Model: Model/LinkedBuffer.v (ghost leases: every fast-path ReadBytes/Peek result is recorded as
   (slot, lo, hi, bytes); ReleasePreviousRead / releasePreviousReadAndReserve / recycle drop them);
   proofs: Proofs/LinkedBufferPipe.v (global ownership invariant) and LinkedBufferProofs.v Part D.

   PROVED (no bound on the history, any configuration with positive capacities):
     C08          in every state reachable from the initial one by ANY op sequence (this stream's
                  writes, flushes, reads of any size, releases; allocations, overwrites and frees by
                  other owners interleaved arbitrarily) every live lease's slot is in no free list, is
                  not a slice of the send buffer, is not held by another owner, and its bytes [lo,hi)
                  are exactly the bytes that were handed out.
     C08_invariant  the same from any state satisfying the pipe invariant.
     C08_duplex   the same for both directions of a stream pair, Stream.ReleaseReadAndReuse (with its swap) included.
     C08_release_frees   after ReleasePreviousRead every parked (fully consumed, leased) shm slot is in
                  a free list again, the parked list and the leases are empty.
     C08_lease_only_fast_read / _peek   a lease is created only when the requested bytes lie inside
                  one slice; every slow-path result (and ReadString, Read, ReadByte, Discard) is a copy.
     C08_bytes_stable*   no operation except a writer op / a fill by a slot's owner changes a payload byte.
     C08_lease_survives_peer_close   the peer's half close ends no lease (sweep condition from Gen/SwitchC08.v).
   recycle() (Close) gives the parked slices back as well (since a234a74; mirrored by the model). *)
From Coq Require Import List ZArith Lia Bool Arith.
From Shm Require Import Gen.Consts Gen.SwitchC08 Model.LinkedBuffer Proofs.LinkedBufferProofs Proofs.LinkedBufferStore
  Proofs.LinkedBufferWriter Proofs.LinkedBufferXfer Proofs.LinkedBufferPipe Proofs.LinkedBufferDuplex.
Import ListNotations.
Close Scope Z_scope.
Open Scope nat_scope.

Theorem C08 : forall cfg ops s' le, cfg_ok cfg -> run (init_sys cfg) ops = Ok s' ->
  In le (leases (rcv s')) -> l_shm le = true ->
  ~ In (l_off le) (frees (mem s')) /\ lease_bytes (mem s') le = l_bytes le
  /\ ~ In (l_off le) (offs (slices (snd s'))) /\ ~ In (l_off le) (offs (oth s')).
Proof. exact leases_safe. Qed.
Print Assumptions C08.

(* both directions of a stream pair, Stream.ReleaseReadAndReuse included (guard: never with unflushed writes) *)
Theorem C08_duplex : forall cfg ops D' le, cfg_ok cfg -> dguard spec0 spec0 ops -> drun (init_dsys cfg) ops = Some D' ->
  In le (leases (h_rcv (d_0 D')) ++ leases (h_rcv (d_1 D'))) -> l_shm le = true ->
  ~ In (l_off le) (frees (d_mem D')) /\ lease_bytes (d_mem D') le = l_bytes le.
Proof. exact duplex_leases_safe. Qed.
Print Assumptions C08_duplex.

(* the peer's close (half close) ends no lease: the sweep of the callback goroutine (pendingData.clear +
   recvBuf.recycle) runs only for a locally closed stream (Gen/SwitchC08.v, translated from
   startCallbackGoroutine); only the holder's own release / Close ends a lease *)
Theorem C08_lease_survives_peer_close : forall sticky s,
  step_gen sticky sw_sweep_needs_closed s RPeerClose = Ok (RUnit, s).
Proof. intros sticky s. reflexivity. Qed.
Print Assumptions C08_lease_survives_peer_close.

(* the model is parametrized by the decisions read off the source; C08, C08_duplex ... are about the variant
   with the sweep restricted to locally closed streams, which is the one the generated switch selects (the
   other three decisions are C06's / C07's subject and stay variables here) *)
Theorem C08_model_is_the_source_variant : forall a b sticky,
  dstep_gen a b sticky sw_sweep_needs_closed = dstep_gen a b sticky true.
Proof. intros a b sticky. reflexivity. Qed.
Print Assumptions C08_model_is_the_source_variant.

Theorem C08_sweep_on_half_close_frees_a_leased_slot :
  let bs := map Z.of_nat (seq 0 40) in
  match run (init_sys [(16, 4)]) [WBytes bs; WFlush; RBytes 10; RBytes 20] with
  | Ok s => map l_off (leases (rcv s)) = [0]
            /\ existsb (Nat.eqb 0) (concat (free (mem s))) = false
            /\ existsb (Nat.eqb 0) (concat (free (fst (lb_recycle (mem s) (rcv s))))) = true
  | _ => False
  end.
Proof. exact sweep_on_half_close_frees_a_leased_slot. Qed.
Print Assumptions C08_sweep_on_half_close_frees_a_leased_slot.

Theorem C08_invariant : forall ext Eg s sp idss le, Inv ext Eg s sp idss -> In le (leases (rcv s)) -> l_shm le = true ->
  ~ In (l_off le) (frees (mem s)) /\ lease_bytes (mem s) le = l_bytes le
  /\ ~ In (l_off le) (offs (slices (snd s))) /\ ~ In (l_off le) (offs (oth s)) /\ ~ In (l_off le) (concat idss).
Proof. exact Inv_leases_safe. Qed.
Print Assumptions C08_invariant.

Theorem C08_release_frees : forall m l p,
  shm_wf m -> In p (pinned l) -> shmf p = true -> In (cap p) (cls m) ->
  let '(m', l') := release m l in In (off p) (concat (free m')) /\ pinned l' = [] /\ leases l' = [].
Proof. exact release_frees_parked. Qed.
Print Assumptions C08_release_frees.

Theorem C08_lease_only_fast_read : forall m n l bs l', read_bytes m n l = Ok (bs, l') ->
  leases l' = leases l \/ exists s, leases l' = leases l ++ [mk_lease s n bs] /\ n <= ssize s.
Proof. exact read_bytes_lease_cases. Qed.
Print Assumptions C08_lease_only_fast_read.

Theorem C08_lease_only_fast_peek : forall m n l bs l', peek m n l = Ok (bs, l') ->
  l' = l \/ exists s, leases l' = leases l ++ [mk_lease s n bs] /\ n <= ssize s.
Proof. exact peek_lease_cases. Qed.
Print Assumptions C08_lease_only_fast_peek.

Theorem C08_bytes_stable_step : forall s o y s',
  nonwriting o = true -> step s o = Ok (y, s') -> same_data (mem s) (mem s').
Proof. exact step_same_data. Qed.
Print Assumptions C08_bytes_stable_step.

Theorem C08_bytes_stable : forall ops s s',
  forallb nonwriting ops = true -> run s ops = Ok s' -> same_data (mem s) (mem s').
Proof. exact run_same_data. Qed.
Print Assumptions C08_bytes_stable.

Theorem C08_copies_read_string : forall m n l, WF m l -> 0 < n -> (Z.of_nat n <= len l)%Z ->
  exists l', read_string m n l = Ok (firstn n (content m l), l')
          /\ content m l' = skipn n (content m l) /\ WF m l' /\ leases l' = leases l.
Proof. exact read_string_refines. Qed.
Print Assumptions C08_copies_read_string.

Theorem C08_copies_read : forall m n l, WF m l -> 0 < n ->
  let k := Nat.min n (length (content m l)) in
  exists l', read_copy m n l = Ok (firstn k (content m l), l')
          /\ content m l' = skipn k (content m l) /\ WF m l' /\ leases l' = leases l.
Proof. exact read_copy_refines. Qed.
Print Assumptions C08_copies_read.

Theorem C08_copies_read_byte : forall m l, WF m l -> (0 < len l)%Z ->
  exists b l', read_byte m l = Ok (b, l') /\ content m l = b :: content m l' /\ WF m l' /\ leases l' = leases l.
Proof. exact read_byte_refines. Qed.
Print Assumptions C08_copies_read_byte.

Theorem C08_copies_discard : forall m n l, WF m l -> (Z.of_nat n <= len l)%Z ->
  exists l', discard n l = Ok (n, l') /\ content m l' = skipn n (content m l) /\ WF m l' /\ leases l' = leases l.
Proof. exact discard_refines. Qed.
Print Assumptions C08_copies_discard.

(* non-vacuity: a 10-byte zero-copy read of a 16-byte slot, then the rest of the chain is read
   across the slot edge (parking the leased slot), another owner allocates and scribbles; the lease
   still denotes its bytes; the release puts the parked slot (id 0) back into its free list *)
Example C08_example_run :
  let bs := map Z.of_nat (seq 0 40) in
  match run (init_sys [(16, 4)]) [WBytes bs; WFlush; RBytes 10; RBytes 20; OAlloc 16; OFill 0 (repeat 255%Z 16)] with
  | Ok s => map l_bytes (leases (rcv s)) = [firstn 10 bs]
            /\ map (lease_bytes (mem s)) (leases (rcv s)) = [firstn 10 bs]
            /\ map off (pinned (rcv s)) = [0]
            /\ existsb (Nat.eqb 0) (concat (free (mem s))) = false
            /\ existsb (Nat.eqb 0) (concat (free (fst (release (mem s) (rcv s))))) = true
  | _ => False
  end.
Proof. vm_compute. repeat split. Qed.
