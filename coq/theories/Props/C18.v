(* C18 — The event connection moves bytes exactly once and in order under any kernel IO.
   Only the property theorems (closed by `exact`), their axiom reports and non-vacuity examples.
   Model: Model/EventConn.v; proofs: Proofs/EventConnProofs.v.

   Quantification: every buffer configuration (initial size > 0, any threshold, shrink limit >= 1 -- the Go literals
   64 KiB / 1 MiB / 4 MiB are one instance), every stream, every sequence of kernel read sizes (1..room) and commit
   sizes (0..window) in any order; every message and every sequence of kernel answers to write (accept 1..remaining,
   EAGAIN, failure); any number of fast-path writers, any event sizes, every schedule of the flag protocol. *)
From Coq Require Import List ZArith Lia Bool.
From Shm Require Import Model.EventConn Proofs.EventConnProofs.
Import ListNotations.
Open Scope Z_scope.

(* the window handed to the callback (readBuffer[start:end]) is always exactly the received-but-unconsumed part
   of the stream: nothing lost, duplicated or reordered across growth, compaction and shrink *)
Theorem C18_read : forall c stream ops s', cfg_ok c ->
  r_run c stream (r_state0 c) ops = Some s' ->
  r_window (rb s') = skipn (Z.to_nat (consumed s')) (firstn (Z.to_nat (received s')) stream)
  /\ 0 <= consumed s' <= received s' /\ received s' <= zlen stream.
Proof. intros c stream ops s' C R. exact (read_window c stream ops s' C R). Qed.
Print Assumptions C18_read.

(* the structural invariant behind it: offsets stay inside the buffer, which never becomes empty *)
Theorem C18_read_bounds : forall c stream ops s', cfg_ok c ->
  r_run c stream (r_state0 c) ops = Some s' ->
  0 <= g_start (geo (rb s')) <= g_end (geo (rb s')) /\ g_end (geo (rb s')) <= g_len (geo (rb s')) /\
  0 < g_len (geo (rb s')) /\ zlen (content (rb s')) = g_len (geo (rb s')).
Proof.
  intros c stream ops s' C R.
  destruct (read_inv c stream C ops _ _ (rinv_init c stream C) R) as [(G1 & G2 & G3) L _ _]. auto.
Qed.
Print Assumptions C18_read_bounds.

(* the real loop is covered: onReadReady (expand, read, callback when the window reaches onDataThreshold, final
   callback at EAGAIN; the callback consuming any amount allowed by its policy) performs an operation list that runs
   whenever the kernel keeps its side of the contract [kernel_ok] (each read returns between 1 and `count` bytes of the
   stream) -- the code never issues an invalid commit --, the geometry it ends in is the one the geometry function
   computes, and the invariant of C18_read holds afterwards (and, a run of a prefix being a run, at every callback) *)
Theorem C18_on_read_ready : forall c stream reads s pol, cfg_ok c ->
  rinv stream s -> Forall (fun k => 0 <= k) pol ->
  kernel_ok c (geo (rb s)) reads pol (zlen stream - received s) ->
  exists s', r_run c stream s (fst (fst (fst (on_read_ready c (geo (rb s)) reads pol)))) = Some s' /\
             geo (rb s') = snd (fst (on_read_ready c (geo (rb s)) reads pol)) /\ rinv stream s'.
Proof. intros c stream reads s pol C. exact (on_read_ready_instance c stream C reads s pol). Qed.
Print Assumptions C18_on_read_ready.

(* [rinv] is what C18_read states: window = unconsumed part of the received stream, offsets inside the buffer *)
Theorem C18_rinv_meaning : forall stream s, rinv stream s ->
  r_window (rb s) = slice stream (consumed s) (received s) /\
  0 <= g_start (geo (rb s)) <= g_end (geo (rb s)) /\ g_end (geo (rb s)) <= g_len (geo (rb s)) /\
  g_end (geo (rb s)) - g_start (geo (rb s)) = received s - consumed s.
Proof. intros stream s [(G1 & G2 & G3) L (N1 & N2 & N3) W]. auto. Qed.
Print Assumptions C18_rinv_meaning.

(* what C18_read_bounds excludes: commitRead may only halve the buffer when everything was consumed and both offsets
   are back at 0.  A variant that halves as soon as the NUMBER of unread bytes fits into the smaller buffer, without
   looking at where they sit and without moving them, leaves readEndOff beyond the end of the buffer when the unread
   tail lies above the midpoint (the next read then indexes readBuffer[readEndOff] out of range). *)
Definition g_commit_shrink_by_count (c : cfg) (g : geom) (k : Z) : geom :=
  let st := g_start g + k in
  let '(st', en') := if st =? g_end g then (0, 0) else (st, g_end g) in
  {| g_len := if (g_len g >? shrink_limit c) && (en' - st' <=? g_len g / 2) then g_len g / 2 else g_len g;
     g_start := st'; g_end := en' |}.
Example C18_shrink_by_count_breaks_bounds :
  let c := {| init_len := 4; threshold := 100; shrink_limit := 8 |} in
  let g := {| g_len := 16; g_start := 0; g_end := 12 |} in        (* 12 unread bytes in a 16-byte buffer (> limit 8) *)
  g_end (g_commit_shrink_by_count c g 10) > g_len (g_commit_shrink_by_count c g 10)   (* tail [10,12) above midpoint 8 *)
  /\ g_end (g_commit c g 10) <= g_len (g_commit c g 10)                                (* the real commitRead keeps 16 *)
  /\ g_len (g_commit c g 12) = 8.                                                      (* and halves once all is consumed *)
Proof. vm_compute. repeat split; discriminate. Qed.

(* write: for every pattern of partial writes / EAGAIN / failure the bytes accepted by the kernel are exactly a
   prefix of the message, in order, each once; write returns nil exactly when the whole message is on the wire *)
Theorem C18_write : forall data ks w', write data ks = Some w' ->
  wire w' = firstn (Z.to_nat (written w')) data /\ 0 <= written w' <= zlen data /\
  (wres w' = WDone <-> written w' = zlen data) /\ (wres w' = WDone -> wire w' = data).
Proof. exact write_exact. Qed.
Print Assumptions C18_write.

(* the writing flag: for every number of fast-path writers, every event size and every schedule, no two threads
   are inside writeEventData together, and writing = 0 means nobody is *)
Theorem C18_mutex : forall nfrag nfw sched,
  let s := m_run nfrag sched (m_init nfw) in
  (forall i j wi wj, nth_error (fws s) i = Some wi -> nth_error (fws s) j = Some wj ->
                     fw_in_cs wi = true -> fw_in_cs wj = true -> i = j) /\
  (forall i wi, nth_error (fws s) i = Some wi -> fw_in_cs wi = true -> sl_in_cs (sl s) = false) /\
  (writing s = false -> sl_in_cs (sl s) = false /\ forall i wi, nth_error (fws s) i = Some wi -> fw_in_cs wi = false).
Proof. exact mutex. Qed.
Print Assumptions C18_mutex.

(* hence events are contiguous on the wire: whole events, then the pieces of the one event in progress *)
Theorem C18_contiguous : forall nfrag nfw sched,
  let s := m_run nfrag sched (m_init nfw) in
  exists done, blocks nfrag done /\ mwire s = done ++ partial s.
Proof. exact wire_contiguous. Qed.
Print Assumptions C18_contiguous.

(* the write-ready wake-up is never lost: handleEvent processes every bit of an epoll event, so an event that carries
   EPOLLOUT (or EPOLLRDHUP) releases a writer parked on onWriteReadyCh after EAGAIN whatever else the event carries
   (in particular EPOLLIN|EPOLLOUT, which for an edge-triggered fd may be the only report) ... *)
Theorem C18_wakeup : forall w e, wake_ok w -> ev_out e = true \/ ev_rdhup e = true ->
  wparked (wake_event w e) = false.
Proof. exact wakeup_out. Qed.
Print Assumptions C18_wakeup.

(* ... and when the event overtakes the writer (EAGAIN seen, channel receive not yet reached) the notification waits
   in the channel: the receive does not block.  [wake_ok] (nobody is parked on a closed channel) holds initially and
   is preserved by every step. *)
Theorem C18_wakeup_kept : forall w e, ev_out e = true \/ ev_rdhup e = true ->
  wparked w = false -> wparked (wake_wait (wake_event w e)) = false.
Proof. exact wakeup_kept. Qed.
Print Assumptions C18_wakeup_kept.

Theorem C18_wake_ok_invariant : forall w e,
  wake_ok {| wparked := false; wtoken := false; wclosed := false |} /\
  (wake_ok w -> wake_ok (wake_wait w) /\ wake_ok (wake_event w e)).
Proof. intros w e. split; [apply wake_ok_init|]. intros H. split; [apply wake_ok_wait | apply wake_ok_event]; exact H. Qed.
Print Assumptions C18_wake_ok_invariant.

(* what the theorem excludes: a dispatch that treats the bits as alternatives (a `switch` over RDHUP / IN / OUT runs
   only the first matching case) drops the write-ready half of an IN|OUT event and leaves the writer parked *)
Definition handle_event_first_match (e : epev) : list hcall :=
  if ev_rdhup e then [CRemoteClose] else if ev_in e then [CReadReady] else if ev_out e then [CWriteReady] else [].
Example C18_first_match_dispatch_loses_wakeup :
  let parked := {| wparked := true; wtoken := false; wclosed := false |} in
  let in_out := {| ev_rdhup := false; ev_in := true; ev_out := true |} in
  wparked (fold_left wake_call (handle_event_first_match in_out) parked) = true /\
  wparked (wake_event parked in_out) = false.
Proof. vm_compute. split; reflexivity. Qed.

(* ---- non-vacuity ---------------------------------------------------------------------------------------------- *)
(* a tiny buffer (4 bytes, threshold 6, shrink above 8): growth with a non-zero start offset (compaction), the
   threshold callback, partial consumption and the shrink path all happen *)
Example C18_example_read :
  let c := {| init_len := 4; threshold := 6; shrink_limit := 8 |} in
  let stream := map Z.of_nat (seq 1 40) in
  let ops := [RRead 4; RCommit 1; RRead 4; RRead 1; RCommit 0; RRead 7; RRead 1; RRead 16; RCommit 32; RRead 3] in
  match r_run c stream (r_state0 c) ops with
  | Some s => g_len (geo (rb s)) = 16 /\ received s = 36 /\ consumed s = 33 /\ r_window (rb s) = [34; 35; 36]
  | None => False
  end.
Proof. vm_compute. repeat split. Qed.

(* one onReadReady on the tiny buffer: the threshold callback fires in the middle, consumes part, the loop goes on *)
Example C18_example_on_read_ready :
  let c := {| init_len := 4; threshold := 6; shrink_limit := 8 |} in
  let r := on_read_ready c (g_init c) [4; 3; 1] [5; 100] in
  fst (fst (fst r)) = [RRead 4; RRead 3; RCommit 5; RRead 1; RCommit 3] /\
  map cb_window (snd (fst (fst r))) = [7; 3] /\ snd (fst r) = {| g_len := 8; g_start := 0; g_end := 0 |} /\
  kernel_ok c (g_init c) [4; 3; 1] [5; 100] 8.
Proof. vm_compute. repeat split; try discriminate. Qed.

Example C18_example_write :
  match write [1; 2; 3; 4; 5; 6; 7] [KAccept 2; KEagain; KEagain; KAccept 1; KAccept 4; KFail] with
  | Some w => wire w = [1; 2; 3; 4; 5; 6; 7] /\ wres w = WDone
  | None => False
  end.
Proof. vm_compute. repeat split. Qed.

(* two fast-path writers and the send loop; writer 1 finds the flag taken and goes through the send loop, which
   has to wait for the token *)
Example C18_example_mutex :
  let nfrag := fun _ : evid => 2%nat in
  let sched := [TFast 0; TFast 1; TSend; TSend; TFast 0; TSend; TFast 0; TFast 0; TFast 0; TSend; TSend; TSend; TSend; TSend] in
  let s := m_run nfrag sched (m_init 2) in
  mwire s = [((0%nat, 0%nat), 0%nat); ((0%nat, 0%nat), 1%nat); ((1%nat, 0%nat), 0%nat); ((1%nat, 0%nat), 1%nat)]
  /\ writing s = false.
Proof. vm_compute. repeat split. Qed.
