(* C02 — The allocator neither loses nor duplicates buffers.
   Model: Model/FreeList.v (one shared access per step, any number of threads); proofs:
   Proofs/FreeListProofs.v.  Status on the unchanged tree:
     - counting clauses: PROVED for every schedule (C02_count_bound, C02_count_exact_at_rest);
     - "at quiescence the chain is whole again": the full statement C02_full is REFUTED by an ABA
       schedule of bufferList.pop (C02_refuted; the same schedule is replayed on the real code on
       every run: corpus/freelist.json, known finding).                                         *)
From Coq Require Import List ZArith Lia Bool Arith.
From Shm Require Import Gen.Consts Model.FreeList Proofs.FreeListProofs.
Import ListNotations.
Open Scope Z_scope.

(* while buffers are out, the free count plus the number held never exceeds the capacity:
   every list size n, every capacity per buffer, any number of threads, every program of
   alloc / free / update operations, every schedule *)
Theorem C02_count_bound : forall n cpb base len progs sched,
  progs_nochain progs ->
  let s := run sched (init n cpb base len progs) in
  m_size (mm s) + nheld (thr s) <= n.
Proof. exact count_bound. Qed.
Print Assumptions C02_count_bound.

(* a failed allocation consumes nothing and nothing is lost in the count: whenever all threads are
   between operations (and none panicked), free count + held = capacity exactly *)
Theorem C02_count_exact_at_rest : forall n cpb base len progs sched,
  progs_nochain progs ->
  let s := run sched (init n cpb base len progs) in
  all_idle (thr s) -> m_size (mm s) + nheld (thr s) = n.
Proof. exact count_exact_at_rest. Qed.
Print Assumptions C02_count_exact_at_rest.

(* ---- the full quiescence statement and its refutation ---- *)
Definition finished (p : tlocal) : bool :=
  match pc p, normalize (held p) (todo p) with Idle, [] => true | _, _ => false end.
Fixpoint nodupb (l : list Z) : bool :=
  match l with [] => true | x :: r => negb (existsb (Z.eqb x) r) && nodupb r end.
Definition chain_whole (m : mem) : bool :=
  let w := walk m (m_head m) (S (Z.to_nat (m_n m))) in
  (Z.of_nat (length w) =? m_n m) && nodupb w && forallb (is_slot m) w && (last w (-1) =? m_tail m).

Definition C02_full : Prop := forall n cpb base len progs sched,
  0 < n -> 0 < cpb ->
  let s := run sched (init n cpb base len progs) in
  forallb finished (thr s) = true -> all_held s = [] ->
  m_size (mm s) = n /\ chain_whole (mm s) = true.

Definition aba_progs : list (list fop) :=
  [ [Alloc; FreeOldest];
    [Alloc; FreeOldest; Alloc; FreeOldest; Alloc; FreeOldest];
    [Alloc; Alloc; FreeOldest; FreeOldest] ].
Definition rep (t k : nat) : list nat := repeat t k.
(* A reads head/next and is parked before its CAS; B and C pop; B rotates the list until the head is A's
   old head again (with a different successor); A's CAS succeeds with the stale successor *)
Definition aba_sched : list nat :=
  rep 0 4 ++ rep 1 13 ++ rep 2 26 ++ rep 1 46 ++ rep 0 9 ++ rep 0 10 ++ rep 1 10 ++ rep 2 20.

Theorem C02_refuted : ~ C02_full.
Proof.
  intros H. specialize (H 5 16 44 228 aba_progs aba_sched ltac:(lia) ltac:(lia)).
  vm_compute in H. destruct (H eq_refl eq_refl) as [H1 H2]; discriminate.
Qed.
Print Assumptions C02_refuted.

(* non-vacuity of the counting theorems: a run with a failed allocation (the last slot is never
   handed out) and a recycle, ending at rest with size + held = capacity *)
Example C02_example :
  let s := run (rep 0 13 ++ rep 0 3 ++ rep 1 13 ++ rep 1 10) (init 2 16 44 120 [[Alloc; Alloc]; [Alloc; FreeOldest]]) in
  map res (thr s) = [[RAlloc (Some 0); RAlloc None]; [RAlloc None]] /\ m_size (mm s) = 1 /\ nheld (thr s) = 1.
Proof. vm_compute. repeat split. Qed.
