(* C02 — The allocator neither loses nor duplicates buffers.
   Model: Model/FreeList.v (one shared access per step, any number of threads); proofs:
   Proofs/FreeListProofs.v, FreeListSeq.v, FreeListConc.v.  Status on the unchanged tree:
     - counting clauses: PROVED for every schedule (C02_count_bound, C02_count_exact_at_rest);
     - "at quiescence the chain is whole again": the full statement C02_full is REFUTED by an ABA
       schedule of bufferList.pop (C02_refuted; the same schedule is replayed on the real code on
       every run: corpus/freelist.json, known finding);
     - C02_partial_aba_free (+ C02_partial_aba_free_no_slot_lost): for every number of slots, ANY
       number of threads, every program of alloc / free / update operations and EVERY schedule in
       which no head-CAS of pop succeeds with a stale head version (aba_free, a decidable predicate
       of the run): at every moment the free chain (non-empty: the last slot is never handed out)
       together with the buffers held and those inside an unfinished pop / push is exactly the set
       of slots, and when all threads have finished and nothing is held the free count is the
       capacity and the walk from head visits every slot exactly once and ends at tail;
     - C02_single_allocator: with at most one allocating thread (any number of recycling threads)
       every execution is ABA-free, so the quiescence statement holds for EVERY schedule;
     - C02_partial_sequential (+ C02_sequential_never_last, C02_sequential_failed_alloc): for one
       thread running ANY sequence of alloc / free / update operations to completion: the list never
       gives out its last slot, free count + held = capacity, a failed allocation leaves the memory
       exactly as it found it, and when everything has been freed the walk from head visits every
       slot exactly once and ends at tail (Proofs/FreeListSeq.v).
   Not covered: programs containing FreeChain (recycleBuffers; excluded by progs_nochain).  The
   hypothesis aba_free cannot be dropped (C02_refuted; C02_witness_is_aba).
   nodupb / finished / chain_whole are defined in Proofs/FreeListSeq.v.                             *)
From Coq Require Import List ZArith Lia Bool Arith.
From Shm Require Import Gen.Consts Model.FreeList Proofs.FreeListProofs Proofs.FreeListSeq Proofs.FreeListConc.
Import ListNotations.
Open Scope Z_scope.

(* while buffers are out, the free count plus the number held never exceeds the capacity:
   every list size n, every capacity per buffer, any number of threads, every program of
   alloc / free / update operations, every schedule *)
Theorem C02_count_bound : forall n cpb base len progs sched,
  progs_nochain progs ->
  let s := run sched (init n cpb base len progs) in
  m_size (mm s) + nheld (thr s) <= n.
Proof. exact count_bound. Qed.
Print Assumptions C02_count_bound.

(* a failed allocation consumes nothing and nothing is lost in the count: whenever all threads are
   between operations (and none panicked), free count + held = capacity exactly *)
Theorem C02_count_exact_at_rest : forall n cpb base len progs sched,
  progs_nochain progs ->
  let s := run sched (init n cpb base len progs) in
  all_idle (thr s) -> m_size (mm s) + nheld (thr s) = n.
Proof. exact count_exact_at_rest. Qed.
Print Assumptions C02_count_exact_at_rest.

(* ---- the full quiescence statement and its refutation ---- *)
Definition C02_full : Prop := forall n cpb base len progs sched,
  0 < n -> 0 < cpb ->
  let s := run sched (init n cpb base len progs) in
  forallb finished (thr s) = true -> all_held s = [] ->
  m_size (mm s) = n /\ chain_whole (mm s) = true.

Definition aba_progs : list (list fop) :=
  [ [Alloc; FreeOldest];
    [Alloc; FreeOldest; Alloc; FreeOldest; Alloc; FreeOldest];
    [Alloc; Alloc; FreeOldest; FreeOldest] ].
Definition rep (t k : nat) : list nat := repeat t k.
(* A reads head/next and is parked before its CAS; B and C pop; B rotates the list until the head is A's
   old head again (with a different successor); A's CAS succeeds with the stale successor *)
Definition aba_sched : list nat :=
  rep 0 4 ++ rep 1 13 ++ rep 2 26 ++ rep 1 46 ++ rep 0 9 ++ rep 0 10 ++ rep 1 10 ++ rep 2 20.

Theorem C02_refuted : ~ C02_full.
Proof.
  intros H. specialize (H 5 16 44 228 aba_progs aba_sched ltac:(lia) ltac:(lia)).
  vm_compute in H. destruct (H eq_refl eq_refl) as [H1 H2]; discriminate.
Qed.
Print Assumptions C02_refuted.

(* ---- every ABA-free execution: any number of threads, every schedule ---- *)
Theorem C02_partial_aba_free : forall n cpb, 1 <= n -> 0 <= cpb -> forall base len progs sched,
  progs_nochain progs -> aba_free sched (ginit (init n cpb base len progs)) = true ->
  let s := run sched (init n cpb base len progs) in
  forallb finished (thr s) = true -> all_held s = [] ->
  m_size (mm s) = n /\ chain_whole (mm s) = true.
Proof. exact aba_free_quiescent_whole. Qed.
Print Assumptions C02_partial_aba_free.

Theorem C02_partial_aba_free_no_slot_lost : forall n cpb, 1 <= n -> 0 <= cpb -> forall base len progs sched,
  progs_nochain progs -> aba_free sched (ginit (init n cpb base len progs)) = true ->
  let s := run sched (init n cpb base len progs) in
  exists C, C <> [] /\ m_head (mm s) = hd 0 C /\ m_tail (mm s) = last C 0 /\
            Permutation.Permutation (C ++ all_owned (thr s)) (L0 n cpb).
Proof. exact aba_free_no_slot_lost. Qed.
Print Assumptions C02_partial_aba_free_no_slot_lost.

(* the free count never over-reports: it is the chain length minus the reservations of poppers that have
   not yet taken (or given back) a slot and minus the pushes that have linked but not yet counted *)
Theorem C02_partial_aba_free_size : forall n cpb base len progs sched,
  1 <= n -> 0 <= cpb -> progs_nochain progs ->
  aba_free sched (ginit (init n cpb base len progs)) = true ->
  let s := run sched (init n cpb base len progs) in
  exists C, C <> [] /\ m_head (mm s) = hd 0 C /\ m_tail (mm s) = last C 0 /\
            m_size (mm s) = Z.of_nat (length C) - debts (thr s) /\ 0 <= debts (thr s).
Proof. exact aba_free_size_accounting. Qed.
Print Assumptions C02_partial_aba_free_size.

Theorem C02_single_allocator : forall n cpb base len progs i0 sched,
  1 <= n -> 0 <= cpb -> progs_nochain progs -> single_allocator i0 progs ->
  let s := run sched (init n cpb base len progs) in
  forallb finished (thr s) = true -> all_held s = [] ->
  m_size (mm s) = n /\ chain_whole (mm s) = true.
Proof. exact single_allocator_quiescent_whole. Qed.
Print Assumptions C02_single_allocator.

Example C02_witness_is_aba : aba_free aba_sched (ginit (init 5 16 44 228 aba_progs)) = false.
Proof. vm_compute. reflexivity. Qed.

(* non-vacuity: an ABA-free concurrent run (two failed CASes, interleaved pushes) that ends whole *)
Example C02_aba_free_example :
  let progs := [[Alloc; FreeOldest]; [Alloc; FreeOldest]; [Alloc; FreeOldest]] in
  let sched := rep 0 4 ++ rep 1 4 ++ rep 2 13 ++ rep 1 30 ++ rep 0 30 ++ rep 2 3 ++ rep 1 4 ++ rep 2 20 ++ rep 1 20 ++ rep 0 20 in
  aba_free sched (ginit (init 4 16 44 188 progs)) = true /\
  (let s := run sched (init 4 16 44 188 progs) in
   forallb finished (thr s) = true /\ all_held s = [] /\ m_size (mm s) = 4 /\ chain_whole (mm s) = true).
Proof. vm_compute. repeat split. Qed.

(* ---- one thread, any operation sequence (no recycle-chain) ---- *)
Theorem C02_partial_sequential : forall n cpb base len ops k,
  1 <= n -> 0 <= cpb -> forallb op_nochain ops = true ->
  let s := run (repeat O k) (init n cpb base len [ops]) in
  forallb finished (thr s) = true -> all_held s = [] ->
  m_size (mm s) = n /\ chain_whole (mm s) = true.
Proof. exact seq_quiescent_whole. Qed.
Print Assumptions C02_partial_sequential.

Theorem C02_sequential_never_last : forall n cpb base len ops k,
  1 <= n -> 0 <= cpb -> forallb op_nochain ops = true ->
  let s := run (repeat O k) (init n cpb base len [ops]) in
  forallb finished (thr s) = true ->
  1 <= m_size (mm s) /\ m_size (mm s) + Z.of_nat (length (all_held s)) = n.
Proof. exact seq_never_last. Qed.
Print Assumptions C02_sequential_never_last.

Theorem C02_sequential_failed_alloc : forall m p L H r rs,
  Rep m L H -> idle_n p Alloc r H rs -> (length L <= 1)%nat ->
  exists p', iter 3 (m, p) = (m, p') /\ idle_with p' r H (rs ++ [RAlloc None]).
Proof. exact seq_failed_alloc_restores. Qed.
Print Assumptions C02_sequential_failed_alloc.

(* non-vacuity of the counting theorems: a run with a failed allocation (the last slot is never
   handed out) and a recycle, ending at rest with size + held = capacity *)
Example C02_example :
  let s := run (rep 0 13 ++ rep 0 3 ++ rep 1 13 ++ rep 1 10) (init 2 16 44 120 [[Alloc; Alloc]; [Alloc; FreeOldest]]) in
  map res (thr s) = [[RAlloc (Some 0); RAlloc None]; [RAlloc None]] /\ m_size (mm s) = 1 /\ nheld (thr s) = 1.
Proof. vm_compute. repeat split. Qed.
