(* C07 — Multiplexed streams stay isolated and ordered; close never overtakes data.
   Only the property theorems (closed by `exact`), their axiom reports and a non-vacuity example.
   Model: Model/Mux.v (the wake-up protocol of Model/Wakeup.v with payloads, two transports, sticky
   fallback, an adversary choosing shm exhaustion / queue-full per operation); proofs: Proofs/MuxProofs.v.

   Quantification: any number of streams (one writer each: length progs), every program including
   every fault pattern ([OFlush shmok qfull], [OClose qfull]), every schedule of writers, the
   receiving event loop and the send loop (one shared access per step). *)
From Coq Require Import List ZArith Lia Bool Arith.
From Shm Require Import Gen.Consts Model.Wakeup Model.Mux Proofs.MuxProofs Proofs.MuxOrderProofs.
Import ListNotations.
Open Scope nat_scope.

(* ISOLATION (holds): whatever reaches a stream on the receiving side was handed to a transport by a
   writer, is an item of the writer of exactly that stream (sequence number below its counter, end mark
   only after its close), and nothing is delivered twice. *)
Theorem C07_isolation : forall progs sched,
  let st := mrun sched (minit progs) in
  (forall x v, In (x, v) (deliv st) -> In (x, v) (flog st) /\ valid (mprods st) x) /\
  NoDup (map fst (deliv st)).
Proof. exact isolation. Qed.
Print Assumptions C07_isolation.

(* each transport by itself is FIFO: what was delivered through it is a prefix of what was sent through it *)
Theorem C07_transport_fifo : forall progs sched,
  let st := mrun sched (minit progs) in
  (exists rest, projV VQ (deliv st) ++ rest = projV VQ (flog st)) /\
  (exists rest, projV VS (deliv st) ++ rest = projV VS (flog st)).
Proof. exact transport_fifo. Qed.
Print Assumptions C07_transport_fifo.

(* ORDER, full statement: for every stream what the reader is offered is a prefix of what the writer
   handed over, in that order, and the end mark comes after everything the writer sent.
   FALSE of the faithful model. *)
Definition C07_order_full : Prop :=
  forall progs sched s, ordered s (mrun sched (minit progs)) = true.

(* witness (b): markWorking is published before the polling event is written; a fallback event of another
   writer slips in between and its stream is reordered *)
Theorem C07_refuted_fallback_overtakes_unpublished_wakeup :
  let st := mrun wit_b_sched (minit wit_b_progs) in
  seen 1 st = [DData 1; DData 0] /\ sent 1 st = [DData 0; DData 1] /\ ordered 1 st = false.
Proof. exact wit_b. Qed.
Print Assumptions C07_refuted_fallback_overtakes_unpublished_wakeup.

(* inside the same window the end mark of a stream that switched transport is overtaken as well *)
Theorem C07_refuted_end_mark_inside_the_same_window :
  let st := mrun wit_e_sched (minit wit_e_progs) in
  seen 1 st = [DData 1; DEnd; DData 0] /\ sent 1 st = [DData 0; DData 1; DEnd] /\ ordered 1 st = false.
Proof. exact wit_e. Qed.
Print Assumptions C07_refuted_end_mark_inside_the_same_window.

Theorem C07_refuted : ~ C07_order_full.
Proof. exact order_refuted. Qed.
Print Assumptions C07_refuted.

(* ORDER, partial — the strongest form, for ALL streams including those that switch from the queue to the
   socket, and for all fault patterns: in every run that never hands an item to the socket path
   (writeFallback / close through the socket) while a won markWorking has not yet produced its polling
   event, every stream is delivered in order with its end mark last.  The hypothesis is exactly the absence
   of the window of the known defect C07:fallback-overtakes-unpublished-wakeup; the former defect
   C07:close-overtakes-fallback-data (close element through the queue while the stream's data is on the
   socket) is gone: with the repaired close() its witness history satisfies this hypothesis and is
   delivered in order (C07_regression_close_follows_fallback_data below). *)
Theorem C07_partial_no_unpublished_wakeup_window : forall progs sched,
  no_window sched (minit progs) = true ->
  forall s, ordered s (mrun sched (minit progs)) = true.
Proof. exact order_without_window. Qed.
Print Assumptions C07_partial_no_unpublished_wakeup_window.

(* ORDER, partial: for every schedule and fault pattern in which all items of stream s (data and
   close) travel through ONE transport v — only the queue, or only the socket (fallback from the first
   message, closed through the socket) — the stream is delivered in order and the end mark is last.
   The missing piece is exactly the hypothesis: a stream that switches transport. *)
Theorem C07_partial_single_transport : forall progs sched s v,
  let st := mrun sched (minit progs) in
  (forall x w, In (x, w) (flog st) -> fst x = s -> w = v) ->
  ordered s st = true.
Proof. exact single_transport_ordered. Qed.
Print Assumptions C07_partial_single_transport.

(* regression of the repaired defect (a): m0 through the queue, m1 through the socket, close — now through
   the socket behind m1; the history contains no window and is delivered in order *)
Example C07_regression_close_follows_fallback_data :
  let st := mrun wit_a_sched (minit wit_a_progs) in
  no_window wit_a_sched (minit wit_a_progs) = true /\
  seen 0 st = [DData 0; DData 1; DEnd] /\ map snd (flog st) = [VQ; VS; VS] /\ ordered 0 st = true.
Proof. vm_compute. repeat split. Qed.

(* non-vacuity: two streams, stream 0 only through the queue, stream 1 only through the socket,
   interleaved; both satisfy the hypothesis of the partial theorem and are fully delivered *)
Example C07_example_run :
  let st := mrun ex_sched (minit ex_progs) in
  seen 0 st = [DData 0; DData 1; DEnd] /\ seen 1 st = [DData 0; DData 1; DEnd] /\
  map snd (flog st) = [VQ; VS; VS; VQ; VS; VQ] /\ ordered 0 st = true /\ ordered 1 st = true.
Proof. vm_compute. repeat split. Qed.
