(* C07 — Multiplexed streams stay isolated and ordered; close never overtakes data.
   Only the property theorems (closed by `exact`), their axiom reports and a non-vacuity example.
   Model: Model/Mux.v (the wake-up protocol of Model/Wakeup.v with payloads, two transports, sticky
   fallback, an adversary choosing shm exhaustion / queue-full per operation); proofs: Proofs/MuxProofs.v.

   Quantification: any number of streams (one writer each: length progs), every program including
   every fault pattern ([OFlush shmok qfull], [OClose qfull]), every schedule of writers, the
   receiving event loop and the send loop (one shared access per step). *)
From Coq Require Import List ZArith Lia Bool Arith.
From Shm Require Import Gen.Consts Gen.SwitchC07 Model.Wakeup Model.Mux Model.MuxCallback Model.MuxReader Proofs.MuxProofs Proofs.MuxOrderProofs Proofs.MuxReaderProofs.
Import ListNotations.
Open Scope nat_scope.

(* ISOLATION (holds): whatever reaches a stream on the receiving side was handed to a transport by a
   writer, is an item of the writer of exactly that stream (sequence number below its counter, end mark
   only after its close), and nothing is delivered twice. *)
Theorem C07_isolation : forall progs sched,
  let st := mrun sched (minit progs) in
  (forall x v, In (x, v) (deliv st) -> In (x, v) (flog st) /\ valid (mprods st) x) /\
  NoDup (map fst (deliv st)).
Proof. exact isolation. Qed.
Print Assumptions C07_isolation.

(* each transport by itself is FIFO: what was delivered through it is a prefix of what was sent through it *)
Theorem C07_transport_fifo : forall progs sched,
  let st := mrun sched (minit progs) in
  (exists rest, projV VQ (deliv st) ++ rest = projV VQ (flog st)) /\
  (exists rest, projV VS (deliv st) ++ rest = projV VS (flog st)).
Proof. exact transport_fifo. Qed.
Print Assumptions C07_transport_fifo.

(* ORDER (holds, full strength): for every schedule, any number of streams and every pattern of shared-memory
   exhaustion and queue-full, what the reader of a stream is offered is a prefix of what the writer handed
   over, in that order, and the end mark comes after everything the writer sent — also for streams that
   switch from the queue to the socket fallback in mid-flight, and while other writers sit between
   markWorking and the write of their polling event.
   (History: refuted on the original code by two races — the close element overtaking fallback data, repaired
   by c91430a; a fallback / close event overtaking data whose wake-up was published but not yet written,
   repaired by emptying the queue before a socket item is handed to its stream.  Their witness schedules
   are the regression examples below.) *)
Definition C07_order_full : Prop :=
  forall progs sched s, ordered s (mrun sched (minit progs)) = true.

Theorem C07_order : C07_order_full.
Proof. exact order_holds. Qed.
Print Assumptions C07_order.

(* WHAT C07_order DEPENDS ON IN THE SOURCE.  [mrun] is [mrun_g sw_fallback_sticky]: the switch is regenerated
   on every run from the statements of stream.go that set / test Stream.inFallbackState (props/C07.py; an
   unknown shape is a broken correspondence).  With a flag that is NOT sticky (Flush assigns it from the
   current buffer, so a stream returns to the queue when shared memory recovers) the order statement is false:
   the receiver empties the queue before it hands a socket item to its stream — correct only because a stream
   never goes back from the socket to the queue. *)
Theorem C07_order_needs_sticky_fallback :
  ~ (forall progs sched s, ordered s (mrun_g false sched (minit progs)) = true).
Proof. exact unsticky_refutes_order. Qed.
Print Assumptions C07_order_needs_sticky_fallback.

Example C07_regression_fallback_flag_not_sticky :
  (let st := mrun_g false wit_u_sched (minit wit_u_progs) in
   seen 0 st = [DData 0; DData 2; DData 1] /\ sent 0 st = [DData 0; DData 1; DData 2] /\
   map snd (flog st) = [VQ; VS; VQ] /\ ordered 0 st = false) /\
  (let st := mrun_g true wit_u_sched (minit wit_u_progs) in
   seen 0 st = [DData 0; DData 1; DData 2] /\ map snd (flog st) = [VQ; VS; VS] /\ ordered 0 st = true).
Proof. exact unsticky_run. Qed.

(* regression: the former witness schedules, now delivered in order *)
Example C07_regression_close_follows_fallback_data :
  let st := mrun wit_a_sched (minit wit_a_progs) in
  seen 0 st = [DData 0; DData 1; DEnd] /\ sent 0 st = [DData 0; DData 1; DEnd] /\ ordered 0 st = true /\
  map snd (flog st) = [VQ; VS; VS].
Proof. exact reg_a. Qed.

Example C07_regression_unpublished_wakeup :
  (let st := mrun wit_b_paused (minit wit_b_progs) in
   map mpc_ (mprods st) = [MWr; MIdle] /\ seen 1 st = [DData 0; DData 1] /\ seen 0 st = [DData 0]) /\
  (let st := mrun wit_b_sched (minit wit_b_progs) in
   seen 1 st = [DData 0; DData 1] /\ sent 1 st = [DData 0; DData 1] /\ ordered 1 st = true /\ ordered 0 st = true).
Proof. exact reg_b. Qed.

Example C07_regression_end_mark_inside_the_window :
  let st := mrun wit_e_sched (minit wit_e_progs) in
  seen 1 st = [DData 0; DData 1; DEnd] /\ sent 1 st = [DData 0; DData 1; DEnd] /\ ordered 1 st = true.
Proof. exact reg_e. Qed.

(* END OF STREAM IN SYNC MODE (Model/MuxReader.v: Stream.readMore against the dispatcher; every interleaving, every
   choice of Go's select when several channels are ready).  [rrun] is [rrun_g sw_close_branch_moves]; the
   switch is regenerated from readMore's closeNotifyCh branch on every run. *)

(* holds: when the WAIT LOOP reports the end (closeNotifyCh branch), every byte that arrived before the close has
   been moved into recvBuf by a moveTo that follows the close notification *)
Theorem C07_eos_after_last_bytes : forall l min,
  rsel (rrun l min) = true -> told_eos (rrun l min) = true /\ rpend (rrun l min) = 0.
Proof. exact eos_from_wait_after_last_bytes. Qed.
Print Assumptions C07_eos_after_last_bytes.

(* ... and it depends on that moveTo: without it the select may pick the close branch while the data
   notification is ready as well, and the last message stays in pendingData *)
Theorem C07_eos_needs_move_in_close_branch :
  ~ (forall em l min, let s := rrun_g false em l min in rsel s = true -> rpend s = 0).
Proof. exact no_move_refutes. Qed.
Print Assumptions C07_eos_needs_move_in_close_branch.

Example C07_regression_close_branch_without_move :
  (let s := rrun_g false false wit_sel 8 in rp s = RDone REos /\ rsel s = true /\ rpend s = 8 /\ rtok s = true) /\
  (let s := rrun_g true false wit_sel 8 in rp s = RDone ROk /\ rpend s = 0 /\ rbuf s = 8).
Proof. exact close_branch_needs_move. Qed.

(* the FULL statement "whenever the reader is told the stream ended, nothing is left un-offered":
   - false if the entry test of readMore (`recvLen == 0 && !IsOpen()`) reports the end using the length it read
     BEFORE the last message and the close arrived (the code as of 1ff1743; finding
     C07:end-of-stream-at-read-entry-with-data-pending, witness below);
   - true if the entry test moves pending data again before it reports the end
     (.work/fixes/C07_offer_last_bytes_before_eos_at_read_entry.diff).
   Which of the two the source has is read by the translator (sw_entry_rechecks). *)
Definition C07_eos_full : Prop := forall l min, eos_ok (rrun l min) = true.

Theorem C07_eos_by_entry_shape : if sw_entry_rechecks then C07_eos_full else ~ C07_eos_full.
Proof. exact eos_by_entry_shape. Qed.
Print Assumptions C07_eos_by_entry_shape.

Theorem C07_eos_full_if_entry_rechecks : forall l min, eos_ok (rrun_g true true l min) = true.
Proof. exact eos_full_if_entry_rechecks. Qed.
Print Assumptions C07_eos_full_if_entry_rechecks.

Theorem C07_refuted_eos_at_read_entry :
  let s := rrun_g true false wit_entry 8 in
  rp s = RDone REos /\ rpend s = 8 /\ rbuf s = 0 /\ rsel s = false /\ eos_ok s = false.
Proof. exact wit_entry_run. Qed.
Print Assumptions C07_refuted_eos_at_read_entry.

(* END OF STREAM IN CALLBACK MODE (the only clause of C07 that is still false; Model/MuxCallback.v):
   "OnRemoteClose only after every byte that arrived before the peer's close was offered to OnData".
   Known finding C07:callback-mode-data-before-peer-close-never-offered: the callback goroutine tests IsOpen()
   and a message that arrived together with the close is never offered. *)
Definition C07_callback_end_full : Prop := forall l, end_after_data (crun l) = true.

Theorem C07_refuted_callback_mode_end_before_data :
  let s := crun wit_c in
  ccalls s = [CRemoteClose] /\ carrived s = [7] /\ crbuf s = [7] /\ cg s = GNone /\ end_after_data s = false.
Proof. exact wit_c_run. Qed.
Print Assumptions C07_refuted_callback_mode_end_before_data.

Theorem C07_refuted_callback_mode : ~ C07_callback_end_full.
Proof. exact callback_end_refuted. Qed.
Print Assumptions C07_refuted_callback_mode.

(* non-vacuity: two streams, stream 0 only through the queue, stream 1 only through the socket,
   interleaved; both satisfy the hypothesis of the partial theorem and are fully delivered *)
Example C07_example_run :
  let st := mrun ex_sched (minit ex_progs) in
  seen 0 st = [DData 0; DData 1; DEnd] /\ seen 1 st = [DData 0; DData 1; DEnd] /\
  map snd (flog st) = [VQ; VS; VS; VQ; VS; VQ] /\ ordered 0 st = true /\ ordered 1 st = true.
Proof. vm_compute. repeat split. Qed.
