(* C12 — Handshake yields one shared memory and the lower version, or errors on both ends.
   Only the property theorems (closed by `exact`), their axiom reports and non-vacuity examples.
   Model: Model/Handshake.v; proofs: Proofs/HandshakeProofs.v.

   Quantification: every configuration (mapping type, paths, identities of the two memory objects,
   transport) satisfying [good] (path lengths < 2^16 — what the u16 length fields can carry — and
   distinct paths, which createQueueManager enforces), and EVERY schedule over the labels
   client/server thread step, select-receives-result, init timer, stall, death, file removal:
   no bound on the schedule.  [run cfg sch (init cfg)] is the state after the schedule. *)
From Coq Require Import List ZArith Lia Bool.
From Shm Require Import Gen.Consts Model.Handshake Proofs.HandshakeProofs.
Import ListNotations.
Open Scope Z_scope.

(* (1) codec: what the receiver extracts is (bufferPath, queuePath), and the header carries the
   total length, the magic, the version and the type *)
Theorem C12_codec : forall ver ty q b,
  paths_ok q b -> 0 <= ver < 256 -> 0 <= ty < 256 ->
  exists h body, parse_header (generate ver ty q b) = Some h /\ h_ver h = ver /\ h_type h = ty /\
                 h_magic h = c_magicNumber /\ h_len h = zlen (generate ver ty q b) /\
                 body_of h (generate ver ty q b) = Some body /\ extract body = Ok (b, q).
Proof. exact codec_roundtrip. Qed.
Print Assumptions C12_codec.

(* the statement without the 2^16 bound is false: uint16(len(path)) truncates *)
Definition C12_codec_full : Prop := codec_full.
Theorem C12_codec_refuted : ~ C12_codec_full.
Proof. exact codec_full_refuted. Qed.
Print Assumptions C12_codec_refuted.

(* (2) whoever reports success holds the lower common version *)
Theorem C12_version : forall cfg sch, good cfg ->
  let w := run cfg sch (init cfg) in
  (cret (wc w) = Some ROk -> cver (wc w) = negotiated cfg) /\
  (sret (ws w) = Some ROk -> sver (ws w) = negotiated cfg).
Proof. exact version_agreed. Qed.
Print Assumptions C12_version.

(* ... [cfg] includes the generation the SERVER advertises (sgen, 3 .. 255 by [good]); the client is this
   code base's (file mapping: protocol 2, no exchange; memfd: protocol 3) — the pairings the property
   quantifies over.  So C12_version covers a NEWER server answering this client: whoever succeeds holds
   min(client's, sgen).  End by end: *)
(* this client against a reply advertising ANY version v >= 2 (older, same, newer server): min(3, v), no error *)
Theorem C12_version_min_client : forall cfg ver rest v,
  mt cfg = MMemfd -> 2 <= v < 256 ->
  exists o, cstep cfg CWaitVer ver (hdr8 v c_typeExchangeProtoVersion :: rest) true = Some o /\
            co_ver o = Z.min c_maxSupportProtoVersion v /\ (forall e, co_pc o <> CDone (RErr e)).
Proof. exact client_picks_min. Qed.
Print Assumptions C12_version_min_client.
(* this server and the version its peer's first event announces: 3 is served by the V3 initialiser (reply
   advertises 3, version 3); a version above 3 — a client generation outside the property's quantifier — is
   turned away with an error before anything is written or mapped: the property's second disjunct
   (C12_no_residue then says nothing is left behind) *)
Theorem C12_version_min_server : forall f ver rest,
  (exists o, sstep c_maxSupportProtoVersion f SWaitFirst ver (hdr8 c_maxSupportProtoVersion c_typeExchangeProtoVersion :: rest) true = Some o /\
             so_ver o = c_maxSupportProtoVersion /\ so_pc o = SWaitMeta /\
             so_write o = [hdr8 c_maxSupportProtoVersion c_typeExchangeProtoVersion]) /\
  (forall v po, c_maxSupportProtoVersion < v < 256 ->
     sstep c_maxSupportProtoVersion f SWaitFirst ver (hdr8 v c_typeExchangeProtoVersion :: rest) po =
     Some (sfail ver None rest [FBytes (encode_header c_headerSize v c_typeExchangeProtoVersion)] (RErr EUnsupportedVersion))).
Proof. intros f ver rest. split; [apply server_serves_v3|intros v po H; apply server_rejects_newer_client; assumption]. Qed.
Print Assumptions C12_version_min_server.

(* (3) whoever reports success maps the two objects the client created, under the client's paths *)
Theorem C12_same_memory : forall cfg sch, good cfg ->
  let w := run cfg sch (init cfg) in
  (sret (ws w) = Some ROk -> sopen (ws w) = true -> same_maps cfg (smapq (ws w)) (smapb (ws w))) /\
  (cret (wc w) = Some ROk -> copen (wc w) = true -> same_maps cfg (cmapq (wc w)) (cmapb (wc w))).
Proof. exact same_memory. Qed.
Print Assumptions C12_same_memory.

(* (4) "success on both ends or error on both ends" — false: V2 has no acknowledgement *)
Definition C12_both_ends_full : Prop := both_ends_full.
Theorem C12_both_ends_refuted : ~ C12_both_ends_full.
Proof. exact both_ends_refuted. Qed.
Print Assumptions C12_both_ends_refuted.

(* ... what does hold: with the V3 acknowledgement (memfd clients) the client's success implies that
   the server's initialiser finished successfully and mapped the client's memory *)
Theorem C12_both_ends_partial_v3 : forall cfg sch, good cfg -> mt cfg = MMemfd ->
  let w := run cfg sch (init cfg) in
  cpc (wc w) = CDone ROk ->
  spc (ws w) = SDone ROk /\
  (sopen (ws w) = true -> sret (ws w) = None \/ sret (ws w) = Some ROk -> same_maps cfg (smapq (ws w)) (smapb (ws w))).
Proof. exact v3_ack_means_mapped. Qed.
Print Assumptions C12_both_ends_partial_v3.

(* (5) faults: a running end has returned once its timer event was taken, its goroutine ran once more
   (initProtocol shuts the socket down, so that step is the goroutine's last) and initProtocol saw it
   finished *)
Theorem C12_fault_timer : forall cfg pre post,
  (c_running (wc (run cfg pre (init cfg))) = true ->
   cret (wc (run cfg (pre ++ LTimerC :: LC :: LRetC :: post) (init cfg))) <> None) /\
  (s_running (ws (run cfg pre (init cfg))) = true ->
   sret (ws (run cfg (pre ++ LTimerS :: LS :: LRetS :: post) (init cfg))) <> None).
Proof. exact returns_by_timer. Qed.
Print Assumptions C12_fault_timer.

(* [pre] is arbitrary: the stall may strike at EVERY step, step 0 included.  The initializer selection
   (serverGetProtocolInitializer's read of the first header, clientGetProtocolInitializer's version
   exchange) is not instantaneous in the model: it is the goroutine's steps SWaitFirst / CStart / CWaitVer,
   which run under the timer like every later read (the harness checks on session.go that
   getProtocolInitializer is called inside the goroutine started after the timer was armed).  Spelled out
   for a peer that is silent from its very first byte: *)
Theorem C12_fault_timer_from_the_first_byte : forall cfg post,
  cret (wc (run cfg (LTimerC :: LC :: LRetC :: post) (init cfg))) <> None /\
  sret (ws (run cfg (LTimerS :: LS :: LRetS :: post) (init cfg))) <> None.
Proof.
  intros cfg post. destruct (C12_fault_timer cfg [] post) as [A B]. split; [apply A|apply B]; reflexivity.
Qed.
Print Assumptions C12_fault_timer_from_the_first_byte.
(* ... and for a server that never answers the memfd client's version event (the client has written it) *)
Theorem C12_fault_timer_version_unanswered : forall cfg post,
  cret (wc (run cfg (LC :: LTimerC :: LC :: LRetC :: post) (init cfg))) <> None.
Proof.
  intros cfg post. destruct (C12_fault_timer cfg [LC] post) as [A _]. apply A.
  unfold run, fold_left, step. cbn. destruct (client_rejects cfg); cbn; [reflexivity|].
  destruct (mt cfg); reflexivity.
Qed.
Print Assumptions C12_fault_timer_version_unanswered.

(* ... and an error return — ANY error, the timeout included — leaves nothing of the session's own
   behind: no mapping, no dup'ed descriptor, no initialiser goroutine.  (Before the repair of
   newSession/initProtocol this statement was refuted twice: stalled peer, and a peer answering after
   the timeout; the two schedules are kept below as examples and in the harness as regressions.) *)
Theorem C12_no_residue : forall cfg sch e, good cfg ->
  let w := run cfg sch (init cfg) in
  (cret (wc w) = Some (RErr e) -> c_mapped w = [] /\ cdup (wc w) = false /\ c_thread_alive w = false) /\
  (sret (ws w) = Some (RErr e) -> s_mapped w = [] /\ sdup (ws w) = false /\ s_thread_alive w = false).
Proof. exact no_residue. Qed.
Print Assumptions C12_no_residue.

(* ... and the client's /dev/shm files are gone *)
Theorem C12_fault_files : forall cfg sch e, good cfg ->
  cret (wc (run cfg sch (init cfg))) = Some (RErr e) -> no_files cfg (run cfg sch (init cfg)).
Proof. exact client_error_removes_files. Qed.
Print Assumptions C12_fault_files.

(* non-vacuity: both real flows run to success on both ends, with the version and the mappings the
   theorems speak about; and the state of the stalled-peer witness *)
Example C12_example_file :
  let w := run wit_file happy (init wit_file) in
  cret (wc w) = Some ROk /\ sret (ws w) = Some ROk /\ cver (wc w) = 2 /\ sver (ws w) = 2 /\
  s_mapped w = [([47; 113], 11); ([47; 98], 22)] /\ c_out w = cscript wit_file.
Proof. vm_compute. repeat split. Qed.
Example C12_example_memfd :
  let w := run wit_memfd happy (init wit_memfd) in
  cret (wc w) = Some ROk /\ sret (ws w) = Some ROk /\ cver (wc w) = 3 /\ sver (ws w) = 3 /\
  s_mapped w = [([47; 113], 11); ([47; 98], 22)] /\ c_out w = cscript wit_memfd /\ s_out w = sscript wit_memfd.
Proof. vm_compute. repeat split. Qed.
Example C12_example_newer_server :
  let w := run wit_newer_server happy (init wit_newer_server) in
  cret (wc w) = Some ROk /\ sret (ws w) = Some ROk /\ cver (wc w) = 3 /\ sver (ws w) = 3 /\
  s_mapped w = [([47; 113], 11); ([47; 98], 22)].
Proof. vm_compute. repeat split. Qed.
Example C12_example_stalled :
  let w := run wit_memfd stalled_peer_witness (init wit_memfd) in
  cret (wc w) = Some (RErr ETimeout) /\ cdup (wc w) = false /\ c_thread_alive w = false /\ c_mapped w = [].
Proof. exact stalled_peer_state. Qed.
Example C12_example_late_peer :
  let w := run wit_file late_peer_witness (init wit_file) in
  sret (ws w) = Some (RErr ETimeout) /\ s_mapped w = [] /\ sdup (ws w) = false /\ s_thread_alive w = false.
Proof. exact late_peer_state. Qed.
