(* C13 — Nothing received on the control connection can crash the process.
   Only the property theorems (closed by `exact`), their axiom reports, the refutation witnesses and a
   non-vacuity example.  Model: Model/Event.v; proofs: Proofs/EventProofs.v.

   Quantification: every session abstraction s (client/server, listener / manager present or not, any stream
   table, any receive-queue content), every byte string (list of Z, each reduced mod 256 by the decoders) and
   every way of cutting it into successive reads (every list of chunks whose concatenation is the string). *)
From Coq Require Import List ZArith Lia Bool.
From Shm Require Import Gen.Consts Model.Event Proofs.EventProofs.
Import ListNotations.
Open Scope Z_scope.

(* ---- the effect of a byte string does not depend on how it was split into reads --------------------------- *)
(* [feed] hands every callback the unconsumed bytes followed by the new ones (what C18_read proves of the read
   buffer), consumes what handleEvents reports and stops at the first error/panic.  Outcome (ok, which error,
   which panic), action list, resulting session state and, when no error occurred, the bytes left unconsumed are
   the same as for one delivery of the whole string -- also when an error or panic occurs. *)
Theorem C13_chunking : forall s bytes chunks, concat chunks = bytes ->
  let w := handle_events s bytes in
  let f := feed s [] chunks in
  f_outcome f = r_outcome w /\ f_actions f = r_actions w /\ f_sess f = r_sess w /\
  (r_outcome w = Ok -> f_pending f = skipn (Z.to_nat (r_consumed w)) bytes).
Proof. exact chunking. Qed.
Print Assumptions C13_chunking.

(* ... nor do the hot-restart lambdas handed to the dispatcher *)
Theorem C13_chunking_posted : forall s bytes chunks, concat chunks = bytes ->
  run_posted s (f_actions (feed s [] chunks)) = run_posted s (r_actions (handle_events s bytes)).
Proof. exact chunking_posted. Qed.
Print Assumptions C13_chunking_posted.

(* actions of a prefix are a prefix: bytes that arrive later never change what was already done *)
Theorem C13_prefix_actions : forall s a b,
  exists more, r_actions (handle_events s (a ++ b)) = r_actions (handle_events s a) ++ more.
Proof. exact prefix_actions. Qed.
Print Assumptions C13_prefix_actions.

(* handleEvents never reports more than it was given (commitRead stays inside the buffer) and the model's
   iteration bound is never reached *)
Theorem C13_consumed_bound : forall bytes s,
  0 <= r_consumed (handle_events s bytes) <= zlen bytes /\ r_outcome (handle_events s bytes) <> OutOfFuel.
Proof. intros bytes s. split; [apply consumed_bound | apply no_out_of_fuel]. Qed.
Print Assumptions C13_consumed_bound.

(* ---- no panic: the full statement ------------------------------------------------------------------------------ *)
(* For every session abstraction and every byte string: neither handleEvents nor a lambda it posted panics, and
   the number of bytes reported consumed lies inside the buffer.  (Before the `fix:` commits of /repo this statement
   was refuted by four inputs; they are the regression examples below and the first cases of every harness run.) *)
Theorem C13_no_panic_full : forall s bytes,
  (forall p, deliver_outcome s bytes <> Panic p) /\
  0 <= r_consumed (handle_events s bytes) <= zlen bytes.
Proof. exact no_panic. Qed.
Print Assumptions C13_no_panic_full.

(* ... and hence for every way of cutting the bytes into reads ([feed] stops at the first error) *)
Theorem C13_no_panic_chunked : forall s bytes chunks p, concat chunks = bytes ->
  f_outcome (feed s [] chunks) <> Panic p.
Proof.
  intros s bytes chunks p H. destruct (chunking s bytes chunks H) as (-> & _).
  apply handle_events_no_panic.
Qed.
Print Assumptions C13_no_panic_chunked.

Definition hdr (len ver typ : Z) : list Z :=
  [(len / 16777216) mod 256; (len / 65536) mod 256; (len / 256) mod 256; len mod 256;
   c_magicNumber / 256; c_magicNumber mod 256; ver; typ].
Definition plain (client listener manager : bool) : sess :=
  {| s_client := client; s_has_listener := listener; s_has_manager := manager; s_epoch := 7;
     s_lstate := c_hotRestartState; s_state := c_hotRestartState; s_streams := []; s_queue := [] |}.

(* regression examples: the four former panic witnesses now end the session with ErrInvalidMsgType *)
Example C13_regression_fallback_length_0 :      (* typeFallbackData, Length 0 < headerSize: was makeslice panic *)
  deliver_outcome (plain false true false) (hdr 0 2 c_typeFallbackData) = Err EInvalidMsgType.
Proof. vm_compute. reflexivity. Qed.
Example C13_regression_fallback_length_12 :     (* headerSize <= Length < 16, payload present: was slice bounds panic *)
  deliver_outcome (plain false true false) (hdr 12 2 c_typeFallbackData ++ [0; 0; 0; 1]) = Err EInvalidMsgType.
Proof. vm_compute. reflexivity. Qed.
Example C13_regression_ack_without_listener :   (* typeHotRestartAck on a session without listener: was nil dereference *)
  deliver_outcome (plain true false true) (hdr 16 2 c_typeHotRestartAck ++ [0; 0; 0; 0; 0; 0; 0; 7]) = Err EInvalidMsgType.
Proof. vm_compute. reflexivity. Qed.
Example C13_regression_restart_without_manager : (* typeHotRestart on a session without manager: was nil dereference in the lambda *)
  deliver_outcome (plain false true false) (hdr 16 2 c_typeHotRestart ++ [0; 0; 0; 0; 0; 0; 0; 7]) = Err EInvalidMsgType
  /\ r_actions (handle_events (plain false true false) (hdr 16 2 c_typeHotRestart ++ [0; 0; 0; 0; 0; 0; 0; 7])) = [].
Proof. vm_compute. split; reflexivity. Qed.

(* ---- handshake phase (server side readers) ------------------------------------------------------------------- *)
Theorem C13_handshake_no_panic_full : forall input, hs_out (server_handshake input) <> HsPanic.
Proof. exact handshake_no_panic. Qed.
Print Assumptions C13_handshake_no_panic_full.

(* extractShmMetadata accepts exactly the bodies whose three length checks [meta_wf] pass and returns an error for
   every other body *)
Theorem C13_metadata_spec : forall body,
  (meta_wf body = true -> exists q b, extract_shm_metadata body = MetaOk q b) /\
  (meta_wf body = false -> extract_shm_metadata body = MetaErr).
Proof. exact extract_spec. Qed.
Print Assumptions C13_metadata_spec.

(* the metadata body is never sized by a wrapped uint32: it has exactly Length - headerSize bytes *)
Theorem C13_body_length_no_wrap : forall h input body,
  read_body h input = BodyOk body -> zlen body = hdr_length h - c_headerSize.
Proof. exact read_body_no_wrap. Qed.
Print Assumptions C13_body_length_no_wrap.

Example C13_regression_short_metadata :         (* V2 ShareMemoryByFilePath with an empty body: was body[0:2] panic *)
  hs_out (server_handshake (hdr 8 c_initializerVersion_2 c_typeShareMemoryByFilePath)) = HsErr.
Proof. vm_compute. reflexivity. Qed.
Example C13_regression_length_below_header :    (* Length 3 < headerSize: was a ~4 GiB allocation request *)
  hs_out (server_handshake (hdr 3 c_initializerVersion_2 c_typeShareMemoryByFilePath)) = HsErr.
Proof. vm_compute. reflexivity. Qed.

(* ---- non-vacuity: a server session, three events cut in the middle of headers and payloads ------------------- *)
Example C13_example_run :
  let s := {| s_client := false; s_has_listener := true; s_has_manager := false; s_epoch := 7;
              s_lstate := c_hotRestartState; s_state := c_hotRestartState;
              s_streams := [(5, c_streamOpened)]; s_queue := [{| qe_id := 9; qe_status := 0; qe_data := [1; 2] |}] |} in
  let bytes := hdr 19 2 c_typeFallbackData ++ [0; 0; 0; 3; 0; 0; 0; 0] ++ [10; 11; 12]     (* new stream 3, 3 bytes *)
               ++ hdr 8 2 c_typePolling                                                       (* finds the queue empty *)
               ++ hdr 12 3 c_typeStreamClose ++ [0; 0; 0; 5]                                  (* half-closes stream 5 *)
               ++ hdr 16 2 c_typeHotRestartAck ++ [0; 0; 0; 0; 0; 0; 0; 7]                    (* matching ack *)
               ++ [0; 0; 0] in                                                                (* start of a next event *)
  let f := feed s [] [firstn 5 bytes; firstn 20 (skipn 5 bytes); skipn 25 bytes] in
  f_outcome f = Ok /\
  (* the fallback-data handler drains the receive queue before it delivers its own payload *)
  f_actions f = [AFallback 3 0 3; ANewStream 9; AData 9 false [1; 2]; ANewStream 3; AData 3 true [10; 11; 12]; APoll;
                 AHalfClose 5; AHotRestartAck 7 true] /\
  f_pending f = [0; 0; 0] /\
  s_streams (f_sess f) = [(5, c_streamHalfClosed); (9, c_streamOpened); (3, c_streamOpened)] /\
  s_state (f_sess f) = c_hotRestartDoneState.
Proof. vm_compute. repeat split. Qed.
