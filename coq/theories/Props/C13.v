(* C13 — Nothing received on the control connection can crash the process.
   Only the property theorems (closed by `exact`), their axiom reports, the refutation witnesses and a
   non-vacuity example.  Model: Model/Event.v; proofs: Proofs/EventProofs.v.

   Quantification: every session abstraction s (client/server, listener / manager present or not, any stream
   table, any receive-queue content), every byte string (list of Z, each reduced mod 256 by the decoders) and
   every way of cutting it into successive reads (every list of chunks whose concatenation is the string). *)
From Coq Require Import List ZArith Lia Bool.
From Shm Require Import Gen.Consts Model.Event Proofs.EventProofs.
Import ListNotations.
Open Scope Z_scope.

(* ---- the effect of a byte string does not depend on how it was split into reads --------------------------- *)
(* [feed] hands every callback the unconsumed bytes followed by the new ones (what C18_read proves of the read
   buffer), consumes what handleEvents reports and stops at the first error/panic.  Outcome (ok, which error,
   which panic), action list, resulting session state and, when no error occurred, the bytes left unconsumed are
   the same as for one delivery of the whole string -- also when an error or panic occurs. *)
Theorem C13_chunking : forall s bytes chunks, concat chunks = bytes ->
  let w := handle_events s bytes in
  let f := feed s [] chunks in
  f_outcome f = r_outcome w /\ f_actions f = r_actions w /\ f_sess f = r_sess w /\
  (r_outcome w = Ok -> f_pending f = skipn (Z.to_nat (r_consumed w)) bytes).
Proof. exact chunking. Qed.
Print Assumptions C13_chunking.

(* ... nor do the hot-restart lambdas handed to the dispatcher *)
Theorem C13_chunking_posted : forall s bytes chunks, concat chunks = bytes ->
  run_posted s (f_actions (feed s [] chunks)) = run_posted s (r_actions (handle_events s bytes)).
Proof. exact chunking_posted. Qed.
Print Assumptions C13_chunking_posted.

(* actions of a prefix are a prefix: bytes that arrive later never change what was already done *)
Theorem C13_prefix_actions : forall s a b,
  exists more, r_actions (handle_events s (a ++ b)) = r_actions (handle_events s a) ++ more.
Proof. exact prefix_actions. Qed.
Print Assumptions C13_prefix_actions.

(* handleEvents never reports more than it was given (commitRead stays inside the buffer) and the model's
   iteration bound is never reached *)
Theorem C13_consumed_bound : forall bytes s,
  0 <= r_consumed (handle_events s bytes) <= zlen bytes /\ r_outcome (handle_events s bytes) <> OutOfFuel.
Proof. intros bytes s. split; [apply consumed_bound | apply no_out_of_fuel]. Qed.
Print Assumptions C13_consumed_bound.

(* ---- no panic: the full statement, false of the faithful model today ---------------------------------------- *)
Definition C13_no_panic_full : Prop :=
  forall s bytes, (forall p, deliver_outcome s bytes <> Panic p) /\
                  0 <= r_consumed (handle_events s bytes) <= zlen bytes.

Definition hdr (len ver typ : Z) : list Z :=
  [(len / 16777216) mod 256; (len / 65536) mod 256; (len / 256) mod 256; len mod 256;
   c_magicNumber / 256; c_magicNumber mod 256; ver; typ].
Definition plain (client listener manager : bool) : sess :=
  {| s_client := client; s_has_listener := listener; s_has_manager := manager; s_epoch := 7;
     s_streams := []; s_queue := [] |}.

(* the four witnesses (each reproduced on the real code by go/harness/c13_events_test.go) *)
Example C13_witness_fallback_makeslice :      (* typeFallbackData, Length 0 < headerSize *)
  deliver_outcome (plain false true false) (hdr 0 2 c_typeFallbackData) = Panic PMakeslice.
Proof. vm_compute. reflexivity. Qed.
Example C13_witness_fallback_bounds :         (* typeFallbackData, Length 12: headerSize <= Length < 16, payload present *)
  deliver_outcome (plain false true false) (hdr 12 2 c_typeFallbackData ++ [0; 0; 0; 1]) = Panic PSliceBounds.
Proof. vm_compute. reflexivity. Qed.
Example C13_witness_ack_without_listener :    (* typeHotRestartAck received by a session without listener *)
  deliver_outcome (plain true false true) (hdr 16 2 c_typeHotRestartAck ++ [0; 0; 0; 0; 0; 0; 0; 7]) = Panic PNilListener.
Proof. vm_compute. reflexivity. Qed.
Example C13_witness_restart_without_manager : (* typeHotRestart received by a session without manager: posted lambda *)
  deliver_outcome (plain false true false) (hdr 16 2 c_typeHotRestart ++ [0; 0; 0; 0; 0; 0; 0; 7]) = Panic PNilManager.
Proof. vm_compute. reflexivity. Qed.

Theorem C13_refuted : ~ C13_no_panic_full.
Proof.
  intros H. destruct (H (plain false true false) (hdr 0 2 c_typeFallbackData)) as [NP _].
  apply (NP PMakeslice). exact C13_witness_fallback_makeslice.
Qed.
Print Assumptions C13_refuted.

(* the strongest true statement: no panic as long as
   (1) every typeFallbackData event handed to its handler has Length >= headerSize + 8,
   (2) typeHotRestartAck is only handed to a session that has a listener,
   (3) typeHotRestart is only handed to a session that has a manager.
   Each hypothesis corresponds to one missing check in /repo; when a `fix:` adds the check the model's Panic
   branch becomes an error return and the hypothesis disappears. *)
Theorem C13_partial_no_panic : forall s bytes,
  (forall len, In (c_typeFallbackData, len) (dispatched_events s bytes) -> c_headerSize + fallbackDataHeader <= len) ->
  ((exists len, In (c_typeHotRestartAck, len) (dispatched_events s bytes)) -> s_has_listener s = true) ->
  ((exists len, In (c_typeHotRestart, len) (dispatched_events s bytes)) -> s_has_manager s = true) ->
  forall p, deliver_outcome s bytes <> Panic p.
Proof. exact partial_no_panic. Qed.
Print Assumptions C13_partial_no_panic.

(* and the hypotheses are exact: every panic inside handleEvents is one of the three, at a dispatched event *)
Theorem C13_panic_characterised : forall bytes s p,
  r_outcome (handle_events s bytes) = Panic p ->
  (p = PMakeslice /\ exists len, In (c_typeFallbackData, len) (dispatched_events s bytes) /\ len < c_headerSize) \/
  (p = PSliceBounds /\ exists len, In (c_typeFallbackData, len) (dispatched_events s bytes)
                                   /\ c_headerSize <= len < c_headerSize + fallbackDataHeader) \/
  (p = PNilListener /\ s_has_listener s = false /\ exists len, In (c_typeHotRestartAck, len) (dispatched_events s bytes)).
Proof. exact panic_characterised. Qed.
Print Assumptions C13_panic_characterised.

(* ---- handshake phase (server side readers) ------------------------------------------------------------------- *)
Definition C13_handshake_no_panic_full : Prop := forall input, hs_out (server_handshake input) <> HsPanic.

Example C13_witness_short_metadata :          (* V2 ShareMemoryByFilePath with an empty body: body[0:2] *)
  hs_out (server_handshake (hdr 8 c_protoVersion c_typeShareMemoryByFilePath)) = HsPanic.
Proof. vm_compute. reflexivity. Qed.

Theorem C13_handshake_refuted : ~ C13_handshake_no_panic_full.
Proof. intros H. apply (H (hdr 8 c_protoVersion c_typeShareMemoryByFilePath)). exact C13_witness_short_metadata. Qed.
Print Assumptions C13_handshake_refuted.

(* no panic when the metadata body handed to extractShmMetadata passes the length checks [meta_wf] (the guard
   the code lacks); exact: extractShmMetadata panics iff meta_wf is false *)
Theorem C13_handshake_partial_no_panic : forall input,
  (forall body, hs_body (server_handshake input) = Some body -> meta_wf body = true) ->
  hs_out (server_handshake input) <> HsPanic.
Proof. exact handshake_partial_no_panic. Qed.
Print Assumptions C13_handshake_partial_no_panic.

Theorem C13_metadata_panic_iff : forall body, extract_shm_metadata body = MetaPanic <-> meta_wf body = false.
Proof. exact extract_panic_iff. Qed.
Print Assumptions C13_metadata_panic_iff.

(* ---- non-vacuity: a server session, three events cut in the middle of headers and payloads ------------------- *)
Example C13_example_run :
  let s := {| s_client := false; s_has_listener := true; s_has_manager := false; s_epoch := 7;
              s_streams := [(5, c_streamOpened)]; s_queue := [{| qe_id := 9; qe_status := 0; qe_data := [1; 2] |}] |} in
  let bytes := hdr 19 2 c_typeFallbackData ++ [0; 0; 0; 3; 0; 0; 0; 0] ++ [10; 11; 12]     (* new stream 3, 3 bytes *)
               ++ hdr 8 2 c_typePolling                                                       (* drains the queue *)
               ++ hdr 12 3 c_typeStreamClose ++ [0; 0; 0; 5]                                  (* half-closes stream 5 *)
               ++ hdr 16 2 c_typeHotRestartAck ++ [0; 0; 0; 0; 0; 0; 0; 7]                    (* matching ack *)
               ++ [0; 0; 0] in                                                                (* start of a next event *)
  let f := feed s [] [firstn 5 bytes; firstn 20 (skipn 5 bytes); skipn 25 bytes] in
  f_outcome f = Ok /\
  f_actions f = [AFallback 3 0 3; ANewStream 3; AData 3 true [10; 11; 12]; APoll; ANewStream 9; AData 9 false [1; 2];
                 AHalfClose 5; AHotRestartAck 7 true] /\
  f_pending f = [0; 0; 0] /\
  s_streams (f_sess f) = [(5, c_streamHalfClosed); (3, c_streamOpened); (9, c_streamOpened)].
Proof. vm_compute. repeat split. Qed.
