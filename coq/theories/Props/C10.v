(* C10 — Stream close is final, propagates to the peer and is reported exactly once.
   Only the property theorems (closed by `exact`), their axiom reports, one refuted corner with the hypothesis
   it forces, and non-vacuity / regression examples.
   Model: Model/StreamState.v (one end: `est`; both ends: `world`); proofs: Proofs/StreamStateProofs.v.

   Quantification: either callback mode (cb0), every list of inbound events (data, peer close notifications),
   any number of concurrent/repeated Close() calls from other goroutines, any OnData behaviour including
   Close() inside OnData, user Flush threads, EVERY schedule (one shared access per step).  The session stays
   open and the transport is one FIFO (C14 / C07 own the rest).

   Status after the two repairs of stream.go that this model mirrors
     fix 1  close() retries its CAS on the state (casToClosed) instead of returning nil when it loses it;
     fix 2  Close() issued while a callback goroutine runs moves the state to streamLocalHalfClosed (not
            halfClosed), and close() treats oldState = localHalfClosed like opened (safeCloseNotify,
            OnLocalClose, close element for the peer):
   C10_full — formerly refuted three ways (Close inside OnData, Close while OnData runs, close() losing its
   CAS against the peer's close notification) — is now a THEOREM for every schedule, including the peer's
   halfClose racing at any point, and C10_propagates lifts it to both ends.  The former witnesses are the
   regression examples at the end of the file and regression scenarios of the harness (old signatures).
   One hypothesis remains, `cb_stable`: callbacks are installed before the run or SetCallbacks is not called
   during it.  It is forced: C10_setcallbacks_race_refuted (a Close() that read "no callbacks" just before
   SetCallbacks and "callback in process" just after never stores callbackWaitExit, so nobody finishes the
   close).  The window is two adjacent loads in Close(); the instrumented build cannot schedule inside it. *)
From Coq Require Import List ZArith Lia Bool Arith.
From Shm Require Import Gen.Consts Model.StreamState Proofs.StreamStateProofs Proofs.StreamStateClose Proofs.StreamStateResidue.
Import ListNotations.
Open Scope Z_scope.

(* the state only moves opened -> halfClosed -> closed, opened -> localHalfClosed -> closed, or opened -> closed *)
Theorem C10_monotone : forall cb0 inb nc scr ups sy nds pks sched sched',
  let s := run sched (init_rd cb0 inb nc scr ups sy nds pks) in let s' := run sched' s in
  (st s = c_streamOpened \/ st s = c_streamHalfClosed \/ st s = v_streamLocalHalfClosed \/ st s = c_streamClosed) /\
  (st s = c_streamClosed -> st s' = c_streamClosed) /\
  (st s = c_streamHalfClosed -> st s' = c_streamHalfClosed \/ st s' = c_streamClosed) /\
  (st s = v_streamLocalHalfClosed -> st s' = v_streamLocalHalfClosed \/ st s' = c_streamClosed).
Proof. exact monotone. Qed.
Print Assumptions C10_monotone.

(* never more than one close report per end (nlocal / nremote count the OnLocalClose / OnRemoteClose call
   sites; the callbacks themselves are invoked there iff callbacks are installed); none while open; a
   close element is sent only after the OnLocalClose site *)
Theorem C10_callbacks_at_most_once : forall cb0 inb nc scr ups sy nds pks sched,
  let s := run sched (init_rd cb0 inb nc scr ups sy nds pks) in
  0 <= nlocal s /\ 0 <= nremote s /\ nlocal s + nremote s <= 1 /\
  (st s = c_streamOpened -> nlocal s + nremote s = 0) /\ ncl (out s) <= nlocal s.
Proof. exact callbacks_at_most_once. Qed.
Print Assumptions C10_callbacks_at_most_once.

(* once a Close() call of another goroutine has returned the state is no longer opened: Flush (hence Write)
   returns ErrStreamClosed and a read never blocks again (buffered data, then ErrEndOfStream) *)
Theorem C10_final_flush : forall cb0 inb nc scr ups sy nds pks sched i,
  let s := run sched (init_rd cb0 inb nc scr ups sy nds pks) in
  nth_error (clos s) i = Some KRet ->
  st s <> c_streamOpened /\ flush_res s = RErrStreamClosed /\ read_res s <> RBlocked.
Proof. exact final_flush. Qed.
Print Assumptions C10_final_flush.

(* readers blocked in readMore are woken: once the state has left `opened` (by the peer's notification, by
   close(), or by the local half-close of a Close() issued while a callback runs — that one since 24acf5f)
   closeNotifyCh is closed as soon as no thread stands between its state transition and its report *)
Theorem C10_wake : forall cb0 inb nc scr ups sy nds pks sched,
  let s := run sched (init_rd cb0 inb nc scr ups sy nds pks) in
  st s <> c_streamOpened ->
  epc s <> EHalfN -> cz c_pendcb (clos s) = 0 -> cz (gl c_pendcb) (gors s) = 0 ->
  cnotify s = true.
Proof. exact wake. Qed.
Print Assumptions C10_wake.

(* operations that are already PENDING when the close happens.  An OnData invocation parked in a blocking read
   (readMore's select; model GRdPark): (i) a close() that waits for the callback goroutine has closed closeNotifyCh before
   its Wait, so it never waits for a reader that only this close could wake; (ii) whenever C10_wake applies, the parked
   invocation's next step leaves the select (its read returns the buffered bytes or fails with the closed-stream error).
   For a synchronous reader / a Flush in its queue-full retry loop the same closeNotifyCh is what they select on:
   C10_wake is the statement, and the harness compares closeNotifyCh with the model's `cnotify` at the end of every
   controlled run and runs real readers parked across a Close (props/C10.py). *)
Theorem C10_close_wakes_parked : forall cb0 inb nc scr ups sy nds pks sched i old,
  let s := run sched (init_rd cb0 inb nc scr ups sy nds pks) in
  (nth_error (clos s) i = Some (CWait old) \/ (exists j more, nth_error (gors s) j = Some (GCbClose (CWait old) more)) \/
   (exists j, nth_error (gors s) j = Some (GClose (CWait old)))) ->
  isloc old = true -> cnotify s = true.
Proof. exact close_wakes_parked. Qed.
Print Assumptions C10_close_wakes_parked.

Theorem C10_parked_woken_by_close : forall cb0 inb nc scr ups sy nds pks sched i nd cl,
  let s := run sched (init_rd cb0 inb nc scr ups sy nds pks) in
  nth_error (gors s) i = Some (GRdPark nd cl) ->
  st s <> c_streamOpened -> epc s <> EHalfN -> cz c_pendcb (clos s) = 0 -> cz (gl c_pendcb) (gors s) = 0 ->
  nth_error (gors (step s (WGor i))) i <> Some (GRdPark nd cl).
Proof. exact parked_woken_by_close. Qed.
Print Assumptions C10_parked_woken_by_close.

(* finality of the user operations.  Flush (hence Write = WriteBytes + Flush) is a thread of the model: it
   loads the state and, exactly as stream.go's `if state != uint32(streamOpened)`, fails with ErrStreamClosed and
   sends nothing unless the state is `opened`.  `aft` marks a Flush whose state check came after some Close() had
   returned (from a closer thread or from inside OnData).  In EVERY schedule no such Flush succeeds or is about to
   send — whichever non-open state the stream is in: halfClosed (peer), localHalfClosed (Close() issued while
   OnData runs, until that OnData returns) or closed — and from then on reads never block (buffered data, then
   end-of-stream).  [Flush with an empty sendBuf returns nil without a state check, and BufferWriter().WriteBytes
   only buffers: neither sends anything.] *)
Theorem C10_final_ops : forall cb0 inb nc scr ups sy nds pks sched,
  let s := run sched (init_rd cb0 inb nc scr ups sy nds pks) in
  (forall i u, nth_error (users s) i = Some u ->
     Forall (fun r => snd r = true -> fst r = false) (ures u) /\ (forall m, upc u <> UPut m true)) /\
  (0 < nret s -> st s <> c_streamOpened /\ flush_res s = RErrStreamClosed /\ read_res s <> RBlocked).
Proof. exact final_ops. Qed.
Print Assumptions C10_final_ops.

(* peer side: once a close notification has been taken from the inbox and its CAS executed, Flush fails and
   reads return the buffered data and then end-of-stream *)
Theorem C10_peer : forall cb0 inb nc scr ups sy nds pks sched,
  let s := run sched (init_rd cb0 inb nc scr ups sy nds pks) in
  ncl (processed s) > 0 -> epc s <> EHalf ->
  st s <> c_streamOpened /\ flush_res s = RErrStreamClosed /\ read_res s <> RBlocked /\
  (recv s ++ concat (pending s) = [] -> read_res s = REndOfStream).
Proof. exact peer. Qed.
Print Assumptions C10_peer.

(* ---------- the full statement: now a theorem ---------- *)
Theorem C10_full : forall cb0 inb nc scr ups sy nds pks sched,
  cb_stable cb0 sched ->
  let s := run sched (init_rd cb0 inb nc scr ups sy nds pks) in quiesc s -> close_returned s -> closed_ok s.
Proof. exact full. Qed.
Print Assumptions C10_full.

(* nothing is left behind: at closed quiescence pendingData and recvBuf are empty and a read returns end-of-stream at
   once — for every schedule over the fine steps (table lookup, add, walk, sweep …).  Formerly refuted
   (C10_no_residue_refuted, signature "C10:late-arrival-moved-into-recvBuf-after-clean-is-never-recycled"): an arrival
   whose table lookup preceded close()'s clean and whose add followed it was moved into recvBuf by a goroutine that
   close()'s Wait had missed, and nothing recycled it.  Since the repair the callback goroutine, after its OnData loop
   and before it clears callbackInProcess, sweeps pendingData and recvBuf if it finds the state closed. *)
Theorem C10_no_residue : forall cb0 inb nc scr ups sy nds pks sched,
  let s := run sched (init_rd cb0 inb nc scr ups sy nds pks) in
  st s = c_streamClosed -> epc s = EIdle -> (spc s = SIdle \/ spc s = SDone) ->
  (forall i g, nth_error (gors s) i = Some g -> g = GExit) ->
  (forall i c, nth_error (clos s) i = Some c -> c = KRet \/ c = KStart) ->
  pending s = [] /\ recv s = [] /\ read_res s = REndOfStream.
Proof. exact no_residue. Qed.
Print Assumptions C10_no_residue.
(* the former witness schedule (the goroutine that outlived the clean now sweeps) *)
Example C10_regress_late_arrival_residue :
  let s := run ([WClo 0; WClo 0] ++ repeat WEv 6 ++ [WClo 0; WClo 0; WClo 0] ++ [WEv; WEv; WEv] ++ repeat (WClo 0) 5 ++ [WEv] ++
                repeat (WGor 0) 12 ++ [WEv; WEv; WEv])
               (init true [EData [1]; EData [2]] 1 [] []) in
  st s = c_streamClosed /\ intable s = false /\ epc s = EIdle /\ gors s = [GExit] /\ pending s = [] /\ recv s = [].
Proof. vm_compute. repeat split. Qed.

(* both ends: a Close() on A reaches B — once B's event loop has drained its inbox B's stream has left
   `opened` (its Flush fails, its reads return the flushed data and then end-of-stream by C10_peer) *)
Theorem C10_propagates : forall cba cbb na nb sa sb ua ub sched,
  wcb_stable cba sched ->
  let w := wrun sched (winit cba cbb na nb sa sb ua ub) in
  quiesc (wa w) -> close_returned (wa w) ->
  inbox (wb w) = [] -> epc (wb w) = EIdle ->
  st (wb w) <> c_streamOpened /\ flush_res (wb w) = RErrStreamClosed /\ read_res (wb w) <> RBlocked.
Proof. exact propagates. Qed.
Print Assumptions C10_propagates.

(* ---------- the hypothesis cb_stable is forced ---------- *)
Definition C10_full_any_setcallbacks : Prop := forall cb0 inb nc scr ups sy nds pks sched,
  let s := run sched (init_rd cb0 inb nc scr ups sy nds pks) in quiesc s -> close_returned s -> closed_ok s.
(* Close() reads "no callbacks"; SetCallbacks installs them and takes the flag; Close() reads the flag = 1,
   half-closes and returns; the goroutine finds callbackCloseState = 0 and never closes *)
Theorem C10_setcallbacks_race_refuted : ~ C10_full_any_setcallbacks.
Proof.
  intros H.
  specialize (H false [] 1%nat [] [] [] [] [] ([WClo 0; WSet; WSet; WClo 0; WClo 0; WSet; WSet] ++ repeat (WGor 0) 8)).
  match type of H with let s := ?r in _ => set (s := r) in H end. cbv zeta in H.
  assert (Hq : quiesc s).
  { vm_compute. repeat split; auto.
    - intros [|[|i]] g Hg; simpl in Hg; try discriminate. inversion Hg; reflexivity.
    - intros [|[|i]] c Hc; simpl in Hc; try discriminate. inversion Hc; auto. }
  assert (Hr : close_returned s) by (left; exists 0%nat; vm_compute; reflexivity).
  destruct (H Hq Hr) as [Hst _]. vm_compute in Hst. discriminate.
Qed.
Print Assumptions C10_setcallbacks_race_refuted.

(* ---------- regression examples: the former refutation witnesses now end well ---------- *)
(* (1) one message, OnData consumes it and calls Close() (formerly C10_refuted) *)
Example C10_regress_close_inside_OnData :
  let s := run (repeat WEv 8 ++ repeat (WGor 0) 40) (init true [EData [1]] 0 [(1%nat, 1%nat)] []) in
  khalf s = true /\ st s = c_streamClosed /\ intable s = false /\ nlocal s = 1 /\ nremote s = 0 /\ out s = [EClose] /\
  gors s = [GExit].
Proof. vm_compute. repeat split. Qed.
(* (2) synchronous mode, Close() racing the peer's close notification (formerly C10_sync_refuted): the lost
   CAS is retried *)
Example C10_regress_close_cas_race :
  let s := run (repeat (WClo 0) 3 ++ repeat WEv 3 ++ repeat (WClo 0) 10) (init false [EClose] 1 [] []) in
  casfail s = true /\ st s = c_streamClosed /\ intable s = false /\ nremote s = 1 /\ nlocal s = 0 /\ out s = [] /\
  clos s = [KRet].
Proof. vm_compute. repeat split. Qed.

(* non-vacuity: synchronous mode, A flushes [5;6] and closes, B handles both events: A is closed, out of the
   table, reported once, told B; B is half-closed, still has the data to read, cannot flush *)
Example C10_example_run :
  let w := wrun (repeat (SA, WUser 0%nat) 4 ++ repeat (SA, WClo 0%nat) 10 ++ repeat (SB, WEv) 10)
                (winit false false 1 0 [] [] [[[5; 6]]] []) in
  quiesc (wa w) /\ close_returned (wa w) /\
  st (wa w) = c_streamClosed /\ intable (wa w) = false /\ nlocal (wa w) = 1 /\ out (wa w) = [EData [5; 6]; EClose] /\
  st (wb w) = c_streamHalfClosed /\ read_res (wb w) = RData /\ flush_res (wb w) = RErrStreamClosed /\ nremote (wb w) = 1.
Proof.
  vm_compute. repeat split; auto.
  - intros [|i] g Hg; discriminate.
  - intros [|[|i]] c Hc; simpl in Hc; try discriminate. inversion Hc; auto.
  - left. exists 0%nat. reflexivity.
Qed.

(* (3) Close() called twice inside the same OnData: the second call finds the stream already locally half-closed,
   its CAS fails and it returns; the goroutine's exit path completes the close *)
Example C10_regress_repeated_close_inside_OnData :
  let s := run (repeat WEv 8 ++ repeat (WGor 0) 50) (init true [EData [1]] 0 [(1%nat, 2%nat)] []) in
  st s = c_streamClosed /\ intable s = false /\ nlocal s = 1 /\ nremote s = 0 /\ out s = [EClose] /\ gors s = [GExit].
Proof. vm_compute. repeat split. Qed.
(* (4) Close() inside OnData after the peer's close notification was handled while that OnData was running *)
Example C10_regress_close_inside_OnData_after_peer_close :
  let s := run (repeat WEv 8 ++ repeat (WGor 0) 3 ++ repeat WEv 3 ++ repeat (WGor 0) 50)
               (init true [EData [1]; EClose] 0 [(1%nat, 1%nat)] []) in
  st s = c_streamClosed /\ intable s = false /\ nlocal s = 0 /\ nremote s = 1 /\ out s = [] /\ gors s = [GExit].
Proof. vm_compute. repeat split. Qed.

(* Why Close() must return when its CAS in the callbackInProcess = 1 branch fails.  Variant under test by the
   harness (scenarios "Close repeated inside the same OnData" / "Close inside OnData after the peer's close"):
   if a failed CAS fell through to close(), then — called from inside OnData — close() would win the CAS to
   closed and wait on asyncGoroutineWg, which the calling goroutine itself holds: it waits for itself for ever.
   Below, the fall-through is applied by hand to the state in which the second Close() of one OnData stands at
   that CAS; from there the (unchanged) step function never leaves wg.Wait: the stream is marked closed but
   stays in the table, OnLocalClose is never called and the peer is never told. *)
Definition seeded_fallthrough (s : est) : est := setg 0 (GCbClose CLd 0) s.
Example C10_seeded_close_fallthrough_self_deadlock :
  let s1 := run (repeat WEv 8 ++ repeat (WGor 0) 9) (init true [EData [1]] 0 [(1%nat, 2%nat)] []) in
  nth_error (gors s1) 0 = Some (GCbClose KHalf 0) /\ st s1 = v_streamLocalHalfClosed /\
  let s2 := run (repeat (WGor 0) 100) (seeded_fallthrough s1) in
  nth_error (gors s2) 0 = Some (GCbClose (CWait v_streamLocalHalfClosed) 0) /\ wg s2 = 1 /\
  st s2 = c_streamClosed /\ intable s2 = true /\ nlocal s2 = 0 /\ out s2 = [] /\
  step s2 (WGor 0) = s2.
Proof. vm_compute. repeat split. Qed.

(* non-vacuity for C10_final_ops: OnData consumes, calls Close() (state becomes localHalfClosed) and — modelled as
   user thread 0 running inside that OnData — flushes once more before OnData returns: the Flush fails, nothing
   but the close element is ever sent; a Flush begun BEFORE the Close (user thread 1) was sent *)
Example C10_flush_after_close_inside_OnData :
  let s := run (repeat (WUser 1) 4 ++ repeat WEv 8 ++ repeat (WGor 0) 7 ++ repeat (WUser 0) 4 ++ repeat (WGor 0) 40)
               (init true [EData [1]] 0 [(1%nat, 1%nat)] [[[9]]; [[8]]]) in
  map ures (users s) = [[(false, true)]; [(true, false)]] /\ out s = [EData [8]; EClose] /\
  st s = c_streamClosed /\ nret s = 1.
Proof. vm_compute. repeat split. Qed.
