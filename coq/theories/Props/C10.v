(* C10 — Stream close is final, propagates to the peer and is reported exactly once.
   Only the property theorems (closed by `exact`), their axiom reports, the full statement with its
   refutations, the strongest partial theorem, and non-vacuity examples.
   Model: Model/StreamState.v (one end: `est`; both ends: `world`); proofs: Proofs/StreamStateProofs.v.

   Quantification: either callback mode (cb0), every list of inbound events (data, peer close notifications),
   any number of concurrent/repeated Close() calls from other goroutines, any OnData behaviour including
   Close() inside OnData, user Flush threads, a SetCallbacks call at any time, EVERY schedule (one shared
   access per step).  The session stays open and the transport is one FIFO (C14 / C07 own the rest).

   Status.  C10_monotone, C10_callbacks_at_most_once, C10_final_flush, C10_peer hold unconditionally.
   The full statement C10_full (at quiescence after a returned Close(): state closed, out of the table,
   exactly one of OnLocalClose/OnRemoteClose, and the peer was told unless it had told us) is REFUTED
   three ways, all reproduced on the real code by the harness:
     (1) Close() issued while a callback goroutine owns callbackInProcess — from inside OnData
         (C10_refuted) or from any other goroutine: Close CASes the state to halfClosed and returns; the
         goroutine's exit path then runs close() with oldState = halfClosed, which skips safeCloseNotify,
         OnLocalClose AND the close element for the peer (ghost flag `khalf`);
     (2) close() loads the state, the peer's close notification wins the CAS to halfClosed in between,
         close()'s own CAS fails and it returns nil: the stream stays half-closed, in the table, not
         cleaned, for ever — also in synchronous mode (C10_sync_refuted; ghost flag `casfail`).
   C10_partial: with neither event in the run (every Close() found callbackInProcess = 0, no close() lost
   its CAS) the full statement holds; C10_propagates_partial lifts it to both ends. *)
From Coq Require Import List ZArith Lia Bool Arith.
From Shm Require Import Gen.Consts Model.StreamState Proofs.StreamStateProofs.
Import ListNotations.
Open Scope Z_scope.

(* the state only moves opened -> halfClosed -> closed or opened -> closed *)
Theorem C10_monotone : forall cb0 inb nc scr ups sched sched',
  let s := run sched (init cb0 inb nc scr ups) in let s' := run sched' s in
  (st s = c_streamOpened \/ st s = c_streamHalfClosed \/ st s = c_streamClosed) /\
  (st s = c_streamClosed -> st s' = c_streamClosed) /\
  (st s = c_streamHalfClosed -> st s' = c_streamHalfClosed \/ st s' = c_streamClosed).
Proof. exact monotone. Qed.
Print Assumptions C10_monotone.

(* never more than one close report per end (nlocal / nremote count the OnLocalClose / OnRemoteClose call
   sites; the callbacks themselves are invoked there iff callbacks are installed); none while open; a
   close element is sent only after the OnLocalClose site *)
Theorem C10_callbacks_at_most_once : forall cb0 inb nc scr ups sched,
  let s := run sched (init cb0 inb nc scr ups) in
  0 <= nlocal s /\ 0 <= nremote s /\ nlocal s + nremote s <= 1 /\
  (st s = c_streamOpened -> nlocal s + nremote s = 0) /\ ncl (out s) <= nlocal s.
Proof. exact callbacks_at_most_once. Qed.
Print Assumptions C10_callbacks_at_most_once.

(* once a Close() call of another goroutine has returned the state is no longer opened: Flush (hence Write)
   returns ErrStreamClosed and a read never blocks again (buffered data, then ErrEndOfStream) *)
Theorem C10_final_flush : forall cb0 inb nc scr ups sched i,
  let s := run sched (init cb0 inb nc scr ups) in
  nth_error (clos s) i = Some KRet ->
  st s <> c_streamOpened /\ flush_res s = RErrStreamClosed /\ read_res s <> RBlocked.
Proof. exact final_flush. Qed.
Print Assumptions C10_final_flush.

(* peer side: once a close notification has been taken from the inbox and its CAS executed, Flush fails and
   reads return the buffered data and then end-of-stream *)
Theorem C10_peer : forall cb0 inb nc scr ups sched,
  let s := run sched (init cb0 inb nc scr ups) in
  ncl (processed s) > 0 -> epc s <> EHalf ->
  st s <> c_streamOpened /\ flush_res s = RErrStreamClosed /\ read_res s <> RBlocked /\
  (recv s ++ concat (pending s) = [] -> read_res s = REndOfStream).
Proof. exact peer. Qed.
Print Assumptions C10_peer.

(* ---------- the full statement ---------- *)
Definition C10_full : Prop := forall cb0 inb nc scr ups sched,
  let s := run sched (init cb0 inb nc scr ups) in quiesc s -> close_returned s -> closed_ok s.

(* witness: one message, OnData consumes it and calls Close() *)
Theorem C10_refuted : ~ C10_full.
Proof.
  intros H.
  specialize (H true [EData [1]] 0%nat [(1%nat, true)] [] (repeat WEv 6 ++ repeat (WGor 0) 30)).
  assert (Hq : quiesc (run (repeat WEv 6 ++ repeat (WGor 0) 30) (init true [EData [1]] 0 [(1%nat, true)] []))).
  { vm_compute. repeat split; auto.
    - intros [|[|i]] g Hg; simpl in Hg; try discriminate. inversion Hg; reflexivity.
    - intros [|i] c Hc; discriminate. }
  assert (Hr : close_returned (run (repeat WEv 6 ++ repeat (WGor 0) 30) (init true [EData [1]] 0 [(1%nat, true)] []))).
  { right. vm_compute. reflexivity. }
  destruct (H Hq Hr) as [_ [_ [_ [_ [Hcb _]]]]]. vm_compute in Hcb. discriminate.
Qed.
Print Assumptions C10_refuted.

(* synchronous mode: Close() racing the peer's close notification *)
Definition C10_full_sync : Prop := forall inb nc sched,
  let s := run sched (init false inb nc [] []) in quiesc s -> close_returned s -> closed_ok s.
Theorem C10_sync_refuted : ~ C10_full_sync.
Proof.
  intros H.
  specialize (H [EClose] 1%nat (repeat (WClo 0) 3 ++ repeat WEv 3 ++ [WClo 0])).
  assert (Hq : quiesc (run (repeat (WClo 0) 3 ++ repeat WEv 3 ++ [WClo 0]) (init false [EClose] 1 [] []))).
  { vm_compute. repeat split; auto.
    - intros [|i] g Hg; discriminate.
    - intros [|[|i]] c Hc; simpl in Hc; try discriminate. inversion Hc; auto. }
  assert (Hr : close_returned (run (repeat (WClo 0) 3 ++ repeat WEv 3 ++ [WClo 0]) (init false [EClose] 1 [] []))).
  { left. exists 0%nat. vm_compute. reflexivity. }
  destruct (H Hq Hr) as [Hst _]. vm_compute in Hst. discriminate.
Qed.
Print Assumptions C10_sync_refuted.

(* ---------- the strongest provable part ---------- *)
Theorem C10_partial : forall cb0 inb nc scr ups sched,
  let s := run sched (init cb0 inb nc scr ups) in
  khalf s = false ->     (* no Close() found callbackInProcess = 1 (none inside / during OnData) *)
  casfail s = false ->   (* no close() lost its CAS on the state *)
  quiesc s -> close_returned s -> closed_ok s.
Proof. exact partial. Qed.
Print Assumptions C10_partial.

(* both ends: such a Close() on A reaches B — once B's event loop has drained its inbox B's stream has left
   `opened` (its Flush fails, its reads return the flushed data and then end-of-stream by C10_peer) *)
Theorem C10_propagates_partial : forall cba cbb na nb sa sb ua ub sched,
  let w := wrun sched (winit cba cbb na nb sa sb ua ub) in
  khalf (wa w) = false -> casfail (wa w) = false -> quiesc (wa w) -> close_returned (wa w) ->
  inbox (wb w) = [] -> epc (wb w) = EIdle ->
  st (wb w) <> c_streamOpened /\ flush_res (wb w) = RErrStreamClosed /\ read_res (wb w) <> RBlocked.
Proof. exact propagates. Qed.
Print Assumptions C10_propagates_partial.

(* non-vacuity: synchronous mode, A flushes [5;6] and closes, B handles both events: A is closed, out of the
   table, reported once, told B; B is half-closed, still has the data to read, cannot flush *)
Example C10_example_run :
  let w := wrun (repeat (SA, WUser 0%nat) 2 ++ repeat (SA, WClo 0%nat) 10 ++ repeat (SB, WEv) 6)
                (winit false false 1 0 [] [] [[[5; 6]]] []) in
  quiesc (wa w) /\ close_returned (wa w) /\ khalf (wa w) = false /\ casfail (wa w) = false /\
  st (wa w) = c_streamClosed /\ intable (wa w) = false /\ nlocal (wa w) = 1 /\ out (wa w) = [EData [5; 6]; EClose] /\
  st (wb w) = c_streamHalfClosed /\ read_res (wb w) = RData /\ flush_res (wb w) = RErrStreamClosed /\ nremote (wb w) = 1.
Proof.
  vm_compute. repeat split; auto.
  - intros [|i] g Hg; discriminate.
  - intros [|[|i]] c Hc; simpl in Hc; try discriminate. inversion Hc; auto.
  - left. exists 0%nat. reflexivity.
Qed.
