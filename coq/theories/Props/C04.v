(* C04 — The IO queue delivers every element exactly once, intact and in order.
   This file contains only the property theorems (closed by `exact`), their axiom reports and a
   non-vacuity example.  Model: Model/Queue.v; proofs: Proofs/QueueProofs.v.

   Quantification: every capacity c > 0, any number of producers (length progs), every program,
   every number of pops, every schedule (list of thread choices, one shared access per step). *)
From Coq Require Import List ZArith Lia Bool Arith.
From Shm Require Import Gen.Consts Model.Queue Proofs.QueueProofs.
Import ListNotations.
Open Scope Z_scope.

(* the consumer's results are exactly a prefix of the publication log (order of the tail
   increments): each published element is returned at most once, with all three fields as
   written, in publication order; elements of non-overlapping puts are published in that order *)
Theorem C04_delivery : forall c progs n sched, 0 < c ->
  let s := run sched (init c progs n) in
  pops (out s) = map snd (firstn (Z.to_nat (head s)) (log s)).
Proof. exact delivery. Qed.
Print Assumptions C04_delivery.

Theorem C04_bound : forall c progs n sched, 0 < c ->
  let s := run sched (init c progs n) in 0 <= tail s - head s <= c.
Proof. exact bound. Qed.
Print Assumptions C04_bound.

(* the log restricted to producer i = the elements of i's successful puts in program order *)
Theorem C04_per_producer : forall c progs n sched i p, 0 < c ->
  let s := run sched (init c progs n) in
  nth_error (prods s) i = Some p ->
  owned i (log s) = accepted (hist p) ++ inflight p /\ map fst (hist p) ++ todo p = nth i progs [].
Proof. exact per_producer. Qed.
Print Assumptions C04_per_producer.

Theorem C04_honest_full : forall c progs n sched i p p', 0 < c ->
  let s := run sched (init c progs n) in
  nth_error (prods s) i = Some p -> nth_error (prods (pstep i s)) i = Some p' ->
  pc p' = PFull -> pc p <> PFull -> tail s - head s = cap s.
Proof. exact honest_full. Qed.
Print Assumptions C04_honest_full.

Theorem C04_put_mutex : forall c progs n sched i j pi pj, 0 < c ->
  let s := run sched (init c progs n) in
  nth_error (prods s) i = Some pi -> nth_error (prods s) j = Some pj ->
  in_cs (pc pi) = true -> in_cs (pc pj) = true -> i = j.
Proof. exact put_mutex. Qed.
Print Assumptions C04_put_mutex.

Theorem C04_log_owned : forall c progs n sched x, 0 < c ->
  let s := run sched (init c progs n) in In x (log s) -> (fst x < length progs)%nat.
Proof. exact log_owned. Qed.
Print Assumptions C04_log_owned.

(* non-vacuity: capacity 1, two producers, index wrap-around, a put that finds the queue full *)
Example C04_example_run :
  let e k := {| f1 := k; f2 := k + 1; f3 := k + 2 |} in
  let p0 := repeat (Some 0%nat) 8 in let p1 n := repeat (Some 1%nat) n in let c := repeat None 6 in
  let s := run (p0 ++ p1 4%nat ++ c ++ p1 8%nat ++ c) (init 1 [[e 10]; [e 20; e 20]] 2) in
  pops (out s) = [e 10; e 20] /\ map results (prods s) = [[true]; [false; true]] /\ head s = 2.
Proof. vm_compute. repeat split. Qed.
