(* C15 — The stream pool only hands out clean live streams and never leaks one.
   Only the property theorems (closed by `exact`), their axiom reports and non-vacuity examples.
   Model: Model/Pool.v; proofs: Proofs/PoolProofs.v.

   Quantification: every capacity c >= 0 (MaxStreamNum, a uint32), every history h of the atomic labels
   of Model/Pool.v — Get / Put / Write / Flush / Read / Release / Close by ANY number of callers (caller
   ids are arbitrary naturals), peer data (shared memory or fallback), peer close, circuit-breaker
   timer, session loss, the session's cleanup closure, the manager's pool.close() and the rebuild —
   in every order.  Atomic labels suffice: push/pop run under the pool mutex, a popped stream is owned
   exclusively, the flags read afterwards are monotone atomics (see the header of Model/Pool.v).
   [init f c]: f = false is /repo today, f = true is the model with "close what is discarded". *)
From Coq Require Import List ZArith Lia Bool Arith.
From Shm Require Import Gen.Consts Model.Pool Proofs.PoolProofs.
Import ListNotations.
Open Scope Z_scope.

(* a stream is never in the hands of two callers, never twice in a caller's hands, never both pooled
   and held; tail - head <= capacity; distinct ring positions (index mod capacity, wrap-around
   included, capacity 1 and 0 included) hold distinct streams *)
Theorem C15_ring : forall f c h, 0 <= c ->
  let s := run (init f c) h in
  (forall c1 c2 x, holder s c1 x -> holder s c2 x -> c1 = c2) /\
  NoDup (map snd (held s)) /\
  (forall c x, holder s c x -> ~ pooled s x) /\
  0 <= tail s - head s <= cap s /\
  (forall i j, head s <= i < tail s -> head s <= j < tail s ->
               slots s (i mod cap s) = slots s (j mod cap s) -> i = j).
Proof. exact ring_thm. Qed.
Print Assumptions C15_ring.

(* GetActiveStreamCount counts exactly the streams of the session that have not been closed *)
Theorem C15_table : forall f c h, 0 <= c ->
  let s := run (init f c) h in
  forall k, NoDup (table (sessions s k)) /\
            forall x, In x (table (sessions s k)) <->
                      ((x < nstreams s)%nat /\ ssess (streams s x) = k /\ sst (streams s x) <> Closed).
Proof. exact table_thm. Qed.
Print Assumptions C15_table.

(* whatever callers and peer did before: a stream returned by Get is open, its session is not shut
   down, it is not in fallback state, the caller is its only holder and it is not in the ring *)
Theorem C15_clean_live : forall f c h cl s' x, 0 <= c ->
  step (run (init f c) h) (Get cl) = (s', RGot x) ->
  sst (streams s' x) = Opened /\ shut (sessions s' (ssess (streams s' x))) = false /\
  infb (streams s' x) = false /\ holder s' cl x /\ (forall c2, holder s' c2 x -> c2 = cl) /\ ~ pooled s' x.
Proof. exact clean_live_thm. Qed.
Print Assumptions C15_clean_live.

(* FULL statement "carries no bytes from an earlier use": recvBuf.Len = 0, no pending data,
   sendBuf.Len = 0 (and no fallback flag) for every stream Get returns — FALSE of today's code *)
Definition C15_clean_full : Prop :=
  forall f c h cl s' x, 0 <= c -> step (run (init f c) h) (Get cl) = (s', RGot x) ->
  sumz (rbuf (streams s' x)) = 0 /\ pend (streams s' x) = [] /\ sumz (sbuf (streams s' x)) = 0 /\ infb (streams s' x) = false.

Theorem C15_clean_refuted : ~ C15_clean_full.
Proof. exact clean_refuted. Qed.
Print Assumptions C15_clean_refuted.

(* it holds when (a) callers give a stream back only with an empty send buffer and (b) the peer sends
   nothing to a stream while it is pooled — reset() checks neither *)
Theorem C15_partial_clean : forall f c h cl s' x, 0 <= c ->
  guarded (fun s l => match l with
                      | Put c x => holds c x s = true -> sumz (sbuf (streams s x)) = 0
                      | PeerData x _ _ => ~ pooled s x
                      | _ => True
                      end) (init f c) h ->
  step (run (init f c) h) (Get cl) = (s', RGot x) ->
  sumz (rbuf (streams s' x)) = 0 /\ pend (streams s' x) = [] /\ sumz (sbuf (streams s' x)) = 0 /\ infb (streams s' x) = false.
Proof. exact partial_clean_thm. Qed.
Print Assumptions C15_partial_clean.

(* FULL statement "never leaks one" on the model of today's code: in every live session the stream
   table is exactly the not-closed streams that callers hold or the ring keeps (active = held + pooled) *)
Definition C15_no_leak_full : Prop :=
  forall c h, 0 <= c ->
  let s := run (init false c) h in
  forall k x, shut (sessions s k) = false ->
    (In x (table (sessions s k)) <->
     ((pooled s x \/ exists cl, holder s cl x) /\ ssess (streams s x) = k /\ sst (streams s x) <> Closed)).

Theorem C15_refuted : ~ C15_no_leak_full.
Proof. exact no_leak_refuted. Qed.
Print Assumptions C15_refuted.

(* it holds for every history in which the peer closes no stream while it is pooled — and the
   hypothesis is void as soon as getOrOpenStream closes what it discards (fx = true) *)
Theorem C15_partial_no_leak : forall f c h, 0 <= c ->
  guarded (fun s l => fx s = true \/ match l with PeerClose x => ~ pooled s x | _ => True end) (init f c) h ->
  let s := run (init f c) h in
  forall k x, shut (sessions s k) = false ->
    (In x (table (sessions s k)) <->
     ((pooled s x \/ exists cl, holder s cl x) /\ ssess (streams s x) = k /\ sst (streams s x) <> Closed)).
Proof. exact partial_no_leak_thm. Qed.
Print Assumptions C15_partial_no_leak.

Theorem C15_no_leak_once_fixed : forall c h, 0 <= c ->
  let s := run (init true c) h in
  forall k x, shut (sessions s k) = false ->
    (In x (table (sessions s k)) <->
     ((pooled s x \/ exists cl, holder s cl x) /\ ssess (streams s x) = k /\ sst (streams s x) <> Closed)).
Proof. exact fixed_no_leak_thm. Qed.
Print Assumptions C15_no_leak_once_fixed.

(* non-vacuity: capacity 1, three callers, ring wrap-around and overflow, a dirty put-back, a
   fallback stream, session loss and rebuild; the guards of both partial theorems hold of it *)
Example C15_example_run :
  let h := [Get 0; Get 1; Put 0 0; Put 1 1; Get 2; Put 2 0; Get 0; Write 0 0 7 false; Flush 0 0;
            PeerData 0 9 false; Put 0 0; Get 1; Write 1 2 3 true; Flush 1 2; Heal; Put 1 2;
            Get 0; SessLoss; SessCleanup 0; BgPop; Rebuild; Put 0 3; Get 2]%nat in
  let s := run (init false 1) h in
  (head s, tail s, cur s, nstreams s, held s) = (2, 2, 1%nat, 5%nat, [(2, 4)]%nat) /\
  map (fun x => sstate_code (sst (streams s x))) (seq 0 5) = [1; 1; 1; 1; 0] /\
  table (sessions s 1) = [4%nat].
Proof. vm_compute. repeat split. Qed.

(* the second way in which C15_clean_full fails: a response that arrives after PutBack *)
Example C15_late_data_witness :
  let r := step (run (init false 2) witness_late) (Get 1) in
  snd r = RGot 0 /\ pend (streams (fst r) 0) = [(16, false)].
Proof. exact late_data_witness. Qed.

(* the leak witness does not leak on the repaired model *)
Example C15_leak_witness_fixed :
  let s := run (init true 2) witness_leak in table (sessions s 0) = [1%nat] /\ held s = [(0, 1)]%nat.
Proof. exact leak_witness_fixed. Qed.
