(* C15 — The stream pool only hands out clean live streams and never leaks one.
   Only the property theorems (closed by `exact`), their axiom reports and examples.
   Model: Model/Pool.v; proofs: Proofs/PoolProofs.v.

   Quantification: every capacity c >= 0 (MaxStreamNum, a uint32), every history h of the atomic labels
   of Model/Pool.v — Get / PutPrepare / PutPush / Write / Flush / Read / Release / Close by ANY number of callers (caller
   ids are arbitrary naturals), peer data (shared memory or fallback), peer close, circuit-breaker
   timer, session loss, the session's cleanup closure, the manager's pool.close() and the rebuild —
   in every order.  GetStream is one label (push/pop run under the pool mutex, a popped stream is owned
   exclusively, the flags read afterwards are monotone atomics).  PutBack is NOT atomic: PutPrepare is its
   work on the stream (reset, ReleaseReadAndReuse) during which the caller still HOLDS the stream, PutPush
   the final hand-over (push or Close); C15_ring therefore covers the putting goroutine until its last step,
   and an implementation that pushes before it has finished with the stream is not a run of this model.

   [init f g c]: the two switches of the model.  Which variant /repo is, is translated from
   session_manager.go / stream.go on every run into Gen/SwitchC15.v:
     sw_close_discarded          (f) getOrOpenStream closes a popped stream it does not hand out;
     sw_reset_rejects_unflushed  (g) Stream.reset() fails on written-but-unflushed bytes.
   The headline theorems below are stated for the current tree (both switches as generated); if a
   repair disappears from the source the switch flips and this file no longer compiles. *)
From Coq Require Import List ZArith Lia Bool Arith.
From Shm Require Import Gen.Consts Gen.SwitchC15 Model.Pool Proofs.PoolProofs.
Import ListNotations.
Open Scope Z_scope.

Definition current (c : Z) : st := init sw_close_discarded sw_reset_rejects_unflushed c.

(* a stream is never in the hands of two callers, never twice in a caller's hands, never both pooled
   and held; tail - head <= capacity; distinct ring positions (index mod capacity, wrap-around
   included, capacity 1 and 0 included) hold distinct streams — for every variant *)
Theorem C15_ring : forall f g c h, 0 <= c ->
  let s := run (init f g c) h in
  (forall c1 c2 x, holder s c1 x -> holder s c2 x -> c1 = c2) /\
  NoDup (map snd (held s)) /\
  (forall c x, holder s c x -> ~ pooled s x) /\
  0 <= tail s - head s <= cap s /\
  (forall i j, head s <= i < tail s -> head s <= j < tail s ->
               slots s (i mod cap s) = slots s (j mod cap s) -> i = j).
Proof. exact ring_thm. Qed.
Print Assumptions C15_ring.

(* PutBack is not atomic: between its work on the stream and the final push the stream is still held by
   the putting caller (hence, by C15_ring, by nobody else) and it is not in the ring, so no GetStream can
   return it before PutBack's last step *)
Theorem C15_put_exclusive : forall f g c h x, 0 <= c ->
  let s := run (init f g c) h in
  prepared s x -> (exists cl, holder s cl x) /\ ~ pooled s x.
Proof. exact put_exclusive_thm. Qed.
Print Assumptions C15_put_exclusive.

(* GetActiveStreamCount counts exactly the streams of the session that have not been closed *)
Theorem C15_table : forall f g c h, 0 <= c ->
  let s := run (init f g c) h in
  forall k, NoDup (table (sessions s k)) /\
            forall x, In x (table (sessions s k)) <->
                      ((x < nstreams s)%nat /\ ssess (streams s x) = k /\ sst (streams s x) <> Closed).
Proof. exact table_thm. Qed.
Print Assumptions C15_table.

(* whatever callers and peer did before: a stream returned by Get is open, its session is not shut
   down, it is not in fallback state, the caller is its only holder and it is not in the ring *)
Theorem C15_clean_live : forall f g c h cl s' x, 0 <= c ->
  step (run (init f g c) h) (Get cl) = (s', RGot x) ->
  sst (streams s' x) = Opened /\ shut (sessions s' (ssess (streams s' x))) = false /\
  infb (streams s' x) = false /\ holder s' cl x /\ (forall c2, holder s' c2 x -> c2 = cl) /\ ~ pooled s' x.
Proof. exact clean_live_thm. Qed.
Print Assumptions C15_clean_live.

(* "carries no bytes from an earlier use", buffers — current tree, no hypothesis: the receive buffer
   and the send buffer of every stream Get returns are empty, whatever the previous holders wrote, read,
   flushed or left behind *)
Theorem C15_clean_buffers : forall c h cl s' x, 0 <= c ->
  step (run (current c) h) (Get cl) = (s', RGot x) ->
  sumz (rbuf (streams s' x)) = 0 /\ sumz (sbuf (streams s' x)) = 0 /\ infb (streams s' x) = false.
Proof. exact (clean_bytes_current_thm sw_close_discarded). Qed.
Print Assumptions C15_clean_buffers.

(* "never leaks one" — current tree, no hypothesis: in every live session the stream table is exactly
   the not-closed streams that callers hold or the ring keeps (active = held + pooled), including after
   the pool discarded streams that were closed by the peer or whose session was lost *)
Theorem C15_no_leak : forall c h, 0 <= c ->
  let s := run (current c) h in
  forall k x, shut (sessions s k) = false ->
    (In x (table (sessions s k)) <->
     ((pooled s x \/ exists cl, holder s cl x) /\ ssess (streams s x) = k /\ sst (streams s x) <> Closed)).
Proof. exact (fixed_no_leak_thm sw_reset_rejects_unflushed). Qed.
Print Assumptions C15_no_leak.

(* FULL cleanliness (also: nothing pending) is FALSE of every variant, the current tree included: a
   response that arrives after PutBack waits in pendingData of the pooled stream and is handed to the
   next holder (known finding C15:late-data-on-pooled-stream-reaches-next-user; the protocol has no
   stream generation that would let the receiver tell late data from new data) *)
Definition C15_clean_full : Prop :=
  forall f g c h cl s' x, 0 <= c -> step (run (init f g c) h) (Get cl) = (s', RGot x) ->
  sumz (rbuf (streams s' x)) = 0 /\ pend (streams s' x) = [] /\ sumz (sbuf (streams s' x)) = 0 /\ infb (streams s' x) = false.

Theorem C15_clean_refuted : ~ C15_clean_full.
Proof. exact clean_refuted. Qed.
Print Assumptions C15_clean_refuted.

(* the pending clause holds in every history in which the peer sends nothing to a stream while it is
   pooled *)
Theorem C15_partial_no_pending : forall f g c h cl s' x, 0 <= c ->
  guarded (fun s l => match l with PeerData x _ _ => ~ (pooled s x \/ prepared s x) | _ => True end) (init f g c) h ->
  step (run (init f g c) h) (Get cl) = (s', RGot x) -> pend (streams s' x) = [].
Proof. exact partial_pend_thm. Qed.
Print Assumptions C15_partial_no_pending.

(* the two repaired clauses for EITHER variant of the code, with the hypothesis the old code needs *)
Theorem C15_clean_buffers_either_variant : forall f g c h cl s' x, 0 <= c ->
  guarded (fun s l => match l with
                      | PutPrepare c x => fy s = true \/ (owns c x s = true -> sumz (sbuf (streams s x)) = 0)
                      | _ => True
                      end) (init f g c) h ->
  step (run (init f g c) h) (Get cl) = (s', RGot x) ->
  sumz (rbuf (streams s' x)) = 0 /\ sumz (sbuf (streams s' x)) = 0 /\ infb (streams s' x) = false.
Proof. exact clean_bytes_thm. Qed.
Print Assumptions C15_clean_buffers_either_variant.

Theorem C15_no_leak_either_variant : forall f g c h, 0 <= c ->
  guarded (fun s l => fx s = true \/ match l with PeerClose x => ~ (pooled s x \/ prepared s x) | _ => True end) (init f g c) h ->
  let s := run (init f g c) h in
  forall k x, shut (sessions s k) = false ->
    (In x (table (sessions s k)) <->
     ((pooled s x \/ exists cl, holder s cl x) /\ ssess (streams s x) = k /\ sst (streams s x) <> Closed)).
Proof. exact partial_no_leak_thm. Qed.
Print Assumptions C15_no_leak_either_variant.

(* non-vacuity: capacity 1, three callers, ring wrap-around and overflow, a dirty put-back, a
   fallback stream, session loss and rebuild *)
Example C15_example_run :
  let h := [Get 0; Get 1; PutPrepare 0 0; PutPush 0 0; PutPrepare 1 1; PutPush 1 1; Get 2; PutPrepare 2 0; PutPush 2 0; Get 0; Write 0 0 7 false; Flush 0 0;
            PeerData 0 9 false; PutPrepare 0 0; PutPush 0 0; Get 1; Write 1 2 3 true; Flush 1 2; Heal; PutPrepare 1 2; PutPush 1 2;
            Get 0; SessLoss; SessCleanup 0; BgPop; Rebuild; PutPrepare 0 3; PutPush 0 3; Get 2]%nat in
  let s := run (current 1) h in
  (head s, tail s, cur s, nstreams s, held s) = (2, 2, 1%nat, 5%nat, [(2, 4)]%nat) /\
  map (fun x => sstate_code (sst (streams s x))) (seq 0 5) = [1; 1; 1; 1; 0] /\
  table (sessions s 1) = [4%nat].
Proof. vm_compute. repeat split. Qed.

(* regression, OLD code only (before the two repairs): unflushed bytes of the previous holder surfaced
   in the receive buffer of the next one; now the stream is closed at PutBack and a fresh one handed out *)
Example C15_old_code_unflushed_bytes :
  let old := step (run (init false false 2) witness_unflushed) (Get 1) in
  let new := step (run (init true true 2) witness_unflushed) (Get 1) in
  (snd old = RGot 0 /\ sumz (rbuf (streams (fst old) 0)) = 5) /\
  (snd new = RGot 1 /\ sst (streams (fst new) 0) = Closed /\ table (sessions (fst new) 0) = [1%nat]).
Proof. exact unflushed_witness_old_and_new. Qed.

(* regression, OLD code only: a stream closed by the peer while pooled was dropped without Close and
   stayed in the session table; now it is closed *)
Example C15_old_code_leaked :
  ~ (forall c h, 0 <= c ->
     let s := run (init false true c) h in
     forall k x, shut (sessions s k) = false ->
       (In x (table (sessions s k)) <->
        ((pooled s x \/ exists cl, holder s cl x) /\ ssess (streams s x) = k /\ sst (streams s x) <> Closed))).
Proof. exact leak_old_code. Qed.

Example C15_leak_witness_now :
  let s := run (init true true 2) witness_leak in table (sessions s 0) = [1%nat] /\ held s = [(0, 1)]%nat.
Proof. exact leak_witness_fixed. Qed.
