(* C16 — Hot restart moves every session to the new server without a stuck state.
   Only the property theorems (closed by `exact`), their axiom reports and non-vacuity examples.
   Model: Model/HotRestart.v; proofs: Proofs/HotRestartProofs.v.

   Quantification: any number of sessions (n, or any list of handshake flags), every list of events
   (arbitrary delay, loss, foreign traffic, dial failures, session deaths, checker ticks and
   time-outs at any step, GetStream probes at any step).

   What is NOT proved here (observed by the harness only): that the 2 s timer really fires, that a
   dial reaches the new server, goroutine scheduling. *)
From Coq Require Import List ZArith Lia Bool Arith.
From Shm Require Import Gen.Consts Model.HotRestart Proofs.HotRestartProofs.
Import ListNotations.
Open Scope Z_scope.

(* ---- C16_exit: no reachable state is in hotRestartState without its checker running, and a checker
   runs only in hotRestartState — on the listener and on the session manager.  Hypothesis = the guard
   Listener.Run enforces: a session enters the table only after its handshake (all flags true). *)
Theorem C16_exit : forall hs evs, Forall (fun h => h = true) hs ->
  let s := run evs (init_hs hs) in
  (l_state (lis s) = st_hr <-> l_chk (lis s) = true) /\ (m_state (mgr s) = st_hr <-> m_chk (mgr s) = true).
Proof. exact exit_no_stuck. Qed.
Print Assumptions C16_exit.

(* once the time-out case of a running checker fires, the checker has terminated and the state is
   defaultState (listener: ack count reset; manager: reserve pools dropped) *)
Theorem C16_exit_timeout : forall s,
  (l_chk (lis s) = true ->
     l_state (lis (step s ListenerTimeout)) = st_default /\ l_chk (lis (step s ListenerTimeout)) = false
     /\ l_ack (lis (step s ListenerTimeout)) = 0) /\
  (m_chk (mgr s) = true ->
     m_state (mgr (step s ManagerTimeout)) = st_default /\ m_chk (mgr (step s ManagerTimeout)) = false
     /\ count_some (m_reserve (mgr (step s ManagerTimeout))) = 0%nat).
Proof. exact exit_timeout_leaves. Qed.
Print Assumptions C16_exit_timeout.

(* a tick that ends a checker leaves a state different from hotRestartState *)
Theorem C16_exit_tick : forall s,
  (l_chk (lis (step s ListenerTick)) = false -> l_chk (lis s) = true -> l_state (lis (step s ListenerTick)) <> st_hr) /\
  (m_chk (mgr (step s ManagerTick)) = false -> m_chk (mgr s) = true -> m_state (mgr (step s ManagerTick)) <> st_hr).
Proof. exact exit_tick. Qed.
Print Assumptions C16_exit_tick.

(* the statement without the handshake guard is false: `return ErrInHandshakeStage` leaves
   state = hotRestartState with no checker, for ever *)
Definition C16_exit_unguarded_full : Prop := forall hs evs,
  let s := run evs (init_hs hs) in l_state (lis s) = st_hr -> l_chk (lis s) = true.
Theorem C16_exit_unguarded_refuted : ~ C16_exit_unguarded_full.
Proof.
  intro H. destruct exit_stuck_witness as [Ha [Hb _]].
  specialize (H [false] [ServerHotRestart 7] Ha). rewrite Hb in H. discriminate.
Qed.
Print Assumptions C16_exit_unguarded_refuted.

Theorem C16_exit_stuck_forever :
  let s := run [ServerHotRestart 7] (init_hs [false]) in
  forall evs, l_state (lis (run evs s)) = st_hr /\ l_chk (lis (run evs s)) = false.
Proof. exact (proj2 (proj2 exit_stuck_witness)). Qed.
Print Assumptions C16_exit_stuck_forever.

(* ---- C16_complete: a parked (reserve) entry for pool i means pool i already holds a session of the
   announced epoch connected to the new server, and the parked session has not been closed by the
   manager; when every pool is parked (the only condition under which the manager's checker
   completes and acknowledges) this holds for every pool. *)
Theorem C16_complete_swapped : forall n evs i old,
  let s := run evs (init n) in
  nth_error (m_reserve (mgr s)) i = Some (Some old) ->
  ok_sess old /\
  exists q, nth_error (m_pools (mgr s)) i = Some q /\ cs_epoch q = m_epoch (mgr s) /\ cs_srv q = None.
Proof. exact complete_swapped. Qed.
Print Assumptions C16_complete_swapped.

Theorem C16_complete : forall n evs,
  let s := run evs (init n) in
  count_some (m_reserve (mgr s)) = length (m_pools (mgr s)) ->
  forall i, (i < length (m_pools (mgr s)))%nat ->
  exists q old, nth_error (m_pools (mgr s)) i = Some q /\ cs_epoch q = m_epoch (mgr s) /\ cs_srv q = None /\
                nth_error (m_reserve (mgr s)) i = Some (Some old) /\ ok_sess old.
Proof. exact complete_all. Qed.
Print Assumptions C16_complete.

Theorem C16_complete_tick : forall s, m_chk (mgr s) = true -> m_state (mgr s) = st_hr ->
  m_state (mgr (step s ManagerTick)) = st_default ->
  count_some (m_reserve (mgr (step s ManagerTick))) = length (m_pools (mgr (step s ManagerTick))).
Proof. exact complete_tick. Qed.
Print Assumptions C16_complete_tick.

(* ---- the old sessions stay usable until the old server lets go.  Outside hotRestartState — in
   particular after the manager's checker declared the hand-over done — the checker is NOT running (its
   completion case returns), and no step other than the first event of a NEW hot restart removes or closes
   a parked pool: a parked session can only die by itself (the old server closing it). *)
Theorem C16_old_sessions_survive_done : forall hs evs ev i c, Forall (fun h => h = true) hs ->
  let s := run evs (init_hs hs) in
  m_state (mgr s) <> st_hr -> (forall j ok, ev <> DeliverRestart j ok) ->
  nth_error (m_reserve (mgr s)) i = Some (Some c) ->
  m_chk (mgr s) = false /\
  exists c', nth_error (m_reserve (mgr (step s ev))) i = Some (Some c') /\ (c' = c \/ c' = kill_self c).
Proof. exact old_sessions_survive. Qed.
Print Assumptions C16_old_sessions_survive_done.

(* the completion case of the manager's tick ends the checker and keeps every parked pool *)
Theorem C16_manager_done_returns : forall s, m_chk (mgr s) = true ->
  count_some (m_reserve (mgr s)) = length (m_pools (mgr s)) ->
  m_chk (mgr (step s ManagerTick)) = false /\ m_state (mgr (step s ManagerTick)) = st_default /\
  m_reserve (mgr (step s ManagerTick)) = m_reserve (mgr s) /\ m_pools (mgr (step s ManagerTick)) = m_pools (mgr s).
Proof. exact manager_done_returns. Qed.
Print Assumptions C16_manager_done_returns.

(* ---- C16_available: at every step GetStream on any pool succeeds unless that pool's current session
   died by itself (the manager never closes a current session) *)
Theorem C16_available : forall n evs k,
  let s := run evs (init n) in
  (k < length (m_pools (mgr s)))%nat ->
  get_stream s k = true \/ exists c, nth_error (m_pools (mgr s)) k = Some c /\ cs_self c = true.
Proof. exact available. Qed.
Print Assumptions C16_available.

(* ---- C16_stale_epoch *)
Theorem C16_stale_epoch : forall m i e ok, m_state m = st_hr -> e <> m_epoch m -> mgr_on_restart m i e ok = m.
Proof. exact stale_restart. Qed.
Print Assumptions C16_stale_epoch.

Theorem C16_stale_epoch_event : forall s i ok e q,
  nth_error (to_client s) i = Some (e :: q) -> m_state (mgr s) = st_hr -> e <> m_epoch (mgr s) ->
  lis (step s (DeliverRestart i ok)) = lis s /\ mgr (step s (DeliverRestart i ok)) = mgr s /\
  to_server (step s (DeliverRestart i ok)) = to_server s.
Proof. exact stale_deliver_restart. Qed.
Print Assumptions C16_stale_epoch_event.

Theorem C16_stale_ack : forall s i e q,
  nth_error (to_server s) i = Some (e :: q) -> e <> l_epoch (lis s) ->
  lis (step s (DeliverAck i)) = lis s /\ mgr (step s (DeliverAck i)) = mgr s /\
  to_client (step s (DeliverAck i)) = to_client s.
Proof. exact stale_deliver_ack. Qed.
Print Assumptions C16_stale_ack.

(* ---- the acknowledgement counter (after the repair of handleHotRestartAck: an ack counts only in
   hotRestartState, for the epoch in progress, on a session still waiting).  For ALL histories: never
   negative; it covers every session in the table still waiting; outside hotRestartState no session in
   the table is still waiting.  (Before the repair this was refuted by an ack handled after the
   listener's time-out; that history is the regression scenario "lateack" of the harness.) *)
Theorem C16_ack_full : forall n evs,
  let s := run evs (init n) in
  0 <= l_ack (lis s) /\ count_hr (l_sess (lis s)) <= l_ack (lis s) /\
  (l_state (lis s) <> st_hr -> count_hr (l_sess (lis s)) = 0).
Proof. exact ack_full. Qed.
Print Assumptions C16_ack_full.

Theorem C16_late_ack_ignored : forall l i e, l_state l <> st_hr -> lis_on_ack l i e = l.
Proof. exact late_ack_ignored. Qed.
Print Assumptions C16_late_ack_ignored.

Theorem C16_repeated_ack_ignored : forall l i e x, nth_error (l_sess l) i = Some x -> ls_state x <> st_hr ->
  lis_on_ack l i e = l.
Proof. exact repeated_ack_ignored. Qed.
Print Assumptions C16_repeated_ack_ignored.

(* ---- non-vacuity: 3 sessions, events delivered out of order, traffic probes, everything succeeds *)
Example C16_example_happy :
  let s := run [ServerHotRestart 1024; GetStream 0; DeliverRestart 2 true; DeliverRestart 0 true; ManagerTick;
                GetStream 2; DeliverRestart 1 true; ManagerTick; DeliverAck 1; ListenerTick; DeliverAck 0;
                DeliverAck 2; ListenerTick; ParkedSessionDies 0] (init 3) in
  l_state (lis s) = st_done /\ l_ack (lis s) = 0 /\ l_chk (lis s) = false /\
  m_state (mgr s) = st_default /\ m_chk (mgr s) = false /\
  map cs_epoch (m_pools (mgr s)) = [1024; 1024; 1024] /\ map cs_alive (m_pools (mgr s)) = [true; true; true] /\
  count_some (m_reserve (mgr s)) = 3%nat /\ get_stream s 1 = true.
Proof. vm_compute. repeat split. Qed.

(* one dial fails: the manager times out, drops the parked pools, the listener times out; a late ack
   is ignored *)
Example C16_example_failure :
  let s := run [ServerHotRestart 9; DeliverRestart 0 true; DeliverRestart 1 false; ManagerTick; ManagerTimeout;
                ListenerTick; ListenerTimeout] (init 2) in
  l_state (lis s) = st_default /\ m_state (mgr s) = st_default /\ l_ack (lis s) = 0 /\
  map cs_epoch (m_pools (mgr s)) = [9; 0] /\ count_some (m_reserve (mgr s)) = 0%nat /\
  l_ack (lis (run late_ack_history (init 1))) = 0.
Proof. vm_compute. repeat split. Qed.
