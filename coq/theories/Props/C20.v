(* C20 — Callback mode offers every received byte to OnData once, in order, serially.
   Only the property theorems (closed by `exact`), their axiom reports, the refuted variants for a late
   SetCallbacks, and a non-vacuity example.  Model: Model/StreamState.v; proofs: Proofs/StreamStateProofs.v.

   Quantification: every list of inbound events (data messages of any size, peer close notifications at
   any position), any number of concurrent Close() calls, any behaviour of OnData (how much each
   invocation consumes, whether it calls Close), any user Flush threads, EVERY schedule (list of thread
   choices; one shared access per step; goroutines are spawned dynamically and are unbounded in number).

   Reading of "offered" (DESIGN.md C20): a byte is offered while the LOCAL state is `opened`.  The
   goroutine's loop tests IsOpen(), so data that is still pending when the peer's close notification is
   handled is never offered (booked under C07: "C07:callback-mode-data-before-peer-close-never-offered");
   C20_no_strand / C20_quiescent therefore carry `st s = c_streamOpened` as a hypothesis and C20_stop is
   the counterpart.  `cstate s = 0` says that no local Close() has been issued (its first action in
   callback mode is the store of callbackWaitExit); after a Close() the remaining data is dropped by design.
   Callbacks may be installed before the first event (`init true`) or later by SetCallbacks (`init false`
   plus the WSet thread): since the fixes "SetCallbacks no longer stores callbackInProcess = 0" and
   "SetCallbacks starts the hand-off itself" the theorems hold for both (cb0 is universally quantified);
   the two former refutations (C20_late_no_strand_refuted, C20_late_serial_refuted) are now the theorems
   C20_late_no_strand / C20_late_serial, and their witness schedules stay in the harness as regression
   scenarios under the old signatures. *)
From Coq Require Import List ZArith Lia Bool Arith.
From Shm Require Import Gen.Consts Model.StreamState Proofs.StreamStateProofs Proofs.StreamStateClose Proofs.StreamStateResidue.
Import ListNotations.
Open Scope Z_scope.

(* at most one thread is between winning callbackInProcess and clearing it (the event loop / SetCallbacks
   between the CAS and the spawn count for the goroutine they are about to start); OnData (g_run) executes
   only in such a thread, hence never twice at the same time *)
Theorem C20_serial : forall cb0 inb nc scr ups sy nds pks sched,
  let s := run sched (init_rd cb0 inb nc scr ups sy nds pks) in
  cz g_own (gors s) + e_proxy (epc s) + s_proxy (spc s) <= 1 /\ cz g_run (gors s) <= 1 /\
  (forall i j gi gj, nth_error (gors s) i = Some gi -> nth_error (gors s) j = Some gj ->
                     g_own gi = true -> g_own gj = true -> i = j).
Proof. exact serial. Qed.
Print Assumptions C20_serial.

(* with callbacks installed, pending data of an open stream with no Close() issued and no owner of the flag is
   never stranded: the event loop is between its add and its CAS/spawn, or SetCallbacks is between installing
   the callbacks and its spawn, or a goroutine is between its store of 0 and its re-check of pending
   (GLdCs/GLen/GCas) — in each case that thread's next steps take the flag *)
Theorem C20_no_strand : forall cb0 inb nc scr ups sy nds pks sched,
  let s := run sched (init_rd cb0 inb nc scr ups sy nds pks) in
  cbset s = true -> pending s <> [] -> st s = c_streamOpened -> cstate s = 0 ->
  (forall i g, nth_error (gors s) i = Some g -> g_own g = false) ->
  (epc s = EChk \/ epc s = ENotify \/ epc s = EGetCb \/ epc s = ECas \/ epc s = EWgAdd \/ epc s = ESpawn) \/
  (spc s = SCas \/ spc s = SWgAdd \/ spc s = SSpawn) \/
  (exists i g, nth_error (gors s) i = Some g /\ g_re g = true).
Proof. exact no_strand. Qed.
Print Assumptions C20_no_strand.

(* corollary at quiescence (event loop idle, SetCallbacks not in progress, every goroutine finished) with
   callbacks installed and the stream open: nothing is left in pending or recvBuf and the bytes consumed by the
   OnData calls are exactly the bytes that arrived — whether they arrived before or after SetCallbacks *)
Theorem C20_quiescent : forall cb0 inb nc scr ups sy nds pks sched,
  let s := run sched (init_rd cb0 inb nc scr ups sy nds pks) in
  cbset s = true -> (spc s = SIdle \/ spc s = SDone) ->
  epc s = EIdle -> (forall i g, nth_error (gors s) i = Some g -> g = GExit) ->
  st s = c_streamOpened -> cstate s = 0 ->
  pending s = [] /\ recv s = [] /\ consumed s = arrived s.
Proof. exact quiescent. Qed.
Print Assumptions C20_quiescent.

(* order, exactly once *)
Theorem C20_order_once : forall cb0 inb nc scr ups sy nds pks sched,
  let s := run sched (init_rd cb0 inb nc scr ups sy nds pks) in
  arrived s = concat (map snd (chunks s)) ++ concat (pending s) /\
  moved s = concat (map snd (filter fst (chunks s))) /\
  (st s <> c_streamClosed -> arrived s = consumed s ++ recv s ++ concat (pending s)).
Proof. exact order_once. Qed.
Print Assumptions C20_order_once.

(* the same over the FINE steps: pendingData's add / moveTo / clear each run inside r.Lock() … r.Unlock(), moveTo and
   clear walk the elements of r.unread one step each under the lock; a thread that needs the mutex while another holds
   it does not move (C20_excluded_while_held: in particular the event loop's add is excluded while a walk is in
   progress).  The fine machine performs a schedule of the machine above (C20_fine_reach), so every theorem of this
   file holds of every state it reaches; order/exactly-once is restated for it. *)
Theorem C20_fine_reach : forall sched s0, exists sched', base (frun sched (finit s0)) = run sched' s0.
Proof. exact fine_reach. Qed.
Print Assumptions C20_fine_reach.

Theorem C20_excluded_while_held : forall sched s0 w h i n c,
  let f := frun sched (finit s0) in
  plk f = Some (h, i, n, c) -> h <> w -> pend_op (base f) w <> None -> fstep f w = f.
Proof. exact excluded_while_held. Qed.
Print Assumptions C20_excluded_while_held.

Theorem C20_order_once_fine : forall cb0 inb nc scr ups sy nds pks sched,
  let s := base (frun sched (finit (init_rd cb0 inb nc scr ups sy nds pks))) in
  arrived s = concat (map snd (chunks s)) ++ concat (pending s) /\
  moved s = concat (map snd (filter fst (chunks s))) /\
  (st s <> c_streamClosed -> arrived s = consumed s ++ recv s ++ concat (pending s)).
Proof. exact order_once_fine. Qed.
Print Assumptions C20_order_once_fine.

(* why the walk must stay under the lock.  Variant (guarded against by the harness: the access trace of the real
   moveTo must be lock, element reads, unlock): moveTo copies the slice header of r.unread and resets
   r.unread = r.unread[:0] under the lock, then walks the copy AFTER unlocking.  Copy and r.unread share one backing
   array.  Below: two messages m1 m2 are pending; before the walker reads slot 0 the event loop adds m3, before it
   reads slot 1 it adds m4: the walker links [m3; m4] — m1 and m2 are never offered (and their slices leak) — and
   r.unread = [m3; m4] is linked AGAIN by the next moveTo: offered twice, recycled twice. *)
Example C20_unlocked_walk_loses_and_duplicates :
  let '(linked, arr, len) := racy_walk 0 [1; 2] 0 0 2 [[3]; [4]] in
  linked = [3; 4] /\ firstn len arr = [3; 4].
Proof. vm_compute. split; reflexivity. Qed.

(* once the state has left `opened` no further OnData begins, except the single one whose IsOpen()
   check had already passed (g_cb; at most one by C20_serial) *)
Theorem C20_stop : forall cb0 inb nc scr ups sy nds pks sched sched',
  let s := run sched (init_rd cb0 inb nc scr ups sy nds pks) in
  st s <> c_streamOpened ->
  let s' := run sched' s in
  st s' <> c_streamOpened /\ olen s' + cz g_cb (gors s') <= olen s + cz g_cb (gors s).
Proof. exact stop. Qed.
Print Assumptions C20_stop.

(* ---- callbacks installed AFTER data arrived (AcceptStream, possibly synchronous Peek/ReadBytes of a part, then
   SetCallbacks): formerly refuted, now theorems.  Unconsumed received bytes live in TWO places — pendingData
   and recvBuf (a synchronous read moves everything pending into recvBuf) — and BOTH are covered: at quiescence
   with callbacks installed nothing is left in either. ---- *)
Theorem C20_late_no_strand : forall inb scr sy nds pks sched,
  let s := run sched (init_rd false inb 0 scr [] sy nds pks) in
  cbset s = true -> spc s = SDone -> epc s = EIdle -> (forall i g, nth_error (gors s) i = Some g -> g = GExit) ->
  st s = c_streamOpened -> cstate s = 0 ->
  pending s = [] /\ recv s = [] /\ consumed s = arrived s.
Proof.
  intros inb scr sy nds pks sched s Hcb Hsp He Hg Hst Hcs.
  exact (quiescent false inb 0 scr [] sy nds pks sched Hcb (or_intror Hsp) He Hg Hst Hcs).
Qed.
Print Assumptions C20_late_no_strand.

Theorem C20_late_serial : forall inb scr sy nds pks sched,
  let s := run sched (init_rd false inb 0 scr [] sy nds pks) in cz g_run (gors s) <= 1.
Proof. intros inb scr sy nds pks sched. apply (serial false inb 0 scr [] sy nds pks sched). Qed.
Print Assumptions C20_late_serial.

(* ---- a blocking read inside OnData.  OnData is handed recvBuf as its BufferReader; ReadBytes/Peek/Discard/ReadString
   of more than has arrived park in readMore's select on recvNotifyCh / closeNotifyCh (model: `needs`, GRdMove / GRdPark;
   `picks` is the adversary's choice when both channels are ready).  While the invocation is parked callbackInProcess
   is 1, so the event loop's startCallbackGoroutine does nothing: the token fillDataToReadBuffer posts with
   asyncNotify(recvNotifyCh) (model: ENotify, a step of its own between the state check and getCallbacks; in the
   instrumented build a scheduling point of its own, see props/C20.py) is the only thing that hands a late arrival to
   the waiting invocation.  Hence: whenever something is pending while an invocation is parked, the token is there (or
   closeNotifyCh is closed) unless the event loop stands between its add and its notify; a parked invocation with a
   token (or a close) is enabled and leaves the select; at rest everything that arrived has been handed to it. ---- *)
Theorem C20_parked_resumed : forall cb0 inb nc scr ups sy nds pks sched i nd cl,
  let s := run sched (init_rd cb0 inb nc scr ups sy nds pks) in
  nth_error (gors s) i = Some (GRdPark nd cl) -> pending s <> [] ->
  epc s <> EChk -> epc s <> ENotify -> epc s <> EClrP ->
  rnotify s = true \/ cnotify s = true.
Proof. exact parked_resumed. Qed.
Print Assumptions C20_parked_resumed.

Theorem C20_parked_enabled : forall s i nd cl,
  nth_error (gors s) i = Some (GRdPark nd cl) -> rnotify s = true \/ cnotify s = true ->
  nth_error (gors (step s (WGor i))) i <> Some (GRdPark nd cl).
Proof. exact parked_enabled. Qed.
Print Assumptions C20_parked_enabled.

Theorem C20_parked_quiescent : forall cb0 inb nc scr ups sy nds pks sched i nd cl,
  let s := run sched (init_rd cb0 inb nc scr ups sy nds pks) in
  nth_error (gors s) i = Some (GRdPark nd cl) -> epc s = EIdle -> rnotify s = false -> cnotify s = false ->
  pending s = [].
Proof. exact parked_quiescent. Qed.
Print Assumptions C20_parked_quiescent.

(* a length-prefixed message flushed in two parts: [3] (the length) arrives, OnData is offered [3] and reads 4 bytes
   (length + body): it parks (a token left by the first arrival wakes it once, in vain); the body [7;8;9] arrives while it is parked: the event loop's CAS on callbackInProcess
   fails (WEv steps 5..9 of the second arrival), the token wakes the invocation, which moves the body in and returns *)
Example C20_length_prefixed_two_flushes :
  let s := run (repeat WEv 8 ++ repeat (WGor 0) 6 ++ repeat WEv 6 ++ repeat (WGor 0) 2)
               (init_rd true [EData [3]; EData [7; 8; 9]] 0 [] [] [] [4%nat] []) in
  offers s = [[3]] /\ consumed s = [] /\ nth_error (gors s) 0 = Some (GCbBody 4 0) /\ epc s = EIdle /\ inproc s = 1 /\
  let s' := run (repeat (WGor 0) 12) s in
  consumed s' = [3; 7; 8; 9] /\ pending s' = [] /\ recv s' = [] /\ gors s' = [GExit] /\ inproc s' = 0.
Proof. vm_compute. repeat split. Qed.
(* the same arrival order with the invocation still parked when the event loop is done: only the token is between the
   waiting OnData and its bytes (they sit in pendingData, callbackInProcess = 1, no other goroutine will ever be started) *)
Example C20_parked_has_only_the_token :
  let s := run (repeat WEv 8 ++ repeat (WGor 0) 6 ++ repeat WEv 6)
               (init_rd true [EData [3]; EData [7; 8; 9]] 0 [] [] [] [4%nat] []) in
  nth_error (gors s) 0 = Some (GRdPark 4 0) /\ pending s = [[7; 8; 9]] /\ epc s = EIdle /\ inproc s = 1 /\
  length (gors s) = 1%nat /\ rnotify s = true.
Proof. vm_compute. repeat split. Qed.

(* ---- the bytes an OnData invocation was offered stay readable until it returns: while an OnData runs, the event
   loop never touches recvBuf.  Formerly refuted (C20_view_stable_refuted; signature
   "C20:event-loop-recycles-recvBuf-while-OnData-is-reading"): Close() read callbackInProcess = 0, an arrival then
   started a goroutine whose OnData began, close() won its CAS and waited for it, and the NEXT arrival found the
   state closed and ran fillDataToReadBuffer's closed path, which recycled recvBuf under the running OnData.
   Since the repair that path recycles recvBuf only when no callbacks are installed (then there is no goroutine
   at all); with callbacks, close()/clean() recycle it after wg.Wait.  The witness schedule is the regression
   example below and a regression scenario of the harness. ---- *)
Theorem C20_view_stable : forall cb0 inb nc scr ups sy nds pks sched,
  let s := run sched (init_rd cb0 inb nc scr ups sy nds pks) in
  cz g_run (gors s) >= 1 -> recv (step s WEv) = recv s.
Proof. exact view_stable. Qed.
Print Assumptions C20_view_stable.

Example C20_regress_recycle_under_OnData :
  let s := run ([WClo 0; WClo 0] ++ repeat WEv 8 ++ repeat (WGor 0) 3 ++ [WClo 0; WClo 0] ++ repeat WEv 5)
               (init true [EData [1; 2; 3]; EData [4]] 1 [(3%nat, 0%nat)] []) in
  cz g_run (gors s) = 1 /\ st s = c_streamClosed /\ epc s = EIdle /\ pending s = [] /\ recv s = [1; 2; 3] /\
  (* OnData then reads all it was offered; close() cleans up afterwards *)
  let s' := run (repeat (WGor 0) 20 ++ repeat (WClo 0) 10) s in
  consumed s' = [1; 2; 3] /\ recv s' = [] /\ intable s' = false /\ nlocal s' = 1.
Proof. vm_compute. repeat split. Qed.

(* non-vacuity 1: three messages; the second arrives while OnData runs, the third just after the goroutine
   cleared the flag and before its re-check; OnData consumes 1, 0, 2, then everything; the run is quiescent,
   open, and satisfies the hypotheses of C20_quiescent *)
Example C20_example_run :
  let s := run (repeat WEv 8 ++ repeat (WGor 0) 3 ++ repeat WEv 6 ++ repeat (WGor 0) 12 ++ repeat WEv 5 ++ repeat (WGor 0) 40 ++ repeat WEv 6 ++ repeat (WGor 1) 12)
               (init true [EData [1; 2]; EData [3]; EData [4; 5; 6]] 0 [(1%nat, 0%nat); (0%nat, 0%nat); (2%nat, 0%nat)] []) in
  cbset s = true /\ epc s = EIdle /\ st s = c_streamOpened /\ cstate s = 0 /\ pending s = [] /\ recv s = [] /\
  consumed s = [1; 2; 3; 4; 5; 6] /\ offers s <> [] /\ Forall (fun g => g = GExit) (gors s).
Proof. vm_compute. repeat split; try discriminate; repeat constructor. Qed.

(* non-vacuity 2 (the former witness of the late-SetCallbacks stranding): the message arrives before
   SetCallbacks; SetCallbacks itself now starts the goroutine and the byte is consumed *)
Example C20_late_example_run :
  let s := run (repeat WEv 5 ++ repeat WSet 4 ++ repeat (WGor 0) 12) (init false [EData [7]] 0 [] []) in
  cbset s = true /\ spc s = SDone /\ epc s = EIdle /\ st s = c_streamOpened /\ pending s = [] /\ recv s = [] /\
  consumed s = [7] /\ gors s = [GExit].
Proof. vm_compute. repeat split. Qed.

(* non-vacuity 3: one message [1..6] arrives; the user reads the 2-byte head synchronously (readMore moves the whole
   message into recvBuf), then installs callbacks; nothing more arrives.  SetCallbacks starts the goroutine, which
   offers the remaining [3;4;5;6] from recvBuf (pendingData is empty all along) *)
Example C20_sync_head_then_callbacks :
  let s := run (repeat WEv 5 ++ [WSync; WSync] ++ repeat WSet 4 ++ repeat (WGor 0) 12)
               (init_sy false [EData [1; 2; 3; 4; 5; 6]] 0 [] [] [2%nat]) in
  cbset s = true /\ spc s = SDone /\ epc s = EIdle /\ st s = c_streamOpened /\ pending s = [] /\ recv s = [] /\
  offers s = [[3; 4; 5; 6]] /\ consumed s = [1; 2; 3; 4; 5; 6] /\ gors s = [GExit].
Proof. vm_compute. repeat split. Qed.
