(* C01 — A shared-memory buffer never has two owners at once.
   Model: Model/FreeList.v (one shared access per step, any number of threads).
   Status on the unchanged tree: the full statement C01_full is REFUTED by an ABA schedule of
   bufferList.pop (C01_refuted).  The witness is replayed on the real bufferList on every run
   (corpus/freelist.json) and is a known finding.  What is proved:
   - C01_held_bounded: for EVERY execution (any threads, any schedule, ABA or not) never more
     buffers are out than the list has slots;
   - C01_partial_aba_free (+ _results, _writes, _structure): for every number of slots, ANY number
     of threads, every program of alloc / free / update operations and EVERY schedule in which no
     head-CAS of pop succeeds with a stale head version (aba_free: a decidable predicate of the run;
     the ghost version counter only observes the unchanged model) — at every moment the buffers held
     are pairwise distinct slots of the region, every offset an allocation returned is a slot, every
     store to a slot header is by the thread that holds / has just popped / is pushing that slot or by
     the one pusher linking behind that free slot, and the structural invariant GInv holds (free
     chain duplicate-free from head to tail, links complete or pending in exactly one pusher, every
     other slot has exactly one owner).  Proofs/FreeListConc.v, inductive invariant over schedules.
   - C01_single_allocator: when at most one thread allocates (any number recycle / update) every
     execution is ABA-free, so the same conclusions hold for EVERY schedule unconditionally.
   - C01_partial_sequential (+ C01_sequential_terminates, C01_sequential_functional): one thread
     running ANY sequence of alloc / free / update operations terminates, returns exactly the results
     of the abstract FIFO (Proofs/FreeListSeq.v: spec), never holds a buffer twice and only ever
     holds slots of the region (refinement proof, induction over the operation list).
   Not covered: programs containing FreeChain (bufferManager.recycleBuffers walks next pointers of
   held buffers; excluded by progs_nochain); payload bytes are not modelled.  The hypothesis aba_free
   cannot be dropped (C01_refuted; C01_witness_is_aba shows the witness violates exactly it).
   nodupb / finished / chain_whole are defined in Proofs/FreeListSeq.v.                             *)
From Coq Require Import List ZArith Lia Bool Arith.
From Shm Require Import Gen.Consts Model.FreeList Proofs.FreeListProofs Proofs.FreeListSeq Proofs.FreeListConc.
Import ListNotations.
Open Scope Z_scope.

(* the property as given: at every moment of every execution the buffers held by all threads are
   pairwise distinct slots of the region (slot-aligned, inside it) and nothing panics *)
Definition C01_full : Prop := forall n cpb base len progs sched,
  0 < n -> 0 < cpb ->
  let s := run sched (init n cpb base len progs) in
  nodupb (all_held s) = true /\ forallb (is_slot (mm s)) (all_held s) = true.

Definition rep (t k : nat) : list nat := repeat t k.
Definition aba_progs : list (list fop) :=
  [ [Alloc];
    [Alloc; FreeOldest; Alloc; FreeOldest; Alloc; FreeOldest];
    [Alloc; Alloc; Update 7 true];
    [Alloc] ].
(* t0 parks between its read of head.next and its CAS; t1, t2 allocate; t1 rotates the list so that
   head is t0's old head again; t0's stale CAS publishes as head a slot t2 holds; t2 links that slot
   into a message (a legitimate write to its own buffer); t3's allocation returns it a second time *)
Definition aba_sched : list nat :=
  rep 0 4 ++ rep 1 13 ++ rep 2 26 ++ rep 1 46 ++ rep 0 9 ++ rep 2 5 ++ rep 1 10 ++ rep 3 13.

Theorem C01_refuted : ~ C01_full.
Proof.
  intros H. specialize (H 5 16 44 228 aba_progs aba_sched ltac:(lia) ltac:(lia)).
  vm_compute in H. destruct H as [H1 H2]; discriminate.
Qed.
Print Assumptions C01_refuted.

(* what holds in EVERY execution, ABA or not: the number of buffers out never exceeds what the list
   gave up: free count + held <= capacity (so at most n - 1 buffers are ever held while size >= 1) *)
Theorem C01_held_bounded : forall n cpb base len progs sched,
  progs_nochain progs ->
  let s := run sched (init n cpb base len progs) in
  m_size (mm s) + nheld (thr s) <= n.
Proof. exact count_bound. Qed.
Print Assumptions C01_held_bounded.

(* ---- every ABA-free execution: any number of threads, every schedule ---- *)
Theorem C01_partial_aba_free : forall n cpb, 1 <= n -> 0 <= cpb -> forall base len progs sched,
  progs_nochain progs -> aba_free sched (ginit (init n cpb base len progs)) = true ->
  let s := run sched (init n cpb base len progs) in
  nodupb (all_held s) = true /\ forallb (is_slot (mm s)) (all_held s) = true.
Proof. exact aba_free_no_double_ownership. Qed.
Print Assumptions C01_partial_aba_free.

Theorem C01_partial_aba_free_results : forall n cpb base len progs sched,
  1 <= n -> 0 <= cpb -> progs_nochain progs ->
  aba_free sched (ginit (init n cpb base len progs)) = true ->
  let s := run sched (init n cpb base len progs) in
  forall j p o, nth_error (thr s) j = Some p -> In (RAlloc (Some o)) (res p) -> is_slot (mm s) o = true.
Proof. exact aba_free_results_are_slots. Qed.
Print Assumptions C01_partial_aba_free_results.

(* store_target p = the slot whose header the next step of p stores to (exact: tstep_stores) *)
Theorem C01_partial_aba_free_writes : forall n cpb, 1 <= n -> 0 <= cpb -> forall base len progs sched,
  progs_nochain progs -> aba_free sched (ginit (init n cpb base len progs)) = true ->
  let s := run sched (init n cpb base len progs) in
  forall i p x, nth_error (thr s) i = Some p -> store_target p = Some x ->
    is_slot (mm s) x = true /\ (In x (owned p) \/ In x (pend (pc p))) /\
    forall j q, j <> i -> nth_error (thr s) j = Some q -> ~ In x (owned q) /\ ~ In x (pend (pc q)).
Proof. exact aba_free_no_foreign_write. Qed.
Print Assumptions C01_partial_aba_free_writes.

Theorem C01_store_target_exact : forall m p m' p',
  tstep m p = (m', p') -> forall o, store_target p <> Some o ->
  s_size m' o = s_size m o /\ s_start m' o = s_start m o /\ s_next m' o = s_next m o /\
  s_flag m' o = s_flag m o /\ s_cap m' o = s_cap m o.
Proof. exact tstep_stores. Qed.
Print Assumptions C01_store_target_exact.

Theorem C01_partial_aba_free_structure : forall n cpb, 1 <= n -> 0 <= cpb -> forall base len progs sched,
  progs_nochain progs -> aba_free sched (ginit (init n cpb base len progs)) = true ->
  exists C, GInv n cpb (rung sched (ginit (init n cpb base len progs))) C.
Proof. exact aba_free_invariant. Qed.
Print Assumptions C01_partial_aba_free_structure.

(* the capacity recorded in every slot header is capPerBuffer in every state of every execution *)
Theorem C01_capacity_constant : forall n cpb base len progs sched,
  let s := run sched (init n cpb base len progs) in
  (forall o, s_cap (mm s) o = cpb) /\ m_cpb (mm s) = cpb /\ m_n (mm s) = n.
Proof. exact run_cap. Qed.
Print Assumptions C01_capacity_constant.

(* one allocating thread, any number of recycling threads: every schedule *)
Theorem C01_single_allocator : forall n cpb base len progs i0 sched,
  1 <= n -> 0 <= cpb -> progs_nochain progs -> single_allocator i0 progs ->
  let s := run sched (init n cpb base len progs) in
  nodupb (all_held s) = true /\ forallb (is_slot (mm s)) (all_held s) = true.
Proof. exact single_allocator_no_double_ownership. Qed.
Print Assumptions C01_single_allocator.

(* the refuting schedule violates exactly the hypothesis aba_free *)
Example C01_witness_is_aba : aba_free aba_sched (ginit (init 5 16 44 228 aba_progs)) = false.
Proof. vm_compute. reflexivity. Qed.

(* non-vacuity of the ABA-free theorems: an ABA-free interleaving of three threads that passes through
   a state with a pending link (t0 between its tail-CAS and its next store) and a stale popper (t1
   parked before its CAS while t2 popped), and completes *)
Definition ex_progs : list (list fop) := [[Alloc; FreeOldest]; [Alloc]; [Alloc]].
Definition ex_prefix : list nat := rep 0 13 ++ rep 1 4 ++ rep 2 13 ++ rep 0 5.
Definition ex_sched : list nat := ex_prefix ++ rep 1 20 ++ rep 0 5.
Example C01_aba_free_example :
  aba_free ex_sched (ginit (init 5 16 44 224 ex_progs)) = true /\
  (let g := rung ex_prefix (ginit (init 5 16 44 224 ex_progs)) in
   map pc (thr (gs g)) = [PushL1 0 144 None; PopCas 36 72 0; Idle] /\ ver g = 2%nat /\ seen g 1%nat = 1%nat) /\
  (let s := run ex_sched (init 5 16 44 224 ex_progs) in
   map res (thr s) = [[RAlloc (Some 0); RDone]; [RAlloc (Some 72)]; [RAlloc (Some 36)]] /\
   map held (thr s) = [[]; [72]; [36]]).
Proof. vm_compute. repeat split. Qed.

(* ---- one thread, any operation sequence (no recycle-chain): refinement of the abstract FIFO ---- *)
Theorem C01_sequential_terminates : forall n cpb base len ops,
  1 <= n -> 0 <= cpb -> forallb op_nochain ops = true ->
  exists k, forallb finished (thr (run (repeat O k) (init n cpb base len [ops]))) = true.
Proof. exact seq_terminates. Qed.
Print Assumptions C01_sequential_terminates.

Theorem C01_sequential_functional : forall n cpb base len ops k,
  1 <= n -> 0 <= cpb -> forallb op_nochain ops = true ->
  let s := run (repeat O k) (init n cpb base len [ops]) in
  forallb finished (thr s) = true ->
  map res (thr s) = [fst (fst (spec (L0 n cpb) [] ops))] /\
  all_held s = snd (spec (L0 n cpb) [] ops) /\
  Rep (mm s) (snd (fst (spec (L0 n cpb) [] ops))) (snd (spec (L0 n cpb) [] ops)) /\
  geom (init_mem n cpb base len) (mm s).
Proof. exact seq_functional. Qed.
Print Assumptions C01_sequential_functional.

Theorem C01_partial_sequential : forall n cpb base len ops k,
  1 <= n -> 0 <= cpb -> forallb op_nochain ops = true ->
  let s := run (repeat O k) (init n cpb base len [ops]) in
  forallb finished (thr s) = true ->
  nodupb (all_held s) = true /\ forallb (is_slot (mm s)) (all_held s) = true.
Proof. exact seq_no_double_ownership. Qed.
Print Assumptions C01_partial_sequential.

Example C01_witness_shows_double_ownership :
  let s := run aba_sched (init 5 16 44 228 aba_progs) in
  map held (thr s) = [[0]; []; [36; 72]; [36]].
Proof. vm_compute. reflexivity. Qed.

(* ---- the manager layer above the lists: allocShmBuffer / allocShmBuffers / recycleBuffer over any
   list of size classes, EQUAL slice sizes included (VerifyConfig accepts them), every op sequence:
   the free lists and the held buffers always form a permutation of the initial slots — no buffer is
   held twice, none is lost (sequential; Model/FreeListMgr.v, tied to the real bufferManager by the
   manager harness) *)
From Shm Require Import Model.FreeListMgr Proofs.FreeListMgrProofs.
Theorem C01_manager_no_double_ownership : forall l ops xs m',
  NoDup (flat_map c_free l) -> mrun {| classes := l; mheld := [] |} ops = (xs, m') ->
  NoDup (all_slots m') /\ NoDup (map b_off (mheld m')) /\
  (forall o, In o (map b_off (mheld m')) -> In o (flat_map c_free l)) /\
  Permutation.Permutation (all_slots m') (flat_map c_free l).
Proof. exact mgr_no_double_ownership. Qed.
Print Assumptions C01_manager_no_double_ownership.
