(* C01 — A shared-memory buffer never has two owners at once.
   Model: Model/FreeList.v (one shared access per step, any number of threads).
   Status on the unchanged tree: the full statement C01_full is REFUTED by an ABA schedule of
   bufferList.pop (C01_refuted).  The witness is replayed on the real bufferList on every run
   (corpus/freelist.json) and is a known finding.  What is proved for all executions:
   C01_held_bounded (never more buffers out than the list has slots, whatever the schedule), and
   the sequential and ABA-free statements of Proofs/FreeListSeq.v (the C01_partial theorems).          *)
From Coq Require Import List ZArith Lia Bool Arith.
From Shm Require Import Gen.Consts Model.FreeList Proofs.FreeListProofs.
Import ListNotations.
Open Scope Z_scope.

Fixpoint nodupb (l : list Z) : bool :=
  match l with [] => true | x :: r => negb (existsb (Z.eqb x) r) && nodupb r end.

(* the property as given: at every moment of every execution the buffers held by all threads are
   pairwise distinct slots of the region (slot-aligned, inside it) and nothing panics *)
Definition C01_full : Prop := forall n cpb base len progs sched,
  0 < n -> 0 < cpb ->
  let s := run sched (init n cpb base len progs) in
  nodupb (all_held s) = true /\ forallb (is_slot (mm s)) (all_held s) = true.

Definition rep (t k : nat) : list nat := repeat t k.
Definition aba_progs : list (list fop) :=
  [ [Alloc];
    [Alloc; FreeOldest; Alloc; FreeOldest; Alloc; FreeOldest];
    [Alloc; Alloc; Update 7 true];
    [Alloc] ].
(* t0 parks between its read of head.next and its CAS; t1, t2 allocate; t1 rotates the list so that
   head is t0's old head again; t0's stale CAS publishes as head a slot t2 holds; t2 links that slot
   into a message (a legitimate write to its own buffer); t3's allocation returns it a second time *)
Definition aba_sched : list nat :=
  rep 0 4 ++ rep 1 13 ++ rep 2 26 ++ rep 1 46 ++ rep 0 9 ++ rep 2 5 ++ rep 1 10 ++ rep 3 13.

Theorem C01_refuted : ~ C01_full.
Proof.
  intros H. specialize (H 5 16 44 228 aba_progs aba_sched ltac:(lia) ltac:(lia)).
  vm_compute in H. destruct H as [H1 H2]; discriminate.
Qed.
Print Assumptions C01_refuted.

(* what holds in EVERY execution, ABA or not: the number of buffers out never exceeds what the list
   gave up: free count + held <= capacity (so at most n - 1 buffers are ever held while size >= 1) *)
Theorem C01_held_bounded : forall n cpb base len progs sched,
  progs_nochain progs ->
  let s := run sched (init n cpb base len progs) in
  m_size (mm s) + nheld (thr s) <= n.
Proof. exact count_bound. Qed.
Print Assumptions C01_held_bounded.

Example C01_witness_shows_double_ownership :
  let s := run aba_sched (init 5 16 44 228 aba_progs) in
  map held (thr s) = [[0]; []; [36; 72]; [36]].
Proof. vm_compute. reflexivity. Qed.
