(* The manager layer never duplicates or loses a buffer: for every list of size classes (equal sizes
   allowed) and every sequence of allocShmBuffer / allocShmBuffers / recycleBuffer operations the free
   lists and the held buffers always form a permutation of the initial slots. *)
From Coq Require Import List ZArith Lia Bool Arith Permutation.
From Shm Require Import Model.FreeListMgr.
Import ListNotations.
Open Scope Z_scope.

Definition cpbs (l : list cls) : list Z := map c_cpb l.

Lemma pop_spec c o c' : pop c = Some (o, c') -> c_free c = o :: c_free c' /\ c_cpb c' = c_cpb c.
Proof.
  unfold pop. destruct (c_free c) as [|a [|b r]] eqn:E; try discriminate.
  intros H; inversion H; subst; simpl. auto.
Qed.

Lemma alloc_in_spec l size b l' :
  alloc_in l size = Some (b, l') ->
  Permutation (flat_map c_free l) (b_off b :: flat_map c_free l') /\ cpbs l' = cpbs l /\ In (b_cap b) (cpbs l).
Proof.
  revert b l'. induction l as [|c r IH]; simpl; intros b l' H; try discriminate.
  destruct (size <=? c_cpb c).
  - destruct (pop c) as [[o c']|] eqn:Ep.
    + inversion H; subst; simpl. destruct (pop_spec _ _ _ Ep) as [Hf Hc]. rewrite Hf. simpl.
      repeat split; auto. unfold cpbs; simpl; rewrite Hc; reflexivity.
    + destruct (alloc_in r size) as [[b0 r']|] eqn:Er; try discriminate. inversion H; subst; simpl.
      destruct (IH _ _ eq_refl) as [Hp [Hc Hi]]. repeat split.
      * rewrite Hp. symmetry. apply Permutation_middle.
      * unfold cpbs in *; simpl; rewrite Hc; reflexivity.
      * right; auto.
  - destruct (alloc_in r size) as [[b0 r']|] eqn:Er; try discriminate. inversion H; subst; simpl.
    destruct (IH _ _ eq_refl) as [Hp [Hc Hi]]. repeat split.
    + rewrite Hp. symmetry. apply Permutation_middle.
    + unfold cpbs in *; simpl; rewrite Hc; reflexivity.
    + right; auto.
Qed.

Lemma drain_spec fuel c remain acc c' rem' acc' :
  drain fuel c remain acc = (c', rem', acc') ->
  Permutation (c_free c ++ map b_off acc) (c_free c' ++ map b_off acc') /\ c_cpb c' = c_cpb c /\
  (forall b, In b acc' -> In b acc \/ b_cap b = c_cpb c).
Proof.
  revert c remain acc c' rem' acc'. induction fuel as [|f IH]; simpl; intros c remain acc c' rem' acc' H.
  - inversion H; subst. repeat split; auto.
  - destruct (remain >? 0).
    + destruct (pop c) as [[o c1]|] eqn:Ep.
      * destruct (pop_spec _ _ _ Ep) as [Hf Hc]. apply IH in H. destruct H as [Hp [Hc' Hin]].
        repeat split.
        -- rewrite <- Hp. rewrite Hf, map_app. simpl. rewrite app_assoc. apply Permutation_cons_append.
        -- congruence.
        -- intros b Hb. destruct (Hin b Hb) as [Hb'|Hb'].
           ++ apply in_app_or in Hb'. destruct Hb' as [Hb'|[<-|[]]]; auto.
           ++ right; congruence.
      * inversion H; subst. repeat split; auto.
    + inversion H; subst. repeat split; auto.
Qed.

Lemma alloc_multi_rev_spec l remain acc l' acc' :
  alloc_multi_rev l remain acc = (l', acc') ->
  Permutation (flat_map c_free l ++ map b_off acc) (flat_map c_free l' ++ map b_off acc') /\ cpbs l' = cpbs l /\
  (forall b, In b acc' -> In b acc \/ In (b_cap b) (cpbs l)).
Proof.
  revert remain acc l' acc'. induction l as [|c r IH]; simpl; intros remain acc l' acc' H.
  - inversion H; subst. repeat split; auto.
  - destruct (drain (length (c_free c)) c remain acc) as [[c1 rem1] acc1] eqn:Ed.
    destruct (alloc_multi_rev r rem1 acc1) as [r' acc2] eqn:Er. inversion H; subst; clear H.
    destruct (drain_spec _ _ _ _ _ _ _ Ed) as [Hp1 [Hc1 Hi1]].
    destruct (IH _ _ _ _ Er) as [Hp2 [Hc2 Hi2]]. repeat split.
    + simpl. rewrite <- !app_assoc.
      transitivity (flat_map c_free r ++ c_free c ++ map b_off acc).
      { rewrite !app_assoc. apply Permutation_app_tail. apply Permutation_app_comm. }
      rewrite Hp1.
      transitivity (c_free c1 ++ flat_map c_free r ++ map b_off acc1).
      { rewrite !app_assoc. apply Permutation_app_tail. apply Permutation_app_comm. }
      apply Permutation_app_head. exact Hp2.
    + unfold cpbs in *; simpl. rewrite Hc1, Hc2. reflexivity.
    + intros b Hb. destruct (Hi2 b Hb) as [Hb'|Hb'].
      * destruct (Hi1 b Hb') as [Hx|Hx]; [left; exact Hx | right; left; symmetry; exact Hx].
      * right; right; exact Hb'.
Qed.

Lemma recycle_in_spec l b :
  In (b_cap b) (cpbs l) ->
  Permutation (flat_map c_free (recycle_in l b)) (b_off b :: flat_map c_free l) /\ cpbs (recycle_in l b) = cpbs l.
Proof.
  induction l as [|c r IH]; simpl; intros H; [tauto|].
  destruct (b_cap b =? c_cpb c) eqn:E.
  - simpl. split; auto. rewrite <- app_assoc. simpl.
    transitivity (c_free c ++ b_off b :: flat_map c_free r).
    + reflexivity.
    + symmetry. apply Permutation_middle.
  - apply Z.eqb_neq in E. destruct H as [H|H]; [congruence|]. destruct (IH H) as [Hp Hc]. simpl. split.
    + rewrite Hp. symmetry. apply Permutation_middle.
    + unfold cpbs in *; simpl; rewrite Hc; reflexivity.
Qed.

Lemma remove_nth_perm {A} (l : list A) k x : nth_error l k = Some x -> Permutation l (x :: remove_nth k l).
Proof.
  revert k; induction l as [|a l IH]; intros [|k] H; simpl in *; try discriminate.
  - inversion H; subst; reflexivity.
  - rewrite (IH k H) at 1. apply perm_swap.
Qed.

Definition caps_ok (m : mgr) : Prop := forall b, In b (mheld m) -> In (b_cap b) (cpbs (classes m)).

Lemma mstep_perm m o x m' :
  caps_ok m -> mstep m o = (x, m') ->
  Permutation (all_slots m') (all_slots m) /\ cpbs (classes m') = cpbs (classes m) /\ caps_ok m'.
Proof.
  intros Hok H. unfold mstep in H. destruct o as [size|size|k].
  - unfold alloc1 in H. destruct (size <=? max_size (classes m)).
    + destruct (alloc_in (classes m) size) as [[b l']|] eqn:Ea.
      * inversion H; subst; clear H. destruct (alloc_in_spec _ _ _ _ Ea) as [Hp [Hc Hi]].
        unfold all_slots, all_free; simpl. repeat split; auto.
        -- rewrite Hp, map_app. simpl. symmetry. rewrite app_assoc. apply Permutation_cons_append.
        -- intros b0 Hb0. simpl in Hb0. apply in_app_or in Hb0. simpl. rewrite Hc.
           destruct Hb0 as [Hb0|[<-|[]]]; [apply Hok; exact Hb0 | exact Hi].
      * inversion H; subst. repeat split; auto.
    + inversion H; subst. repeat split; auto.
  - unfold alloc_multi in H. destruct (alloc_multi_rev (rev (classes m)) size []) as [lr got] eqn:Ea.
    inversion H; subst; clear H. destruct (alloc_multi_rev_spec _ _ _ _ _ Ea) as [Hp [Hc Hi]].
    assert (Hrev : forall l : list cls, Permutation (flat_map c_free (rev l)) (flat_map c_free l)).
    { intros l. rewrite !flat_map_concat_map. rewrite map_rev.
      induction (map c_free l) as [|a r IH]; simpl; auto. rewrite concat_app. simpl. rewrite app_nil_r.
      rewrite IH. apply Permutation_app_comm. }
    unfold all_slots, all_free; simpl. repeat split.
    + rewrite map_app. simpl in Hp. rewrite app_nil_r in Hp. rewrite (Hrev lr).
      transitivity (flat_map c_free lr ++ map b_off got ++ map b_off (mheld m)).
      { apply Permutation_app_head. apply Permutation_app_comm. }
      rewrite app_assoc, <- Hp. apply Permutation_app_tail. apply Hrev.
    + unfold cpbs in *. rewrite map_rev, Hc, map_rev, rev_involutive. reflexivity.
    + intros b Hb. simpl in Hb. simpl. unfold cpbs in *. rewrite map_rev, Hc, map_rev, rev_involutive.
      apply in_app_or in Hb. destruct Hb as [Hb|Hb]; [apply Hok; auto|].
      destruct (Hi b Hb) as [[]|Hx]. rewrite map_rev in Hx. apply in_rev in Hx. exact Hx.
  - destruct (nth_error (mheld m) k) as [b|] eqn:En.
    + inversion H; subst; clear H. assert (Hb : In (b_cap b) (cpbs (classes m))) by (apply Hok; eapply nth_error_In; eauto).
      destruct (recycle_in_spec _ _ Hb) as [Hp Hc]. unfold all_slots, all_free; simpl. repeat split; auto.
      * rewrite Hp. rewrite (remove_nth_perm _ _ _ En) at 2. simpl. apply Permutation_middle.
      * intros b0 Hb0. simpl in Hb0. simpl. rewrite Hc. apply Hok. rewrite (remove_nth_perm _ _ _ En). right; auto.
    + inversion H; subst. repeat split; auto.
Qed.

Theorem mrun_perm m ops xs m' :
  caps_ok m -> mrun m ops = (xs, m') -> Permutation (all_slots m') (all_slots m) /\ caps_ok m'.
Proof.
  revert m xs m'. induction ops as [|o r IH]; simpl; intros m xs m' Hok H.
  - inversion H; subst. split; auto.
  - destruct (mstep m o) as [x m1] eqn:Es. destruct (mrun m1 r) as [ys m2] eqn:Er. inversion H; subst; clear H.
    destruct (mstep_perm _ _ _ _ Hok Es) as [Hp1 [_ Hok1]]. destruct (IH _ _ _ Hok1 Er) as [Hp2 Hok2].
    split; auto. rewrite Hp2. exact Hp1.
Qed.

Lemma nodup_app_r {A} (a b : list A) : NoDup (a ++ b) -> NoDup b.
Proof. induction a as [|x a IH]; simpl; auto. intros H; inversion H; auto. Qed.

(* the statement used by C01 / C02 *)
Theorem mgr_no_double_ownership l ops xs m' :
  NoDup (flat_map c_free l) -> mrun {| classes := l; mheld := [] |} ops = (xs, m') ->
  NoDup (all_slots m') /\ NoDup (map b_off (mheld m')) /\
  (forall o, In o (map b_off (mheld m')) -> In o (flat_map c_free l)) /\
  Permutation (all_slots m') (flat_map c_free l).
Proof.
  intros Hnd H. assert (Hok : caps_ok {| classes := l; mheld := [] |}) by (intros b []).
  destruct (mrun_perm _ _ _ _ Hok H) as [Hp _]. unfold all_slots at 2 in Hp; simpl in Hp. rewrite app_nil_r in Hp.
  unfold all_free in Hp; simpl in Hp.
  assert (Hnd' : NoDup (all_slots m')) by (eapply Permutation_NoDup; [symmetry; exact Hp|exact Hnd]).
  repeat split; auto.
  - unfold all_slots in Hnd'. apply nodup_app_r in Hnd'. exact Hnd'.
  - intros o Ho. eapply Permutation_in; [exact Hp|]. unfold all_slots. apply in_or_app; right; exact Ho.
Qed.
