(* The inductive invariant of the readMore wake-up protocol (Model/Wait.v, part 1) and the tactics
   shared with Proofs/WaitProofs.v. *)
From Coq Require Import List ZArith Lia Bool Arith.
From Shm Require Import Gen.Consts Model.Wait.
Import ListNotations.
Open Scope Z_scope.

Definition rd_waiting (p : rpc) : bool := match p with RState | RArm | RParked => true | _ => false end.
Definition rd_pre (p : rpc) : bool := match p with RIdle | RCheck | RState | RArm | RDone => true | _ => false end.
Definition lc_mid_open (l : lpc) : bool :=
  match l with LCased SOpen | LCased SLocalHalf | LCleaned SOpen | LCleaned SLocalHalf => true | _ => false end.

(* the wake-up part: holds for EVERY schedule, including the two-step timer expiry FireA / FireB *)
Record WInv (s : st) : Prop := {
  w_n1 : (0 < pend s)%nat -> rd_waiting (rd s) = true -> token s = true \/ epc s = true;
  w_n2 : ss s <> SOpen -> closeN s = true \/ ppc s = true \/ lc_mid_open (lc s) = true \/ dpc s = true;
  w_n3 : sclosing s = true -> closeN s = true;
  w_e1 : forall n, res s = Some (ROk n) -> (minsz s <= n)%nat;
  w_r : res s <> None -> rd s = RDone }.

(* the timer part: also for EVERY schedule (the timer and its channel are fresh for every wait) *)
Record TInv (s : st) : Prop := {
  w_t0 : rd_pre (rd s) = true -> tmr s = None;
  w_t1 : forall t, tmr s = Some t -> t = armed s /\ use_t s = true;
  w_t3 : rd_pre (rd s) = false -> use_t s = true ->
         dl s = Some (armed s) /\ (tch s = true -> armed s <= now s) /\ (ptick s = true -> armed s <= now s) /\
         (tch s = true \/ ptick s = true \/ tmr s = Some (armed s)) }.

Lemma winv_init : WInv init.
Proof. constructor; cbn; intros; try discriminate; try lia; try tauto; auto. Qed.
Lemma tinv_init : TInv init.
Proof. constructor; cbn; intros; try discriminate; try lia; try tauto; auto. Qed.

Ltac brk :=
  repeat match goal with
         | |- context [sst_eqb ?a _] => is_var a; destruct a
         | |- context [sst_eqb _ ?a] => is_var a; destruct a
         | |- context [match ?x with SOpen => _ | _ => _ end] => is_var x; destruct x
         | |- context [match ?x with RIdle => _ | _ => _ end] => is_var x; destruct x
         | |- context [match ?x with LIdle => _ | _ => _ end] => is_var x; destruct x
         | |- context [match ?x with BNotify => _ | _ => _ end] => is_var x; destruct x
         | |- context [match ?x with Some _ => _ | None => _ end] => is_var x; destruct x
         | |- context [if ?c then _ else _] => is_var c; destruct c
         | |- context [if ?c then _ else _] => destruct c eqn:?
         end.

Ltac norm :=
  repeat match goal with
         | H : (_ <=? _)%nat = true |- _ => apply Nat.leb_le in H
         | H : (_ <=? _)%nat = false |- _ => apply Nat.leb_gt in H
         | H : (_ =? _)%nat = true |- _ => apply Nat.eqb_eq in H
         | H : (_ =? _)%nat = false |- _ => apply Nat.eqb_neq in H
         | H : (_ <=? _) = true |- _ => apply Z.leb_le in H
         | H : (_ <=? _) = false |- _ => apply Z.leb_gt in H
         | H : (_ <? _) = true |- _ => apply Z.ltb_lt in H
         | H : (_ <? _) = false |- _ => apply Z.ltb_ge in H
         | H : _ || _ = false |- _ => apply orb_false_elim in H; destruct H
         | H : _ && _ = true |- _ => apply andb_prop in H; destruct H
         end.

Ltac fld := cbn in *; intros; norm; rewrite ?orb_false_r, ?orb_true_r in *;
            repeat match goal with
                   | H : forall t : Z, Some ?z = Some t -> _ |- _ => specialize (H _ eq_refl)
                   | H : forall t : Z, ?x = Some t -> _, H2 : ?x = Some _ |- _ => specialize (H _ H2)
                   | H : forall n : nat, ?x = Some (ROk n) -> _, H2 : ?x = Some (ROk _) |- _ => specialize (H _ H2)
                   end;
            repeat match goal with
                   | H : Some _ = Some _ |- _ => inversion H; clear H; subst
                   | H : ROk _ = ROk _ |- _ => inversion H; clear H; subst
                   end;
            try solve [intuition (try congruence; try discriminate; try lia)].

Lemma winv_step : forall s e, WInv s -> WInv (step s e).
Proof.
  intros s e [h1 h2 h3 h8 h9].
  destruct s as [pend0 rbuf0 token0 closeN0 ss0 epc0 ppc0 lc0 sclosing0 dpc0 cbmode0 now0 dl0 tmr0 tch0 ptick0 use_t0 armed0 rd0 minsz0 res0].
  cbn in h1, h2, h3, h8, h9.
  destruct e; unfold step; cbn [step_gen]; unfold cb_busy, reader_step, wake, take_tick, finish_early, finish_late, move_to, set_rd;
    cbn [pend rbuf token closeN ss epc ppc lc sclosing dpc cbmode now dl tmr tch ptick use_t armed rd minsz res];
    brk; constructor; fld.
Qed.

Lemma tinv_step : forall s e, TInv s -> TInv (step s e).
Proof.
  intros s e [h4 h5 h7].
  destruct s as [pend0 rbuf0 token0 closeN0 ss0 epc0 ppc0 lc0 sclosing0 dpc0 cbmode0 now0 dl0 tmr0 tch0 ptick0 use_t0 armed0 rd0 minsz0 res0].
  cbn in h4, h5, h7.
  destruct e; unfold step; cbn [step_gen]; unfold cb_busy, reader_step, wake, take_tick, finish_early, finish_late, move_to, set_rd;
    cbn [pend rbuf token closeN ss epc ppc lc sclosing dpc cbmode now dl tmr tch ptick use_t armed rd minsz res];
    brk; constructor; fld.
Qed.

Lemma winv_run : forall evs s, WInv s -> WInv (run evs s).
Proof.
  induction evs as [|e r IH]; intros s HI; [exact HI|].
  change (run (e :: r) s) with (run r (step s e)). apply IH. apply winv_step. assumption.
Qed.

Lemma tinv_run : forall evs s, TInv s -> TInv (run evs s).
Proof.
  induction evs as [|e r IH]; intros s HI; [exact HI|].
  change (run (e :: r) s) with (run r (step s e)). apply IH. apply tinv_step. assumption.
Qed.
