(* Transfer of a flushed buffer: done() stamps a chain into the slot headers; the receiver's moveTo
   re-reads the chain through the headers, unlinks (and recycles) empty slices and appends the rest.
   Main results: done_chain (the stamped headers describe exactly the pending bytes), chain_spec /
   move_to_spec (content after moveTo = content before ++ bytes of the chains and fallback slices,
   no panic, every slot of a chain is either appended or free again). *)
From Coq Require Import List ZArith Lia Bool Arith.
From Shm Require Import Gen.Consts Model.LinkedBuffer Proofs.LinkedBufferProofs Proofs.LinkedBufferStore
  Proofs.LinkedBufferWriter.
Import ListNotations.
Close Scope Z_scope.
Open Scope nat_scope.

(* ---------------------------------------------------------------------------------------- *)
(* recycling a list of owned slices                                                          *)
(* ---------------------------------------------------------------------------------------- *)
Record recycled_all (m : shm) (ss : list slice) (m' : shm) : Prop := {
  ra_cnt : forall x, cnt (frees m') x = cnt (frees m) x + cnt (offs ss) x;
  ra_other : forall x, ~ In x (offs ss) -> slot_at m' x = slot_at m x;
  ra_cls : cls m' = cls m;
  ra_ok : store_ok m';
  ra_data : same_data m m' }.

Lemma recycle_all_spec : forall ss m,
  store_ok m -> Forall (recyclable m) ss -> NoDup (offs ss) -> (forall x, In x (offs ss) -> ~ In x (frees m)) ->
  recycled_all m ss (recycle_all m ss).
Proof.
  induction ss as [|s r IH]; intros m Hok Hrec Hnd Hdis.
  - constructor; auto. apply same_data_refl.
  - inversion Hrec as [|? ? Hs Hr]; subst. unfold recycle_all. cbn [fold_left]. fold (recycle_all (recycle m s) r).
    destruct (shmf s) eqn:E.
    + rewrite (offs_cons_shm s r E) in *. inversion Hnd as [|? ? Hnotin Hnd']; subst.
      pose proof (recycle_spec m s Hok E (Hdis _ (or_introl eq_refl)) (Hs E)) as [R1 R2 R3 R4 R5].
      assert (Hrec' : Forall (recyclable (recycle m s)) r).
      { rewrite Forall_forall in Hr |- *. intros a Ha Ea. destruct (Hr a Ha Ea) as [t [Ht Hc]]. exists t. split; [|exact Hc].
        rewrite R3; [exact Ht|]. intros Heq. apply Hnotin. rewrite <- Heq. apply in_offs. exists a. auto. }
      assert (Hdis' : forall x, In x (offs r) -> ~ In x (frees (recycle m s))).
      { intros x Hx. apply cnt_notin. rewrite R1. assert (x <> off s) by (intros ->; contradiction).
        rewrite ind_diff by congruence. assert (~ In x (frees m)) by (apply Hdis; right; exact Hx). apply cnt_notin in H0. lia. }
      destruct (IH (recycle m s) R5 Hrec' Hnd' Hdis') as [I1 I2 I3 I4 I5]. constructor.
      * intros x. rewrite (offs_cons_shm s r E), I1, R1, cnt_cons. lia.
      * intros x Hx. rewrite (offs_cons_shm s r E) in Hx. rewrite I2 by (intros Hin; apply Hx; right; exact Hin). apply R3. intros ->. apply Hx. left. reflexivity.
      * congruence.
      * exact I4.
      * eapply same_data_trans; [apply same_data_recycle|exact I5].
    + rewrite (offs_cons_heap s r E) in *. rewrite (recycle_heap m s E).
      destruct (IH m Hok Hr Hnd Hdis) as [I1 I2 I3 I4 I5]. constructor; try rewrite (offs_cons_heap s r E); auto.
Qed.

(* ---------------------------------------------------------------------------------------- *)
(* a chain in the slot headers                                                               *)
(* ---------------------------------------------------------------------------------------- *)
Definition slot_bytes (t : slot) : list byte := firstn (st_size t) (skipn (st_start t) (st_data t)).

Inductive chain_ok (m : shm) : nat -> list nat -> list byte -> Prop :=
| ch_last o t : slot_at m o = Some t -> st_hasnext t = false -> 0 < st_size t ->
    st_start t + st_size t <= length (st_data t) -> st_start t = 0 -> chain_ok m o [o] (slot_bytes t)
| ch_next o t ids bytes : slot_at m o = Some t -> st_hasnext t = true ->
    st_start t + st_size t <= length (st_data t) -> chain_ok m (st_next t) ids bytes -> st_start t = 0 ->
    chain_ok m o (o :: ids) (slot_bytes t ++ bytes).

Lemma chain_ok_frame m m' o ids bytes : (forall x, In x ids -> slot_at m' x = slot_at m x) ->
  chain_ok m o ids bytes -> chain_ok m' o ids bytes.
Proof.
  intros Hf H. induction H as [o t H1 H2 H3 H4 H5|o t ids bytes H1 H2 H3 H4 IH H5].
  - apply ch_last; auto. rewrite Hf by (left; reflexivity). exact H1.
  - apply ch_next; auto; [rewrite Hf by (left; reflexivity); exact H1|]. apply IH. intros x Hx. apply Hf. right. exact Hx.
Qed.

Lemma chain_ok_head m o ids bytes : chain_ok m o ids bytes -> exists r, ids = o :: r.
Proof. intros H. destruct H; eexists; reflexivity. Qed.

(* ---------------------------------------------------------------------------------------- *)
(* done(): stamping                                                                          *)
(* ---------------------------------------------------------------------------------------- *)
Lemma stamp_frame : forall ss m stop x, ~ In x (offs ss) -> slot_at (stamp m ss stop) x = slot_at m x.
Proof.
  induction ss as [|s r IH]; intros m stop x Hx; cbn [stamp]; [reflexivity|].
  destruct (shmf s) eqn:E.
  - rewrite (offs_cons_shm s r E) in Hx.
    assert (Hne : x <> off s) by (intros ->; apply Hx; left; reflexivity).
    assert (Hr : ~ In x (offs r)) by (intros H; apply Hx; right; exact H).
    assert (H1 : slot_at (match r with
                           | [] => upd_slot m (off s) (hdr_stamp (ssize s) (start s))
                           | nx :: _ => upd_slot (upd_slot m (off s) (hdr_stamp (ssize s) (start s))) (off s) (hdr_link (off nx))
                           end) x = slot_at m x).
    { destruct r; rewrite ?slot_at_upd_other by exact Hne; reflexivity. }
    destruct stop as [[|k]|]; [exact H1|rewrite IH by exact Hr; exact H1|rewrite IH by exact Hr; exact H1].
  - rewrite (offs_cons_heap s r E) in Hx. destruct stop as [[|k]|]; [reflexivity|apply IH; exact Hx|apply IH; exact Hx].
Qed.

Lemma stamp_free : forall ss m stop, free (stamp m ss stop) = free m /\ cls (stamp m ss stop) = cls m.
Proof.
  induction ss as [|s r IH]; intros m stop; cbn [stamp]; [auto|].
  set (m1 := if shmf s then _ else m).
  assert (H1 : free m1 = free m /\ cls m1 = cls m) by (unfold m1; destruct (shmf s); [destruct r|]; auto).
  destruct stop as [[|k]|]; [exact H1| |]; destruct (IH m1 (Some k)) as [A B] || destruct (IH m1 None) as [A B]; destruct H1; split; congruence.
Qed.

Lemma stamp_same_data : forall ss m stop, same_data m (stamp m ss stop).
Proof.
  induction ss as [|s r IH]; intros m stop; cbn [stamp]; [apply same_data_refl|].
  set (m1 := if shmf s then _ else m).
  assert (H1 : same_data m m1).
  { unfold m1. destruct (shmf s); [|apply same_data_refl]. destruct r.
    - apply same_data_upd_hdr. reflexivity.
    - eapply same_data_trans; apply same_data_upd_hdr; reflexivity. }
  destruct stop as [[|k]|]; [exact H1|eapply same_data_trans; [exact H1|apply IH]|eapply same_data_trans; [exact H1|apply IH]].
Qed.

(* stamping a run of shm slices whose last one is non-empty yields a chain carrying their bodies *)
Lemma stamp_chain : forall ss m k,
  length ss = S k -> Forall (wslice_ok m) ss -> Forall (fun s => shmf s = true) ss -> NoDup (offs ss) ->
  0 < ssize (last ss dummy) ->
  chain_ok (stamp m ss (Some k)) (off (hd dummy ss)) (offs ss) (bodies m ss).
Proof.
  induction ss as [|s r IH]; intros m k Hlen Hok Hshm Hnd Hlast; [discriminate|].
  inversion Hok as [|? ? Hs Hr]; subst. inversion Hshm as [|? ? Es Hshm']; subst.
  rewrite (offs_cons_shm s r Es) in *. inversion Hnd as [|? ? Hnotin Hnd']; subst.
  destruct Hs as [[S1 S1'] [S2 [S3 [S4 S5]]]]. destruct (S5 Es) as [t [Ht [Hc Hn]]].
  assert (Hbody : forall t', st_data t' = st_data t -> st_size t' = ssize s -> st_start t' = start s ->
                             slot_bytes t' = body m s).
  { intros t' D1 D2 D3. unfold slot_bytes, body. rewrite D1, D2, D3, <- S1. rewrite (sdata_slot m s Es), Ht. reflexivity. }
  assert (Hdl : length (st_data t) = cap s) by (rewrite (sdata_slot m s Es), Ht in S4; exact S4).
  cbn [stamp hd]. rewrite Es. destruct r as [|s' r'].
  - (* the write slice: last of the chain *)
    cbn [length] in Hlen. assert (k = 0) by lia. subst k. cbn [last] in Hlast.
    rewrite bodies_cons. change (bodies m []) with (@nil byte). rewrite app_nil_r.
    set (t' := hdr_stamp (ssize s) (start s) t).
    rewrite <- (Hbody t') by reflexivity. apply ch_last.
    + apply slot_at_upd_same. exact Ht.
    + exact Hn.
    + exact Hlast.
    + cbn [t' hdr_stamp st_start st_size st_data]. unfold ssize. lia.
    + exact S1'.
  - cbn [length] in Hlen. destruct k as [|k]; [lia|].
    set (m1 := upd_slot (upd_slot m (off s) (hdr_stamp (ssize s) (start s))) (off s) (hdr_link (off s'))).
    set (t' := hdr_link (off s') (hdr_stamp (ssize s) (start s) t)).
    assert (Ht' : slot_at m1 (off s) = Some t').
    { unfold m1. apply slot_at_upd_same. apply slot_at_upd_same. exact Ht. }
    assert (Hframe1 : forall x, x <> off s -> slot_at m1 x = slot_at m x).
    { intros x Hx. unfold m1. rewrite !slot_at_upd_other by exact Hx. reflexivity. }
    assert (Hok1 : Forall (wslice_ok m1) (s' :: r')).
    { apply (wslices_frame m m1); [|exact Hr]. intros x Hx. apply Hframe1. intros ->. contradiction. }
    assert (Hlast' : 0 < ssize (last (s' :: r') dummy)) by exact Hlast.
    pose proof (IH m1 k ltac:(cbn [length] in *; lia) Hok1 Hshm' Hnd' Hlast') as Hch.
    rewrite bodies_cons. rewrite <- (Hbody t') by reflexivity.
    assert (Hb1 : bodies m1 (s' :: r') = bodies m (s' :: r')).
    { apply bodies_frame. intros x Hx. apply Hframe1. intros ->. contradiction. }
    rewrite <- Hb1.
    apply ch_next.
    + rewrite stamp_frame by exact Hnotin. exact Ht'.
    + reflexivity.
    + cbn [t' hdr_link hdr_stamp st_start st_size st_data]. unfold ssize. lia.
    + exact Hch.
    + exact S1'.
Qed.

Lemma stamp_store_ok : forall ss m stop, store_ok m -> (forall x, In x (offs ss) -> ~ In x (frees m)) -> store_ok (stamp m ss stop).
Proof.
  induction ss as [|s r IH]; intros m stop Hok Hdis; cbn [stamp]; [exact Hok|].
  set (m1 := if shmf s then _ else m).
  assert (H1 : store_ok m1 /\ frees m1 = frees m).
  { unfold m1. destruct (shmf s) eqn:E; [|auto]. rewrite (offs_cons_shm s r E) in Hdis.
    assert (Hno : ~ In (off s) (frees m)) by (apply Hdis; left; reflexivity).
    assert (Ha : store_ok (upd_slot m (off s) (hdr_stamp (ssize s) (start s)))) by (apply store_ok_upd; auto).
    destruct r; [split; [exact Ha|reflexivity]|]. split; [|reflexivity]. apply store_ok_upd; auto. }
  destruct H1 as [Hok1 Hfr].
  assert (Hdis1 : forall x, In x (offs r) -> ~ In x (frees m1)).
  { intros x Hx. rewrite Hfr. apply Hdis. destruct (shmf s) eqn:E; [rewrite (offs_cons_shm s r E); right; exact Hx|rewrite (offs_cons_heap s r E); exact Hx]. }
  destruct stop as [[|k]|]; [exact Hok1|apply IH; assumption|apply IH; assumption].
Qed.

Lemma stamp_caps : forall ss m stop, cap_stable m (stamp m ss stop).
Proof.
  induction ss as [|s r IH]; intros m stop; cbn [stamp]; [apply cap_stable_refl|].
  set (m1 := if shmf s then _ else m).
  assert (H1 : cap_stable m m1).
  { unfold m1. destruct (shmf s); [|apply cap_stable_refl]. destruct r.
    - apply cap_stable_upd. reflexivity.
    - eapply cap_stable_trans; apply cap_stable_upd; reflexivity. }
  destruct stop as [[|k]|]; [exact H1|eapply cap_stable_trans; [exact H1|apply IH]|eapply cap_stable_trans; [exact H1|apply IH]].
Qed.

Record done_ok (m : shm) (l : lbuf) (m1 : shm) : Prop := {
  dn_chain : chain_ok m1 (off (hd dummy (slices l))) (offs (slices l)) (content m l);
  dn_frame : forall x, ~ In x (offs (slices l)) -> slot_at m1 x = slot_at m x;
  dn_free : free m1 = free m; dn_cls : cls m1 = cls m;
  dn_ok : store_ok m1; dn_data : same_data m m1; dn_caps : cap_stable m m1 }.

Lemma done_chain m l : wpre m l -> fromshm l = true -> (0 < len l)%Z ->
  exists m1, lb_done m l = Ok (m1, l) /\ done_ok m l m1 /\ slices l <> [].
Proof.
  intros [Hok [[W1 W2 W3 W4 W5 W6 W7] Hown]] Hf Hlen.
  assert (Hne : slices l <> []).
  { intros E. unfold content in W3. rewrite E in W3. cbn in W3. lia. }
  unfold lb_done. rewrite Hf. destruct (wpos l) as [|i|] eqn:Ewp; [congruence| |contradiction].
  assert (Hsk : skipn (S i) (slices l) = []) by (apply skipn_all2; lia).
  assert (Hfn : firstn (S i) (slices l) = slices l) by (apply firstn_all2; lia).
  rewrite Hsk, Hfn. unfold recycle_all. cbn [fold_left].
  exists (stamp m (slices l) (Some i)). split; [destruct l; reflexivity|]. split; [|exact Hne].
  destruct (stamp_free (slices l) m (Some i)) as [Hfr Hcl].
  constructor.
  - apply stamp_chain; [lia|exact W1|apply W6; exact Hf|exact W2|apply W5; [exact Hne|exact Hlen]].
  - intros x Hx. apply stamp_frame. exact Hx.
  - exact Hfr.
  - exact Hcl.
  - apply stamp_store_ok; [exact Hok|]. intros x Hx. apply cnt_notin. apply cnt_In in Hx. specialize (Hown x). lia.
  - apply stamp_same_data.
  - apply stamp_caps.
Qed.

Lemma underlying_content m l : WB m l -> underlying m l = content m l.
Proof.
  intros [W1 W2 W3 W4 W5 W6 W7]. unfold underlying, content. destruct (wpos l) as [|i|]; [reflexivity| |contradiction].
  rewrite firstn_all2 by lia. reflexivity.
Qed.

(* ---------------------------------------------------------------------------------------- *)
(* moveTo: re-reading one chain                                                              *)
(* ---------------------------------------------------------------------------------------- *)
(* the write pointer of a receive buffer is its last slice (appendBufferSlice sets it, popFront keeps it) *)
Definition rwp (l : lbuf) : Prop := slices l = [] \/ wpos l = WAt (length (slices l) - 1).
Definition start0 (ss : list slice) : Prop := Forall (fun s => start s = 0) ss.

Lemma rwp_append l s : rwp (append_slice l s).
Proof.
  right. unfold append_slice. destruct (shmf s); cbn [wpos slices set_wpos set_len set_fromshm push_back set_slices];
    rewrite app_length; cbn [length]; f_equal; lia.
Qed.

Record moved (m : shm) (l : lbuf) (ids : list nat) (bytes : list byte) (m' : shm) (l' : lbuf) : Prop := {
  mv_wf : WF m' l';
  mv_content : content m' l' = content m l ++ bytes;
  mv_cnt : forall x, cnt (frees m') x + cnt (offs (slices l')) x = cnt (frees m) x + cnt (offs (slices l)) x + cnt ids x;
  mv_frame : forall x, ~ In x ids -> ~ In x (offs (slices l)) -> slot_at m' x = slot_at m x;
  mv_mono : forall x, cnt (frees m) x <= cnt (frees m') x;
  mv_shm : Forall (fun s => shmf s = true) (slices l) -> Forall (fun s => shmf s = true) (slices l');
  mv_ok : store_ok m';
  mv_cls : cls m' = cls m;
  mv_data : same_data m m';
  mv_caps : cap_stable m m';
  mv_slots : Forall (recyclable m) (slices l) -> Forall (recyclable m') (slices l');
  mv_prefix : exists app, slices l' = slices l ++ app;
  mv_pin : pinned l' = pinned l; mv_curp : curp l' = curp l; mv_rec : recycled l' = recycled l;
  mv_leases : leases l' = leases l;
  mv_start : start0 (slices l) -> start0 (slices l');
  mv_rwp : rwp l -> rwp l' }.

Lemma ssize_slot o t : ssize (slice_of_slot o t) = st_size t.
Proof. unfold ssize, slice_of_slot. cbn. lia. Qed.

Lemma body_slot m o t : slot_at m o = Some t -> body m (slice_of_slot o t) = slot_bytes t.
Proof.
  intros H. unfold body. rewrite ssize_slot. rewrite sdata_slot by reflexivity. cbn [slice_of_slot off rd]. rewrite H. reflexivity.
Qed.

Lemma slice_ok_slot m o t : slot_at m o = Some t -> st_start t + st_size t <= length (st_data t) -> slice_ok m (slice_of_slot o t).
Proof.
  intros H Hb. unfold slice_ok. rewrite sdata_slot by reflexivity. cbn [slice_of_slot off rd wr]. rewrite H. lia.
Qed.

Lemma append_slice_fields l s : shmf s = true ->
  slices (append_slice l s) = slices l ++ [s] /\ pinned (append_slice l s) = pinned l /\ curp (append_slice l s) = curp l
  /\ recycled (append_slice l s) = recycled l /\ leases (append_slice l s) = leases l.
Proof. intros E. unfold append_slice. rewrite E. repeat split. Qed.

Lemma last_in {A} (l : list A) d : l <> [] -> In (last l d) l.
Proof.
  induction l as [|x l IH]; [congruence|]. intros _. destruct l as [|y l]; [left; reflexivity|].
  right. apply IH. discriminate.
Qed.

Lemma chain_spec : forall ids o bytes m l fuel,
  store_ok m -> WF m l -> chain_ok m o ids bytes -> NoDup ids ->
  (forall x, In x ids -> ~ In x (frees m) /\ ~ In x (offs (slices l))) ->
  (forall x, In x (offs (slices l)) -> ~ In x (frees m)) ->
  Forall (fun s => shmf s = true) (slices l) -> length ids < fuel ->
  exists m' l', chain fuel m l o = Ok (m', l') /\ moved m l ids bytes m' l'.
Proof.
  induction ids as [|o0 ids IH]; intros o bytes m l fuel Hok Hwf Hch Hnd Hdis Hlf Hshm Hfuel.
  { inversion Hch. }
  destruct (chain_ok_head _ _ _ _ Hch) as [rr0 Hr0]. injection Hr0 as Ho0 _. subst o0. clear rr0.
  destruct fuel as [|fuel]; [cbn in Hfuel; lia|]. cbn [chain].
  inversion Hnd as [|? ? Hnotin Hnd']; subst.
  assert (Hcommon : forall t, slot_at m o = Some t -> st_start t + st_size t <= length (st_data t) ->
            0 < st_size t ->
            let s := slice_of_slot o t in let l1 := append_slice l s in
            WF m l1 /\ content m l1 = content m l ++ slot_bytes t /\ slices l1 = slices l ++ [s]
            /\ offs (slices l1) = offs (slices l) ++ [o]).
  { intros t Ht Hb Hsz s l1.
    assert (Hss : 0 < ssize s) by (unfold s; rewrite ssize_slot; exact Hsz).
    destruct (append_slice_ok m l s Hwf (slice_ok_slot m o t Ht Hb) Hss) as [G1 G2].
    destruct (append_slice_fields l s eq_refl) as [F1 _].
    split; [exact G1|]. split; [unfold l1; rewrite G2; unfold s; rewrite (body_slot m o t Ht); reflexivity|]. split; [exact F1|].
    unfold l1. rewrite F1, offs_app. reflexivity. }
  inversion Hch as [o' t Ht Hn Hsz Hb Hst0|o' t ids' bytes' Ht Hn Hb Hrest Hst0]; subst.
  - (* last slice of the chain: non-empty, no next *)
    unfold slot_at in Ht. rewrite Ht. fold (slot_at m o) in Ht. rewrite ssize_slot.
    destruct (Nat.eqb_spec (st_size t) 0) as [|_]; [lia|]. rewrite Hn.
    destruct (Hcommon t Ht Hb Hsz) as [G1 [G2 [G3 G4]]].
    destruct (append_slice_fields l (slice_of_slot o t) eq_refl) as [_ [F2 [F3 [F4 F5]]]].
    eexists. eexists. split; [reflexivity|]. constructor; auto.
    + intros x. rewrite G4, cnt_app, !cnt_cons, !cnt_nil. lia.
    + intros Hs. rewrite G3. apply Forall_app. split; [exact Hs|constructor; [reflexivity|constructor]].
    + apply same_data_refl.
    + apply cap_stable_refl.
    + intros Hs. rewrite G3. apply Forall_app. split; [exact Hs|]. constructor; [|constructor]. intros _. exists t. split; [exact Ht|reflexivity].
    + eexists. exact G3.
    + intros Hs. unfold start0. rewrite G3. apply Forall_app. split; [exact Hs|constructor; [exact Hst0|constructor]].
    + intros _. apply rwp_append.
  - unfold slot_at in Ht. rewrite Ht. fold (slot_at m o) in Ht. rewrite ssize_slot.
    set (s := slice_of_slot o t).
    destruct (Hdis o (or_introl eq_refl)) as [Hofree Holist].
    destruct (Nat.eqb_spec (st_size t) 0) as [Hz|Hnz].
    + (* an empty slice: unlink and recycle it *)
      assert (Hbytes : slot_bytes t = []) by (unfold slot_bytes; rewrite Hz; reflexivity). rewrite Hbytes. cbn [app].
      destruct (slices l) as [|x0 r0] eqn:Esl.
      * (* nothing before it *)
        pose proof (recycle_spec m s Hok eq_refl Hofree (ex_intro _ t (conj Ht eq_refl))) as [R1 R2 R3 R4 R5].
        assert (Hch1 : chain_ok (recycle m s) (st_next t) ids bytes').
        { apply (chain_ok_frame m); [|exact Hrest]. intros x Hx. apply R3. intros ->. contradiction. }
        destruct (IH (st_next t) bytes' (recycle m s) l fuel R5 (WF_same _ _ _ (same_data_recycle m s) Hwf) Hch1 Hnd') as [m' [l' [Hrun M]]].
        -- intros x Hx. destruct (Hdis x (or_intror Hx)) as [D1 D2]. split; [|rewrite Esl; exact D2].
           apply cnt_notin. rewrite R1. apply cnt_notin in D1. assert (o <> x) by (intros ->; contradiction). cbn [s slice_of_slot off]. rewrite ind_diff by exact H. lia.
        -- rewrite Esl. cbn. tauto.
        -- rewrite Esl. constructor.
        -- cbn [length] in Hfuel. lia.
        -- exists m', l'. split; [exact Hrun|]. destruct M as [M1 M2 M3 M4 Mm M5 M6 M7 M8 Mc Ms M9 M10 M11 M12 M13 Mst Mrw].
           constructor; auto.
           ++ rewrite M2. rewrite (content_same _ _ _ (same_data_recycle m s)). reflexivity.
           ++ intros x. rewrite M3, R1, cnt_cons. cbn [s slice_of_slot off]. lia.
           ++ intros x Hx Hx2. rewrite M4; [apply R3; intros ->; apply Hx; left; reflexivity|intros H; apply Hx; right; exact H|exact Hx2].
           ++ intros x. specialize (Mm x). rewrite R1 in Mm. lia.
           ++ congruence.
           ++ eapply same_data_trans; [apply same_data_recycle|exact M8].
           ++ eapply cap_stable_trans; [apply cap_stable_recycle|exact Mc].
           ++ intros Hs. apply Ms. eapply Forall_impl; [|exact Hs]. intros a Ha. apply (recyclable_stable m); [apply cap_stable_recycle|exact Ha].
      * (* behind unread data: fix the previous slice's link *)
        rewrite <- Esl in *. set (pre := last (slices l) s).
        assert (Hprein : In pre (slices l)) by (apply last_in; rewrite Esl; discriminate).
        assert (Hpreshm : shmf pre = true) by (rewrite Forall_forall in Hshm; apply Hshm; exact Hprein).
        rewrite Hpreshm. cbn [negb]. rewrite Hn.
        assert (Hpreoff : In (off pre) (offs (slices l))) by (apply in_offs; exists pre; auto).
        assert (Hpreo : off pre <> o) by (intros E; apply Holist; rewrite <- E; exact Hpreoff).
        set (m0 := upd_slot m (off pre) (hdr_link (st_next t))).
        assert (Hok0 : store_ok m0) by (apply store_ok_upd; [exact Hok|intros t0; split; reflexivity|apply Hlf; exact Hpreoff]).
        assert (Hsd0 : same_data m m0) by (apply same_data_upd_hdr; reflexivity).
        assert (Ht0 : slot_at m0 o = Some t) by (unfold m0; rewrite slot_at_upd_other by congruence; exact Ht).
        assert (Hofree0 : ~ In (off s) (frees m0)) by exact Hofree.
        pose proof (recycle_spec m0 s Hok0 eq_refl Hofree0 (ex_intro _ t (conj Ht0 eq_refl))) as [R1 R2 R3 R4 R5].
        assert (Hsd1 : same_data m (recycle m0 s)) by (eapply same_data_trans; [exact Hsd0|apply same_data_recycle]).
        assert (Hch1 : chain_ok (recycle m0 s) (st_next t) ids bytes').
        { apply (chain_ok_frame m); [|exact Hrest]. intros x Hx. destruct (Hdis x (or_intror Hx)) as [_ D2].
          rewrite R3 by (intros ->; contradiction). unfold m0. apply slot_at_upd_other. intros ->. contradiction. }
        destruct (IH (st_next t) bytes' (recycle m0 s) l fuel R5 (WF_same _ _ _ Hsd1 Hwf) Hch1 Hnd') as [m' [l' [Hrun M]]].
        -- intros x Hx. destruct (Hdis x (or_intror Hx)) as [D1 D2]. split; [|exact D2].
           apply cnt_notin. rewrite R1. apply cnt_notin in D1. assert (o <> x) by (intros ->; contradiction).
           cbn [s slice_of_slot off]. rewrite ind_diff by exact H. change (frees m0) with (frees m). lia.
        -- intros x Hx. apply cnt_notin. rewrite R1. pose proof (Hlf x Hx) as D. apply cnt_notin in D.
           assert (o <> x) by (intros ->; contradiction). cbn [s slice_of_slot off]. rewrite ind_diff by exact H. change (frees m0) with (frees m). lia.
        -- exact Hshm.
        -- cbn [length] in Hfuel. lia.
        -- exists m', l'. split; [exact Hrun|]. destruct M as [M1 M2 M3 M4 Mm M5 M6 M7 M8 Mc Ms M9 M10 M11 M12 M13 Mst Mrw].
           constructor; auto.
           ++ rewrite M2. rewrite (content_same _ _ _ Hsd1). reflexivity.
           ++ intros x. rewrite M3, R1, cnt_cons. cbn [s slice_of_slot off]. change (frees m0) with (frees m). lia.
           ++ intros x Hx Hx2. rewrite M4; [|intros H; apply Hx; right; exact H|exact Hx2].
              rewrite R3 by (intros ->; apply Hx; left; reflexivity). unfold m0. apply slot_at_upd_other. intros ->. contradiction.
           ++ intros x. specialize (Mm x). pose proof (R1 x) as Rx. change (frees m0) with (frees m) in Rx. lia.
           ++ rewrite M7, R4. reflexivity.
           ++ eapply same_data_trans; [exact Hsd1|exact M8].
           ++ eapply cap_stable_trans; [|exact Mc]. eapply cap_stable_trans; [|apply cap_stable_recycle]; apply (cap_stable_upd m (off pre) (hdr_link (st_next t))); reflexivity.
           ++ intros Hs. apply Ms. eapply Forall_impl; [|exact Hs]. intros a Ha. apply (recyclable_stable m); [|exact Ha].
              eapply cap_stable_trans; [|apply cap_stable_recycle]; apply (cap_stable_upd m (off pre) (hdr_link (st_next t))); reflexivity.
    + (* a non-empty slice with a successor: append it and go on *)
      rewrite Hn. destruct (Hcommon t Ht Hb ltac:(lia)) as [G1 [G2 [G3 G4]]]. fold s in G1, G2, G3, G4.
      destruct (append_slice_fields l s eq_refl) as [_ [F2 [F3 [F4 F5]]]].
      destruct (IH (st_next t) bytes' m (append_slice l s) fuel Hok G1 Hrest Hnd') as [m' [l' [Hrun M]]].
      * intros x Hx. destruct (Hdis x (or_intror Hx)) as [D1 D2]. split; [exact D1|]. rewrite G4. intros Hin.
        apply in_app_or in Hin. destruct Hin as [Hin|[<-|[]]]; [contradiction|contradiction].
      * intros x Hx. rewrite G4 in Hx. apply in_app_or in Hx. destruct Hx as [Hx|[<-|[]]]; [apply Hlf; exact Hx|exact Hofree].
      * rewrite G3. apply Forall_app. split; [exact Hshm|constructor; [reflexivity|constructor]].
      * cbn [length] in Hfuel. lia.
      * exists m', l'. split; [exact Hrun|]. destruct M as [M1 M2 M3 M4 Mm M5 M6 M7 M8 Mc Ms M9 M10 M11 M12 M13 Mst Mrw].
        constructor; auto; try congruence.
        -- rewrite M2, G2, <- app_assoc. reflexivity.
        -- intros x. rewrite M3, G4, cnt_app, !cnt_cons, !cnt_nil. lia.
        -- intros x Hx Hx2. apply M4; [intros H; apply Hx; right; exact H|].
           rewrite G4. intros Hin. apply in_app_or in Hin. destruct Hin as [Hin|[<-|[]]]; [contradiction|apply Hx; left; reflexivity].
        -- intros Hs. apply M5. rewrite G3. apply Forall_app. split; [exact Hs|constructor; [reflexivity|constructor]].
        -- intros Hs. apply Ms. rewrite G3. apply Forall_app. split; [exact Hs|]. constructor; [|constructor]. intros _. exists t. split; [exact Ht|reflexivity].
        -- destruct M9 as [app Happ]. exists ([s] ++ app). rewrite Happ, G3, <- app_assoc. reflexivity.
        -- intros Hs. apply Mst. unfold start0. rewrite G3. apply Forall_app. split; [exact Hs|constructor; [exact Hst0|constructor]].
        -- intros _. apply Mrw. apply rwp_append.
Qed.

(* ---------------------------------------------------------------------------------------- *)
(* moveTo over the whole pending list                                                        *)
(* ---------------------------------------------------------------------------------------- *)
(* chains first, fallback slices afterwards (a stream that fell back never returns to shm) *)
Inductive pend_ok (m : shm) : list pitem -> list (list nat) -> list byte -> Prop :=
| po_nil : pend_ok m [] [] []
| po_root o ids bytes ps idss bs : chain_ok m o ids bytes -> pend_ok m ps idss bs ->
    pend_ok m (PRoot o :: ps) (ids :: idss) (bytes ++ bs)
| po_fb d ps bs : d <> [] -> pend_ok m ps [] bs -> pend_ok m (PFallback (fallback_slice d) :: ps) [] (d ++ bs).

Lemma pend_ok_frame m m' ps idss bs : (forall x, In x (concat idss) -> slot_at m' x = slot_at m x) ->
  pend_ok m ps idss bs -> pend_ok m' ps idss bs.
Proof.
  intros Hf H. induction H as [|o ids bytes ps idss bs Hc Hp IH|d ps bs Hd Hp IH].
  - constructor.
  - constructor.
    + apply (chain_ok_frame m); [|exact Hc]. intros x Hx. apply Hf. cbn [concat]. apply in_or_app. left. exact Hx.
    + apply IH. intros x Hx. apply Hf. cbn [concat]. apply in_or_app. right. exact Hx.
  - constructor; [exact Hd|]. apply IH. exact Hf.
Qed.

Lemma chain_ids_slots m o ids bytes : chain_ok m o ids bytes -> forall x, In x ids -> x < length (slots m).
Proof.
  intros H. induction H as [o t H1 _ _ _|o t ids bytes H1 _ _ _ IH]; intros x Hx.
  - destruct Hx as [<-|[]]. apply nth_error_Some. unfold slot_at in H1. congruence.
  - destruct Hx as [<-|Hx]; [apply nth_error_Some; unfold slot_at in H1; congruence|apply IH; exact Hx].
Qed.

Lemma chain_ids_bound m o ids bytes : chain_ok m o ids bytes -> NoDup ids -> length ids <= length (slots m).
Proof.
  intros H Hnd. rewrite <- (seq_length (length (slots m)) 0). apply NoDup_incl_length; [exact Hnd|].
  intros x Hx. apply in_seq. pose proof (chain_ids_slots m o ids bytes H x Hx). lia.
Qed.

Record movedL (m : shm) (l : lbuf) (ids : list nat) (bytes : list byte) (m' : shm) (l' : lbuf) : Prop := {
  ml_wf : WF m' l';
  ml_content : content m' l' = content m l ++ bytes;
  ml_cnt : forall x, cnt (frees m') x + cnt (offs (slices l')) x = cnt (frees m) x + cnt (offs (slices l)) x + cnt ids x;
  ml_frame : forall x, ~ In x ids -> ~ In x (offs (slices l)) -> slot_at m' x = slot_at m x;
  ml_mono : forall x, cnt (frees m) x <= cnt (frees m') x;
  ml_ok : store_ok m';
  ml_cls : cls m' = cls m;
  ml_data : same_data m m';
  ml_caps : cap_stable m m';
  ml_slots : Forall (recyclable m) (slices l) -> Forall (recyclable m') (slices l');
  ml_prefix : exists app, slices l' = slices l ++ app;
  ml_pin : pinned l' = pinned l; ml_curp : curp l' = curp l; ml_rec : recycled l' = recycled l;
  ml_leases : leases l' = leases l;
  ml_start : start0 (slices l) -> start0 (slices l');
  ml_rwp : rwp l -> rwp l' }.

Lemma movedL_refl m l : store_ok m -> WF m l -> movedL m l [] [] m l.
Proof.
  intros H1 H2. constructor; auto.
  - rewrite app_nil_r. reflexivity.
  - apply same_data_refl.
  - apply cap_stable_refl.
  - exists []. rewrite app_nil_r. reflexivity.
Qed.

Lemma move_to_spec : forall ps idss bs m l,
  store_ok m -> WF m l -> pend_ok m ps idss bs ->
  (forall x, cnt (frees m) x + cnt (offs (slices l)) x + cnt (concat idss) x <= 1) ->
  (idss <> [] -> Forall (fun s => shmf s = true) (slices l)) ->
  exists m' l', move_to m l ps = Ok (m', l') /\ movedL m l (concat idss) bs m' l'
                /\ ((forall d, ~ In (PFallback d) ps) -> Forall (fun s => shmf s = true) (slices l) ->
                    Forall (fun s => shmf s = true) (slices l')).
Proof.
  induction ps as [|p ps IH]; intros idss bs m l Hok Hwf Hp Hown Hshm.
  - inversion Hp; subst. exists m, l. split; [reflexivity|]. split; [apply movedL_refl; assumption|auto].
  - inversion Hp as [|o ids bytes ps' idss' bs' Hc Hp'|d ps' bs' Hd Hp']; subst.
    + (* a chain *)
      cbn [move_to]. cbn [concat] in Hown.
      assert (Hc1 : forall x, cnt (frees m) x + cnt (offs (slices l)) x + cnt ids x + cnt (concat idss') x <= 1).
      { intros x. specialize (Hown x). rewrite cnt_app in Hown. lia. }
      assert (Hnd1 : NoDup ids) by (apply NoDup_cnt; intros x; specialize (Hc1 x); lia).
      destruct (chain_spec ids o bytes m l (S (length (slots m))) Hok Hwf Hc Hnd1) as [m1 [l1 [Hrun M]]].
      * intros x Hx. apply cnt_In in Hx. specialize (Hc1 x). split; apply cnt_notin; lia.
      * intros x Hx. apply cnt_In in Hx. specialize (Hc1 x). apply cnt_notin. lia.
      * apply Hshm. discriminate.
      * pose proof (chain_ids_bound m o ids bytes Hc Hnd1). lia.
      * rewrite Hrun. cbn [bind]. destruct M as [M1 M2 M3 M4 Mm M5 M6 M7 M8 Mc Ms M9 M10 M11 M12 M13 Mst Mrw].
        assert (Hp1 : pend_ok m1 ps idss' bs').
        { apply (pend_ok_frame m); [|exact Hp']. intros x Hx. apply cnt_In in Hx. specialize (Hc1 x).
          apply M4; apply cnt_notin; lia. }
        destruct (IH idss' bs' m1 l1 M6 M1 Hp1) as [m2 [l2 [Hrun2 [N Nshm]]]].
        -- intros x. specialize (M3 x). specialize (Hc1 x). lia.
        -- intros _. apply M5. apply Hshm. discriminate.
        -- exists m2, l2. split; [exact Hrun2|]. destruct N as [N1 N2 N3 N4 Nm N6 N7 N8 Nc Ns N9 N10 N11 N12 N13 Nst Nrw]. split.
           ++ constructor.
              ** exact N1.
              ** rewrite N2, M2, <- app_assoc. reflexivity.
              ** intros x. rewrite N3, M3. cbn [concat]. rewrite cnt_app. lia.
              ** intros x Hx Hx2. cbn [concat] in Hx. rewrite N4.
                 --- apply M4; [intros H; apply Hx; apply in_or_app; left; exact H|exact Hx2].
                 --- intros H. apply Hx. apply in_or_app. right. exact H.
                 --- intros H. apply cnt_In in H. specialize (M3 x). specialize (Mm x).
                     assert (Hn1 : cnt ids x = 0) by (apply cnt_notin; intros H'; apply Hx; apply in_or_app; left; exact H').
                     assert (Hn2 : cnt (offs (slices l)) x = 0) by (apply cnt_notin; exact Hx2). lia.
              ** intros x. specialize (Mm x). specialize (Nm x). lia.
              ** exact N6.
              ** congruence.
              ** eapply same_data_trans; eassumption.
              ** eapply cap_stable_trans; eassumption.
              ** intros Hs. apply Ns, Ms, Hs.
              ** destruct M9 as [a1 E1]. destruct N9 as [a2 E2]. exists (a1 ++ a2). rewrite E2, E1, <- app_assoc. reflexivity.
              ** congruence.
              ** congruence.
              ** congruence.
              ** congruence.
              ** intros Hs. apply Nst, Mst, Hs.
              ** intros Hs. apply Nrw, Mrw, Hs.
           ++ intros Hnofb Hs. apply Nshm; [intros d Hin; apply (Hnofb d); right; exact Hin|apply M5; exact Hs].
    + (* a fallback slice *)
      cbn [move_to]. cbn [concat] in *.
      destruct (fallback_delivery m l d Hwf Hd) as [G1 G2].
      set (l1 := append_slice l (fallback_slice d)) in *.
      assert (Hsl1 : slices l1 = slices l ++ [fallback_slice d]) by (unfold l1, append_slice; reflexivity).
      assert (Hoffs1 : offs (slices l1) = offs (slices l)).
      { rewrite Hsl1, offs_app. change (offs [fallback_slice d]) with (@nil nat). apply app_nil_r. }
      destruct (IH [] bs' m l1 Hok G1 Hp') as [m2 [l2 [Hrun2 [N Nshm]]]].
      * intros x. rewrite Hoffs1. apply Hown.
      * congruence.
      * exists m2, l2. split; [exact Hrun2|]. destruct N as [N1 N2 N3 N4 Nm N6 N7 N8 Nc Ns N9 N10 N11 N12 N13 Nst Nrw]. split.
        -- constructor.
           ++ exact N1.
           ++ rewrite N2, G2, <- app_assoc. reflexivity.
           ++ intros x. rewrite N3, Hoffs1. reflexivity.
           ++ intros x Hx Hx2. apply N4; [exact Hx|rewrite Hoffs1; exact Hx2].
           ++ exact Nm.
           ++ exact N6.
           ++ exact N7.
           ++ exact N8.
           ++ exact Nc.
           ++ intros Hs. apply Ns. rewrite Hsl1. apply Forall_app. split; [exact Hs|]. constructor; [|constructor]. intros E. discriminate.
           ++ destruct N9 as [a2 E2]. exists ([fallback_slice d] ++ a2). rewrite E2, Hsl1, <- app_assoc. reflexivity.
           ++ rewrite N10. unfold l1, append_slice. reflexivity.
           ++ rewrite N11. unfold l1, append_slice. reflexivity.
           ++ rewrite N12. unfold l1, append_slice. reflexivity.
           ++ rewrite N13. unfold l1, append_slice. reflexivity.
           ++ intros Hs. apply Nst. unfold start0. rewrite Hsl1. apply Forall_app. split; [exact Hs|constructor; [reflexivity|constructor]].
           ++ intros _. apply Nrw. apply rwp_append.
        -- intros Hnofb. exfalso. apply (Hnofb (fallback_slice d)). left. reflexivity.
Qed.
