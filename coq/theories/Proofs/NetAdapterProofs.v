(* Proofs about Model/NetAdapter.v: reference-count invariant, exactly-once delivery invariant,
   "sessions end at rest after listener Close" (proved in full for the repaired adapter), the io.Reader/io.Writer
   contract of linkedBuffer.read / copyWriteAndFlush as a refinement to a byte queue. *)
From Coq Require Import List ZArith Lia Bool Arith Permutation.
From Shm Require Import Model.NetAdapter.
Import ListNotations.
Open Scope Z_scope.

(* ---------------------------------------------------------------------------------------- *)
(* count                                                                                      *)
(* ---------------------------------------------------------------------------------------- *)
Lemma count_ext : forall n f g, (forall w, (w < n)%nat -> f w = g w) -> count f n = count g n.
Proof.
  induction n as [|n IH]; intros f g H; cbn [count]; [reflexivity|].
  rewrite (H n) by lia. rewrite (IH f g); [reflexivity|]. intros; apply H; lia.
Qed.

Lemma count_false : forall n f, (forall w, (w < n)%nat -> f w = false) -> count f n = O.
Proof.
  induction n as [|n IH]; intros f H; cbn [count]; [reflexivity|].
  rewrite (H n) by lia. rewrite IH; [reflexivity|]. intros; apply H; lia.
Qed.

Lemma count_flip : forall n f g w, (w < n)%nat -> f w = true -> g w = false ->
  (forall k, k <> w -> g k = f k) -> S (count g n) = count f n.
Proof.
  induction n as [|n IH]; intros f g w Hw Hf Hg Ho; [lia|].
  cbn [count]. destruct (Nat.eq_dec w n) as [->|Hne].
  - rewrite Hf, Hg. rewrite (count_ext n g f); [lia|]. intros k Hk. apply Ho. lia.
  - rewrite (Ho n) by lia. rewrite <- (IH f g w); try assumption; lia.
Qed.

Lemma count_zero_all : forall n f, count f n = O -> forall w, (w < n)%nat -> f w = false.
Proof.
  induction n as [|n IH]; intros f H w Hw; [lia|].
  cbn [count] in H. destruct (f n) eqn:E; [lia|].
  destruct (Nat.eq_dec w n) as [->|Hne]; [assumption|]. apply IH; [lia|lia].
Qed.

(* ---------------------------------------------------------------------------------------- *)
(* the reference-count invariant                                                              *)
(* ---------------------------------------------------------------------------------------- *)
Definition past_cas (c : close_pc) : bool := match c with CSig | CDrain | CRel => true | _ => false end.

Record RInv (st : state) : Prop := {
  r_panic : panic st = false;
  r_refs : forall s, (s < nsess st)%nat ->
           refs (sess_of st s) = b2z (in_map (sess_of st s)) + Z.of_nat (open_w st s);
  r_wsess : forall w, (w < nwr st)%nat -> (w_sess (wr st w) < nsess st)%nat;
  r_zero : forall s, (s < nsess st)%nat -> registered (sess_of st s) = true ->
           refs (sess_of st s) = 0 -> wg_zero (sess_of st s) = true;
  r_zc : forall s, (s < nsess st)%nat -> wg_zero (sess_of st s) = true -> sclosed (sess_of st s) = true;
  r_unreg : forall s, (s < nsess st)%nat -> registered (sess_of st s) = false ->
            sclosed (sess_of st s) = true /\ in_map (sess_of st s) = false /\
            loop (sess_of st s) = LExited /\ refs (sess_of st s) = 0;
  r_rel : lreleased st = true -> lmark st = true /\ forall s, (s < nsess st)%nat -> in_map (sess_of st s) = false;
  r_deliv : forall w, In w (delivered st) -> (w < nwr st)%nat;
  r_bl : forall w, In w (backlog st) -> (w < nwr st)%nat;
  r_cl : forall w, In w (closing st) -> (w < nwr st)%nat;
  r_sel : forall s w, (s < nsess st)%nat -> loop (sess_of st s) = LSelecting w -> (w < nwr st)%nat;
  r_clmark : forall k, past_cas (cl_of st k) = true -> lmark st = true }.

Lemma rinv_init : forall c, RInv (init c).
Proof.
  intro c. constructor; cbn; try (intros; lia); try reflexivity; try (intros; contradiction); try discriminate.
Qed.

Lemma mem_In : forall w l, mem w l = true -> In w l.
Proof.
  intros w l H. unfold mem in H. apply existsb_exists in H. destruct H as [x [Hin Hx]].
  apply Nat.eqb_eq in Hx. subst. assumption.
Qed.

Lemma In_mem : forall w l, In w l -> mem w l = true.
Proof.
  intros w l H. unfold mem. apply existsb_exists. exists w. split; [assumption|apply Nat.eqb_refl].
Qed.

Lemma refs_nonneg : forall st s, RInv st -> (s < nsess st)%nat -> 0 <= refs (sess_of st s).
Proof. intros st s HI Hs. rewrite (r_refs st HI s Hs). unfold b2z. destruct (in_map _); lia. Qed.

Ltac bool_hyps :=
  repeat match goal with
         | H : _ && _ = true |- _ => apply andb_prop in H; destruct H
         | H : (_ <? _)%nat = true |- _ => apply Nat.ltb_lt in H
         | H : negb _ = true |- _ => apply negb_true_iff in H
         end.

Local Arguments open_w : simpl never.

Lemma updf_same : forall A (f : nat -> A) k v, updf f k v k = v.
Proof. intros. unfold updf. rewrite Nat.eqb_refl. reflexivity. Qed.
Lemma updf_other : forall A (f : nat -> A) k v i, i <> k -> updf f k v i = f i.
Proof. intros. unfold updf. destruct (Nat.eqb_spec i k); [contradiction|reflexivity]. Qed.

Ltac updf_cases :=
  unfold updf;
  match goal with |- context [Nat.eqb ?a ?b] => destruct (Nat.eqb_spec a b) as [?|?]; subst; cbn end.

Lemma open_w_ext : forall st st' s, nwr st' = nwr st -> (forall w, wr st' w = wr st w) -> open_w st' s = open_w st s.
Proof.
  intros st st' s Hn Hw. unfold open_w. rewrite Hn. apply count_ext. intros w _. rewrite Hw. reflexivity.
Qed.

(* steps that leave counters, map membership, wrappers and flags alone *)
Lemma rinv_frame : forall st st',
  RInv st ->
  nsess st' = nsess st -> nwr st' = nwr st -> (forall w, wr st' w = wr st w) ->
  panic st' = panic st -> (lmark st = true -> lmark st' = true) -> lreleased st' = lreleased st ->
  (forall s, (s < nsess st)%nat ->
     refs (sess_of st' s) = refs (sess_of st s) /\ in_map (sess_of st' s) = in_map (sess_of st s) /\
     registered (sess_of st' s) = registered (sess_of st s) /\ wg_zero (sess_of st' s) = wg_zero (sess_of st s) /\
     (sclosed (sess_of st s) = true -> sclosed (sess_of st' s) = true) /\
     (registered (sess_of st s) = false -> loop (sess_of st' s) = LExited)) ->
  (forall w, In w (delivered st') -> (w < nwr st)%nat) ->
  (forall w, In w (backlog st') -> (w < nwr st)%nat) ->
  (forall w, In w (closing st') -> (w < nwr st)%nat) ->
  (forall s w, (s < nsess st)%nat -> loop (sess_of st' s) = LSelecting w -> (w < nwr st)%nat) ->
  (forall k, past_cas (cl_of st' k) = true -> lmark st' = true) ->
  RInv st'.
Proof.
  intros st st' HI Hns Hnw Hwr Hp Hlm Hlr Hs Hd Hb Hc Hsel Hcl.
  constructor.
  - rewrite Hp. exact (r_panic st HI).
  - intros s Hlt. rewrite Hns in Hlt. destruct (Hs s Hlt) as [A [B _]]. rewrite A, B.
    rewrite (open_w_ext st st' s Hnw Hwr). apply (r_refs st HI); assumption.
  - intros w Hw. rewrite Hnw in Hw. rewrite Hwr, Hns. apply (r_wsess st HI); assumption.
  - intros s Hlt. rewrite Hns in Hlt. destruct (Hs s Hlt) as [A [_ [C [D _]]]]. rewrite A, C, D. apply (r_zero st HI); assumption.
  - intros s Hlt. rewrite Hns in Hlt. destruct (Hs s Hlt) as [_ [_ [_ [D [E _]]]]]. rewrite D. intro Hz. apply E. apply (r_zc st HI); assumption.
  - intros s Hlt. rewrite Hns in Hlt. destruct (Hs s Hlt) as [A [B [C [_ [E F]]]]]. rewrite A, B, C. intro Hr.
    destruct (r_unreg st HI s Hlt Hr) as [U1 [U2 [U3 U4]]]. repeat split; auto.
  - rewrite Hlr. intro Hr. destruct (r_rel st HI Hr) as [Hm Hall]. split; [auto|].
    intros s Hlt. rewrite Hns in Hlt. destruct (Hs s Hlt) as [_ [B _]]. rewrite B. apply Hall; assumption.
  - intros w Hw. rewrite Hnw. auto.
  - intros w Hw. rewrite Hnw. auto.
  - intros w Hw. rewrite Hnw. auto.
  - intros s w Hlt. rewrite Hns in Hlt. rewrite Hnw. apply Hsel; assumption.
  - exact Hcl.
Qed.

(* conn.Close() on a conn that somebody holds (w < nwr) *)
Lemma rinv_close_wrapper : forall st w, RInv st -> (w < nwr st)%nat -> RInv (close_wrapper st w).
Proof.
  intros st w HI Hw. unfold close_wrapper. destruct (w_closed (wr st w)) eqn:EC; [exact HI|].
  pose proof (r_panic st HI) as Hp.
  pose proof (r_wsess st HI w Hw) as Hs.
  remember (w_sess (wr st w)) as s eqn:Es.
  assert (Hflip : S (count (fun k => Nat.eqb (w_sess (updf (wr st) w {| w_sess := s; w_ord := w_ord (wr st w); w_closed := true |} k)) s
                                 && negb (w_closed (updf (wr st) w {| w_sess := s; w_ord := w_ord (wr st w); w_closed := true |} k))) (nwr st))
                  = open_w st s).
  { unfold open_w. apply (count_flip (nwr st) _ _ w Hw).
    - rewrite <- Es. rewrite Nat.eqb_refl, EC. reflexivity.
    - unfold updf. rewrite Nat.eqb_refl. cbn. apply andb_false_r.
    - intros k Hk. unfold updf. destruct (Nat.eqb_spec k w); [congruence|reflexivity]. }
  assert (Hge : 1 <= refs (sess_of st s)).
  { rewrite (r_refs st HI s Hs). rewrite <- Hflip. unfold b2z. destruct (in_map _); lia. }
  constructor; cbn [nsess sess_of nwr wr panic lreleased lmark delivered backlog closing cl_of lmark]; try (exact (r_clmark st HI));
    try (exact (r_deliv st HI)); try (exact (r_bl st HI)); try (exact (r_cl st HI)).
  + rewrite Hp. unfold done_panics. cbn. apply Z.ltb_ge. lia.
  + intros s0 Hs0. unfold open_w; cbn [nwr wr].
    destruct (Nat.eq_dec s0 s) as [->|Hne].
    * rewrite updf_same. cbn [done1 refs in_map]. rewrite (r_refs st HI _ Hs0). rewrite <- Hflip. lia.
    * rewrite updf_other by assumption. rewrite (r_refs st HI _ Hs0). f_equal. f_equal. unfold open_w. apply count_ext. intros k Hk.
      unfold updf. destruct (Nat.eqb_spec k w); [|reflexivity]. subst k. cbn.
      rewrite <- Es. destruct (Nat.eqb_spec s s0); [congruence|]. reflexivity.
  + intros k Hk. unfold updf. destruct (Nat.eqb_spec k w); cbn; [assumption|]. apply (r_wsess st HI); assumption.
  + intros s0 Hs0. updf_cases.
    * intros _ Hz. rewrite Hz. cbn. apply orb_true_r.
    * apply (r_zero st HI); assumption.
  + intros s0 Hs0. updf_cases.
    * intro Hz. apply orb_prop in Hz. destruct Hz as [Hz|Hz].
      -- rewrite (r_zc st HI _ Hs0 Hz). reflexivity.
      -- rewrite Hz. apply orb_true_r.
    * apply (r_zc st HI); assumption.
  + intros s0 Hs0. updf_cases.
    * intro Hr. destruct (r_unreg st HI _ Hs0 Hr) as [_ [_ [_ Hz]]]. lia.
    * apply (r_unreg st HI); assumption.
  + intro Hr. destruct (r_rel st HI Hr) as [Hm Hall]. split; [assumption|].
    intros s0 Hs0. updf_cases; apply Hall; assumption.
  + intros s0 k Hs0. updf_cases; apply (r_sel st HI); assumption.
Qed.

Lemma in_remove_w : forall w x l, In x (remove_w w l) -> In x l /\ x <> w.
Proof.
  intros w x l H. unfold remove_w in H. apply filter_In in H. destruct H as [H1 H2].
  split; [assumption|]. apply negb_true_iff in H2. apply Nat.eqb_neq in H2. assumption.
Qed.

Ltac frame_sess st HI s0 :=
  let s := fresh "s" in let Hs := fresh "Hs" in
  intros s Hs; unfold updf; destruct (Nat.eqb_spec s s0) as [->|?]; cbn;
  [ repeat split; auto;
    let Hr := fresh "Hr" in intro Hr;
    let U := fresh "U" in destruct (r_unreg st HI _ Hs Hr) as [_ [_ [U _]]]; try congruence
  | repeat split; auto; let Hr := fresh "Hr" in intro Hr; apply (r_unreg st HI _ Hs Hr) ].

Ltac clmark st HI :=
  let k0 := fresh "k0" in
  intro k0; unfold set_cl, updf; cbn [cl_of lmark]; unfold updf;
  match goal with |- context [Nat.eqb k0 ?b] => destruct (Nat.eqb_spec k0 b) end;
  cbn; intros; try discriminate; try reflexivity; try assumption;
  try (apply (r_clmark st HI k0); assumption);
  try (subst; match goal with EK : cl_of st ?k = _ |- _ => apply (r_clmark st HI k); rewrite EK; reflexivity end).

Lemma rinv_step : forall st e, RInv st -> RInv (exec st e).
Proof.
  intros st e HI. unfold exec. destruct (enabled st e) eqn:En; [|exact HI].
  pose proof (r_panic st HI) as Hp.
  destruct e; cbn [enabled] in En; bool_hyps.
  - (* SessionUp *)
    assert (Hopen : open_w st (nsess st) = O).
    { unfold open_w. apply count_false. intros w Hw. pose proof (r_wsess st HI w Hw) as Hlt.
      destruct (Nat.eqb_spec (w_sess (wr st w)) (nsess st)); [lia|reflexivity]. }
    constructor; cbn [step nsess sess_of nwr wr panic lreleased lmark delivered backlog closing cl_of lmark]; try exact Hp; try (exact (r_clmark st HI));
      try (exact (r_deliv st HI)); try (exact (r_bl st HI)); try (exact (r_cl st HI)).
    + intros s Hs. change (open_w _ s) with (open_w st s). updf_cases.
      * rewrite Hopen. destruct (lmark st); reflexivity.
      * apply (r_refs st HI); lia.
    + intros w Hw. pose proof (r_wsess st HI w Hw). lia.
    + intros s Hs. updf_cases.
      * destruct (lmark st); cbn; intros; try discriminate; lia.
      * apply (r_zero st HI); lia.
    + intros s Hs. updf_cases.
      * destruct (lmark st); cbn; intros; try discriminate.
      * apply (r_zc st HI); lia.
    + intros s Hs. updf_cases.
      * destruct (lmark st); cbn; intros; try discriminate; repeat split; reflexivity.
      * apply (r_unreg st HI); lia.
    + intro Hr. destruct (r_rel st HI Hr) as [Hm Hall]. split; [assumption|].
      intros s Hs. updf_cases.
      * rewrite Hm. reflexivity.
      * apply Hall; lia.
    + intros s w Hs. updf_cases.
      * destruct (lmark st); cbn; discriminate.
      * apply (r_sel st HI); lia.
  - (* StreamIn *)
    apply (rinv_frame st); auto; try (cbn; apply orb_false_r); cbn [step set_sess set_sessions sess_of delivered backlog closing cl_of lmark]; try (exact (r_clmark st HI));
      try (exact (r_deliv st HI)); try (exact (r_bl st HI)); try (exact (r_cl st HI)).
    + intros s0 Hs0. unfold updf. destruct (Nat.eqb_spec s0 s) as [->|?]; cbn.
      * repeat split; auto. intro Hr. congruence.
      * repeat split; auto. intro Hr. apply (r_unreg st HI _ Hs0 Hr).
    + intros s0 w Hs0. updf_cases; apply (r_sel st HI); assumption.
  - (* Wrap *)
    rename H into Hs. cbn [step]. destruct (in_map (sess_of st s)) eqn:EM; cbn [negb].
    2:{ (* the session was released: no wrapper *)
      destruct (loop (sess_of st s)) eqn:EL; try discriminate.
      apply (rinv_frame st); auto; try (cbn; apply orb_false_r); cbn [set_sess set_sessions sess_of delivered backlog closing cl_of lmark]; try (exact (r_clmark st HI));
        try (exact (r_deliv st HI)); try (exact (r_bl st HI)); try (exact (r_cl st HI)).
      + intros s0 Hs0. unfold updf. destruct (Nat.eqb_spec s0 s) as [->|?]; cbn.
        * repeat split; auto.
        * repeat split; auto. intro Hr. apply (r_unreg st HI _ Hs0 Hr).
      + intros s0 w Hs0. updf_cases; [discriminate|]. apply (r_sel st HI); assumption. }
    constructor; cbn [nsess sess_of nwr wr panic lreleased lmark delivered backlog closing cl_of lmark]; try exact Hp; try (exact (r_clmark st HI)).
    + intros s0 Hs0. unfold open_w; cbn [nwr wr count]. rewrite !updf_same. cbn [w_sess w_closed negb].
      rewrite andb_true_r.
      assert (Hc : count (fun w => Nat.eqb (w_sess (updf (wr st) (nwr st) {| w_sess := s; w_ord := wrapped (sess_of st s); w_closed := false |} w)) s0
                                   && negb (w_closed (updf (wr st) (nwr st) {| w_sess := s; w_ord := wrapped (sess_of st s); w_closed := false |} w))) (nwr st)
                   = open_w st s0).
      { unfold open_w. apply count_ext. intros w Hw. unfold updf. destruct (Nat.eqb_spec w (nwr st)); [lia|reflexivity]. }
      rewrite Hc. unfold updf. destruct (Nat.eqb_spec s0 s) as [->|Hne]; cbn [refs in_map].
      * rewrite Nat.eqb_refl. pose proof (r_refs st HI _ Hs0) as E. rewrite EM in E. rewrite E. unfold b2z. lia.
      * destruct (Nat.eqb_spec s s0); [congruence|]. rewrite (r_refs st HI _ Hs0). lia.
    + intros w Hw. unfold updf. destruct (Nat.eqb_spec w (nwr st)); cbn; [assumption|]. apply (r_wsess st HI); lia.
    + intros s0 Hs0. updf_cases.
      * intros _ Hz. pose proof (refs_nonneg st _ HI Hs0). lia.
      * apply (r_zero st HI); assumption.
    + intros s0 Hs0. updf_cases; apply (r_zc st HI); assumption.
    + intros s0 Hs0. updf_cases; [|apply (r_unreg st HI); assumption].
      intro Hr. destruct (r_unreg st HI _ Hs0 Hr) as [_ [_ [Hl _]]]. rewrite Hl in H1. discriminate.
    + intro Hr. destruct (r_rel st HI Hr) as [Hm Hall]. split; [assumption|].
      intros s0 Hs0. updf_cases; [rewrite (Hall _ Hs0) in EM; discriminate|apply Hall; assumption].
    + intros w Hw. pose proof (r_deliv st HI w Hw). lia.
    + intros w Hw. pose proof (r_bl st HI w Hw). lia.
    + intros w Hw. pose proof (r_cl st HI w Hw). lia.
    + intros s0 w Hs0. updf_cases.
      * intro E; inversion E; lia.
      * intro E. pose proof (r_sel st HI s0 w Hs0 E). lia.
  - (* Enqueue *)
    rename H into Hs. cbn [step]. destruct (loop (sess_of st s)) as [|w0| | |] eqn:EL; try discriminate.
    apply (rinv_frame st); auto; try (cbn; apply orb_false_r); cbn [sess_of delivered backlog closing cl_of lmark]; try (exact (r_clmark st HI));
      try (exact (r_deliv st HI)); try (exact (r_cl st HI)).
    + frame_sess st HI s.
    + intros w Hw. apply in_app_or in Hw. destruct Hw as [Hw|[<-|[]]]; [apply (r_bl st HI); assumption|].
      apply (r_sel st HI s w0 Hs EL).
    + intros s0 w Hs0. updf_cases; [discriminate|]. apply (r_sel st HI); assumption.
  - (* Lose *)
    rename H into Hs. cbn [step]. destruct (loop (sess_of st s)) as [|w0| | |] eqn:EL; try discriminate.
    apply (rinv_frame st); auto; try (cbn; apply orb_false_r); cbn [sess_of delivered backlog closing cl_of lmark]; try (exact (r_clmark st HI));
      try (exact (r_deliv st HI)); try (exact (r_bl st HI)).
    + frame_sess st HI s.
    + intros w Hw. apply in_app_or in Hw. destruct Hw as [Hw|[<-|[]]]; [apply (r_cl st HI); assumption|].
      apply (r_sel st HI s w0 Hs EL).
    + intros s0 w Hs0. updf_cases; [discriminate|]. apply (r_sel st HI); assumption.
  - (* PostCheck *)
    rename H into Hs. destruct (loop (sess_of st s)) eqn:EL; try discriminate.
    apply (rinv_frame st); auto; try (cbn; apply orb_false_r); cbn [step set_sess set_sessions sess_of delivered backlog closing cl_of lmark]; try (exact (r_clmark st HI));
      try (exact (r_deliv st HI)); try (exact (r_bl st HI)); try (exact (r_cl st HI)).
    + frame_sess st HI s.
    + intros s0 w Hs0. updf_cases; [destruct (closeCh st); discriminate|]. apply (r_sel st HI); assumption.
  - (* GDrain *)
    rename H into Hs. destruct (loop (sess_of st s)) eqn:EL; try discriminate.
    cbn [step]. destruct (backlog st) as [|w0 r] eqn:EB.
    + apply (rinv_frame st); auto; try (cbn; apply orb_false_r); cbn [set_sess set_sessions sess_of delivered backlog closing cl_of lmark]; try (exact (r_clmark st HI));
        try (exact (r_deliv st HI)); try (exact (r_cl st HI)); try (rewrite EB; intros w []).
      * frame_sess st HI s.
      * intros s0 w Hs0. updf_cases; [discriminate|]. apply (r_sel st HI); assumption.
    + unfold take_head. rewrite EB.
      apply (rinv_frame st); auto; try (cbn; apply orb_false_r); cbn [sess_of delivered backlog closing cl_of lmark]; try (exact (r_clmark st HI));
        try (exact (r_deliv st HI)); try (exact (r_sel st HI)).
      * intros s0 Hs0. repeat split; auto. intro Hr. apply (r_unreg st HI _ Hs0 Hr).
      * intros w Hw. apply (r_bl st HI). rewrite EB. right; assumption.
      * intros w Hw. apply in_app_or in Hw. destruct Hw as [Hw|[<-|[]]]; [apply (r_cl st HI); assumption|].
        apply (r_bl st HI). rewrite EB. left; reflexivity.
  - (* SessionDie *)
    apply (rinv_frame st); auto; try (cbn; apply orb_false_r); cbn [step set_sess set_sessions sess_of delivered backlog closing cl_of lmark]; try (exact (r_clmark st HI));
      try (exact (r_deliv st HI)); try (exact (r_bl st HI)); try (exact (r_cl st HI)).
    + intros s0 Hs0. unfold updf. destruct (Nat.eqb_spec s0 s) as [->|?]; cbn.
      * repeat split; auto. intro Hr. apply (r_unreg st HI _ Hs0 Hr).
      * repeat split; auto. intro Hr. apply (r_unreg st HI _ Hs0 Hr).
    + intros s0 w Hs0. updf_cases; apply (r_sel st HI); assumption.
  - (* AcceptErr *)
    rename H into Hs. cbn [step]. destruct (in_map (sess_of st s)) eqn:EM.
    + assert (Hge : 1 <= refs (sess_of st s)).
      { rewrite (r_refs st HI s Hs). rewrite EM. unfold b2z. lia. }
      constructor; cbn [set_sess set_sessions nsess sess_of nwr wr panic lreleased lmark delivered backlog closing cl_of done1 refs in_map registered sclosed wg_zero loop]; try (exact (r_clmark st HI));
        try (exact (r_deliv st HI)); try (exact (r_bl st HI)); try (exact (r_cl st HI)); try (exact (r_wsess st HI)).
      * rewrite Hp. unfold done_panics. cbn. apply Z.ltb_ge. lia.
      * intros s0 Hs0. change (open_w _ s0) with (open_w st s0). updf_cases.
        -- rewrite (r_refs st HI _ Hs0). rewrite EM. unfold b2z. lia.
        -- apply (r_refs st HI); assumption.
      * intros s0 Hs0. updf_cases.
        -- intros _ Hz. rewrite Hz. cbn. apply orb_true_r.
        -- apply (r_zero st HI); assumption.
      * intros s0 Hs0. updf_cases.
        -- intro Hz. apply orb_prop in Hz. destruct Hz as [Hz|Hz].
           ++ rewrite (r_zc st HI _ Hs0 Hz). reflexivity.
           ++ rewrite Hz. apply orb_true_r.
        -- apply (r_zc st HI); assumption.
      * intros s0 Hs0. updf_cases.
        -- intro Hr. destruct (r_unreg st HI _ Hs0 Hr) as [_ [Hm _]]. congruence.
        -- apply (r_unreg st HI); assumption.
      * intro Hr. destruct (r_rel st HI Hr) as [Hm Hall]. split; [assumption|].
        intros s0 Hs0. updf_cases; [reflexivity|]. apply Hall; assumption.
      * intros s0 w Hs0. updf_cases; [discriminate|]. apply (r_sel st HI); assumption.
    + apply (rinv_frame st); auto; try (cbn; apply orb_false_r); cbn [set_sess set_sessions sess_of delivered backlog closing cl_of lmark]; try (exact (r_clmark st HI));
        try (exact (r_deliv st HI)); try (exact (r_bl st HI)); try (exact (r_cl st HI)).
      * intros s0 Hs0. unfold updf. destruct (Nat.eqb_spec s0 s) as [->|?]; cbn.
        -- repeat split; auto.
        -- repeat split; auto. intro Hr. apply (r_unreg st HI _ Hs0 Hr).
      * intros s0 w Hs0. updf_cases; [discriminate|]. apply (r_sel st HI); assumption.
  - (* Accept *)
    cbn [step]. destruct (backlog st) as [|w0 r] eqn:EB; [discriminate|].
    apply (rinv_frame st); auto; try (cbn; apply orb_false_r); cbn [sess_of delivered backlog closing cl_of lmark]; try (exact (r_clmark st HI));
      try (exact (r_cl st HI)); try (exact (r_sel st HI)).
    + intros s0 Hs0. repeat split; auto. intro Hr. apply (r_unreg st HI _ Hs0 Hr).
    + intros w Hw. apply in_app_or in Hw. destruct Hw as [Hw|[<-|[]]]; [apply (r_deliv st HI); assumption|].
      apply (r_bl st HI). rewrite EB. left; reflexivity.
    + intros w Hw. apply (r_bl st HI). rewrite EB. right; assumption.
  - (* AcceptFail *) exact HI.
  - (* WClose *)
    cbn [step]. apply rinv_close_wrapper; [assumption|]. apply (r_deliv st HI). apply mem_In. assumption.
  - (* CloseTaken *)
    cbn [step]. pose proof (r_cl st HI w (mem_In _ _ En)) as Hw.
    pose proof (rinv_close_wrapper st w HI Hw) as HI1.
    apply (rinv_frame (close_wrapper st w)); auto; cbn [sess_of delivered backlog closing cl_of lmark]; try (exact (r_clmark st HI));
      try (exact (r_deliv _ HI1)); try (exact (r_bl _ HI1)); try (exact (r_sel _ HI1)); try (exact (r_clmark _ HI1)).
    + intros s0 Hs0. repeat split; auto. intro Hr. apply (r_unreg _ HI1 _ Hs0 Hr).
    + intros x Hx. apply in_remove_w in Hx. destruct Hx as [Hx _]. apply (r_cl _ HI1). assumption.
  - (* LCall *)
    apply (rinv_frame st); auto; try (cbn; apply orb_false_r); cbn [step sess_of delivered backlog closing cl_of lmark]; try (exact (r_clmark st HI));
      try (exact (r_deliv st HI)); try (exact (r_bl st HI)); try (exact (r_cl st HI)); try (exact (r_sel st HI)); try (clmark st HI).
    intros s0 Hs0. repeat split; auto. intro Hr. apply (r_unreg st HI _ Hs0 Hr).
  - (* LStep *)
    cbn [step]. destruct (cl_of st k) eqn:EK.
    + (* CStart *)
      destruct (lmark st) eqn:ELM.
      * apply (rinv_frame st); auto; try (cbn; apply orb_false_r); cbn [set_cl sess_of delivered backlog closing cl_of lmark]; try (exact (r_clmark st HI));
          try (exact (r_deliv st HI)); try (exact (r_bl st HI)); try (exact (r_cl st HI)); try (exact (r_sel st HI)); try (clmark st HI).
        intros s0 Hs0. repeat split; auto. intro Hr. apply (r_unreg st HI _ Hs0 Hr).
      * apply (rinv_frame st); auto; try (cbn; apply orb_false_r); cbn [sess_of delivered backlog closing cl_of lmark]; try (exact (r_clmark st HI));
          try (exact (r_deliv st HI)); try (exact (r_bl st HI)); try (exact (r_cl st HI)); try (exact (r_sel st HI)); try (clmark st HI).
        intros s0 Hs0. repeat split; auto. intro Hr. apply (r_unreg st HI _ Hs0 Hr).
    + (* CSig *)
      apply (rinv_frame st); auto; try (cbn; apply orb_false_r); cbn [sess_of delivered backlog closing cl_of lmark]; try (exact (r_clmark st HI));
        try (exact (r_deliv st HI)); try (exact (r_bl st HI)); try (exact (r_cl st HI)); try (exact (r_sel st HI)); try (clmark st HI).
      intros s0 Hs0. repeat split; auto. intro Hr. apply (r_unreg st HI _ Hs0 Hr).
    + (* CDrain *)
      destruct (backlog st) as [|w0 r] eqn:EB.
      * apply (rinv_frame st); auto; try (cbn; apply orb_false_r); cbn [set_cl sess_of delivered backlog closing cl_of lmark]; try (exact (r_clmark st HI));
          try (exact (r_deliv st HI)); try (exact (r_cl st HI)); try (exact (r_sel st HI)); try (rewrite EB; intros w []); try (clmark st HI).
        intros s0 Hs0. repeat split; auto. intro Hr. apply (r_unreg st HI _ Hs0 Hr).
      * unfold take_head. rewrite EB.
        apply (rinv_frame st); auto; try (cbn; apply orb_false_r); cbn [sess_of delivered backlog closing cl_of lmark]; try (exact (r_clmark st HI));
          try (exact (r_deliv st HI)); try (exact (r_sel st HI)); try (clmark st HI).
        -- intros s0 Hs0. repeat split; auto. intro Hr. apply (r_unreg st HI _ Hs0 Hr).
        -- intros w Hw. apply (r_bl st HI). rewrite EB. right; assumption.
        -- intros w Hw. apply in_app_or in Hw. destruct Hw as [Hw|[<-|[]]]; [apply (r_cl st HI); assumption|].
           apply (r_bl st HI). rewrite EB. left; reflexivity.
    + (* CRel *)
      assert (Hnp : release_panics (nsess st) (sess_of st) = false).
      { unfold release_panics. destruct (existsb _ _) eqn:EX; [|reflexivity].
        apply existsb_exists in EX. destruct EX as [j [Hin Hj]]. apply in_seq in Hin.
        apply andb_prop in Hj. destruct Hj as [Hm Hd]. unfold done_panics in Hd. apply Z.ltb_lt in Hd.
        assert (Hj : (j < nsess st)%nat) by lia.
        pose proof (r_refs st HI j Hj) as Hr. rewrite Hm in Hr. unfold b2z in Hr. lia. }
      constructor; cbn [nsess sess_of nwr wr panic lreleased lmark delivered backlog closing cl_of lmark];
        try (exact (r_wsess st HI)); try (exact (r_deliv st HI)); try (exact (r_bl st HI)); try (exact (r_cl st HI)); try (clmark st HI).
      * rewrite Hp, Hnp. reflexivity.
      * intros s0 Hs0. change (open_w _ s0) with (open_w st s0). unfold release1.
        apply Nat.ltb_lt in Hs0. rewrite Hs0. apply Nat.ltb_lt in Hs0. cbn [andb].
        destruct (in_map (sess_of st s0)) eqn:EM; cbn.
        -- rewrite (r_refs st HI _ Hs0), EM. unfold b2z. lia.
        -- rewrite (r_refs st HI _ Hs0), EM. reflexivity.
      * intros s0 Hs0. unfold release1. apply Nat.ltb_lt in Hs0. rewrite Hs0. apply Nat.ltb_lt in Hs0. cbn [andb].
        destruct (in_map (sess_of st s0)) eqn:EM; cbn.
        -- intros _ Hz. rewrite Hz. cbn. apply orb_true_r.
        -- apply (r_zero st HI); assumption.
      * intros s0 Hs0. unfold release1. apply Nat.ltb_lt in Hs0. rewrite Hs0. apply Nat.ltb_lt in Hs0. cbn [andb].
        destruct (in_map (sess_of st s0)) eqn:EM; cbn.
        -- intro Hz. apply orb_prop in Hz. destruct Hz as [Hz|Hz].
           ++ rewrite (r_zc st HI _ Hs0 Hz). reflexivity.
           ++ rewrite Hz. apply orb_true_r.
        -- apply (r_zc st HI); assumption.
      * intros s0 Hs0. unfold release1. apply Nat.ltb_lt in Hs0. rewrite Hs0. apply Nat.ltb_lt in Hs0. cbn [andb].
        destruct (in_map (sess_of st s0)) eqn:EM; cbn.
        -- intro Hr. destruct (r_unreg st HI _ Hs0 Hr) as [_ [Hm _]]. congruence.
        -- intro Hr. apply (r_unreg st HI _ Hs0 Hr).
      * intros _. split.
        -- (* a Close call at its release section has passed the CAS: l.closed = 1 *)
           apply (r_clmark st HI k). rewrite EK. reflexivity.
        -- intros s0 Hs0. unfold release1.
           apply Nat.ltb_lt in Hs0. rewrite Hs0. cbn [andb]. destruct (in_map (sess_of st s0)) eqn:EM; cbn; [reflexivity|assumption].
      * intros s0 j Hs0. unfold release1. apply Nat.ltb_lt in Hs0. rewrite Hs0. apply Nat.ltb_lt in Hs0. cbn [andb].
        destruct (in_map (sess_of st s0)) eqn:EM; cbn; apply (r_sel st HI); assumption.
    + discriminate.
  - (* RawAccept *)
    apply (rinv_frame st); auto; try (cbn; apply orb_false_r); cbn [step set_hs sess_of delivered backlog closing cl_of lmark]; try (exact (r_clmark st HI));
      try (exact (r_deliv st HI)); try (exact (r_bl st HI)); try (exact (r_cl st HI)); try (exact (r_sel st HI)).
    intros s0 Hs0. repeat split; auto. intro Hr. apply (r_unreg st HI _ Hs0 Hr).
  - (* HandshakeFail *)
    apply (rinv_frame st); auto; try (cbn; apply orb_false_r); cbn [step set_hs sess_of delivered backlog closing cl_of lmark]; try (exact (r_clmark st HI));
      try (exact (r_deliv st HI)); try (exact (r_bl st HI)); try (exact (r_cl st HI)); try (exact (r_sel st HI)).
    intros s0 Hs0. repeat split; auto. intro Hr. apply (r_unreg st HI _ Hs0 Hr).
Qed.

Lemma run_app : forall a b st, run (a ++ b) st = run b (run a st).
Proof. intros. unfold run. apply fold_left_app. Qed.

Lemma rinv_run : forall evs st, RInv st -> RInv (run evs st).
Proof.
  induction evs as [|e r IH]; intros st HI; cbn; [assumption|]. apply IH. apply rinv_step. assumption.
Qed.

(* ---------------------------------------------------------------------------------------- *)
(* exactly-once delivery: every wrapper is in exactly one place                               *)
(* ---------------------------------------------------------------------------------------- *)
Fixpoint cnt (l : list nat) (x : nat) : nat :=
  match l with [] => O | y :: r => ((if Nat.eqb y x then 1 else 0) + cnt r x)%nat end.

Lemma cnt_app : forall a b x, cnt (a ++ b) x = (cnt a x + cnt b x)%nat.
Proof. induction a as [|y a IH]; intros b x; cbn; [reflexivity|]. rewrite IH. lia. Qed.

Lemma cnt_pos_In : forall l x, (0 < cnt l x)%nat <-> In x l.
Proof.
  induction l as [|y l IH]; intros x; cbn; [split; [lia|tauto]|].
  destruct (Nat.eqb_spec y x) as [->|Hne]; split; intro H.
  - left; reflexivity.
  - lia.
  - right. apply IH. lia.
  - destruct H as [H|H]; [congruence|]. apply IH in H. lia.
Qed.

Lemma cnt_remove : forall w l x, cnt (remove_w w l) x = if Nat.eqb x w then O else cnt l x.
Proof.
  intros w. induction l as [|y l IH]; intros x; cbn; [destruct (Nat.eqb x w); reflexivity|].
  destruct (Nat.eqb_spec y w) as [->|Hne]; cbn.
  - rewrite IH. destruct (Nat.eqb_spec x w) as [->|Hx]; [reflexivity|].
    destruct (Nat.eqb_spec w x); [congruence|]. reflexivity.
  - rewrite IH. destruct (Nat.eqb_spec x w) as [->|Hx]; [|reflexivity].
    destruct (Nat.eqb_spec y w); [congruence|]. reflexivity.
Qed.

Lemma NoDup_of_cnt : forall l, (forall x, (cnt l x <= 1)%nat) -> NoDup l.
Proof.
  induction l as [|y l IH]; intros H; constructor.
  - intro Hin. apply cnt_pos_In in Hin. specialize (H y). cbn in H. rewrite Nat.eqb_refl in H. lia.
  - apply IH. intro x. specialize (H x). cbn in H. lia.
Qed.

Definition places (st : state) : list nat := delivered st ++ backlog st ++ closing st ++ aclosed st.
Definition occ (st : state) (w : nat) : nat := cnt (places st) w.
Definition of_sess (st : state) (s : nat) : nat := count (fun w => Nat.eqb (w_sess (wr st w)) s) (nwr st).
Local Arguments of_sess : simpl never.

Record OInv (st : state) : Prop := {
  o_log : recv_log st ++ backlog st = enq_log st;
  o_occ : forall w, (occ st w <= 1)%nat;
  o_lt : forall w, (0 < occ st w)%nat -> (w < nwr st)%nat;
  o_sel : forall s w, (s < nsess st)%nat -> loop (sess_of st s) = LSelecting w ->
          (w < nwr st)%nat /\ w_sess (wr st w) = s /\ occ st w = O;
  o_cov : forall w, (w < nwr st)%nat -> occ st w = 1%nat \/ loop (sess_of st (w_sess (wr st w))) = LSelecting w;
  o_cap : (length (backlog st) <= cap st)%nat;
  o_arr : forall s, (s < nsess st)%nat ->
          arrived (sess_of st s) = (inq (sess_of st s) + wrapped (sess_of st s) + refused (sess_of st s))%nat;
  o_wc : forall s, (s < nsess st)%nat -> wrapped (sess_of st s) = of_sess st s;
  o_ws : forall w, (w < nwr st)%nat -> (w_sess (wr st w) < nsess st)%nat;
  o_acl : forall w, In w (aclosed st) -> w_closed (wr st w) = true }.

Lemma oinv_init : forall c, OInv (init c).
Proof.
  intro c. constructor; cbn; try (intros; lia); try reflexivity; try (intros w H; contradiction).
Qed.

Lemma of_sess_ext : forall st st' s, nwr st' = nwr st -> (forall w, w_sess (wr st' w) = w_sess (wr st w)) -> of_sess st' s = of_sess st s.
Proof.
  intros st st' s Hn Hw. unfold of_sess. rewrite Hn. apply count_ext. intros w _. rewrite Hw. reflexivity.
Qed.

(* steps that move no wrapper into or out of a select and keep every wrapper's multiplicity *)
Lemma oinv_frame : forall st st',
  OInv st ->
  nsess st' = nsess st -> nwr st' = nwr st ->
  (forall w, w_sess (wr st' w) = w_sess (wr st w)) ->
  (forall w, w_closed (wr st w) = true -> w_closed (wr st' w) = true) ->
  (forall w, occ st' w = occ st w) ->
  recv_log st' ++ backlog st' = enq_log st' ->
  (length (backlog st') <= cap st')%nat ->
  (forall s, (s < nsess st)%nat ->
     inq (sess_of st' s) = inq (sess_of st s) /\ arrived (sess_of st' s) = arrived (sess_of st s) /\
     wrapped (sess_of st' s) = wrapped (sess_of st s) /\ refused (sess_of st' s) = refused (sess_of st s)) ->
  (forall s w, (s < nsess st)%nat -> (loop (sess_of st' s) = LSelecting w <-> loop (sess_of st s) = LSelecting w)) ->
  (forall w, In w (aclosed st') -> In w (aclosed st) \/ w_closed (wr st' w) = true) ->
  OInv st'.
Proof.
  intros st st' HI Hns Hnw Hws Hwc Hocc Hlog Hcap Hs Hsel Hacl.
  constructor.
  - exact Hlog.
  - intro w. rewrite Hocc. apply (o_occ st HI).
  - intro w. rewrite Hocc, Hnw. apply (o_lt st HI).
  - intros s w Hlt E. rewrite Hns in Hlt. apply (Hsel s w Hlt) in E.
    destruct (o_sel st HI s w Hlt E) as [A [B C]]. rewrite Hnw, Hws, Hocc. auto.
  - intros w Hw. rewrite Hnw in Hw. rewrite Hocc, Hws. destruct (o_cov st HI w Hw) as [A|A]; [left; assumption|right].
    apply Hsel; [apply (o_ws st HI); assumption|assumption].
  - exact Hcap.
  - intros s Hlt. rewrite Hns in Hlt. destruct (Hs s Hlt) as [A [B [C D]]]. rewrite A, B, C, D. apply (o_arr st HI); assumption.
  - intros s Hlt. rewrite Hns in Hlt. destruct (Hs s Hlt) as [_ [_ [C _]]]. rewrite C.
    rewrite (of_sess_ext st st' s Hnw Hws). apply (o_wc st HI); assumption.
  - intros w Hw. rewrite Hnw in Hw. rewrite Hws, Hns. apply (o_ws st HI); assumption.
  - intros w Hw. destruct (Hacl w Hw) as [A|A]; [|assumption]. apply Hwc. apply (o_acl st HI). assumption.
Qed.

Ltac occ_norm := unfold occ, places; cbn [delivered backlog closing aclosed]; rewrite ?cnt_app; cbn [cnt].

Lemma occ_take_head : forall st w0 r, backlog st = w0 :: r -> forall w, occ (take_head st) w = occ st w.
Proof.
  intros st w0 r EB w. unfold take_head. rewrite EB. occ_norm. rewrite EB. cbn [cnt]. lia.
Qed.

Lemma oinv_take_head : forall st, OInv st -> OInv (take_head st).
Proof.
  intros st HI. destruct (backlog st) as [|w0 r] eqn:EB; [unfold take_head; rewrite EB; exact HI|].
  apply (oinv_frame st); auto.
  - unfold take_head; rewrite EB; reflexivity.
  - unfold take_head; rewrite EB; reflexivity.
  - unfold take_head; rewrite EB; reflexivity.
  - unfold take_head; rewrite EB; auto.
  - apply (occ_take_head st w0 r EB).
  - unfold take_head; rewrite EB; cbn. rewrite <- app_assoc. cbn. rewrite <- (o_log st HI), EB. reflexivity.
  - unfold take_head; rewrite EB; cbn. pose proof (o_cap st HI) as Hc. rewrite EB in Hc. cbn in Hc. lia.
  - unfold take_head; rewrite EB; cbn. intros; auto.
  - unfold take_head; rewrite EB; cbn. intros; tauto.
  - unfold take_head; rewrite EB; cbn. intros; auto.
Qed.

Ltac oframe st HI :=
  apply (oinv_frame st); auto;
  cbn [step set_sess set_sessions set_cl set_hs sess_of backlog recv_log enq_log cap aclosed wr nsess nwr];
  try (apply (o_log st HI)); try (apply (o_cap st HI));
  try (solve [intros; auto]); try (solve [intros; tauto]).

(* only the program counter of one accept goroutine changes, and not from or to a select *)
Lemma oinv_set_loop : forall st s p,
  OInv st -> is_selecting (loop (sess_of st s)) = false -> is_selecting p = false ->
  OInv (set_sess st s (with_loop (sess_of st s) p) false).
Proof.
  intros st s p HI H1 H2. oframe st HI.
  - intros s0 Hs0. unfold updf. destruct (Nat.eqb_spec s0 s) as [->|?]; cbn; auto.
  - intros s0 w Hs0. unfold updf. destruct (Nat.eqb_spec s0 s) as [->|?]; cbn; [|tauto].
    split; intro E; [rewrite E in H2|rewrite E in H1]; discriminate.
Qed.

Lemma oinv_close_wrapper : forall st w, OInv st -> OInv (close_wrapper st w).
Proof.
  intros st w HI. unfold close_wrapper. destruct (w_closed (wr st w)) eqn:EC; [exact HI|].
  oframe st HI.
  - intro k. unfold updf. destruct (Nat.eqb_spec k w); subst; reflexivity.
  - intros k Hk. unfold updf. destruct (Nat.eqb_spec k w); subst; [reflexivity|assumption].
  - intros s0 Hs0. unfold updf. destruct (Nat.eqb_spec s0 (w_sess (wr st w))) as [->|?]; cbn; auto.
  - intros s0 k Hs0. unfold updf. destruct (Nat.eqb_spec s0 (w_sess (wr st w))) as [->|?]; cbn; tauto.
Qed.

Lemma oinv_step : forall st e, OInv st -> OInv (exec st e).
Proof.
  intros st e HI. unfold exec. destruct (enabled st e) eqn:En; [|exact HI].
  destruct e; cbn [enabled] in En; bool_hyps.
  - (* SessionUp *)
    constructor; cbn [step nsess sess_of nwr wr delivered backlog closing aclosed enq_log recv_log cap];
      try (exact (o_log st HI)); try (exact (o_occ st HI)); try (exact (o_lt st HI)); try (exact (o_cap st HI)); try (exact (o_acl st HI)).
    + intros s w Hs. updf_cases.
      * destruct (lmark st); cbn; discriminate.
      * apply (o_sel st HI); lia.
    + intros w Hw. change (occ _ w) with (occ st w). destruct (o_cov st HI w Hw) as [A|A]; [left; assumption|right].
      rewrite updf_other; [assumption|]. pose proof (o_ws st HI w Hw). lia.
    + intros s Hs. updf_cases.
      * destruct (lmark st); reflexivity.
      * apply (o_arr st HI); lia.
    + intros s Hs. change (of_sess _ s) with (of_sess st s). updf_cases.
      * assert (Hz : of_sess st (nsess st) = O).
        { unfold of_sess. apply count_false. intros w Hw. pose proof (o_ws st HI w Hw).
          destruct (Nat.eqb_spec (w_sess (wr st w)) (nsess st)); [lia|reflexivity]. }
        rewrite Hz. destruct (lmark st); reflexivity.
      * apply (o_wc st HI); lia.
    + intros w Hw. pose proof (o_ws st HI w Hw). lia.
  - (* StreamIn *)
    constructor; cbn [step set_sess set_sessions nsess sess_of nwr wr delivered backlog closing aclosed enq_log recv_log cap];
      try (exact (o_log st HI)); try (exact (o_occ st HI)); try (exact (o_lt st HI)); try (exact (o_cap st HI));
      try (exact (o_acl st HI)); try (exact (o_ws st HI)).
    + intros s0 w Hs. updf_cases; apply (o_sel st HI); assumption.
    + intros w Hw. change (occ _ w) with (occ st w). destruct (o_cov st HI w Hw) as [A|A]; [left; assumption|right].
      updf_cases; assumption.
    + intros s0 Hs. updf_cases; [|apply (o_arr st HI); assumption].
      rewrite (o_arr st HI _ Hs). lia.
    + intros s0 Hs. change (of_sess _ s0) with (of_sess st s0). updf_cases; apply (o_wc st HI); assumption.
  - (* Wrap *)
    rename H into Hs. destruct (loop (sess_of st s)) eqn:EL; try discriminate.
    cbn [step]. destruct (in_map (sess_of st s)) eqn:EM; cbn [negb].
    2:{ (* refused: the stream is closed unwrapped *)
      constructor; cbn [set_sess set_sessions nsess sess_of nwr wr delivered backlog closing aclosed enq_log recv_log cap];
        try (exact (o_log st HI)); try (exact (o_occ st HI)); try (exact (o_lt st HI)); try (exact (o_cap st HI));
        try (exact (o_ws st HI)); try (exact (o_acl st HI)).
      + intros s0 w Hs0. unfold updf. destruct (Nat.eqb_spec s0 s) as [->|Hne]; cbn [loop]; [discriminate|]. apply (o_sel st HI); assumption.
      + intros w Hw. change (occ _ w) with (occ st w). destruct (o_cov st HI w Hw) as [A|A]; [left; assumption|right].
        rewrite updf_other; [assumption|]. intro E. rewrite E, EL in A. discriminate.
      + intros s0 Hs0. unfold updf. destruct (Nat.eqb_spec s0 s) as [->|Hne]; cbn [arrived inq wrapped refused]; [|apply (o_arr st HI); assumption].
        rewrite (o_arr st HI _ Hs0). destruct (inq (sess_of st s)); [lia|cbn [Nat.pred]; lia].
      + intros s0 Hs0. change (of_sess _ s0) with (of_sess st s0). updf_cases; apply (o_wc st HI); assumption. }
    constructor; cbn [nsess sess_of nwr wr delivered backlog closing aclosed enq_log recv_log cap];
      try (exact (o_log st HI)); try (exact (o_occ st HI)); try (exact (o_cap st HI)).
    + intros w Hw. change (occ _ w) with (occ st w) in Hw. pose proof (o_lt st HI w Hw). lia.
    + intros s0 w Hs0. change (occ _ w) with (occ st w). unfold updf at 1. destruct (Nat.eqb_spec s0 s) as [->|Hne]; cbn [loop].
      * intro E. inversion E; subst w. rewrite updf_same. cbn. split; [lia|]. split; [reflexivity|].
        destruct (occ st (nwr st)) eqn:EO; [reflexivity|]. pose proof (o_lt st HI (nwr st)). lia.
      * intro E. destruct (o_sel st HI s0 w Hs0 E) as [Hlt [Hws Ho]].
        rewrite updf_other by lia. repeat split; try assumption; lia.
    + intros w Hw. change (occ _ w) with (occ st w). destruct (Nat.eq_dec w (nwr st)) as [->|Hne].
      * right. rewrite updf_same. cbn [w_sess]. rewrite updf_same. reflexivity.
      * assert (Hw' : (w < nwr st)%nat) by lia. rewrite (updf_other _ (wr st) (nwr st) _ w Hne).
        destruct (o_cov st HI w Hw') as [A|A]; [left; assumption|right].
        rewrite updf_other; [assumption|]. intro E. rewrite E, EL in A. discriminate.
    + intros s0 Hs0. updf_cases; [|apply (o_arr st HI); assumption].
      rewrite (o_arr st HI _ Hs0). lia.
    + intros s0 Hs0. unfold of_sess; cbn [nwr wr count]. rewrite updf_same. cbn [w_sess].
      assert (Hc : count (fun w => Nat.eqb (w_sess (updf (wr st) (nwr st) {| w_sess := s; w_ord := wrapped (sess_of st s); w_closed := false |} w)) s0) (nwr st)
                   = of_sess st s0).
      { unfold of_sess. apply count_ext. intros w Hw. rewrite updf_other by lia. reflexivity. }
      rewrite Hc. unfold updf. destruct (Nat.eqb_spec s0 s) as [->|Hne]; cbn [wrapped].
      * rewrite Nat.eqb_refl. rewrite (o_wc st HI _ Hs0). reflexivity.
      * destruct (Nat.eqb_spec s s0); [congruence|]. rewrite (o_wc st HI _ Hs0). reflexivity.
    + intros w Hw. unfold updf. destruct (Nat.eqb_spec w (nwr st)); cbn; [assumption|]. apply (o_ws st HI); lia.
    + intros w Hw. rewrite updf_other; [apply (o_acl st HI); assumption|].
      assert (Hp : (0 < occ st w)%nat).
      { unfold occ, places. rewrite !cnt_app. apply cnt_pos_In in Hw. lia. }
      pose proof (o_lt st HI w Hp). lia.
  - (* Enqueue *)
    rename H into Hs. cbn [step]. destruct (loop (sess_of st s)) as [|w0| | |] eqn:EL; try discriminate.
    destruct (o_sel st HI s w0 Hs EL) as [Hlt [Hws Ho]].
    assert (Hocc : forall x, occ {| nsess := nsess st; sess_of := updf (sess_of st) s (with_loop (sess_of st s) LPostEnq);
         nwr := nwr st; wr := wr st; ncl := ncl st; cl_of := cl_of st; cap := cap st;
         backlog := backlog st ++ [w0]; delivered := delivered st; closing := closing st; aclosed := aclosed st;
         enq_log := enq_log st ++ [w0]; recv_log := recv_log st;
         lmark := lmark st; closeCh := closeCh st; lreleased := lreleased st; hs_pending := hs_pending st; panic := panic st |} x
         = (occ st x + (if Nat.eqb w0 x then 1 else 0))%nat).
    { intro x. occ_norm. lia. }
    constructor; try (intro x; rewrite Hocc); cbn [nsess sess_of nwr wr delivered backlog closing aclosed enq_log recv_log cap];
      try (exact (o_ws st HI)); try (exact (o_acl st HI)).
    + rewrite app_assoc, (o_log st HI). reflexivity.
    + destruct (Nat.eqb_spec w0 x) as [->|?]; [lia|]. pose proof (o_occ st HI x). lia.
    + destruct (Nat.eqb_spec w0 x) as [->|?]; [intros; assumption|]. intro Hp. apply (o_lt st HI). lia.
    + intros s0 w Hs0. rewrite Hocc. unfold updf. destruct (Nat.eqb_spec s0 s) as [->|Hne]; cbn [with_loop loop]; [discriminate|].
      intro E. destruct (o_sel st HI s0 w Hs0 E) as [A [B C]]. repeat split; try assumption.
      destruct (Nat.eqb_spec w0 w) as [->|?]; [congruence|lia].
    + intros Hw. destruct (Nat.eqb_spec w0 x) as [->|Hne]; [left; lia|].
      destruct (o_cov st HI x Hw) as [A|A]; [left; lia|right].
      rewrite updf_other; [assumption|]. intro E. rewrite E, EL in A. inversion A. congruence.
    + rewrite app_length. cbn. lia.
    + intros s0 Hs0. updf_cases; apply (o_arr st HI); assumption.
    + intros s0 Hs0. change (of_sess _ s0) with (of_sess st s0). updf_cases; apply (o_wc st HI); assumption.
  - (* Lose *)
    rename H into Hs. cbn [step]. destruct (loop (sess_of st s)) as [|w0| | |] eqn:EL; try discriminate.
    destruct (o_sel st HI s w0 Hs EL) as [Hlt [Hws Ho]].
    assert (Hocc : forall x, occ {| nsess := nsess st; sess_of := updf (sess_of st) s (with_loop (sess_of st s) LExited);
         nwr := nwr st; wr := wr st; ncl := ncl st; cl_of := cl_of st; cap := cap st;
         backlog := backlog st; delivered := delivered st; closing := closing st ++ [w0]; aclosed := aclosed st;
         enq_log := enq_log st; recv_log := recv_log st;
         lmark := lmark st; closeCh := closeCh st; lreleased := lreleased st; hs_pending := hs_pending st; panic := panic st |} x
         = (occ st x + (if Nat.eqb w0 x then 1 else 0))%nat).
    { intro x. occ_norm. lia. }
    constructor; try (intro x; rewrite Hocc); cbn [nsess sess_of nwr wr delivered backlog closing aclosed enq_log recv_log cap];
      try (exact (o_ws st HI)); try (exact (o_acl st HI)); try (exact (o_log st HI)); try (exact (o_cap st HI)).
    + destruct (Nat.eqb_spec w0 x) as [->|?]; [lia|]. pose proof (o_occ st HI x). lia.
    + destruct (Nat.eqb_spec w0 x) as [->|?]; [intros; assumption|]. intro Hp. apply (o_lt st HI). lia.
    + intros s0 w Hs0. rewrite Hocc. unfold updf. destruct (Nat.eqb_spec s0 s) as [->|Hne]; cbn [with_loop loop]; [discriminate|].
      intro E. destruct (o_sel st HI s0 w Hs0 E) as [A [B C]]. repeat split; try assumption.
      destruct (Nat.eqb_spec w0 w) as [->|?]; [congruence|lia].
    + intros Hw. destruct (Nat.eqb_spec w0 x) as [->|Hne]; [left; lia|].
      destruct (o_cov st HI x Hw) as [A|A]; [left; lia|right].
      rewrite updf_other; [assumption|]. intro E. rewrite E, EL in A. inversion A. congruence.
    + intros s0 Hs0. updf_cases; apply (o_arr st HI); assumption.
    + intros s0 Hs0. change (of_sess _ s0) with (of_sess st s0). updf_cases; apply (o_wc st HI); assumption.
  - (* PostCheck *)
    cbn [step]. destruct (loop (sess_of st s)) eqn:EL; try discriminate.
    apply oinv_set_loop; [assumption|rewrite EL; reflexivity|destruct (closeCh st); reflexivity].
  - (* GDrain *)
    cbn [step]. destruct (loop (sess_of st s)) eqn:EL; try discriminate.
    destruct (backlog st) eqn:EB.
    + apply oinv_set_loop; [assumption|rewrite EL; reflexivity|reflexivity].
    + apply oinv_take_head. assumption.
  - (* SessionDie *)
    oframe st HI.
    + intros s0 Hs0. unfold updf. destruct (Nat.eqb_spec s0 s) as [->|?]; cbn; auto.
    + intros s0 w Hs0. unfold updf. destruct (Nat.eqb_spec s0 s) as [->|?]; cbn; tauto.
  - (* AcceptErr *)
    rename H into Hs. cbn [step]. destruct (loop (sess_of st s)) eqn:EL; try discriminate.
    destruct (in_map (sess_of st s)) eqn:EM.
    + oframe st HI.
      * intros s0 Hs0. unfold updf. destruct (Nat.eqb_spec s0 s) as [->|?]; cbn; auto.
      * intros s0 w Hs0. unfold updf. destruct (Nat.eqb_spec s0 s) as [->|?]; cbn; [|tauto].
        rewrite EL. split; discriminate.
    + apply oinv_set_loop; [assumption|rewrite EL; reflexivity|reflexivity].
  - (* Accept *)
    cbn [step]. destruct (backlog st) as [|w0 r] eqn:EB; [discriminate|].
    oframe st HI.
    + intro w. occ_norm. rewrite EB. cbn [cnt]. lia.
    + rewrite <- app_assoc. cbn. rewrite <- (o_log st HI), EB. reflexivity.
    + pose proof (o_cap st HI) as Hc. rewrite EB in Hc. cbn in Hc. lia.
  - exact HI.
  - (* WClose *) cbn [step]. apply oinv_close_wrapper. assumption.
  - (* CloseTaken *)
    cbn [step]. pose proof (oinv_close_wrapper st w HI) as HI1.
    assert (Hin : In w (closing (close_wrapper st w))).
    { unfold close_wrapper. destruct (w_closed (wr st w)); cbn; apply mem_In; assumption. }
    assert (Hc1 : cnt (closing (close_wrapper st w)) w = 1%nat).
    { apply cnt_pos_In in Hin. pose proof (o_occ _ HI1 w) as Ho. unfold occ, places in Ho. rewrite !cnt_app in Ho. lia. }
    assert (Hclosed : w_closed (wr (close_wrapper st w) w) = true).
    { unfold close_wrapper. destruct (w_closed (wr st w)) eqn:EC; [assumption|]. cbn. rewrite updf_same. reflexivity. }
    oframe (close_wrapper st w) HI1.
    + intro x. occ_norm. rewrite cnt_remove. destruct (Nat.eqb_spec x w) as [->|Hne].
      * rewrite Nat.eqb_refl. rewrite Hc1. lia.
      * destruct (Nat.eqb_spec w x); [congruence|]. lia.
    + intros x Hx. apply in_app_or in Hx. destruct Hx as [Hx|[<-|[]]]; [left; assumption|right; assumption].
  - (* LCall *)
    oframe st HI.
  - (* LStep *)
    cbn [step]. destruct (cl_of st k) eqn:EK.
    + destruct (lmark st); oframe st HI.
    + oframe st HI.
    + destruct (backlog st) eqn:EB.
      * oframe st HI.
      * apply oinv_take_head. assumption.
    + oframe st HI.
      * intros s0 Hs0. unfold release1. destruct ((s0 <? nsess st)%nat && in_map (sess_of st s0)); cbn; auto.
      * intros s0 w Hs0. unfold release1. destruct ((s0 <? nsess st)%nat && in_map (sess_of st s0)); cbn; tauto.
    + exact HI.
  - (* RawAccept *) oframe st HI.
  - (* HandshakeFail *) oframe st HI.
Qed.

Lemma oinv_run : forall evs st, OInv st -> OInv (run evs st).
Proof.
  induction evs as [|e r IH]; intros st HI; cbn; [assumption|]. apply IH. apply oinv_step. assumption.
Qed.

(* ---------------------------------------------------------------------------------------- *)
(* the drain protocol: once closeCh is closed, a non-empty backlog always has a drainer        *)
(* ---------------------------------------------------------------------------------------- *)
Definition cl_witness (st : state) (c : close_pc) : Prop := exists k, (k < ncl st)%nat /\ cl_of st k = c.
Definition gd_witness (st : state) : Prop :=
  exists s, (s < nsess st)%nat /\ (loop (sess_of st s) = LPostEnq \/ loop (sess_of st s) = LDraining).

Record DInv (st : state) : Prop := {
  d_sig : lmark st = true -> closeCh st = true \/ cl_witness st CSig;
  d_drain : closeCh st = true -> backlog st <> [] -> cl_witness st CDrain \/ gd_witness st }.

Lemma dinv_init : forall c, DInv (init c).
Proof. intro c. constructor; cbn; intros; try discriminate; congruence. Qed.

(* witnesses survive a step that leaves their thread alone *)
Lemma cl_witness_keep : forall st st' c,
  cl_witness st c -> (ncl st <= ncl st')%nat ->
  (forall k, (k < ncl st)%nat -> cl_of st k = c -> cl_of st' k = c) -> cl_witness st' c.
Proof. intros st st' c [k [Hk Ek]] Hn H. exists k. split; [lia|auto]. Qed.

Lemma gd_witness_keep : forall st st',
  gd_witness st -> (nsess st <= nsess st')%nat ->
  (forall s, (s < nsess st)%nat -> forall p, (p = LPostEnq \/ p = LDraining) -> loop (sess_of st s) = p -> loop (sess_of st' s) = p) ->
  gd_witness st'.
Proof.
  intros st st' [s [Hs E]] Hn H. exists s. split; [lia|].
  destruct E as [E|E]; [left|right]; apply (H s Hs); auto.
Qed.

Lemma dinv_frame : forall st st',
  DInv st ->
  (lmark st' = true -> lmark st = true) -> (closeCh st = true -> closeCh st' = true) ->
  (closeCh st' = true -> closeCh st = true) ->
  (backlog st' <> [] -> backlog st <> []) ->
  (ncl st <= ncl st')%nat -> (nsess st <= nsess st')%nat ->
  (forall k c, (k < ncl st)%nat -> (c = CSig \/ c = CDrain) -> cl_of st k = c -> cl_of st' k = c) ->
  (forall s, (s < nsess st)%nat -> forall p, (p = LPostEnq \/ p = LDraining) -> loop (sess_of st s) = p -> loop (sess_of st' s) = p) ->
  DInv st'.
Proof.
  intros st st' HI Hm Hc Hc' Hb Hn Hs Hk Hl. constructor.
  - intro H. destruct (d_sig st HI (Hm H)) as [A|A]; [left; auto|right].
    apply (cl_witness_keep st st' CSig A Hn). intros k Hlt E. apply (Hk k CSig Hlt); auto.
  - intros H1 H2. destruct (d_drain st HI (Hc' H1) (Hb H2)) as [A|A]; [left|right].
    + apply (cl_witness_keep st st' CDrain A Hn). intros k Hlt E. apply (Hk k CDrain Hlt); auto.
    + apply (gd_witness_keep st st' A Hs Hl).
Qed.

Ltac dframe st HI :=
  apply (dinv_frame st); auto;
  cbn [step set_sess set_sessions set_cl set_hs sess_of backlog lmark closeCh ncl nsess cl_of];
  try lia; try (solve [intros; auto]); try (solve [intros; congruence]).

Lemma take_head_backlog : forall st, backlog (take_head st) <> [] -> backlog st <> [].
Proof. intros st H E. unfold take_head in H. rewrite E in H. contradiction. Qed.

Lemma dinv_take_head : forall st, DInv st -> DInv (take_head st).
Proof.
  intros st HI. apply (dinv_frame st); auto; try apply take_head_backlog;
    unfold take_head; destruct (backlog st); cbn; auto.
Qed.

Lemma dinv_close_wrapper : forall st w, DInv st -> DInv (close_wrapper st w).
Proof.
  intros st w HI. unfold close_wrapper. destruct (w_closed (wr st w)); [exact HI|].
  dframe st HI.
  intros s Hs p Hp E. unfold updf. destruct (Nat.eqb_spec s (w_sess (wr st w))) as [->|?]; cbn; assumption.
Qed.

Lemma dinv_step : forall st e, DInv st -> DInv (exec st e).
Proof.
  intros st e HI. unfold exec. destruct (enabled st e) eqn:En; [|exact HI].
  destruct e; cbn [enabled] in En; bool_hyps.
  - (* SessionUp *)
    dframe st HI. intros s Hs p Hp E. rewrite updf_other by lia. assumption.
  - (* StreamIn *)
    dframe st HI. intros s0 Hs p Hp E. unfold updf. destruct (Nat.eqb_spec s0 s) as [->|?]; cbn; assumption.
  - (* Wrap *)
    destruct (loop (sess_of st s)) eqn:EL; try discriminate.
    cbn [step]. destruct (in_map (sess_of st s)); cbn [negb]; dframe st HI;
      intros s0 Hs p Hp E; unfold updf; destruct (Nat.eqb_spec s0 s) as [->|?]; cbn; try assumption;
      rewrite EL in E; destruct Hp; subst; discriminate.
  - (* Enqueue *)
    cbn [step]. destruct (loop (sess_of st s)) as [|w0| | |] eqn:EL; try discriminate.
    constructor; cbn [lmark closeCh backlog].
    + intro Hm. destruct (d_sig st HI Hm) as [A|A]; [left; assumption|right].
      apply (cl_witness_keep st _ CSig A); cbn; auto.
    + intros _ _. right. exists s. split; [cbn; assumption|]. left. cbn. rewrite updf_same. reflexivity.
  - (* Lose *)
    cbn [step]. destruct (loop (sess_of st s)) as [|w0| | |] eqn:EL; try discriminate.
    dframe st HI. intros s0 Hs p Hp E. unfold updf. destruct (Nat.eqb_spec s0 s) as [->|?]; cbn; [|assumption].
    rewrite EL in E. destruct Hp; subst; discriminate.
  - (* PostCheck *)
    destruct (loop (sess_of st s)) eqn:EL; try discriminate.
    constructor; cbn [step set_sess set_sessions lmark closeCh backlog].
    + intro Hm. destruct (d_sig st HI Hm) as [A|A]; [left; assumption|right].
      apply (cl_witness_keep st _ CSig A); cbn; auto.
    + intros Hc _. right. exists s. split; [cbn; assumption|]. right. cbn. rewrite updf_same. cbn. rewrite Hc. reflexivity.
  - (* GDrain *)
    destruct (loop (sess_of st s)) eqn:EL; try discriminate.
    cbn [step]. destruct (backlog st) eqn:EB.
    + constructor; cbn [set_sess set_sessions lmark closeCh backlog].
      * intro Hm. destruct (d_sig st HI Hm) as [A|A]; [left; assumption|right].
        apply (cl_witness_keep st _ CSig A); cbn; auto.
      * intros _ Hb. rewrite EB in Hb. contradiction.
    + apply dinv_take_head. assumption.
  - (* SessionDie *)
    dframe st HI. intros s0 Hs p Hp E. unfold updf. destruct (Nat.eqb_spec s0 s) as [->|?]; cbn; assumption.
  - (* AcceptErr *)
    destruct (loop (sess_of st s)) eqn:EL; try discriminate.
    cbn [step]. destruct (in_map (sess_of st s)); dframe st HI;
      intros s0 Hs p Hp E; unfold updf; destruct (Nat.eqb_spec s0 s) as [->|?]; cbn; try assumption;
      rewrite EL in E; destruct Hp; subst; discriminate.
  - (* Accept *)
    cbn [step]. destruct (backlog st) as [|w0 r] eqn:EB; [discriminate|].
    dframe st HI.
  - exact HI.
  - cbn [step]. apply dinv_close_wrapper. assumption.
  - (* CloseTaken *)
    cbn [step]. pose proof (dinv_close_wrapper st w HI) as HI1.
    apply (dinv_frame (close_wrapper st w)); auto.
  - (* LCall *)
    dframe st HI. intros k c Hk Hc E. rewrite updf_other by lia. assumption.
  - (* LStep *)
    rename H into Hk. cbn [step]. destruct (cl_of st k) eqn:EK.
    + (* CStart *)
      destruct (lmark st) eqn:ELM.
      * dframe st HI. intros k0 c Hk0 Hc E. unfold updf. destruct (Nat.eqb_spec k0 k) as [->|?]; [|assumption].
        rewrite EK in E. destruct Hc; subst; discriminate.
      * constructor; cbn [lmark closeCh backlog].
        -- intros _. right. exists k. split; [cbn; assumption|]. cbn. rewrite updf_same. reflexivity.
        -- intros Hc Hb. destruct (d_drain st HI Hc Hb) as [A|A]; [left|right].
           ++ apply (cl_witness_keep st _ CDrain A); cbn; auto. intros k0 Hk0 E. unfold updf.
              destruct (Nat.eqb_spec k0 k) as [->|?]; [congruence|assumption].
           ++ apply (gd_witness_keep st _ A); cbn; auto.
    + (* CSig *)
      constructor; cbn [lmark closeCh backlog].
      * intros _. left. reflexivity.
      * intros _ _. left. exists k. split; [cbn; assumption|]. cbn. rewrite updf_same. reflexivity.
    + (* CDrain *)
      destruct (backlog st) eqn:EB.
      * constructor; cbn [set_cl lmark closeCh backlog].
        -- intro Hm. destruct (d_sig st HI Hm) as [A|A]; [left; assumption|right].
           apply (cl_witness_keep st _ CSig A); cbn; auto. intros k0 Hk0 E. unfold updf.
           destruct (Nat.eqb_spec k0 k) as [->|?]; [congruence|assumption].
        -- intros _ Hb. rewrite EB in Hb. contradiction.
      * apply dinv_take_head. assumption.
    + (* CRel *)
      dframe st HI.
      * intros k0 c Hk0 Hc E. unfold updf. destruct (Nat.eqb_spec k0 k) as [->|?]; [|assumption].
        rewrite EK in E. destruct Hc; subst; discriminate.
      * intros s0 Hs p Hp E. unfold release1. destruct ((s0 <? nsess st)%nat && in_map (sess_of st s0)); cbn; assumption.
    + exact HI.
  - (* RawAccept *) dframe st HI.
  - (* HandshakeFail *) dframe st HI.
Qed.

Lemma dinv_run : forall evs st, DInv st -> DInv (run evs st).
Proof.
  induction evs as [|e r IH]; intros st HI; cbn; [assumption|]. apply IH. apply dinv_step. assumption.
Qed.

(* ---------------------------------------------------------------------------------------- *)
(* top-level statements                                                                       *)
(* ---------------------------------------------------------------------------------------- *)
Definition selecting_ok (st : state) : Prop :=
  forall s w, (s < nsess st)%nat -> loop (sess_of st s) = LSelecting w ->
              (w < nwr st)%nat /\ w_sess (wr st w) = s /\ ~ In w (places st).

Lemma once : forall c evs, let st := run evs (init c) in
  recv_log st ++ backlog st = enq_log st /\
  NoDup (places st) /\
  (forall w, In w (places st) -> (w < nwr st)%nat) /\
  selecting_ok st /\
  (forall w, (w < nwr st)%nat -> In w (places st) \/ loop (sess_of st (w_sess (wr st w))) = LSelecting w) /\
  (length (backlog st) <= cap st)%nat /\
  (forall s, (s < nsess st)%nat ->
     arrived (sess_of st s) = (inq (sess_of st s) + count (fun w => Nat.eqb (w_sess (wr st w)) s) (nwr st)
                               + refused (sess_of st s))%nat).
Proof.
  intros c evs st. pose proof (oinv_run evs (init c) (oinv_init c)) as HI. fold st in HI.
  split; [exact (o_log st HI)|].
  split; [apply NoDup_of_cnt; exact (o_occ st HI)|].
  split; [intros w Hw; apply (o_lt st HI); apply cnt_pos_In; assumption|].
  split.
  { intros s w Hs E. destruct (o_sel st HI s w Hs E) as [A [B C]]. repeat split; try assumption.
    intro Hin. apply cnt_pos_In in Hin. unfold occ in C. lia. }
  split.
  { intros w Hw. destruct (o_cov st HI w Hw) as [A|A]; [left|right; assumption].
    apply cnt_pos_In. unfold occ in A. lia. }
  split; [exact (o_cap st HI)|].
  intros s Hs. rewrite (o_arr st HI s Hs), (o_wc st HI s Hs). reflexivity.
Qed.

Lemma refcount : forall c evs, let st := run evs (init c) in
  panic st = false /\
  forall s, (s < nsess st)%nat ->
    0 <= refs (sess_of st s) /\
    refs (sess_of st s) = b2z (in_map (sess_of st s)) + Z.of_nat (open_w st s).
Proof.
  intros c evs st. pose proof (rinv_run evs (init c) (rinv_init c)) as HI. fold st in HI.
  split; [exact (r_panic st HI)|]. intros s Hs. split; [apply refs_nonneg; assumption|apply (r_refs st HI); assumption].
Qed.

Lemma nsess_take_head : forall st, nsess (take_head st) = nsess st.
Proof. intro st. unfold take_head. destruct (backlog st); reflexivity. Qed.
Lemma sess_take_head : forall st, sess_of (take_head st) = sess_of st.
Proof. intro st. unfold take_head. destruct (backlog st); reflexivity. Qed.
Lemma nsess_close_wrapper : forall st w, nsess (close_wrapper st w) = nsess st.
Proof. intros st w. unfold close_wrapper. destruct (w_closed (wr st w)); reflexivity. Qed.

Lemma nsess_mono : forall st e, (nsess st <= nsess (exec st e))%nat.
Proof.
  intros st e. unfold exec. destruct (enabled st e); [|lia].
  destruct e; cbn [step set_sess set_sessions set_hs nsess]; try lia.
  - destruct (in_map (sess_of st s)); cbn; lia.
  - destruct (loop (sess_of st s)); cbn; lia.
  - destruct (loop (sess_of st s)); cbn; lia.
  - destruct (backlog st) eqn:EB; cbn; [lia|]. rewrite nsess_take_head. lia.
  - destruct (in_map (sess_of st s)); cbn; lia.
  - destruct (backlog st); cbn; lia.
  - rewrite nsess_close_wrapper. lia.
  - rewrite nsess_close_wrapper. lia.
  - destruct (cl_of st k); cbn; try lia.
    + destruct (lmark st); cbn; lia.
    + destruct (backlog st) eqn:EB; cbn; [lia|]. rewrite nsess_take_head. lia.
Qed.

(* wg.Done() on a session record *)
Lemma wgz_done1 : forall x, (registered x = false -> refs x = 0) ->
  (wg_zero x = true -> wg_zero (done1 x) = true) /\
  (wg_zero x = false -> wg_zero (done1 x) = true -> refs (done1 x) = 0 /\ registered (done1 x) = true).
Proof.
  intros x Hx. unfold done1; cbn. split.
  - intros ->. reflexivity.
  - intros -> Hz. cbn in Hz. apply Z.eqb_eq in Hz. split; [assumption|].
    destruct (registered x) eqn:ER; [reflexivity|]. specialize (Hx eq_refl). lia.
Qed.

Definition wgz_rel (st st' : state) (s : nat) : Prop :=
  (wg_zero (sess_of st s) = true -> wg_zero (sess_of st' s) = true) /\
  (wg_zero (sess_of st s) = false -> wg_zero (sess_of st' s) = true ->
   refs (sess_of st' s) = 0 /\ registered (sess_of st' s) = true).

Lemma wgz_same : forall st st' s, wg_zero (sess_of st' s) = wg_zero (sess_of st s) -> wgz_rel st st' s.
Proof. intros st st' s H. unfold wgz_rel. rewrite H. split; [tauto|congruence]. Qed.

Lemma wgz_close_wrapper : forall st w s, RInv st -> (s < nsess st)%nat -> wgz_rel st (close_wrapper st w) s.
Proof.
  intros st w s HI Hs. unfold close_wrapper. destruct (w_closed (wr st w)) eqn:EC; [apply wgz_same; reflexivity|].
  unfold wgz_rel. cbn [sess_of]. unfold updf. destruct (Nat.eqb_spec s (w_sess (wr st w))) as [E|NE]; [|split; [tauto|congruence]].
  rewrite <- E. apply wgz_done1. intro ER. apply (r_unreg st HI s Hs ER).
Qed.

(* one step: wg_zero is monotone, and when it becomes true the counter is zero in the new state *)
Lemma wgz_step : forall st e s, RInv st -> (s < nsess st)%nat -> wgz_rel st (exec st e) s.
Proof.
  intros st e s HI Hs. unfold exec. destruct (enabled st e) eqn:En; [|apply wgz_same; reflexivity].
  assert (Hreg : forall k, (k < nsess st)%nat -> registered (sess_of st k) = false -> refs (sess_of st k) = 0).
  { intros k Hk ER. apply (r_unreg st HI k Hk ER). }
  destruct e; cbn [enabled] in En; bool_hyps; cbn [step set_sess set_sessions].
  - apply wgz_same. cbn. unfold updf. destruct (Nat.eqb_spec s (nsess st)); [lia|reflexivity].
  - apply wgz_same. cbn. unfold updf. destruct (Nat.eqb_spec s s0); subst; reflexivity.
  - destruct (in_map (sess_of st s0)); apply wgz_same; cbn; unfold updf; destruct (Nat.eqb_spec s s0); subst; reflexivity.
  - destruct (loop (sess_of st s0)); try (apply wgz_same; reflexivity).
    apply wgz_same. cbn. unfold updf. destruct (Nat.eqb_spec s s0); subst; reflexivity.
  - destruct (loop (sess_of st s0)); try (apply wgz_same; reflexivity).
    apply wgz_same. cbn. unfold updf. destruct (Nat.eqb_spec s s0); subst; reflexivity.
  - apply wgz_same. cbn. unfold updf. destruct (Nat.eqb_spec s s0); subst; reflexivity.
  - destruct (backlog st) eqn:EB.
    + apply wgz_same. cbn. unfold updf. destruct (Nat.eqb_spec s s0); subst; reflexivity.
    + apply wgz_same. rewrite sess_take_head. reflexivity.
  - apply wgz_same. cbn. unfold updf. destruct (Nat.eqb_spec s s0); subst; reflexivity.
  - destruct (in_map (sess_of st s0)) eqn:EM; cbn [set_sess set_sessions].
    + unfold wgz_rel, set_sess, set_sessions. cbn [sess_of]. unfold updf. destruct (Nat.eqb_spec s s0); [subst|split; [tauto|congruence]].
      cbn [wg_zero refs registered]. exact (wgz_done1 _ (Hreg s0 Hs)).
    + apply wgz_same. cbn. unfold updf. destruct (Nat.eqb_spec s s0); subst; reflexivity.
  - destruct (backlog st); apply wgz_same; reflexivity.
  - apply wgz_same; reflexivity.
  - apply wgz_close_wrapper; assumption.
  - pose proof (wgz_close_wrapper st w s HI Hs) as H. unfold wgz_rel in *. cbn [sess_of]. exact H.
  - apply wgz_same; reflexivity.
  - destruct (cl_of st k); try (apply wgz_same; reflexivity).
    + destruct (lmark st); apply wgz_same; reflexivity.
    + destruct (backlog st) eqn:EB; [apply wgz_same; reflexivity|].
      apply wgz_same. rewrite sess_take_head. reflexivity.
    + unfold wgz_rel. cbn [sess_of]. unfold release1. apply Nat.ltb_lt in Hs. rewrite Hs. apply Nat.ltb_lt in Hs. cbn [andb].
      destruct (in_map (sess_of st s)) eqn:EM; [|split; [tauto|congruence]].
      cbn [wg_zero refs registered]. exact (wgz_done1 _ (Hreg s Hs)).
  - apply wgz_same; reflexivity.
  - apply wgz_same; reflexivity.
Qed.

Lemma wgz_mono_run : forall evs st s, RInv st -> (s < nsess st)%nat ->
  wg_zero (sess_of st s) = true -> wg_zero (sess_of (run evs st) s) = true.
Proof.
  induction evs as [|e r IH]; intros st s HI Hs Hz; cbn; [assumption|].
  apply IH; [apply rinv_step; assumption|pose proof (nsess_mono st e); lia|].
  apply (wgz_step st e s HI Hs). assumption.
Qed.

Lemma new_session_not_zero : forall st e s, (nsess st <= s)%nat -> (s < nsess (exec st e))%nat ->
  wg_zero (sess_of (exec st e) s) = false.
Proof.
  intros st e s Hge Hs. unfold exec in *. destruct (enabled st e) eqn:En; [|lia].
  destruct e; cbn [step set_sess set_sessions set_hs nsess sess_of] in *; try lia.
  - assert (s = nsess st) by lia. subst s. rewrite updf_same. destruct (lmark st); reflexivity.
  - destruct (in_map (sess_of st s0)); cbn in Hs; lia.
  - destruct (loop (sess_of st s0)); cbn in Hs; lia.
  - destruct (loop (sess_of st s0)); cbn in Hs; lia.
  - destruct (backlog st) eqn:EB; cbn in Hs; [lia|]. rewrite nsess_take_head in Hs. lia.
  - destruct (in_map (sess_of st s0)); cbn in Hs; lia.
  - destruct (backlog st); cbn in Hs; lia.
  - rewrite nsess_close_wrapper in Hs. lia.
  - rewrite nsess_close_wrapper in Hs. lia.
  - destruct (cl_of st k); cbn in Hs; try lia.
    + destruct (lmark st); cbn in Hs; lia.
    + destruct (backlog st) eqn:EB; cbn in Hs; [lia|]. rewrite nsess_take_head in Hs. lia.
Qed.

Lemma refcount_closed_iff : forall c evs s, let st := run evs (init c) in
  (s < nsess st)%nat ->
  (wg_zero (sess_of st s) = true <->
   exists evs1 evs2, evs = evs1 ++ evs2 /\
     let st1 := run evs1 (init c) in
     (s < nsess st1)%nat /\ registered (sess_of st1 s) = true /\
     in_map (sess_of st1 s) = false /\ open_w st1 s = O).
Proof.
  intros c evs s st Hs. split.
  - subst st. revert Hs. induction evs as [|e evs IH] using rev_ind; intros Hs Hz.
    + cbn in Hs. lia.
    + rewrite run_app in Hs, Hz. cbn [run fold_left] in Hs, Hz.
      set (st0 := run evs (init c)) in *.
      pose proof (rinv_run evs (init c) (rinv_init c)) as HI0. fold st0 in HI0.
      destruct (Nat.lt_ge_cases s (nsess st0)) as [Hlt|Hge].
      * destruct (wg_zero (sess_of st0 s)) eqn:E0.
        -- destruct (IH Hlt eq_refl) as [e1 [e2 [Heq Hrest]]].
           exists e1, (e2 ++ [e]). split; [rewrite Heq, app_assoc; reflexivity|exact Hrest].
        -- destruct (wgz_step st0 e s HI0 Hlt) as [_ Hnew]. destruct (Hnew E0 Hz) as [Hr0 Hreg].
           exists (evs ++ [e]), []. split; [rewrite app_nil_r; reflexivity|].
           cbn zeta. rewrite run_app. cbn [run fold_left]. fold st0.
           pose proof (rinv_step st0 e HI0) as HI1.
           pose proof (r_refs _ HI1 s Hs) as Hrr. rewrite Hr0 in Hrr.
           split; [assumption|]. split; [assumption|].
           unfold b2z in Hrr. destruct (in_map (sess_of (exec st0 e) s)); split; try reflexivity; lia.
      * rewrite (new_session_not_zero st0 e s Hge Hs) in Hz. discriminate.
  - intros [e1 [e2 [Heq [H1 [H2 [H3 H4]]]]]]. subst st. rewrite Heq, run_app.
    pose proof (rinv_run e1 (init c) (rinv_init c)) as HI1.
    apply wgz_mono_run; [assumption|assumption|].
    apply (r_zero _ HI1 s H1 H2).
    rewrite (r_refs _ HI1 s H1), H3, H4. reflexivity.
Qed.

(* every wrapper of the session closed => the session ends once the listener released its reference *)
Lemma sessions_end_if_all_closed : forall c evs, let st := run evs (init c) in
  lreleased st = true ->
  forall s, (s < nsess st)%nat ->
    (forall w, (w < nwr st)%nat -> w_sess (wr st w) = s -> w_closed (wr st w) = true) ->
    sclosed (sess_of st s) = true /\
    (registered (sess_of st s) = true -> wg_zero (sess_of st s) = true /\ refs (sess_of st s) = 0).
Proof.
  intros c evs st Hrel s Hs Hall.
  pose proof (rinv_run evs (init c) (rinv_init c)) as HI. fold st in HI.
  destruct (registered (sess_of st s)) eqn:ER.
  - destruct (r_rel st HI Hrel) as [_ Hnm].
    assert (Ho : open_w st s = O).
    { unfold open_w. apply count_false. intros w Hw.
      destruct (Nat.eqb_spec (w_sess (wr st w)) s) as [E|NE]; [|reflexivity].
      rewrite (Hall w Hw E). reflexivity. }
    assert (Hr : refs (sess_of st s) = 0).
    { rewrite (r_refs st HI s Hs), (Hnm s Hs), Ho. reflexivity. }
    pose proof (r_zero st HI s Hs ER Hr) as Hz.
    split; [apply (r_zc st HI s Hs Hz)|]. intros _. split; assumption.
  - split; [apply (r_unreg st HI s Hs ER)|]. discriminate.
Qed.

(* "closing the listener lets sessions end once their connections are closed": at rest, after a
   listener.Close has run, a session whose Accept-ed conns are all closed is closed *)
Definition sessions_end_full : Prop :=
  forall c evs, let st := run evs (init c) in
    lreleased st = true -> at_rest st = true ->
    forall s, (s < nsess st)%nat ->
      (forall w, In w (delivered st) -> w_sess (wr st w) = s -> w_closed (wr st w) = true) ->
      sclosed (sess_of st s) = true.

Lemma sessions_end : sessions_end_full.
Proof.
  intros c evs st Hrel Hrest s Hs Hdel.
  pose proof (rinv_run evs (init c) (rinv_init c)) as HR. fold st in HR.
  pose proof (oinv_run evs (init c) (oinv_init c)) as HO. fold st in HO.
  pose proof (dinv_run evs (init c) (dinv_init c)) as HD. fold st in HD.
  unfold at_rest in Hrest. apply andb_prop in Hrest. destruct Hrest as [Hrest Hcl].
  apply andb_prop in Hrest. destruct Hrest as [Hcs Hls].
  assert (Ecl : closing st = []) by (destruct (closing st); [reflexivity|discriminate]).
  assert (Hk : forall k, (k < ncl st)%nat -> cl_of st k = CDone).
  { intros k Hk. rewrite forallb_forall in Hcs. specialize (Hcs k). rewrite in_seq in Hcs.
    specialize (Hcs ltac:(lia)). destruct (cl_of st k); try discriminate. reflexivity. }
  assert (Hl : forall s0, (s0 < nsess st)%nat -> loop (sess_of st s0) = LAccepting \/ loop (sess_of st s0) = LExited).
  { intros s0 Hs0. rewrite forallb_forall in Hls. specialize (Hls s0). rewrite in_seq in Hls.
    specialize (Hls ltac:(lia)). destruct (loop (sess_of st s0)); try discriminate; auto. }
  destruct (r_rel st HR Hrel) as [Hm _].
  assert (Hc : closeCh st = true).
  { destruct (d_sig st HD Hm) as [A|[k [Hk1 Hk2]]]; [assumption|]. rewrite (Hk k Hk1) in Hk2. discriminate. }
  assert (Eb : backlog st = []).
  { destruct (backlog st) eqn:EB; [reflexivity|]. exfalso.
    assert (Hne : backlog st <> []) by (rewrite EB; discriminate).
    destruct (d_drain st HD Hc Hne) as [[k [Hk1 Hk2]]|[s0 [Hs0 E]]].
    - rewrite (Hk k Hk1) in Hk2. discriminate.
    - destruct (Hl s0 Hs0) as [A|A]; rewrite A in E; destruct E; discriminate. }
  apply (sessions_end_if_all_closed c evs Hrel s Hs).
  fold st. intros w Hw Ews.
  destruct (o_cov st HO w Hw) as [A|A].
  - assert (Hin : In w (places st)) by (apply cnt_pos_In; unfold occ in A; lia).
    unfold places in Hin. rewrite Eb, Ecl in Hin. cbn in Hin. apply in_app_or in Hin. destruct Hin as [Hin|Hin].
    + apply Hdel; assumption.
    + apply (o_acl st HO). assumption.
  - rewrite Ews in A. destruct (Hl s Hs) as [B|B]; rewrite B in A; discriminate.
Qed.

(* sync.WaitGroup contract: "if a WaitGroup is reused, new Add calls must happen after all previous Wait
   calls have returned".  A wg.Add(1) on a counter that has already reached zero would run concurrently
   with the `wg.Wait(); session.Close()` goroutine that the zero released (the runtime then panics
   "WaitGroup is reused before previous Wait has returned").  The only Add after registration is the one
   in newStreamWrapper, performed by Wrap when the session is still in l.sessions. *)
Definition add_from_zero (st : state) (e : event) : bool :=
  match e with
  | Wrap s => enabled st e && in_map (sess_of st s) && (refs (sess_of st s) =? 0)
  | _ => false
  end.

Definition no_waitgroup_reuse_full : Prop := forall c evs e, add_from_zero (run evs (init c)) e = false.

(* the history that produced an Add from zero before the repair: now the stream is closed unwrapped *)
Definition witness_reuse : list event := [RawAccept; RawAccept; SessionUp; LCall; LStep 0; LStep 0; LStep 0; LStep 0; StreamIn 0; Wrap 0].

Lemma no_waitgroup_reuse : no_waitgroup_reuse_full.
Proof.
  intros c evs e. pose proof (rinv_run evs (init c) (rinv_init c)) as HI.
  set (st := run evs (init c)) in *. destruct e; try reflexivity.
  unfold add_from_zero. destruct (enabled st (Wrap s)) eqn:En; [|reflexivity].
  destruct (in_map (sess_of st s)) eqn:EM; [|reflexivity]. cbn [andb].
  cbn [enabled] in En. apply andb_prop in En. destruct En as [En _]. apply andb_prop in En. destruct En as [Hs _].
  apply Nat.ltb_lt in Hs. pose proof (r_refs st HI s Hs) as E. rewrite EM in E. unfold b2z in E.
  apply Z.eqb_neq. lia.
Qed.

(* ---------------------------------------------------------------------------------------- *)
(* Read / Write                                                                               *)
(* ---------------------------------------------------------------------------------------- *)
Lemma lb_loop_spec : forall sl need,
  fst (lb_loop sl need) = firstn need (concat sl) /\ concat (snd (lb_loop sl need)) = skipn need (concat sl).
Proof.
  induction sl as [|f rest IH]; intros need.
  - destruct need; cbn; split; reflexivity.
  - destruct need as [|n]; [cbn; split; reflexivity|].
    cbn [lb_loop concat]. destruct (Nat.leb_spec (S n) (length f)) as [Hle|Hgt].
    + cbn [fst snd concat]. rewrite firstn_app, skipn_app.
      replace (S n - length f)%nat with O by lia. cbn [firstn skipn]. rewrite app_nil_r. split; reflexivity.
    + destruct (lb_loop rest (S n - length f)) as [b sl'] eqn:E. cbn [fst snd].
      specialize (IH (S n - length f)%nat). rewrite E in IH. cbn [fst snd] in IH. destruct IH as [IH1 IH2].
      rewrite firstn_app, skipn_app. rewrite firstn_all2 by lia. rewrite skipn_all2 by lia.
      rewrite IH1, IH2. split; reflexivity.
Qed.

(* Read(p), p non-empty, data buffered: returns exactly the next min(len p, available) bytes *)
Lemma read_contract : forall b lenp m,
  blen b = total (slices b) -> (0 < lenp)%nat -> (1 <= blen b)%nat ->
  let avail := concat (slices b) in
  let '(out, err, b') := lb_read b lenp m in
  err = None /\ out = firstn lenp avail /\ length out = Nat.min lenp (length avail) /\
  (1 <= length out <= lenp)%nat /\
  avail = out ++ concat (slices b') /\ blen b' = total (slices b').
Proof.
  intros b lenp m Hlen Hp Hav avail. unfold lb_read. destruct lenp as [|n]; [lia|].
  destruct (Nat.ltb_spec (blen b) 1) as [Hlt|_]; [lia|].
  destruct (lb_loop (slices b) (S n)) as [out sl'] eqn:E.
  pose proof (lb_loop_spec (slices b) (S n)) as [H1 H2]. rewrite E in H1, H2. cbn [fst snd] in H1, H2.
  fold avail in H1, H2. unfold total in *. fold avail in Hlen.
  assert (Hlo : length out = Nat.min (S n) (length avail)) by (rewrite H1; apply firstn_length).
  split; [reflexivity|]. split; [assumption|]. split; [assumption|]. split; [lia|].
  cbn [slices blen]. split.
  - rewrite H1, H2. symmetry. apply firstn_skipn.
  - rewrite H2, skipn_length. lia.
Qed.

(* Read when the buffer is empty: the error of readMore(1) with no byte, or - if readMore succeeded,
   which by C11_enough means at least one byte was moved in - the contract above on the moved data *)
Lemma read_contract_wait : forall b lenp m,
  blen b = total (slices b) -> (0 < lenp)%nat -> blen b = O ->
  match m with
  | MoreErr e => lb_read b lenp m = ([], Some e, b)
  | MoreOk moved =>
    (1 <= total moved)%nat ->
    let avail := concat (slices b ++ moved) in
    let '(out, err, b') := lb_read b lenp m in
    err = None /\ out = firstn lenp avail /\ (1 <= length out <= lenp)%nat /\
    avail = out ++ concat (slices b') /\ blen b' = total (slices b')
  end.
Proof.
  intros b lenp m Hlen Hp Hz. destruct m as [e|moved].
  - unfold lb_read. destruct lenp; [lia|]. rewrite Hz. cbn. reflexivity.
  - intros Hm avail.
    pose proof (read_contract {| slices := slices b ++ moved; blen := (blen b + total moved)%nat |} lenp (MoreErr RTimeout)) as RC.
    cbn [slices blen] in RC.
    assert (Ht : (blen b + total moved)%nat = total (slices b ++ moved)).
    { unfold total in *. rewrite concat_app, app_length. lia. }
    specialize (RC Ht Hp ltac:(lia)). cbn zeta in RC.
    unfold lb_read in *. destruct lenp as [|n]; [lia|]. rewrite Hz. cbn [Nat.ltb Nat.leb].
    cbn [slices blen] in *. rewrite Hz in *. cbn [Nat.add] in *.
    destruct (Nat.ltb_spec (total moved) 1) as [Hlt|_]; [lia|].
    destruct (lb_loop (slices b ++ moved) (S n)) as [out sl'] eqn:E.
    destruct RC as [R1 [R2 [R3 [R4 [R5 R6]]]]]. repeat split; try assumption; lia.
Qed.

Lemma read_zero : forall b m, lb_read b 0 m = ([], None, b).
Proof. reflexivity. Qed.

Lemma write_contract : forall lenp wb fl,
  let '(n, err) := lb_write lenp wb fl in
  (n = lenp \/ err = true) /\ (err = false -> n = lenp) /\ (n <= lenp)%nat.
Proof.
  intros lenp wb fl. unfold lb_write. destruct lenp; [cbn; repeat split; auto|].
  destruct wb; [cbn; repeat split; auto; try discriminate; lia|]. repeat split; auto.
Qed.

Record PInv (p : pipe) : Prop := {
  p_ok : io_ok p = true;
  p_bytes : readout p ++ concat (slices (pbuf p)) = written p;
  p_len : blen (pbuf p) = total (slices (pbuf p)) }.

Lemma pinv_step : forall p o, PInv p -> PInv (io_step p o).
Proof.
  intros p o HI. destruct o as [chunks ferr|lenp]; cbn [io_step].
  - unfold lb_write. destruct (total chunks) eqn:ET.
    + (* empty write: (0, nil) *)
      constructor; cbn.
      * rewrite (p_ok p HI). reflexivity.
      * rewrite concat_app, app_assoc, (p_bytes p HI). reflexivity.
      * unfold total in *. rewrite concat_app, app_length, (p_len p HI). unfold total. lia.
    + destruct ferr; [exact HI|]. constructor; cbn.
      * rewrite (p_ok p HI), Nat.eqb_refl. reflexivity.
      * rewrite concat_app, app_assoc, (p_bytes p HI). reflexivity.
      * unfold total in *. rewrite concat_app, app_length, (p_len p HI). unfold total. lia.
  - destruct (Nat.ltb_spec (blen (pbuf p)) 1) as [Hlt|Hge]; [exact HI|].
    destruct lenp as [|n].
    + rewrite read_zero. constructor; cbn.
      * rewrite (p_ok p HI). reflexivity.
      * rewrite app_nil_r. exact (p_bytes p HI).
      * exact (p_len p HI).
    + pose proof (read_contract (pbuf p) (S n) (MoreErr RTimeout) (p_len p HI) ltac:(lia) Hge) as RC. cbn zeta in RC.
      destruct (lb_read (pbuf p) (S n) (MoreErr RTimeout)) as [[out err] b'].
      destruct RC as [R1 [R2 [R3 [R4 [R5 R6]]]]]. subst err.
      constructor; cbn [io_ok readout pbuf written].
      * rewrite (p_ok p HI).
        replace (1 <=? length out)%nat with true by (symmetry; apply Nat.leb_le; lia).
        replace (length out <=? S n)%nat with true by (symmetry; apply Nat.leb_le; lia). reflexivity.
      * rewrite <- app_assoc, <- R5. exact (p_bytes p HI).
      * assumption.
Qed.

Lemma pinv_run : forall ops, PInv (io_run ops).
Proof.
  intro ops. unfold io_run.
  assert (H0 : PInv pipe0) by (constructor; reflexivity).
  revert H0. generalize pipe0. induction ops as [|o r IH]; intros p HI; cbn; [assumption|].
  apply IH. apply pinv_step. assumption.
Qed.

Lemma io_stream : forall ops, let p := io_run ops in
  io_ok p = true /\ readout p ++ concat (slices (pbuf p)) = written p /\ blen (pbuf p) = total (slices (pbuf p)).
Proof. intro ops. destruct (pinv_run ops) as [A B C]. auto. Qed.

(* ---------------------------------------------------------------------------------------- *)
(* full duplex: Read and Write of one conn interleaved                                        *)
(* ---------------------------------------------------------------------------------------- *)
Record DxInv (d : duplex) : Prop := {
  x_ok : dx_ok d = true;
  x_recv : dx_got d ++ concat (slices (dx_recv d)) = dx_arrived d;
  x_len : blen (dx_recv d) = total (slices (dx_recv d));
  x_send : dx_wire d ++ dx_sendbuf d = dx_written d ++ match dx_wpc d with Some p => p | None => [] end;
  x_idle : dx_wpc d = None -> dx_sendbuf d = [] }.

Lemma dxinv_init : DxInv dx0.
Proof. constructor; cbn; auto. Qed.

Lemma dxinv_step : forall d e, DxInv d -> DxInv (dx_step false d e).
Proof.
  intros d e HI. destruct e as [chunks|lenp|p|]; cbn [dx_step].
  - constructor; cbn [dx_ok dx_got dx_recv dx_arrived dx_wire dx_sendbuf dx_written dx_wpc slices blen];
      try (exact (x_ok d HI)); try (exact (x_send d HI)); try (exact (x_idle d HI)).
    + rewrite concat_app, app_assoc, (x_recv d HI). reflexivity.
    + unfold total in *. rewrite concat_app, app_length, (x_len d HI). unfold total. lia.
  - destruct ((blen (dx_recv d) <? 1)%nat || Nat.eqb lenp 0) eqn:EG; [exact HI|].
    apply orb_false_elim in EG. destruct EG as [E1 E2]. apply Nat.ltb_ge in E1. apply Nat.eqb_neq in E2.
    pose proof (read_contract (dx_recv d) lenp (MoreErr RTimeout) (x_len d HI) ltac:(lia) E1) as RC. cbn zeta in RC.
    destruct (lb_read (dx_recv d) lenp (MoreErr RTimeout)) as [[out err] b'].
    destruct RC as [R1 [R2 [R3 [R4 [R5 R6]]]]]. subst err. cbn [andb].
    constructor; cbn [dx_ok dx_got dx_recv dx_arrived dx_wire dx_sendbuf dx_written dx_wpc];
      try (exact (x_send d HI)); try (exact (x_idle d HI)); try assumption.
    + rewrite (x_ok d HI). cbn [andb].
      replace (1 <=? length out)%nat with true by (symmetry; apply Nat.leb_le; lia).
      replace (length out <=? lenp)%nat with true by (symmetry; apply Nat.leb_le; lia). reflexivity.
    + rewrite <- app_assoc, <- R5. exact (x_recv d HI).
  - destruct (dx_wpc d) eqn:EW; [exact HI|]. destruct p as [|b p]; [exact HI|].
    constructor; cbn [dx_ok dx_got dx_recv dx_arrived dx_wire dx_sendbuf dx_written dx_wpc];
      try (exact (x_ok d HI)); try (exact (x_recv d HI)); try (exact (x_len d HI)).
    + pose proof (x_send d HI) as E. rewrite EW, app_nil_r in E. rewrite app_assoc, E. reflexivity.
    + discriminate.
  - destruct (dx_wpc d) eqn:EW; [|exact HI].
    constructor; cbn [dx_ok dx_got dx_recv dx_arrived dx_wire dx_sendbuf dx_written dx_wpc];
      try (exact (x_ok d HI)); try (exact (x_recv d HI)); try (exact (x_len d HI)).
    + rewrite !app_nil_r. pose proof (x_send d HI) as E. rewrite EW in E. exact E.
    + reflexivity.
Qed.

Lemma dxinv_run : forall evs, DxInv (dx_run false evs).
Proof.
  intro evs. unfold dx_run. assert (H0 := dxinv_init). revert H0. generalize dx0.
  induction evs as [|e r IH]; intros d HI; cbn; [assumption|]. apply IH. apply dxinv_step. assumption.
Qed.

(* the frame property: Read does not touch the send side, Write does not touch the receive side *)
Lemma dx_read_frame : forall d lenp, let d' := dx_step false d (DxRead lenp) in
  dx_sendbuf d' = dx_sendbuf d /\ dx_wire d' = dx_wire d /\ dx_wpc d' = dx_wpc d /\ dx_written d' = dx_written d.
Proof.
  intros d lenp. cbn [dx_step]. destruct ((blen (dx_recv d) <? 1)%nat || Nat.eqb lenp 0); [auto|].
  destruct (lb_read (dx_recv d) lenp (MoreErr RTimeout)) as [[out err] b']. cbn. auto.
Qed.

Lemma dx_write_frame : forall d e, (exists p, e = DxWriteBytes p) \/ e = DxFlush -> let d' := dx_step false d e in
  dx_recv d' = dx_recv d /\ dx_got d' = dx_got d /\ dx_arrived d' = dx_arrived d /\ dx_ok d' = dx_ok d.
Proof.
  intros d e [[p ->]| ->]; cbn [dx_step].
  - destruct (dx_wpc d); [auto|]. destruct p; cbn; auto.
  - destruct (dx_wpc d); cbn; auto.
Qed.

Lemma io_duplex : forall evs, let d := dx_run false evs in
  dx_ok d = true /\
  dx_got d ++ concat (slices (dx_recv d)) = dx_arrived d /\
  dx_wire d ++ dx_sendbuf d = dx_written d ++ match dx_wpc d with Some p => p | None => [] end /\
  (dx_wpc d = None -> dx_wire d = dx_written d).
Proof.
  intros evs d. destruct (dxinv_run evs) as [A B C D E]. fold d in A, B, C, D, E.
  repeat split; try assumption. intro H. pose proof (E H) as Es. rewrite H, Es, !app_nil_r in D. exact D.
Qed.
