(* Proofs about Model/NetAdapter.v: reference-count invariant, exactly-once delivery invariant,
   "sessions end" (refuted in full, proved under the delivery hypothesis), the io.Reader/io.Writer
   contract of linkedBuffer.read / copyWriteAndFlush as a refinement to a byte queue. *)
From Coq Require Import List ZArith Lia Bool Arith Permutation.
From Shm Require Import Model.NetAdapter.
Import ListNotations.
Open Scope Z_scope.

(* ---------------------------------------------------------------------------------------- *)
(* count                                                                                      *)
(* ---------------------------------------------------------------------------------------- *)
Lemma count_ext : forall n f g, (forall w, (w < n)%nat -> f w = g w) -> count f n = count g n.
Proof.
  induction n as [|n IH]; intros f g H; cbn [count]; [reflexivity|].
  rewrite (H n) by lia. rewrite (IH f g); [reflexivity|]. intros; apply H; lia.
Qed.

Lemma count_false : forall n f, (forall w, (w < n)%nat -> f w = false) -> count f n = O.
Proof.
  induction n as [|n IH]; intros f H; cbn [count]; [reflexivity|].
  rewrite (H n) by lia. rewrite IH; [reflexivity|]. intros; apply H; lia.
Qed.

Lemma count_flip : forall n f g w, (w < n)%nat -> f w = true -> g w = false ->
  (forall k, k <> w -> g k = f k) -> S (count g n) = count f n.
Proof.
  induction n as [|n IH]; intros f g w Hw Hf Hg Ho; [lia|].
  cbn [count]. destruct (Nat.eq_dec w n) as [->|Hne].
  - rewrite Hf, Hg. rewrite (count_ext n g f); [lia|]. intros k Hk. apply Ho. lia.
  - rewrite (Ho n) by lia. rewrite <- (IH f g w); try assumption; lia.
Qed.

Lemma count_zero_all : forall n f, count f n = O -> forall w, (w < n)%nat -> f w = false.
Proof.
  induction n as [|n IH]; intros f H w Hw; [lia|].
  cbn [count] in H. destruct (f n) eqn:E; [lia|].
  destruct (Nat.eq_dec w n) as [->|Hne]; [assumption|]. apply IH; [lia|lia].
Qed.

(* ---------------------------------------------------------------------------------------- *)
(* the reference-count invariant                                                              *)
(* ---------------------------------------------------------------------------------------- *)
Record RInv (st : state) : Prop := {
  r_panic : panic st = false;
  r_refs : forall s, (s < nsess st)%nat ->
           refs (sess_of st s) = b2z (in_map (sess_of st s)) + Z.of_nat (open_w st s);
  r_wsess : forall w, (w < nwr st)%nat -> (w_sess (wr st w) < nsess st)%nat;
  r_zero : forall s, (s < nsess st)%nat -> registered (sess_of st s) = true ->
           refs (sess_of st s) = 0 -> wg_zero (sess_of st s) = true;
  r_zc : forall s, (s < nsess st)%nat -> wg_zero (sess_of st s) = true -> sclosed (sess_of st s) = true;
  r_unreg : forall s, (s < nsess st)%nat -> registered (sess_of st s) = false ->
            sclosed (sess_of st s) = true /\ in_map (sess_of st s) = false /\ loop (sess_of st s) = LExited /\ refs (sess_of st s) = 0;
  r_rel : lreleased st = true -> lmark st = true /\ forall s, (s < nsess st)%nat -> in_map (sess_of st s) = false;
  r_deliv : forall w, In w (delivered st) -> (w < nwr st)%nat;
  r_bl : forall w, In w (backlog st) -> (w < nwr st)%nat;
  r_sel : forall s w, (s < nsess st)%nat -> loop (sess_of st s) = LSelecting w -> (w < nwr st)%nat }.

Lemma rinv_init : forall c, RInv (init c).
Proof.
  intro c. constructor; cbn; try (intros; lia); try reflexivity; try (intros; contradiction); try discriminate.
Qed.

Lemma mem_In : forall w l, mem w l = true -> In w l.
Proof.
  intros w l H. unfold mem in H. apply existsb_exists in H. destruct H as [x [Hin Hx]].
  apply Nat.eqb_eq in Hx. subst. assumption.
Qed.

Lemma In_mem : forall w l, In w l -> mem w l = true.
Proof.
  intros w l H. unfold mem. apply existsb_exists. exists w. split; [assumption|apply Nat.eqb_refl].
Qed.

Lemma refs_nonneg : forall st s, RInv st -> (s < nsess st)%nat -> 0 <= refs (sess_of st s).
Proof. intros st s HI Hs. rewrite (r_refs st HI s Hs). unfold b2z. destruct (in_map _); lia. Qed.

Ltac bool_hyps :=
  repeat match goal with
         | H : _ && _ = true |- _ => apply andb_prop in H; destruct H
         | H : (_ <? _)%nat = true |- _ => apply Nat.ltb_lt in H
         | H : negb _ = true |- _ => apply negb_true_iff in H
         end.

Local Arguments open_w : simpl never.

Lemma updf_same : forall A (f : nat -> A) k v, updf f k v k = v.
Proof. intros. unfold updf. rewrite Nat.eqb_refl. reflexivity. Qed.
Lemma updf_other : forall A (f : nat -> A) k v i, i <> k -> updf f k v i = f i.
Proof. intros. unfold updf. destruct (Nat.eqb_spec i k); [contradiction|reflexivity]. Qed.

Ltac updf_cases :=
  unfold updf;
  match goal with |- context [Nat.eqb ?a ?b] => destruct (Nat.eqb_spec a b) as [?|?]; subst; cbn end.

Lemma rinv_step : forall st e, RInv st -> RInv (exec st e).
Proof.
  intros st e HI. unfold exec. destruct (enabled st e) eqn:En; [|exact HI].
  pose proof (r_panic st HI) as Hp.
  destruct e; cbn [enabled] in En; bool_hyps.
  - (* SessionUp *)
    assert (Hopen : open_w st (nsess st) = O).
    { unfold open_w. apply count_false. intros w Hw. pose proof (r_wsess st HI w Hw) as Hlt.
      destruct (Nat.eqb_spec (w_sess (wr st w)) (nsess st)); [lia|reflexivity]. }
    constructor; cbn [step nsess sess_of nwr wr panic lreleased lmark delivered backlog]; try exact Hp;
      try (exact (r_deliv st HI)); try (exact (r_bl st HI)).
    + intros s Hs. change (open_w _ s) with (open_w st s). updf_cases.
      * rewrite Hopen. destruct (lmark st); reflexivity.
      * apply (r_refs st HI); lia.
    + intros w Hw. pose proof (r_wsess st HI w Hw). lia.
    + intros s Hs. updf_cases.
      * destruct (lmark st); cbn; intros; try discriminate; lia.
      * apply (r_zero st HI); lia.
    + intros s Hs. updf_cases.
      * destruct (lmark st); cbn; intros; try discriminate.
      * apply (r_zc st HI); lia.
    + intros s Hs. updf_cases.
      * destruct (lmark st); cbn; intros; try discriminate; repeat split; reflexivity.
      * apply (r_unreg st HI); lia.
    + intro Hr. destruct (r_rel st HI Hr) as [Hm Hall]. split; [assumption|].
      intros s Hs. updf_cases.
      * rewrite Hm. reflexivity.
      * apply Hall; lia.
    + intros s w Hs. updf_cases.
      * destruct (lmark st); cbn; discriminate.
      * apply (r_sel st HI); lia.
  - (* StreamIn *)
    constructor; cbn [step set_sess nsess sess_of nwr wr panic lreleased lmark delivered backlog];
      try (rewrite Hp; reflexivity); try (exact (r_deliv st HI)); try (exact (r_bl st HI)); try (exact (r_wsess st HI)).
    + intros s0 Hs. change (open_w _ s0) with (open_w st s0). updf_cases; apply (r_refs st HI); assumption.
    + intros s0 Hs. updf_cases; apply (r_zero st HI); assumption.
    + intros s0 Hs. updf_cases; apply (r_zc st HI); assumption.
    + intros s0 Hs. updf_cases; apply (r_unreg st HI); assumption.
    + intro Hr. destruct (r_rel st HI Hr) as [Hm Hall]. split; [assumption|].
      intros s0 Hs. updf_cases; apply Hall; assumption.
    + intros s0 w Hs. updf_cases; apply (r_sel st HI); assumption.
  - (* Wrap *)
    rename H into Hs.
    constructor; cbn [step nsess sess_of nwr wr panic lreleased lmark delivered backlog]; try exact Hp.
    + intros s0 Hs0. unfold open_w; cbn [nwr wr count]. rewrite !updf_same. cbn [w_sess w_closed negb].
      rewrite andb_true_r.
      assert (Hc : count (fun w => Nat.eqb (w_sess (updf (wr st) (nwr st) {| w_sess := s; w_ord := wrapped (sess_of st s); w_closed := false |} w)) s0
                                   && negb (w_closed (updf (wr st) (nwr st) {| w_sess := s; w_ord := wrapped (sess_of st s); w_closed := false |} w))) (nwr st)
                   = open_w st s0).
      { unfold open_w. apply count_ext. intros w Hw. unfold updf. destruct (Nat.eqb_spec w (nwr st)); [lia|reflexivity]. }
      rewrite Hc. updf_cases.
      * rewrite Nat.eqb_refl. rewrite (r_refs st HI _ Hs0). lia.
      * destruct (Nat.eqb_spec s s0); [congruence|]. rewrite (r_refs st HI _ Hs0). lia.
    + intros w Hw. unfold updf. destruct (Nat.eqb_spec w (nwr st)); cbn; [assumption|]. apply (r_wsess st HI); lia.
    + intros s0 Hs0. updf_cases.
      * intros _ Hz. pose proof (refs_nonneg st _ HI Hs0). lia.
      * apply (r_zero st HI); assumption.
    + intros s0 Hs0. updf_cases; apply (r_zc st HI); assumption.
    + intros s0 Hs0. updf_cases; [|apply (r_unreg st HI); assumption]. intro Hr. destruct (r_unreg st HI _ Hs0 Hr) as [_ [_ [Hl _]]]. rewrite Hl in H1. discriminate.
    + intro Hr. destruct (r_rel st HI Hr) as [Hm Hall]. split; [assumption|].
      intros s0 Hs0. updf_cases; apply Hall; assumption.
    + intros w Hw. pose proof (r_deliv st HI w Hw). lia.
    + intros w Hw. pose proof (r_bl st HI w Hw). lia.
    + intros s0 w Hs0. updf_cases.
      * intro E; inversion E; lia.
      * intro E. pose proof (r_sel st HI s0 w Hs0 E). lia.
  - (* Enqueue *)
    rename H into Hs. cbn [step]. destruct (loop (sess_of st s)) as [|w0|] eqn:EL; try discriminate.
    constructor; cbn [nsess sess_of nwr wr panic lreleased lmark delivered backlog]; try exact Hp;
      try (exact (r_deliv st HI)); try (exact (r_wsess st HI)).
    + intros s0 Hs0. change (open_w _ s0) with (open_w st s0). updf_cases; apply (r_refs st HI); assumption.
    + intros s0 Hs0. updf_cases; apply (r_zero st HI); assumption.
    + intros s0 Hs0. updf_cases; apply (r_zc st HI); assumption.
    + intros s0 Hs0. updf_cases; [|apply (r_unreg st HI); assumption]. intro Hr. destruct (r_unreg st HI _ Hs0 Hr) as [_ [_ [Hl _]]]. congruence.
    + intro Hr. destruct (r_rel st HI Hr) as [Hm Hall]. split; [assumption|].
      intros s0 Hs0. updf_cases; apply Hall; assumption.
    + intros w Hw. apply in_app_or in Hw. destruct Hw as [Hw|[<-|[]]]; [apply (r_bl st HI); assumption|].
      apply (r_sel st HI s w0 Hs EL).
    + intros s0 w Hs0. updf_cases; [discriminate|]. apply (r_sel st HI); assumption.
  - (* Lose *)
    rename H into Hs. cbn [step]. destruct (loop (sess_of st s)) as [|w0|] eqn:EL; try discriminate.
    constructor; cbn [nsess sess_of nwr wr panic lreleased lmark delivered backlog]; try exact Hp;
      try (exact (r_deliv st HI)); try (exact (r_bl st HI)); try (exact (r_wsess st HI)).
    + intros s0 Hs0. change (open_w _ s0) with (open_w st s0). updf_cases; apply (r_refs st HI); assumption.
    + intros s0 Hs0. updf_cases; apply (r_zero st HI); assumption.
    + intros s0 Hs0. updf_cases; apply (r_zc st HI); assumption.
    + intros s0 Hs0. updf_cases; [|apply (r_unreg st HI); assumption]. intro Hr. destruct (r_unreg st HI _ Hs0 Hr) as [_ [_ [Hl _]]]. congruence.
    + intro Hr. destruct (r_rel st HI Hr) as [Hm Hall]. split; [assumption|].
      intros s0 Hs0. updf_cases; apply Hall; assumption.
    + intros s0 w Hs0. updf_cases; [discriminate|]. apply (r_sel st HI); assumption.
  - (* SessionDie *)
    constructor; cbn [step set_sess nsess sess_of nwr wr panic lreleased lmark delivered backlog];
      try (rewrite Hp; reflexivity); try (exact (r_deliv st HI)); try (exact (r_bl st HI)); try (exact (r_wsess st HI)).
    + intros s0 Hs. change (open_w _ s0) with (open_w st s0). updf_cases; apply (r_refs st HI); assumption.
    + intros s0 Hs. updf_cases; apply (r_zero st HI); assumption.
    + intros s0 Hs. updf_cases; [reflexivity|]. apply (r_zc st HI); assumption.
    + intros s0 Hs. updf_cases; [|apply (r_unreg st HI); assumption].
      intro Hr. split; [reflexivity|]. apply (r_unreg st HI _ Hs Hr).
    + intro Hr. destruct (r_rel st HI Hr) as [Hm Hall]. split; [assumption|].
      intros s0 Hs0. updf_cases; apply Hall; assumption.
    + intros s0 w Hs0. updf_cases; apply (r_sel st HI); assumption.
  - (* AcceptErr *)
    rename H into Hs. cbn [step]. destruct (in_map (sess_of st s)) eqn:EM.
    + assert (Hge : 1 <= refs (sess_of st s)).
      { rewrite (r_refs st HI s Hs). rewrite EM. unfold b2z. lia. }
      constructor; cbn [set_sess nsess sess_of nwr wr panic lreleased lmark delivered backlog done1 refs in_map registered sclosed wg_zero loop];
        try (exact (r_deliv st HI)); try (exact (r_bl st HI)); try (exact (r_wsess st HI)).
      * rewrite Hp. unfold done_panics. cbn. apply Z.ltb_ge. lia.
      * intros s0 Hs0. change (open_w _ s0) with (open_w st s0). updf_cases.
        -- rewrite (r_refs st HI _ Hs0). rewrite EM. unfold b2z. lia.
        -- apply (r_refs st HI); assumption.
      * intros s0 Hs0. updf_cases.
        -- intros _ Hz. rewrite Hz. cbn. apply orb_true_r.
        -- apply (r_zero st HI); assumption.
      * intros s0 Hs0. updf_cases.
        -- intro Hz. apply orb_prop in Hz. destruct Hz as [Hz|Hz].
           ++ rewrite (r_zc st HI _ Hs0 Hz). reflexivity.
           ++ rewrite Hz. apply orb_true_r.
        -- apply (r_zc st HI); assumption.
      * intros s0 Hs0. updf_cases.
        -- intro Hr. destruct (r_unreg st HI _ Hs0 Hr) as [_ [Hm _]]. congruence.
        -- apply (r_unreg st HI); assumption.
      * intro Hr. destruct (r_rel st HI Hr) as [Hm Hall]. split; [assumption|].
        intros s0 Hs0. updf_cases; [reflexivity|]. apply Hall; assumption.
      * intros s0 w Hs0. updf_cases; [discriminate|]. apply (r_sel st HI); assumption.
    + constructor; cbn [set_sess nsess sess_of nwr wr panic lreleased lmark delivered backlog];
        try (rewrite Hp; reflexivity); try (exact (r_deliv st HI)); try (exact (r_bl st HI)); try (exact (r_wsess st HI)).
      * intros s0 Hs0. change (open_w _ s0) with (open_w st s0). updf_cases; apply (r_refs st HI); assumption.
      * intros s0 Hs0. updf_cases; apply (r_zero st HI); assumption.
      * intros s0 Hs0. updf_cases; apply (r_zc st HI); assumption.
      * intros s0 Hs0. updf_cases; [|apply (r_unreg st HI); assumption]. intro Hr. destruct (r_unreg st HI _ Hs0 Hr) as [Ha [Hb [Hc' Hd]]]. repeat split; assumption.
      * intro Hr. destruct (r_rel st HI Hr) as [Hm Hall]. split; [assumption|].
        intros s0 Hs0. updf_cases; apply Hall; assumption.
      * intros s0 w Hs0. updf_cases; [discriminate|]. apply (r_sel st HI); assumption.
  - (* Accept *)
    cbn [step]. destruct (backlog st) as [|w0 r] eqn:EB; [discriminate|].
    constructor; cbn [nsess sess_of nwr wr panic lreleased lmark delivered backlog]; try exact Hp;
      try (exact (r_wsess st HI)); try (exact (r_zero st HI)); try (exact (r_zc st HI));
      try (exact (r_unreg st HI)); try (exact (r_rel st HI)); try (exact (r_sel st HI)).
    + intros s0 Hs0. change (open_w _ s0) with (open_w st s0). apply (r_refs st HI); assumption.
    + intros w Hw. apply in_app_or in Hw. destruct Hw as [Hw|[<-|[]]]; [apply (r_deliv st HI); assumption|].
      apply (r_bl st HI). rewrite EB. left; reflexivity.
    + intros w Hw. apply (r_bl st HI). rewrite EB. right; assumption.
  - (* AcceptFail *) exact HI.
  - (* WClose *)
    cbn [step]. destruct (w_closed (wr st w)) eqn:EC; [exact HI|].
    pose proof (r_deliv st HI w (mem_In _ _ En)) as Hw.
    pose proof (r_wsess st HI w Hw) as Hs.
    remember (w_sess (wr st w)) as s eqn:Es.
    assert (Hflip : S (count (fun k => Nat.eqb (w_sess (updf (wr st) w {| w_sess := s; w_ord := w_ord (wr st w); w_closed := true |} k)) s
                                   && negb (w_closed (updf (wr st) w {| w_sess := s; w_ord := w_ord (wr st w); w_closed := true |} k))) (nwr st))
                    = open_w st s).
    { unfold open_w. apply (count_flip (nwr st) _ _ w Hw).
      - rewrite <- Es. rewrite Nat.eqb_refl, EC. reflexivity.
      - unfold updf. rewrite Nat.eqb_refl. cbn. apply andb_false_r.
      - intros k Hk. unfold updf. destruct (Nat.eqb_spec k w); [congruence|reflexivity]. }
    assert (Hge : 1 <= refs (sess_of st s)).
    { rewrite (r_refs st HI s Hs). rewrite <- Hflip. unfold b2z. destruct (in_map _); lia. }
    constructor; cbn [nsess sess_of nwr wr panic lreleased lmark delivered backlog];
      try (exact (r_deliv st HI)); try (exact (r_bl st HI)).
    + rewrite Hp. unfold done_panics. cbn. apply Z.ltb_ge. lia.
    + intros s0 Hs0. unfold open_w; cbn [nwr wr].
      destruct (Nat.eq_dec s0 s) as [->|Hne].
      * rewrite updf_same. cbn [done1 refs in_map]. rewrite (r_refs st HI _ Hs0). rewrite <- Hflip. lia.
      * rewrite updf_other by assumption. rewrite (r_refs st HI _ Hs0). f_equal. f_equal. unfold open_w. apply count_ext. intros k Hk.
        unfold updf. destruct (Nat.eqb_spec k w); [|reflexivity]. subst k. cbn.
        rewrite <- Es. destruct (Nat.eqb_spec s s0); [congruence|]. reflexivity.
    + intros k Hk. unfold updf. destruct (Nat.eqb_spec k w); cbn; [assumption|]. apply (r_wsess st HI); assumption.
    + intros s0 Hs0. updf_cases.
      * intros _ Hz. rewrite Hz. cbn. apply orb_true_r.
      * apply (r_zero st HI); assumption.
    + intros s0 Hs0. updf_cases.
      * intro Hz. apply orb_prop in Hz. destruct Hz as [Hz|Hz].
        -- rewrite (r_zc st HI _ Hs0 Hz). reflexivity.
        -- rewrite Hz. apply orb_true_r.
      * apply (r_zc st HI); assumption.
    + intros s0 Hs0. updf_cases.
      * intro Hr. destruct (r_unreg st HI _ Hs0 Hr) as [_ [_ [_ Hz]]]. lia.
      * apply (r_unreg st HI); assumption.
    + intro Hr. destruct (r_rel st HI Hr) as [Hm Hall]. split; [assumption|].
      intros s0 Hs0. updf_cases; apply Hall; assumption.
    + intros s0 k Hs0. updf_cases; apply (r_sel st HI); assumption.
  - (* LMark *)
    constructor; cbn [step nsess sess_of nwr wr panic lreleased lmark delivered backlog]; try exact Hp;
      try (exact (r_wsess st HI)); try (exact (r_zero st HI)); try (exact (r_zc st HI));
      try (exact (r_unreg st HI)); try (exact (r_sel st HI)); try (exact (r_deliv st HI)); try (exact (r_bl st HI)).
    + intros s0 Hs0. change (open_w _ s0) with (open_w st s0). apply (r_refs st HI); assumption.
    + intro Hr. destruct (r_rel st HI Hr) as [Hm Hall]. split; [reflexivity|assumption].
  - (* LSignal *)
    constructor; cbn [step nsess sess_of nwr wr panic lreleased lmark delivered backlog]; try exact Hp;
      try (exact (r_wsess st HI)); try (exact (r_zero st HI)); try (exact (r_zc st HI));
      try (exact (r_unreg st HI)); try (exact (r_sel st HI)); try (exact (r_deliv st HI)); try (exact (r_bl st HI));
      try (exact (r_rel st HI)).
    intros s0 Hs0. change (open_w _ s0) with (open_w st s0). apply (r_refs st HI); assumption.
  - (* LRelease *)
    assert (Hnp : release_panics (nsess st) (sess_of st) = false).
    { unfold release_panics. destruct (existsb _ _) eqn:EX; [|reflexivity].
      apply existsb_exists in EX. destruct EX as [k [Hin Hk]]. apply in_seq in Hin.
      apply andb_prop in Hk. destruct Hk as [Hm Hd]. unfold done_panics in Hd. apply Z.ltb_lt in Hd.
      assert (Hk : (k < nsess st)%nat) by lia.
      pose proof (r_refs st HI k Hk) as Hr. rewrite Hm in Hr. unfold b2z in Hr. lia. }
    constructor; cbn [step nsess sess_of nwr wr panic lreleased lmark delivered backlog];
      try (exact (r_wsess st HI)); try (exact (r_deliv st HI)); try (exact (r_bl st HI)).
    + rewrite Hp, Hnp. reflexivity.
    + intros s0 Hs0. change (open_w _ s0) with (open_w st s0). unfold release1.
      apply Nat.ltb_lt in Hs0. rewrite Hs0. apply Nat.ltb_lt in Hs0. cbn [andb].
      destruct (in_map (sess_of st s0)) eqn:EM; cbn.
      * rewrite (r_refs st HI _ Hs0), EM. unfold b2z. lia.
      * rewrite (r_refs st HI _ Hs0), EM. reflexivity.
    + intros s0 Hs0. unfold release1. apply Nat.ltb_lt in Hs0. rewrite Hs0. apply Nat.ltb_lt in Hs0. cbn [andb].
      destruct (in_map (sess_of st s0)) eqn:EM; cbn.
      * intros _ Hz. rewrite Hz. cbn. apply orb_true_r.
      * apply (r_zero st HI); assumption.
    + intros s0 Hs0. unfold release1. apply Nat.ltb_lt in Hs0. rewrite Hs0. apply Nat.ltb_lt in Hs0. cbn [andb].
      destruct (in_map (sess_of st s0)) eqn:EM; cbn.
      * intro Hz. apply orb_prop in Hz. destruct Hz as [Hz|Hz].
        -- rewrite (r_zc st HI _ Hs0 Hz). reflexivity.
        -- rewrite Hz. apply orb_true_r.
      * apply (r_zc st HI); assumption.
    + intros s0 Hs0. unfold release1. apply Nat.ltb_lt in Hs0. rewrite Hs0. apply Nat.ltb_lt in Hs0. cbn [andb].
      destruct (in_map (sess_of st s0)) eqn:EM; cbn.
      * intro Hr. destruct (r_unreg st HI _ Hs0 Hr) as [_ [Hm _]]. congruence.
      * intro Hr. apply (r_unreg st HI _ Hs0 Hr).
    + intros _. split; [assumption|]. intros s0 Hs0. unfold release1.
      apply Nat.ltb_lt in Hs0. rewrite Hs0. cbn [andb]. destruct (in_map (sess_of st s0)) eqn:EM; cbn; [reflexivity|assumption].
    + intros s0 k Hs0. unfold release1. apply Nat.ltb_lt in Hs0. rewrite Hs0. apply Nat.ltb_lt in Hs0. cbn [andb].
      destruct (in_map (sess_of st s0)) eqn:EM; cbn; apply (r_sel st HI); assumption.
Qed.

Lemma run_app : forall a b st, run (a ++ b) st = run b (run a st).
Proof. intros. unfold run. apply fold_left_app. Qed.

Lemma rinv_run : forall evs st, RInv st -> RInv (run evs st).
Proof.
  induction evs as [|e r IH]; intros st HI; cbn; [assumption|]. apply IH. apply rinv_step. assumption.
Qed.

(* ---------------------------------------------------------------------------------------- *)
(* exactly-once delivery                                                                      *)
(* ---------------------------------------------------------------------------------------- *)
Definition of_sess (st : state) (s : nat) : nat := count (fun w => Nat.eqb (w_sess (wr st w)) s) (nwr st).
Local Arguments of_sess : simpl never.

Record OInv (st : state) : Prop := {
  o_log : delivered st ++ backlog st = enq_log st;
  o_nd1 : NoDup (enq_log st);
  o_nd2 : NoDup (lost st);
  o_disj : forall w, In w (enq_log st) -> ~ In w (lost st);
  o_lt : forall w, In w (enq_log st) \/ In w (lost st) -> (w < nwr st)%nat;
  o_sel : forall s w, (s < nsess st)%nat -> loop (sess_of st s) = LSelecting w ->
          (w < nwr st)%nat /\ w_sess (wr st w) = s /\ ~ In w (enq_log st) /\ ~ In w (lost st);
  o_cap : (length (backlog st) <= cap st)%nat;
  o_arr : forall s, (s < nsess st)%nat ->
          arrived (sess_of st s) = (inq (sess_of st s) + wrapped (sess_of st s))%nat;
  o_wc : forall s, (s < nsess st)%nat -> wrapped (sess_of st s) = of_sess st s;
  o_ws : forall w, (w < nwr st)%nat -> (w_sess (wr st w) < nsess st)%nat }.

Lemma oinv_init : forall c, OInv (init c).
Proof.
  intro c. constructor; cbn; try (intros; lia); try reflexivity; try constructor;
    try (intros w H; contradiction); try (intros w [H|H]; contradiction).
Qed.

Lemma NoDup_snoc : forall (l : list nat) w, NoDup l -> ~ In w l -> NoDup (l ++ [w]).
Proof.
  induction l as [|a l IH]; intros w Hnd Hni; cbn.
  - constructor; [intros []|constructor].
  - inversion Hnd; subst. constructor.
    + intro Hin. apply in_app_or in Hin. destruct Hin as [Hin|[<-|[]]]; [contradiction|]. apply Hni. left; reflexivity.
    + apply IH; [assumption|]. intro Hin. apply Hni. right; assumption.
Qed.

Lemma oinv_step : forall st e, OInv st -> OInv (exec st e).
Proof.
  intros st e HI. unfold exec. destruct (enabled st e) eqn:En; [|exact HI].
  destruct e; cbn [enabled] in En; bool_hyps.
  - (* SessionUp *)
    constructor; cbn [step nsess sess_of nwr wr delivered backlog enq_log lost cap];
      try (exact (o_log st HI)); try (exact (o_nd1 st HI)); try (exact (o_nd2 st HI));
      try (exact (o_disj st HI)); try (exact (o_lt st HI)); try (exact (o_cap st HI)).
    + intros s w Hs. updf_cases.
      * destruct (lmark st); cbn; discriminate.
      * apply (o_sel st HI); lia.
    + intros s Hs. updf_cases.
      * destruct (lmark st); reflexivity.
      * apply (o_arr st HI); lia.
    + intros s Hs. change (of_sess _ s) with (of_sess st s). updf_cases.
      * assert (Hz : of_sess st (nsess st) = O).
        { unfold of_sess. apply count_false. intros w Hw. pose proof (o_ws st HI w Hw).
          destruct (Nat.eqb_spec (w_sess (wr st w)) (nsess st)); [lia|reflexivity]. }
        rewrite Hz. destruct (lmark st); reflexivity.
      * apply (o_wc st HI); lia.
    + intros w Hw. pose proof (o_ws st HI w Hw). lia.
  - (* StreamIn *)
    constructor; cbn [step set_sess nsess sess_of nwr wr delivered backlog enq_log lost cap];
      try (exact (o_log st HI)); try (exact (o_nd1 st HI)); try (exact (o_nd2 st HI));
      try (exact (o_disj st HI)); try (exact (o_lt st HI)); try (exact (o_cap st HI)); try (exact (o_ws st HI)).
    + intros s0 w Hs. updf_cases; apply (o_sel st HI); assumption.
    + intros s0 Hs. updf_cases; [|apply (o_arr st HI); assumption].
      rewrite (o_arr st HI _ Hs). lia.
    + intros s0 Hs. change (of_sess _ s0) with (of_sess st s0). updf_cases; apply (o_wc st HI); assumption.
  - (* Wrap *)
    rename H into Hs.
    constructor; cbn [step nsess sess_of nwr wr delivered backlog enq_log lost cap];
      try (exact (o_log st HI)); try (exact (o_nd1 st HI)); try (exact (o_nd2 st HI));
      try (exact (o_disj st HI)); try (exact (o_cap st HI)).
    + intros w Hw. pose proof (o_lt st HI w Hw). lia.
    + intros s0 w Hs0. unfold updf at 1. destruct (Nat.eqb_spec s0 s) as [->|Hne]; cbn [loop].
      * intro E. inversion E; subst w. rewrite updf_same. cbn. split; [lia|]. split; [reflexivity|].
        split; intro Hin; [pose proof (o_lt st HI _ (or_introl Hin))|pose proof (o_lt st HI _ (or_intror Hin))]; lia.
      * intro E. destruct (o_sel st HI s0 w Hs0 E) as [Hlt [Hws [Hn1 Hn2]]].
        rewrite updf_other by lia. repeat split; try assumption; lia.
    + intros s0 Hs0. updf_cases; [|apply (o_arr st HI); assumption].
      rewrite (o_arr st HI _ Hs0). lia.
    + intros s0 Hs0. unfold of_sess; cbn [nwr wr count]. rewrite updf_same. cbn [w_sess].
      assert (Hc : count (fun w => Nat.eqb (w_sess (updf (wr st) (nwr st) {| w_sess := s; w_ord := wrapped (sess_of st s); w_closed := false |} w)) s0) (nwr st)
                   = of_sess st s0).
      { unfold of_sess. apply count_ext. intros w Hw. rewrite updf_other by lia. reflexivity. }
      rewrite Hc. unfold updf. destruct (Nat.eqb_spec s0 s) as [->|Hne]; cbn [wrapped].
      * rewrite Nat.eqb_refl. rewrite (o_wc st HI _ Hs0). reflexivity.
      * destruct (Nat.eqb_spec s s0); [congruence|]. rewrite (o_wc st HI _ Hs0). reflexivity.
    + intros w Hw. unfold updf. destruct (Nat.eqb_spec w (nwr st)); cbn; [assumption|]. apply (o_ws st HI); lia.
  - (* Enqueue *)
    rename H into Hs. cbn [step]. destruct (loop (sess_of st s)) as [|w0|] eqn:EL; try discriminate.
    destruct (o_sel st HI s w0 Hs EL) as [Hlt [Hws [Hn1 Hn2]]].
    constructor; cbn [nsess sess_of nwr wr delivered backlog enq_log lost cap];
      try (exact (o_nd2 st HI)); try (exact (o_ws st HI)).
    + rewrite app_assoc. rewrite (o_log st HI). reflexivity.
    + apply NoDup_snoc; [exact (o_nd1 st HI)|assumption].
    + intros w Hw. apply in_app_or in Hw. destruct Hw as [Hw|[<-|[]]]; [apply (o_disj st HI); assumption|assumption].
    + intros w [Hw|Hw]; [|apply (o_lt st HI); right; assumption].
      apply in_app_or in Hw. destruct Hw as [Hw|[<-|[]]]; [apply (o_lt st HI); left; assumption|assumption].
    + intros s0 w Hs0. unfold updf. destruct (Nat.eqb_spec s0 s) as [->|Hne]; cbn [with_loop loop]; [discriminate|].
      intro E. destruct (o_sel st HI s0 w Hs0 E) as [Hlt' [Hws' [Hn1' Hn2']]].
      repeat split; try assumption. intro Hin. apply in_app_or in Hin. destruct Hin as [Hin|[<-|[]]]; [contradiction|].
      congruence.
    + rewrite app_length. cbn. lia.
    + intros s0 Hs0. updf_cases; apply (o_arr st HI); assumption.
    + intros s0 Hs0. change (of_sess _ s0) with (of_sess st s0). updf_cases; apply (o_wc st HI); assumption.
  - (* Lose *)
    rename H into Hs. cbn [step]. destruct (loop (sess_of st s)) as [|w0|] eqn:EL; try discriminate.
    destruct (o_sel st HI s w0 Hs EL) as [Hlt [Hws [Hn1 Hn2]]].
    constructor; cbn [nsess sess_of nwr wr delivered backlog enq_log lost cap];
      try (exact (o_log st HI)); try (exact (o_nd1 st HI)); try (exact (o_cap st HI)); try (exact (o_ws st HI)).
    + apply NoDup_snoc; [exact (o_nd2 st HI)|assumption].
    + intros w Hw Hin. apply in_app_or in Hin. destruct Hin as [Hin|[<-|[]]]; [apply (o_disj st HI w); assumption|contradiction].
    + intros w [Hw|Hw]; [apply (o_lt st HI); left; assumption|].
      apply in_app_or in Hw. destruct Hw as [Hw|[<-|[]]]; [apply (o_lt st HI); right; assumption|assumption].
    + intros s0 w Hs0. unfold updf. destruct (Nat.eqb_spec s0 s) as [->|Hne]; cbn [with_loop loop]; [discriminate|].
      intro E. destruct (o_sel st HI s0 w Hs0 E) as [Hlt' [Hws' [Hn1' Hn2']]].
      repeat split; try assumption. intro Hin. apply in_app_or in Hin. destruct Hin as [Hin|[<-|[]]]; [contradiction|].
      congruence.
    + intros s0 Hs0. updf_cases; apply (o_arr st HI); assumption.
    + intros s0 Hs0. change (of_sess _ s0) with (of_sess st s0). updf_cases; apply (o_wc st HI); assumption.
  - (* SessionDie *)
    constructor; cbn [step set_sess nsess sess_of nwr wr delivered backlog enq_log lost cap];
      try (exact (o_log st HI)); try (exact (o_nd1 st HI)); try (exact (o_nd2 st HI));
      try (exact (o_disj st HI)); try (exact (o_lt st HI)); try (exact (o_cap st HI)); try (exact (o_ws st HI)).
    + intros s0 w Hs. updf_cases; apply (o_sel st HI); assumption.
    + intros s0 Hs. updf_cases; apply (o_arr st HI); assumption.
    + intros s0 Hs. change (of_sess _ s0) with (of_sess st s0). updf_cases; apply (o_wc st HI); assumption.
  - (* AcceptErr *)
    rename H into Hs. cbn [step].
    destruct (loop (sess_of st s)) as [| |] eqn:EL; try discriminate.
    destruct (in_map (sess_of st s)) eqn:EM;
      (constructor; cbn [set_sess nsess sess_of nwr wr delivered backlog enq_log lost cap];
       try (exact (o_log st HI)); try (exact (o_nd1 st HI)); try (exact (o_nd2 st HI));
       try (exact (o_disj st HI)); try (exact (o_lt st HI)); try (exact (o_cap st HI)); try (exact (o_ws st HI));
       [ intros s0 w Hs0; unfold updf; destruct (Nat.eqb_spec s0 s) as [->|Hne]; cbn; [discriminate|apply (o_sel st HI); assumption]
       | intros s0 Hs0; updf_cases; apply (o_arr st HI); assumption
       | intros s0 Hs0; change (of_sess _ s0) with (of_sess st s0); updf_cases; apply (o_wc st HI); assumption ]).
  - (* Accept *)
    cbn [step]. destruct (backlog st) as [|w0 r] eqn:EB; [discriminate|].
    constructor; cbn [nsess sess_of nwr wr delivered backlog enq_log lost cap];
      try (exact (o_nd1 st HI)); try (exact (o_nd2 st HI));
      try (exact (o_disj st HI)); try (exact (o_lt st HI)); try (exact (o_ws st HI));
      try (exact (o_sel st HI)); try (exact (o_arr st HI)); try (exact (o_wc st HI)).
    + rewrite <- app_assoc. cbn. rewrite <- (o_log st HI), EB. reflexivity.
    + pose proof (o_cap st HI) as Hc. rewrite EB in Hc. cbn in Hc. lia.
  - exact HI.
  - (* WClose *)
    cbn [step]. destruct (w_closed (wr st w)) eqn:EC; [exact HI|].
    constructor; cbn [nsess sess_of nwr wr delivered backlog enq_log lost cap];
      try (exact (o_log st HI)); try (exact (o_nd1 st HI)); try (exact (o_nd2 st HI));
      try (exact (o_disj st HI)); try (exact (o_lt st HI)); try (exact (o_cap st HI)).
    + intros s0 k Hs0. unfold updf at 1. destruct (Nat.eqb_spec s0 (w_sess (wr st w))) as [->|Hne]; cbn [done1 loop].
      * intro E. destruct (o_sel st HI _ k Hs0 E) as [Hlt [Hws [Hn1 Hn2]]]. repeat split; try assumption.
        unfold updf. destruct (Nat.eqb_spec k w); cbn; [reflexivity|assumption].
      * intro E. destruct (o_sel st HI _ k Hs0 E) as [Hlt [Hws [Hn1 Hn2]]]. repeat split; try assumption.
        unfold updf. destruct (Nat.eqb_spec k w); cbn; [subst; congruence|assumption].
    + intros s0 Hs0. unfold updf. destruct (Nat.eqb_spec s0 (w_sess (wr st w))) as [->|Hne]; cbn; apply (o_arr st HI); assumption.
    + intros s0 Hs0.
      assert (Hc : of_sess {| nsess := nsess st; sess_of := updf (sess_of st) (w_sess (wr st w)) (done1 (sess_of st (w_sess (wr st w))));
                              nwr := nwr st; wr := updf (wr st) w {| w_sess := w_sess (wr st w); w_ord := w_ord (wr st w); w_closed := true |};
                              cap := cap st; backlog := backlog st; delivered := delivered st; lost := lost st; enq_log := enq_log st;
                              lmark := lmark st; closeCh := closeCh st; lreleased := lreleased st;
                              panic := panic st || done_panics (sess_of st (w_sess (wr st w))) |} s0 = of_sess st s0).
      { unfold of_sess; cbn [nwr wr]. apply count_ext. intros k Hk. unfold updf. destruct (Nat.eqb_spec k w); [subst; reflexivity|reflexivity]. }
      rewrite Hc. unfold updf. destruct (Nat.eqb_spec s0 (w_sess (wr st w))) as [->|Hne]; cbn; apply (o_wc st HI); assumption.
    + intros k Hk. unfold updf. destruct (Nat.eqb_spec k w); cbn; [subst|]; apply (o_ws st HI); assumption.
  - (* LMark *)
    constructor; cbn [step nsess sess_of nwr wr delivered backlog enq_log lost cap];
      try (exact (o_log st HI)); try (exact (o_nd1 st HI)); try (exact (o_nd2 st HI));
      try (exact (o_disj st HI)); try (exact (o_lt st HI)); try (exact (o_cap st HI)); try (exact (o_ws st HI));
      try (exact (o_sel st HI)); try (exact (o_arr st HI)); try (exact (o_wc st HI)).
  - (* LSignal *)
    constructor; cbn [step nsess sess_of nwr wr delivered backlog enq_log lost cap];
      try (exact (o_log st HI)); try (exact (o_nd1 st HI)); try (exact (o_nd2 st HI));
      try (exact (o_disj st HI)); try (exact (o_lt st HI)); try (exact (o_cap st HI)); try (exact (o_ws st HI));
      try (exact (o_sel st HI)); try (exact (o_arr st HI)); try (exact (o_wc st HI)).
  - (* LRelease *)
    constructor; cbn [step nsess sess_of nwr wr delivered backlog enq_log lost cap];
      try (exact (o_log st HI)); try (exact (o_nd1 st HI)); try (exact (o_nd2 st HI));
      try (exact (o_disj st HI)); try (exact (o_lt st HI)); try (exact (o_cap st HI)); try (exact (o_ws st HI)).
    + intros s0 k Hs0. unfold release1. destruct ((s0 <? nsess st)%nat && in_map (sess_of st s0)); cbn; apply (o_sel st HI); assumption.
    + intros s0 Hs0. unfold release1. destruct ((s0 <? nsess st)%nat && in_map (sess_of st s0)); cbn; apply (o_arr st HI); assumption.
    + intros s0 Hs0. change (of_sess _ s0) with (of_sess st s0).
      unfold release1. destruct ((s0 <? nsess st)%nat && in_map (sess_of st s0)); cbn; apply (o_wc st HI); assumption.
Qed.

Lemma oinv_run : forall evs st, OInv st -> OInv (run evs st).
Proof.
  induction evs as [|e r IH]; intros st HI; cbn; [assumption|]. apply IH. apply oinv_step. assumption.
Qed.

(* ---------------------------------------------------------------------------------------- *)
(* top-level statements                                                                       *)
(* ---------------------------------------------------------------------------------------- *)
Lemma NoDup_app_disj : forall (a b : list nat), NoDup a -> NoDup b -> (forall w, In w a -> ~ In w b) -> NoDup (a ++ b).
Proof.
  induction a as [|x a IH]; intros b Ha Hb Hd; cbn; [assumption|].
  inversion Ha; subst. constructor.
  - intro Hin. apply in_app_or in Hin. destruct Hin as [Hin|Hin]; [contradiction|]. apply (Hd x); [left; reflexivity|assumption].
  - apply IH; try assumption. intros w Hw. apply Hd. right; assumption.
Qed.

Definition selecting_ok (st : state) : Prop :=
  forall s w, (s < nsess st)%nat -> loop (sess_of st s) = LSelecting w ->
              (w < nwr st)%nat /\ w_sess (wr st w) = s /\ ~ In w (delivered st ++ backlog st ++ lost st).

Lemma once : forall c evs, let st := run evs (init c) in
  delivered st ++ backlog st = enq_log st /\
  NoDup (delivered st ++ backlog st ++ lost st) /\
  (forall w, In w (delivered st ++ backlog st ++ lost st) -> (w < nwr st)%nat) /\
  selecting_ok st /\
  (length (backlog st) <= cap st)%nat /\
  (forall s, (s < nsess st)%nat ->
     arrived (sess_of st s) = (inq (sess_of st s) + count (fun w => Nat.eqb (w_sess (wr st w)) s) (nwr st))%nat).
Proof.
  intros c evs st. pose proof (oinv_run evs (init c) (oinv_init c)) as HI. fold st in HI.
  split; [exact (o_log st HI)|].
  split.
  { rewrite app_assoc, (o_log st HI). apply NoDup_app_disj; [exact (o_nd1 st HI)|exact (o_nd2 st HI)|exact (o_disj st HI)]. }
  split.
  { intros w Hw. rewrite app_assoc, (o_log st HI) in Hw. apply in_app_or in Hw. apply (o_lt st HI). assumption. }
  split.
  { intros s w Hs E. destruct (o_sel st HI s w Hs E) as [H1 [H2 [H3 H4]]]. repeat split; try assumption.
    rewrite app_assoc, (o_log st HI). intro Hin. apply in_app_or in Hin. destruct Hin; contradiction. }
  split; [exact (o_cap st HI)|].
  intros s Hs. rewrite (o_arr st HI s Hs), (o_wc st HI s Hs). reflexivity.
Qed.

Lemma refcount : forall c evs, let st := run evs (init c) in
  panic st = false /\
  forall s, (s < nsess st)%nat ->
    0 <= refs (sess_of st s) /\
    refs (sess_of st s) = b2z (in_map (sess_of st s)) + Z.of_nat (open_w st s).
Proof.
  intros c evs st. pose proof (rinv_run evs (init c) (rinv_init c)) as HI. fold st in HI.
  split; [exact (r_panic st HI)|]. intros s Hs. split; [apply refs_nonneg; assumption|apply (r_refs st HI); assumption].
Qed.

Lemma nsess_mono : forall st e, (nsess st <= nsess (exec st e))%nat.
Proof.
  intros st e. unfold exec. destruct (enabled st e); [|lia].
  destruct e; cbn [step set_sess nsess]; try lia.
  - destruct (loop (sess_of st s)); cbn; lia.
  - destruct (loop (sess_of st s)); cbn; lia.
  - destruct (in_map (sess_of st s)); cbn; lia.
  - destruct (backlog st); cbn; lia.
  - destruct (w_closed (wr st w)); cbn; lia.
Qed.

Lemma nsess_mono_run : forall evs st, (nsess st <= nsess (run evs st))%nat.
Proof.
  induction evs as [|e r IH]; intros st; [cbn; lia|]. change (run (e :: r) st) with (run r (exec st e)).
  pose proof (nsess_mono st e). pose proof (IH (exec st e)). lia.
Qed.

(* one step: wg_zero is monotone, and when it becomes true the counter is zero in the new state *)
Lemma wgz_step : forall st e s, RInv st -> (s < nsess st)%nat ->
  (wg_zero (sess_of st s) = true -> wg_zero (sess_of (exec st e) s) = true) /\
  (wg_zero (sess_of st s) = false -> wg_zero (sess_of (exec st e) s) = true ->
   refs (sess_of (exec st e) s) = 0 /\ registered (sess_of (exec st e) s) = true).
Proof.
  intros st e s HI Hs. unfold exec. destruct (enabled st e) eqn:En; [|split; [tauto|congruence]].
  assert (Hd : forall x, (registered x = false -> refs x = 0) ->
               (wg_zero x = true -> wg_zero (done1 x) = true) /\
               (wg_zero x = false -> wg_zero (done1 x) = true -> refs (done1 x) = 0 /\ registered (done1 x) = true)).
  { intros x Hx. unfold done1; cbn. split.
    - intros ->. reflexivity.
    - intros -> Hz. cbn in Hz. apply Z.eqb_eq in Hz. split; [assumption|].
      destruct (registered x) eqn:ER; [reflexivity|]. specialize (Hx eq_refl). lia. }
  assert (Hreg : forall k, (k < nsess st)%nat -> registered (sess_of st k) = false -> refs (sess_of st k) = 0).
  { intros k Hk ER. apply (r_unreg st HI k Hk ER). }
  destruct e; cbn [enabled] in En; bool_hyps; cbn [step set_sess sess_of].
  - unfold updf. destruct (Nat.eqb_spec s (nsess st)); [lia|]. split; [tauto|congruence].
  - unfold updf. destruct (Nat.eqb_spec s s0); subst; cbn; split; try tauto; congruence.
  - unfold updf. destruct (Nat.eqb_spec s s0); subst; cbn; split; try tauto; congruence.
  - destruct (loop (sess_of st s0)); cbn [sess_of]; try (split; [tauto|congruence]).
    unfold updf. destruct (Nat.eqb_spec s s0); subst; cbn; split; try tauto; congruence.
  - destruct (loop (sess_of st s0)); cbn [sess_of]; try (split; [tauto|congruence]).
    unfold updf. destruct (Nat.eqb_spec s s0); subst; cbn; split; try tauto; congruence.
  - unfold updf. destruct (Nat.eqb_spec s s0); subst; cbn; split; try tauto; congruence.
  - destruct (in_map (sess_of st s0)) eqn:EM; cbn [set_sess sess_of].
    + unfold updf. destruct (Nat.eqb_spec s s0); [subst|split; [tauto|congruence]].
      cbn [wg_zero refs registered].
      exact (Hd _ (Hreg s0 Hs)).
    + unfold updf. destruct (Nat.eqb_spec s s0); subst; cbn; split; try tauto; congruence.
  - destruct (backlog st); cbn [sess_of]; split; try tauto; congruence.
  - split; [tauto|congruence].
  - destruct (w_closed (wr st w)) eqn:EC; cbn [sess_of]; [split; [tauto|congruence]|].
    unfold updf. destruct (Nat.eqb_spec s (w_sess (wr st w))) as [E|NE]; [|split; [tauto|congruence]].
    rewrite <- E.
    exact (Hd _ (Hreg s Hs)).
  - split; [tauto|congruence].
  - split; [tauto|congruence].
  - unfold release1. apply Nat.ltb_lt in Hs. rewrite Hs. apply Nat.ltb_lt in Hs. cbn [andb].
    destruct (in_map (sess_of st s)) eqn:EM; [|split; [tauto|congruence]].
    cbn [wg_zero refs registered].
    exact (Hd _ (Hreg s Hs)).
Qed.

Lemma wgz_mono_run : forall evs st s, RInv st -> (s < nsess st)%nat ->
  wg_zero (sess_of st s) = true -> wg_zero (sess_of (run evs st) s) = true.
Proof.
  induction evs as [|e r IH]; intros st s HI Hs Hz; cbn; [assumption|].
  apply IH; [apply rinv_step; assumption|pose proof (nsess_mono st e); lia|].
  apply (wgz_step st e s HI Hs). assumption.
Qed.

(* a session of the initial segment that does not exist yet has the default record *)
Lemma refcount_closed_iff : forall c evs s, let st := run evs (init c) in
  (s < nsess st)%nat ->
  (wg_zero (sess_of st s) = true <->
   exists evs1 evs2, evs = evs1 ++ evs2 /\
     let st1 := run evs1 (init c) in
     (s < nsess st1)%nat /\ registered (sess_of st1 s) = true /\
     in_map (sess_of st1 s) = false /\ open_w st1 s = O).
Proof.
  intros c evs s st Hs. split.
  - (* -> : by induction from the right *)
    subst st. revert Hs. induction evs as [|e evs IH] using rev_ind; intros Hs Hz.
    + cbn in Hs. lia.
    + rewrite run_app in Hs, Hz. cbn [run fold_left] in Hs, Hz.
      set (st0 := run evs (init c)) in *.
      pose proof (rinv_run evs (init c) (rinv_init c)) as HI0. fold st0 in HI0.
      destruct (Nat.lt_ge_cases s (nsess st0)) as [Hlt|Hge].
      * destruct (wg_zero (sess_of st0 s)) eqn:E0.
        -- destruct (IH Hlt eq_refl) as [e1 [e2 [Heq Hrest]]].
           exists e1, (e2 ++ [e]). split; [rewrite Heq, app_assoc; reflexivity|exact Hrest].
        -- destruct (wgz_step st0 e s HI0 Hlt) as [_ Hnew]. destruct (Hnew E0 Hz) as [Hr0 Hreg].
           exists (evs ++ [e]), []. split; [rewrite app_nil_r; reflexivity|].
           cbn zeta. rewrite run_app. cbn [run fold_left]. fold st0.
           pose proof (rinv_step st0 e HI0) as HI1.
           pose proof (r_refs _ HI1 s Hs) as Hrr. rewrite Hr0 in Hrr.
           split; [assumption|]. split; [assumption|].
           unfold b2z in Hrr. destruct (in_map (sess_of (exec st0 e) s)); split; try reflexivity; lia.
      * (* the session was created by this very step: SessionUp, whose wg_zero is false *)
        exfalso. unfold exec in Hs, Hz. destruct (enabled st0 e) eqn:En; [|lia].
        destruct e; cbn [step set_sess nsess sess_of] in Hs, Hz; try lia.
        -- assert (s = nsess st0) by lia. subst s. rewrite updf_same in Hz. destruct (lmark st0); discriminate.
        -- destruct (loop (sess_of st0 s0)); cbn in Hs; lia.
        -- destruct (loop (sess_of st0 s0)); cbn in Hs; lia.
        -- destruct (in_map (sess_of st0 s0)); cbn in Hs; lia.
        -- destruct (backlog st0); cbn in Hs; lia.
        -- destruct (w_closed (wr st0 w)); cbn in Hs; lia.
  - intros [e1 [e2 [Heq [H1 [H2 [H3 H4]]]]]]. subst st. rewrite Heq, run_app.
    pose proof (rinv_run e1 (init c) (rinv_init c)) as HI1.
    apply wgz_mono_run; [assumption|assumption|].
    apply (r_zero _ HI1 s H1 H2).
    rewrite (r_refs _ HI1 s H1), H3, H4. reflexivity.
Qed.

(* "closing the listener lets sessions end once their connections are closed" *)
Definition sessions_end_full : Prop :=
  forall c evs, let st := run evs (init c) in
    lreleased st = true ->
    forall s, (s < nsess st)%nat ->
      (forall w, In w (delivered st) -> w_sess (wr st w) = s -> w_closed (wr st w) = true) ->
      is_selecting (loop (sess_of st s)) = false ->
      sclosed (sess_of st s) = true.

Definition witness_backlog : list event := [SessionUp; StreamIn 0; Wrap 0; Enqueue 0; LMark; LSignal; LRelease].
Definition witness_lost : list event :=
  [SessionUp; StreamIn 0; Wrap 0; Enqueue 0; StreamIn 0; Wrap 0; LMark; LSignal; Lose 0; LRelease; Accept; WClose 0].

Lemma sessions_end_refuted : ~ sessions_end_full.
Proof.
  intro H. specialize (H 1%nat witness_backlog). cbn zeta in H.
  assert (Hr : lreleased (run witness_backlog (init 1)) = true) by (vm_compute; reflexivity).
  specialize (H Hr 0%nat).
  assert (Hs : (0 < nsess (run witness_backlog (init 1)))%nat) by (vm_compute; lia).
  specialize (H Hs).
  assert (Hd : delivered (run witness_backlog (init 1)) = []) by (vm_compute; reflexivity).
  rewrite Hd in H. specialize (H (fun w (F : In w []) => match F with end)).
  assert (Hl : is_selecting (loop (sess_of (run witness_backlog (init 1)) 0%nat)) = false) by (vm_compute; reflexivity).
  specialize (H Hl). vm_compute in H. discriminate.
Qed.

Lemma sessions_end_partial : forall c evs, let st := run evs (init c) in
  lreleased st = true ->
  forall s, (s < nsess st)%nat ->
    (forall w, (w < nwr st)%nat -> w_sess (wr st w) = s -> w_closed (wr st w) = true) ->
    sclosed (sess_of st s) = true /\
    (registered (sess_of st s) = true -> wg_zero (sess_of st s) = true /\ refs (sess_of st s) = 0).
Proof.
  intros c evs st Hrel s Hs Hall.
  pose proof (rinv_run evs (init c) (rinv_init c)) as HI. fold st in HI.
  destruct (registered (sess_of st s)) eqn:ER.
  - destruct (r_rel st HI Hrel) as [_ Hnm].
    assert (Ho : open_w st s = O).
    { unfold open_w. apply count_false. intros w Hw.
      destruct (Nat.eqb_spec (w_sess (wr st w)) s) as [E|NE]; [|reflexivity].
      rewrite (Hall w Hw E). reflexivity. }
    assert (Hr : refs (sess_of st s) = 0).
    { rewrite (r_refs st HI s Hs), (Hnm s Hs), Ho. reflexivity. }
    pose proof (r_zero st HI s Hs ER Hr) as Hz.
    split; [apply (r_zc st HI s Hs Hz)|]. intros _. split; assumption.
  - split; [apply (r_unreg st HI s Hs ER)|]. discriminate.
Qed.

(* ---------------------------------------------------------------------------------------- *)
(* Read / Write                                                                               *)
(* ---------------------------------------------------------------------------------------- *)
Lemma lb_loop_spec : forall sl need,
  fst (lb_loop sl need) = firstn need (concat sl) /\ concat (snd (lb_loop sl need)) = skipn need (concat sl).
Proof.
  induction sl as [|f rest IH]; intros need.
  - destruct need; cbn; split; reflexivity.
  - destruct need as [|n]; [cbn; split; reflexivity|].
    cbn [lb_loop concat]. destruct (Nat.leb_spec (S n) (length f)) as [Hle|Hgt].
    + cbn [fst snd concat]. rewrite firstn_app, skipn_app.
      replace (S n - length f)%nat with O by lia. cbn [firstn skipn]. rewrite app_nil_r. split; reflexivity.
    + destruct (lb_loop rest (S n - length f)) as [b sl'] eqn:E. cbn [fst snd].
      specialize (IH (S n - length f)%nat). rewrite E in IH. cbn [fst snd] in IH. destruct IH as [IH1 IH2].
      rewrite firstn_app, skipn_app. rewrite firstn_all2 by lia. rewrite skipn_all2 by lia.
      rewrite IH1, IH2. split; reflexivity.
Qed.

(* Read(p), p non-empty, data buffered: returns exactly the next min(len p, available) bytes *)
Lemma read_contract : forall b lenp m,
  blen b = total (slices b) -> (0 < lenp)%nat -> (1 <= blen b)%nat ->
  let avail := concat (slices b) in
  let '(out, err, b') := lb_read b lenp m in
  err = None /\ out = firstn lenp avail /\ length out = Nat.min lenp (length avail) /\
  (1 <= length out <= lenp)%nat /\
  avail = out ++ concat (slices b') /\ blen b' = total (slices b').
Proof.
  intros b lenp m Hlen Hp Hav avail. unfold lb_read. destruct lenp as [|n]; [lia|].
  destruct (Nat.ltb_spec (blen b) 1) as [Hlt|_]; [lia|].
  destruct (lb_loop (slices b) (S n)) as [out sl'] eqn:E.
  pose proof (lb_loop_spec (slices b) (S n)) as [H1 H2]. rewrite E in H1, H2. cbn [fst snd] in H1, H2.
  fold avail in H1, H2. unfold total in *. fold avail in Hlen.
  assert (Hlo : length out = Nat.min (S n) (length avail)) by (rewrite H1; apply firstn_length).
  split; [reflexivity|]. split; [assumption|]. split; [assumption|]. split; [lia|].
  cbn [slices blen]. split.
  - rewrite H1, H2. symmetry. apply firstn_skipn.
  - rewrite H2, skipn_length. lia.
Qed.

(* Read when the buffer is empty: the error of readMore(1) with no byte, or - if readMore succeeded,
   which by C11_enough means at least one byte was moved in - the contract above on the moved data *)
Lemma read_contract_wait : forall b lenp m,
  blen b = total (slices b) -> (0 < lenp)%nat -> blen b = O ->
  match m with
  | MoreErr e => lb_read b lenp m = ([], Some e, b)
  | MoreOk moved =>
    (1 <= total moved)%nat ->
    let avail := concat (slices b ++ moved) in
    let '(out, err, b') := lb_read b lenp m in
    err = None /\ out = firstn lenp avail /\ (1 <= length out <= lenp)%nat /\
    avail = out ++ concat (slices b') /\ blen b' = total (slices b')
  end.
Proof.
  intros b lenp m Hlen Hp Hz. destruct m as [e|moved].
  - unfold lb_read. destruct lenp; [lia|]. rewrite Hz. cbn. reflexivity.
  - intros Hm avail.
    pose proof (read_contract {| slices := slices b ++ moved; blen := (blen b + total moved)%nat |} lenp (MoreErr RTimeout)) as RC.
    cbn [slices blen] in RC.
    assert (Ht : (blen b + total moved)%nat = total (slices b ++ moved)).
    { unfold total in *. rewrite concat_app, app_length. lia. }
    specialize (RC Ht Hp ltac:(lia)). cbn zeta in RC.
    unfold lb_read in *. destruct lenp as [|n]; [lia|]. rewrite Hz. cbn [Nat.ltb Nat.leb].
    cbn [slices blen] in *. rewrite Hz in *. cbn [Nat.add] in *.
    destruct (Nat.ltb_spec (total moved) 1) as [Hlt|_]; [lia|].
    destruct (lb_loop (slices b ++ moved) (S n)) as [out sl'] eqn:E.
    destruct RC as [R1 [R2 [R3 [R4 [R5 R6]]]]]. repeat split; try assumption; lia.
Qed.

Lemma read_zero : forall b m, lb_read b 0 m = ([], None, b).
Proof. reflexivity. Qed.

Lemma write_contract : forall lenp wb fl,
  let '(n, err) := lb_write lenp wb fl in
  (n = lenp \/ err = true) /\ (err = false -> n = lenp) /\ (n <= lenp)%nat.
Proof.
  intros lenp wb fl. unfold lb_write. destruct lenp; [cbn; repeat split; auto|].
  destruct wb; [cbn; repeat split; auto; try discriminate; lia|]. repeat split; auto.
Qed.

Record PInv (p : pipe) : Prop := {
  p_ok : io_ok p = true;
  p_bytes : readout p ++ concat (slices (pbuf p)) = written p;
  p_len : blen (pbuf p) = total (slices (pbuf p)) }.

Lemma pinv_step : forall p o, PInv p -> PInv (io_step p o).
Proof.
  intros p o HI. destruct o as [chunks ferr|lenp]; cbn [io_step].
  - unfold lb_write. destruct (total chunks) eqn:ET.
    + (* empty write: (0, nil) *)
      constructor; cbn.
      * rewrite (p_ok p HI). reflexivity.
      * rewrite concat_app, app_assoc, (p_bytes p HI). reflexivity.
      * unfold total in *. rewrite concat_app, app_length, (p_len p HI). unfold total. lia.
    + destruct ferr; [exact HI|]. constructor; cbn.
      * rewrite (p_ok p HI), Nat.eqb_refl. reflexivity.
      * rewrite concat_app, app_assoc, (p_bytes p HI). reflexivity.
      * unfold total in *. rewrite concat_app, app_length, (p_len p HI). unfold total. lia.
  - destruct (Nat.ltb_spec (blen (pbuf p)) 1) as [Hlt|Hge]; [exact HI|].
    destruct lenp as [|n].
    + rewrite read_zero. constructor; cbn.
      * rewrite (p_ok p HI). reflexivity.
      * rewrite app_nil_r. exact (p_bytes p HI).
      * exact (p_len p HI).
    + pose proof (read_contract (pbuf p) (S n) (MoreErr RTimeout) (p_len p HI) ltac:(lia) Hge) as RC. cbn zeta in RC.
      destruct (lb_read (pbuf p) (S n) (MoreErr RTimeout)) as [[out err] b'].
      destruct RC as [R1 [R2 [R3 [R4 [R5 R6]]]]]. subst err.
      constructor; cbn [io_ok readout pbuf written].
      * rewrite (p_ok p HI).
        replace (1 <=? length out)%nat with true by (symmetry; apply Nat.leb_le; lia).
        replace (length out <=? S n)%nat with true by (symmetry; apply Nat.leb_le; lia). reflexivity.
      * rewrite <- app_assoc, <- R5. exact (p_bytes p HI).
      * assumption.
Qed.

Lemma pinv_run : forall ops, PInv (io_run ops).
Proof.
  intro ops. unfold io_run.
  assert (H0 : PInv pipe0) by (constructor; reflexivity).
  revert H0. generalize pipe0. induction ops as [|o r IH]; intros p HI; cbn; [assumption|].
  apply IH. apply pinv_step. assumption.
Qed.

Lemma io_stream : forall ops, let p := io_run ops in
  io_ok p = true /\ readout p ++ concat (slices (pbuf p)) = written p /\ blen (pbuf p) = total (slices (pbuf p)).
Proof. intro ops. destruct (pinv_run ops) as [A B C]. auto. Qed.
