(* Both directions of a stream pair: Stream.ReleaseReadAndReuse (Model/LinkedBuffer.dstep, DReuse).
   The swap decision of the model is the one the translator found in stream.go (Gen/SwitchC06.v):
   the proofs below are about exactly that decision and stop compiling when it changes. *)
From Coq Require Import List ZArith Lia Bool Arith.
From Shm Require Import Gen.Consts Gen.SwitchC06 Model.LinkedBuffer Proofs.LinkedBufferProofs.
Import ListNotations.
Close Scope Z_scope.
Open Scope nat_scope.

Definition mdstep := dstep sw_reuse_needs_len0 sw_reuse_needs_one_slice.

(* the swap happens only when nothing is unread *)
Lemma swap_cond_len0 l : swap_cond sw_reuse_needs_len0 sw_reuse_needs_one_slice l = true -> len l = 0%Z.
Proof.
  unfold swap_cond. change sw_reuse_needs_len0 with true. cbv iota. intros H. apply andb_prop in H. destruct H as [H _].
  apply Z.eqb_eq in H. exact H.
Qed.

(* ReleaseReadAndReuse of the stream that reads direction d never changes its unread byte sequence; if that
   stream has no written-but-unflushed bytes, it has none afterwards either; nothing else is touched *)
Theorem reuse_keeps_unread D d :
  let h := dhalf D d in let o := dhalf D (negb d) in
  WF (d_mem D) (h_rcv h) -> content (d_mem D) (h_snd o) = [] ->
  exists D', mdstep D (DReuse d) = Ok (RUnit, D') /\
    let h' := dhalf D' d in let o' := dhalf D' (negb d) in
    content (d_mem D') (h_rcv h') = content (d_mem D) (h_rcv h) /\
    content (d_mem D') (h_snd o') = [] /\
    same_data (d_mem D) (d_mem D') /\
    h_snd h' = h_snd h /\ h_pend h' = h_pend h /\ h_infb h' = h_infb h /\
    h_rcv o' = h_rcv o /\ h_pend o' = h_pend o /\ h_infb o' = h_infb o /\ d_oth D' = d_oth D.
Proof.
  intros h o Hwf Hsb. unfold mdstep, dstep. fold h o.
  pose proof (release_reserve_ok (d_mem D) (h_rcv h) Hwf) as Hrel.
  pose proof (release_reserve_same_data (d_mem D) (h_rcv h)) as Hsd.
  destruct (release_reserve (d_mem D) (h_rcv h)) as [m1 l1]. cbn [fst] in Hsd. destruct Hrel as [Hwf1 [Hc1 _]].
  assert (Hsb1 : content m1 (h_snd o) = []) by (rewrite (content_same _ _ _ Hsd); exact Hsb).
  destruct (swap_cond sw_reuse_needs_len0 sw_reuse_needs_one_slice l1) eqn:Esw.
  - (* swap: nothing was unread *)
    pose proof (swap_cond_len0 l1 Esw) as Hl.
    assert (Hz : content m1 l1 = []).
    { apply length_zero_iff_nil. destruct Hwf1 as [G _ _]. lia. }
    eexists. split; [reflexivity|]. destruct d; cbn [dhalf negb d_0 d_1 d_mem d_oth h_snd h_rcv h_pend h_infb];
      (split; [rewrite Hsb1, <- Hc1, Hz; reflexivity|]); (split; [exact Hz|]); (split; [exact Hsd|]); repeat split; reflexivity.
  - eexists. split; [reflexivity|]. destruct d; cbn [dhalf negb d_0 d_1 d_mem d_oth h_snd h_rcv h_pend h_infb];
      (split; [exact Hc1|]); (split; [exact Hsb1|]); (split; [exact Hsd|]); repeat split; reflexivity.
Qed.

(* the test on Len is necessary: without it, one partially read slice is swapped away *)
Example reuse_without_len_test_loses_unread :
  let bs := map Z.of_nat (seq 0 10) in
  let run st ops := fold_left (fun D o => match D with Some D => match dstep false true D o with Ok (_, D') => Some D' | _ => None end | None => None end) ops (Some st) in
  match run (init_dsys [(16, 4)]) [DOp false (WBytes bs); DOp false WFlush; DOp false (RBytes 4); DReuse false] with
  | Some D => content (d_mem D) (h_rcv (d_0 D)) = [] /\ len (h_snd (d_1 D)) = 6%Z
  | None => False
  end.
Proof. vm_compute. split; reflexivity. Qed.

(* with the decision of the current source the same history keeps the six unread bytes *)
Example reuse_keeps_partially_read_slice :
  let bs := map Z.of_nat (seq 0 10) in
  let run st ops := fold_left (fun D o => match D with Some D => match mdstep D o with Ok (_, D') => Some D' | _ => None end | None => None end) ops (Some st) in
  match run (init_dsys [(16, 4)]) [DOp false (WBytes bs); DOp false WFlush; DOp false (RBytes 4); DReuse false] with
  | Some D => content (d_mem D) (h_rcv (d_0 D)) = skipn 4 bs /\ len (h_snd (d_1 D)) = 0%Z
  | None => False
  end.
Proof. vm_compute. split; reflexivity. Qed.

(* ---------------------------------------------------------------------------------------- *)
(* the byte-queue specification of the stream pair, and the full duplex statement             *)
(* ---------------------------------------------------------------------------------------- *)
Definition dspec_step (sp0 sp1 : spec) (o : dop) : option (res * spec * spec) :=
  match o with
  | DOp false o => match spec_step sp0 o with Some (r, sp') => Some (r, sp', sp1) | None => None end
  | DOp true o => match spec_step sp1 o with Some (r, sp') => Some (r, sp0, sp') | None => None end
  | DReuse _ => Some (RUnit, sp0, sp1)        (* no byte of either direction moves *)
  end.

(* ReleaseReadAndReuse is only used by a stream that has no written-but-unflushed bytes (otherwise they
   are swapped into its read buffer: documented misuse, cf. Stream.reset in stream.go) *)
Definition dop_ok (sp0 sp1 : spec) (o : dop) : Prop :=
  match o with
  | DReuse false => pw sp1 = []
  | DReuse true => pw sp0 = []
  | DOp _ _ => True
  end.

Definition dres_agree (o : dop) (x y : res) : Prop := match o with DOp _ o => res_agree o x y | DReuse _ => x = y end.

Fixpoint dagrees (D : dsys) (sp0 sp1 : spec) (ops : list dop) : Prop :=
  match ops with
  | [] => True
  | o :: r =>
    dop_ok sp0 sp1 o ->
    match dspec_step sp0 sp1 o with
    | None => mdstep D o = Blocked /\ dagrees D sp0 sp1 r
    | Some (x, sp0', sp1') =>
        exists y D', mdstep D o = Ok (y, D') /\ dres_agree o x y
          /\ len (h_rcv (d_0 D')) = Z.of_nat (length (av sp0')) /\ len (h_snd (d_0 D')) = Z.of_nat (length (pw sp0'))
          /\ len (h_rcv (d_1 D')) = Z.of_nat (length (av sp1')) /\ len (h_snd (d_1 D')) = Z.of_nat (length (pw sp1'))
          /\ dagrees D' sp0' sp1' r
    end
  end.
