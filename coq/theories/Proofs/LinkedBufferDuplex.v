(* Both directions of a stream pair: Stream.ReleaseReadAndReuse (Model/LinkedBuffer.dstep, DReuse).
   The model is parametrized by the decisions the translators find in stream.go / session.go (swap
   condition, sticky fallback, sweep condition: Gen/SwitchC06.v, C07.v, C08.v); the proofs below are about the
   variant with every decision as in the current source ([mdstep]); Props/C06.v and Props/C08.v state that the
   generated switches select exactly this variant and stop compiling when a decision changes. *)
From Coq Require Import List ZArith Lia Bool Arith.
From Shm Require Import Gen.Consts Model.LinkedBuffer Proofs.LinkedBufferProofs Proofs.LinkedBufferStore
  Proofs.LinkedBufferWriter Proofs.LinkedBufferXfer Proofs.LinkedBufferPipe.
Import ListNotations.
Close Scope Z_scope.
Open Scope nat_scope.

Definition mdstep := dstep_gen true true true true.

(* the swap happens only when nothing is unread *)
Lemma swap_cond_len0 l : swap_cond true true l = true -> len l = 0%Z.
Proof.
  unfold swap_cond. cbv iota. intros H. apply andb_prop in H. destruct H as [H _].
  apply Z.eqb_eq in H. exact H.
Qed.

(* ReleaseReadAndReuse of the stream that reads direction d never changes its unread byte sequence; if that
   stream has no written-but-unflushed bytes, it has none afterwards either; nothing else is touched *)
Theorem reuse_keeps_unread D d :
  let h := dhalf D d in let o := dhalf D (negb d) in
  WF (d_mem D) (h_rcv h) -> content (d_mem D) (h_snd o) = [] ->
  exists D', mdstep D (DReuse d) = Ok (RUnit, D') /\
    let h' := dhalf D' d in let o' := dhalf D' (negb d) in
    content (d_mem D') (h_rcv h') = content (d_mem D) (h_rcv h) /\
    content (d_mem D') (h_snd o') = [] /\
    same_data (d_mem D) (d_mem D') /\
    h_snd h' = h_snd h /\ h_pend h' = h_pend h /\ h_infb h' = h_infb h /\
    h_rcv o' = h_rcv o /\ h_pend o' = h_pend o /\ h_infb o' = h_infb o /\ d_oth D' = d_oth D.
Proof.
  intros h o Hwf Hsb. unfold mdstep, dstep_gen. fold h o.
  pose proof (release_reserve_ok (d_mem D) (h_rcv h) Hwf) as Hrel.
  pose proof (release_reserve_same_data (d_mem D) (h_rcv h)) as Hsd.
  destruct (release_reserve (d_mem D) (h_rcv h)) as [m1 l1]. cbn [fst] in Hsd. destruct Hrel as [Hwf1 [Hc1 _]].
  assert (Hsb1 : content m1 (h_snd o) = []) by (rewrite (content_same _ _ _ Hsd); exact Hsb).
  destruct (swap_cond true true l1) eqn:Esw.
  - (* swap: nothing was unread *)
    pose proof (swap_cond_len0 l1 Esw) as Hl.
    assert (Hz : content m1 l1 = []).
    { apply length_zero_iff_nil. destruct Hwf1 as [G _ _]. lia. }
    eexists. split; [reflexivity|]. destruct d; cbn [dhalf negb d_0 d_1 d_mem d_oth h_snd h_rcv h_pend h_infb];
      (split; [rewrite Hsb1, <- Hc1, Hz; reflexivity|]); (split; [exact Hz|]); (split; [exact Hsd|]); repeat split; reflexivity.
  - eexists. split; [reflexivity|]. destruct d; cbn [dhalf negb d_0 d_1 d_mem d_oth h_snd h_rcv h_pend h_infb];
      (split; [exact Hc1|]); (split; [exact Hsb1|]); (split; [exact Hsd|]); repeat split; reflexivity.
Qed.

(* the test on Len is necessary: without it, one partially read slice is swapped away *)
Example reuse_without_len_test_loses_unread :
  let bs := map Z.of_nat (seq 0 10) in
  let run st ops := fold_left (fun D o => match D with Some D => match dstep_gen false true true true D o with Ok (_, D') => Some D' | _ => None end | None => None end) ops (Some st) in
  match run (init_dsys [(16, 4)]) [DOp false (WBytes bs); DOp false WFlush; DOp false (RBytes 4); DReuse false] with
  | Some D => content (d_mem D) (h_rcv (d_0 D)) = [] /\ len (h_snd (d_1 D)) = 6%Z
  | None => False
  end.
Proof. vm_compute. split; reflexivity. Qed.

(* with the decision of the current source the same history keeps the six unread bytes *)
Example reuse_keeps_partially_read_slice :
  let bs := map Z.of_nat (seq 0 10) in
  let run st ops := fold_left (fun D o => match D with Some D => match mdstep D o with Ok (_, D') => Some D' | _ => None end | None => None end) ops (Some st) in
  match run (init_dsys [(16, 4)]) [DOp false (WBytes bs); DOp false WFlush; DOp false (RBytes 4); DReuse false] with
  | Some D => content (d_mem D) (h_rcv (d_0 D)) = skipn 4 bs /\ len (h_snd (d_1 D)) = 0%Z
  | None => False
  end.
Proof. vm_compute. split; reflexivity. Qed.

(* ---------------------------------------------------------------------------------------- *)
(* the byte-queue specification of the stream pair, and the full duplex statement             *)
(* ---------------------------------------------------------------------------------------- *)
Definition dspec_step (sp0 sp1 : spec) (o : dop) : option (res * spec * spec) :=
  match o with
  | DOp false o => match spec_step sp0 o with Some (r, sp') => Some (r, sp', sp1) | None => None end
  | DOp true o => match spec_step sp1 o with Some (r, sp') => Some (r, sp0, sp') | None => None end
  | DReuse _ => Some (RUnit, sp0, sp1)        (* no byte of either direction moves *)
  end.

(* ReleaseReadAndReuse is only used by a stream that has no written-but-unflushed bytes (otherwise they
   are swapped into its read buffer: documented misuse, cf. Stream.reset in stream.go) *)
Definition dop_ok (sp0 sp1 : spec) (o : dop) : Prop :=
  match o with
  | DReuse false => pw sp1 = []
  | DReuse true => pw sp0 = []
  | DOp _ _ => True
  end.

Definition dres_agree (o : dop) (x y : res) : Prop := match o with DOp _ o => res_agree o x y | DReuse _ => x = y end.

Fixpoint dagrees (D : dsys) (sp0 sp1 : spec) (ops : list dop) : Prop :=
  match ops with
  | [] => True
  | o :: r =>
    dop_ok sp0 sp1 o ->
    match dspec_step sp0 sp1 o with
    | None => mdstep D o = Blocked /\ dagrees D sp0 sp1 r
    | Some (x, sp0', sp1') =>
        exists y D', mdstep D o = Ok (y, D') /\ dres_agree o x y
          /\ len (h_rcv (d_0 D')) = Z.of_nat (length (av sp0')) /\ len (h_snd (d_0 D')) = Z.of_nat (length (pw sp0'))
          /\ len (h_rcv (d_1 D')) = Z.of_nat (length (av sp1')) /\ len (h_snd (d_1 D')) = Z.of_nat (length (pw sp1'))
          /\ dagrees D' sp0' sp1' r
    end
  end.

(* ---------------------------------------------------------------------------------------- *)
(* the invariant of the stream pair: each direction satisfies the pipe invariant, the slots of the   *)
(* other direction being "external" (never touched, never free)                                       *)
(* ---------------------------------------------------------------------------------------- *)
Definition mk_sys (m : shm) (h : half) (o : list slice) : sys :=
  {| mem := m; snd := h_snd h; infb := h_infb h; pend := h_pend h; rcv := h_rcv h; oth := o |}.

Definition owned (h : half) (idss : list (list nat)) : list nat :=
  offs (slices (h_snd h)) ++ concat idss ++ offs (slices (h_rcv h)) ++ offs (pinned (h_rcv h)).

Lemma cnt_owned h idss x : cnt (owned h idss) x =
  cnt (offs (slices (h_snd h))) x + cnt (concat idss) x + cnt (offs (slices (h_rcv h))) x + cnt (offs (pinned (h_rcv h))) x.
Proof. unfold owned. rewrite !cnt_app. lia. Qed.

Definition DInv (D : dsys) (sp0 sp1 : spec) : Prop :=
  exists idss0 idss1,
    Inv (owned (d_1 D) idss1) (slot_at (d_mem D)) (mk_sys (d_mem D) (d_0 D) (d_oth D)) sp0 idss0 /\
    Inv (owned (d_0 D) idss0) (slot_at (d_mem D)) (mk_sys (d_mem D) (d_1 D) (d_oth D)) sp1 idss1.

Lemma Inv_reghost ext Eg s sp idss : Inv ext Eg s sp idss -> Inv ext (slot_at (mem s)) s sp idss.
Proof. intros [I1 I2 I3 I4 I5 I6 I7 I8 I9 I10 I11 I12 I13 I14 I15 I16 I17]. constructor; auto. Qed.

(* frame: the invariant of one direction survives any change of the store that leaves its slots alone *)
Lemma Inv_transfer ext Eg m h oth0 sp idss m' oth' ext' b' :
  Inv ext Eg (mk_sys m h oth0) sp idss ->
  store_ok m' ->
  (forall x, 0 < cnt (owned h idss) x -> slot_at m' x = slot_at m x) ->
  (forall x, cnt (frees m') x + cnt (owned h idss) x + cnt (offs oth') x + cnt ext' x <= 1) ->
  Forall (fun b => shmf b = true) oth' -> Forall (recyclable m') oth' ->
  (b' = h_infb h \/ b' = true) ->
  Inv ext' (slot_at m') (mk_sys m' (with_infb h b') oth') sp idss.
Proof.
  intros [I1 I2 I3 I4 I5 I6 I7 I8 I9 [I10a I10b] I11 I12 I13 I14 I15 I16 I17] Hok Hagree Hown Hos Hor Hb.
  cbn [mk_sys mem snd infb pend rcv oth] in *.
  assert (Hag : forall x, 0 < cnt (offs (slices (h_snd h))) x + cnt (concat idss) x + cnt (offs (slices (h_rcv h))) x
                              + cnt (offs (pinned (h_rcv h))) x -> slot_at m' x = slot_at m x).
  { intros x Hx. apply Hagree. rewrite cnt_owned. lia. }
  constructor; cbn [mk_sys mem snd infb pend rcv oth with_infb h_snd h_infb h_pend h_rcv].
  - exact Hok.
  - apply (WB_frame m); [|exact I2]. intros x Hx. apply Hag. apply cnt_In in Hx. lia.
  - rewrite (content_frame m m'); [exact I3|]. intros x Hx. apply Hag. apply cnt_In in Hx. lia.
  - apply (pend_ok_frame m); [|exact I4]. intros x Hx. apply Hag. apply cnt_In in Hx. lia.
  - apply (WF_frame m); [|exact I5]. intros x Hx. apply Hag. apply cnt_In in Hx. lia.
  - rewrite (content_frame m m'); [exact I6|]. intros x Hx. apply Hag. apply cnt_In in Hx. lia.
  - exact I7.
  - intros x. specialize (Hown x). rewrite cnt_owned in Hown. lia.
  - apply (recyclable_frame m); [|exact I9]. intros x Hx. rewrite offs_app in Hx. apply Hag.
    apply in_app_or in Hx. destruct Hx as [Hx|Hx]; apply cnt_In in Hx; lia.
  - split; assumption.
  - exact I11.
  - intros Eb. apply I12. destruct Hb as [Hb|Hb]; congruence.
  - apply (leases_ok_frame m); [|exact I13]. intros x Hx. apply Hag. destruct Hx as [Hx|Hx]; apply cnt_In in Hx; lia.
  - intros x _. reflexivity.
  - exact I15.
  - exact I16.
  - exact I17.
Qed.

Lemma Inv_mk_eta ext Eg s sp idss : Inv ext Eg s sp idss -> Inv ext Eg (mk_sys (mem s) (half_of s) (oth s)) sp idss.
Proof. destruct s. auto. Qed.

Lemma with_infb_same h : with_infb h (h_infb h) = h.
Proof. destruct h. reflexivity. Qed.

Lemma owned_with_infb h b idss : owned (with_infb h b) idss = owned h idss.
Proof. reflexivity. Qed.

(* one operation of one direction, seen from both directions *)
Lemma half_step m h k oth0 sp_h idss_h sp_k idss_k o :
  Inv (owned k idss_k) (slot_at m) (mk_sys m h oth0) sp_h idss_h ->
  Inv (owned h idss_h) (slot_at m) (mk_sys m k oth0) sp_k idss_k ->
  match spec_step sp_h o with
  | None => step (mk_sys m h oth0) o = Blocked
  | Some (x, sp') =>
      exists y s' idss', step (mk_sys m h oth0) o = Ok (y, s') /\ res_agree o x y /\
        forall b', (b' = h_infb k \/ b' = true) ->
          Inv (owned (with_infb k b') idss_k) (slot_at (mem s')) (mk_sys (mem s') (half_of s') (oth s')) sp' idss' /\
          Inv (owned (half_of s') idss') (slot_at (mem s')) (mk_sys (mem s') (with_infb k b') (oth s')) sp_k idss_k
  end.
Proof.
  intros Ih Ik. pose proof (step_inv _ _ _ _ _ o Ih) as H. destruct (spec_step sp_h o) as [[x sp']|]; [|exact H].
  destruct H as [y [s' [idss' [Hs [Hr I']]]]]. exists y, s', idss'. split; [exact Hs|]. split; [exact Hr|].
  intros b' Hb. split.
  - rewrite owned_with_infb. apply Inv_mk_eta. eapply Inv_reghost. exact I'.
  - eapply (Inv_transfer _ _ m k oth0 sp_k idss_k); [exact Ik|exact (iv_ok _ _ _ _ _ I')| | | | |exact Hb].
    + intros z Hz. apply (iv_ext _ _ _ _ _ I'). exact Hz.
    + intros z. pose proof (iv_own _ _ _ _ _ I' z) as Ho. rewrite !cnt_owned in *. cbn [half_of h_snd h_rcv]. lia.
    + exact (proj1 (iv_oth _ _ _ _ _ I')).
    + exact (proj2 (iv_oth _ _ _ _ _ I')).
Qed.

Definition dres_ok (o : dop) (x y : res) : Prop := dres_agree o x y.

Lemma dstep_op_inv D sp0 sp1 d o : DInv D sp0 sp1 ->
  match dspec_step sp0 sp1 (DOp d o) with
  | None => mdstep D (DOp d o) = Blocked
  | Some (x, sp0', sp1') => exists y D', mdstep D (DOp d o) = Ok (y, D') /\ res_agree o x y /\ DInv D' sp0' sp1'
  end.
Proof.
  intros [idss0 [idss1 [I0 I1]]]. unfold mdstep, dstep_gen. destruct d; cbn [dspec_step dview dhalf negb].
  - (* direction 1: stream B writes, A reads *)
    pose proof (half_step _ _ _ _ _ _ _ _ o I1 I0) as H. change (dview D true) with (mk_sys (d_mem D) (d_1 D) (d_oth D)).
    destruct (spec_step sp1 o) as [[x sp']|].
    + destruct H as [y [s' [idss' [Hs [Hr HI]]]]].
      rewrite Hs. cbn [bind]. eexists. eexists. split; [reflexivity|]. split; [exact Hr|].
      set (mv := existsb is_fallback (pend (mk_sys (d_mem D) (d_1 D) (d_oth D))) && match pend s' with [] => true | _ :: _ => false end).
      destruct (HI (if mv then true else h_infb (d_0 D)) ltac:(destruct mv; auto)) as [J1 J0].
      exists idss0, idss'. unfold dput. cbn [d_mem d_0 d_1 d_oth].
      assert (Ek : (if mv then with_infb (d_0 D) true else d_0 D) = with_infb (d_0 D) (if mv then true else h_infb (d_0 D))).
      { destruct mv; [reflexivity|symmetry; apply with_infb_same]. }
      rewrite Ek. split; [exact J0|exact J1].
    + rewrite H. reflexivity.
  - pose proof (half_step _ _ _ _ _ _ _ _ o I0 I1) as H. change (dview D false) with (mk_sys (d_mem D) (d_0 D) (d_oth D)).
    destruct (spec_step sp0 o) as [[x sp']|].
    + destruct H as [y [s' [idss' [Hs [Hr HI]]]]].
      rewrite Hs. cbn [bind]. eexists. eexists. split; [reflexivity|]. split; [exact Hr|].
      set (mv := existsb is_fallback (pend (mk_sys (d_mem D) (d_0 D) (d_oth D))) && match pend s' with [] => true | _ :: _ => false end).
      destruct (HI (if mv then true else h_infb (d_1 D)) ltac:(destruct mv; auto)) as [J0 J1].
      exists idss', idss1. unfold dput. cbn [d_mem d_0 d_1 d_oth].
      assert (Ek : (if mv then with_infb (d_1 D) true else d_1 D) = with_infb (d_1 D) (if mv then true else h_infb (d_1 D))).
      { destruct mv; [reflexivity|symmetry; apply with_infb_same]. }
      rewrite Ek. split; [exact J0|exact J1].
    + rewrite H. reflexivity.
Qed.

(* ---------------------------------------------------------------------------------------- *)
(* ReleaseReadAndReuse preserves the invariant of the pair (incl. the swap)                  *)
(* ---------------------------------------------------------------------------------------- *)
Lemma swap_cond_one l : swap_cond true true l = true -> length (slices l) = 1.
Proof.
  unfold swap_cond. cbv iota. intros H. apply andb_prop in H. destruct H as [_ H].
  apply Nat.eqb_eq in H. exact H.
Qed.

Lemma wslice_recyclable m s : wslice_ok m s -> recyclable m s.
Proof. intros [_ [_ [_ [_ H]]]] E. destruct (H E) as [t [Ht [Hc _]]]. exists t. auto. Qed.

Lemma reuse_inv m hs hi hp hr ks ki kp kr oth0 sp_h idss_h sp_k idss_k :
  let h := {| h_snd := hs; h_infb := hi; h_pend := hp; h_rcv := hr |} in
  let k := {| h_snd := ks; h_infb := ki; h_pend := kp; h_rcv := kr |} in
  Inv (owned k idss_k) (slot_at m) (mk_sys m h oth0) sp_h idss_h ->
  Inv (owned h idss_h) (slot_at m) (mk_sys m k oth0) sp_k idss_k ->
  pw sp_k = [] ->
  let '(m1, l1) := release_reserve m hr in
  let '(rcv', ksnd') := if swap_cond true true l1 then (ks, l1) else (l1, ks) in
  let h' := {| h_snd := hs; h_infb := hi; h_pend := hp; h_rcv := rcv' |} in
  let k' := {| h_snd := ksnd'; h_infb := ki; h_pend := kp; h_rcv := kr |} in
  Inv (owned k' idss_k) (slot_at m1) (mk_sys m1 h' oth0) sp_h idss_h /\
  Inv (owned h' idss_h) (slot_at m1) (mk_sys m1 k' oth0) sp_k idss_k.
Proof.
  intros h k Ih Ik Hpw.
  pose proof (Inv_release_reserve _ _ _ _ _ Ih) as Hrel. cbn [mk_sys mem rcv h h_rcv] in Hrel.
  destruct (release_reserve m hr) as [m1 l1]. destruct Hrel as [I1 [Hpin [Hlea Hshape]]].
  set (h1 := {| h_snd := hs; h_infb := hi; h_pend := hp; h_rcv := l1 |}).
  assert (Ih1 : Inv (owned k idss_k) (slot_at m1) (mk_sys m1 h1 oth0) sp_h idss_h).
  { apply (Inv_reghost _ _ _ _ _ I1). }
  assert (Ik1 : Inv (owned h1 idss_h) (slot_at m1) (mk_sys m1 k oth0) sp_k idss_k).
  { change (mk_sys m1 k oth0) with (mk_sys m1 (with_infb k ki) oth0).
    eapply (Inv_transfer _ _ m k oth0 sp_k idss_k); [exact Ik|exact (iv_ok _ _ _ _ _ I1)| | | | |left; reflexivity].
    - intros z Hz. apply (iv_ext _ _ _ _ _ I1). exact Hz.
    - intros z. pose proof (iv_own _ _ _ _ _ I1 z) as Ho. rewrite !cnt_owned in *.
      cbn [mk_sys with_mem_rcv mem snd rcv oth h1 h k h_snd h_rcv] in *. lia.
    - exact (proj1 (iv_oth _ _ _ _ _ I1)).
    - exact (proj2 (iv_oth _ _ _ _ _ I1)). }
  destruct (swap_cond true true l1) eqn:Esw; [|split; [exact Ih1|exact Ik1]].
  (* the swap *)
  subst h1 h k.
  pose proof (swap_cond_len0 l1 Esw) as Hl0. pose proof (swap_cond_one l1 Esw) as Hone.
  destruct (Hshape Hl0 Hone) as [y [t [Esl [Eshm [Erd [Ewr [Et Ehn]]]]]]].
  destruct Ih1 as [J1 J2 J3 J4 J5 J6 J7 J8 J9 [J10a J10b] J11 J12 J13 J14 J15 J16 J17].
  destruct Ik1 as [K1 K2 K3 K4 K5 K6 K7 K8 K9 [K10a K10b] K11 K12 K13 K14 K15 K16 K17].
  cbn [mk_sys mem snd infb pend rcv oth h_snd h_infb h_pend h_rcv] in *.
  pose proof K2 as [W1 W2 W3 W4 W5 W6 W7].
  destruct K17 as [Kp [Kr Kl]].
  assert (Hc1 : content m1 l1 = []).
  { apply length_zero_iff_nil. destruct J5 as [G _ _]. lia. }
  assert (Hav : av sp_h = []) by (rewrite <- J6; exact Hc1).
  assert (Hcks : content m1 ks = []) by (rewrite K3; exact Hpw).
  assert (Hlks : len ks = 0%Z) by (rewrite W3, Hcks; reflexivity).
  destruct (W7 Hlks) as [Hle1 Hallshm].
  assert (Hoffs1 : offs (slices l1) = [off y]) by (rewrite Esl; apply (offs_cons_shm y [] Eshm)).
  assert (Hpin0 : forall z, cnt (offs (pinned l1)) z = 0) by (intros z; rewrite Hpin; reflexivity).
  assert (Hkpin0 : forall z, cnt (offs (pinned ks)) z = 0) by (intros z; rewrite Kp; reflexivity).
  assert (Hyrec : recyclable m1 y).
  { rewrite Esl in J9. cbn [app] in J9. inversion J9; assumption. }
  assert (Hywok : wslice_ok m1 y).
  { destruct (Hyrec Eshm) as [t' [Ht' Hcap]]. rewrite Et in Ht'. injection Ht' as <-.
    destruct (so_static m1 J1 _ _ Et) as [Hdl _].
    unfold start0 in J15. rewrite Esl in J15. inversion J15 as [|? ? Hst _]; subst.
    unfold wslice_ok. rewrite (sdata_slot m1 y Eshm), Et. repeat split; try lia.
    intros _. exists t. auto. }
  split.
  - (* the releasing stream's direction: its receive buffer is now the (empty) former send buffer *)
    constructor; cbn [mk_sys mem snd infb pend rcv oth h_snd h_infb h_pend h_rcv].
    + exact J1.
    + exact J2.
    + exact J3.
    + exact J4.
    + constructor.
      * exact W3.
      * destruct (slices ks) as [|a [|b r]]; cbn [tl]; [constructor|constructor|cbn [length] in Hle1; lia].
      * eapply Forall_impl; [|exact W1]. intros a Ha. apply wslice_slice_ok. exact Ha.
    + rewrite Hcks, Hav. reflexivity.
    + exact Kr.
    + intros z. specialize (J8 z). rewrite !cnt_owned in *. cbn [h_snd h_rcv] in *.
      rewrite Hpin0 in J8. rewrite Hkpin0. lia.
    + rewrite Kp, app_nil_r. eapply Forall_impl; [|exact W1]. intros a Ha. apply wslice_recyclable. exact Ha.
    + split; assumption.
    + intros _. exact Hallshm.
    + intros Eb. split; [exact Hallshm|exact (proj2 (J12 Eb))].
    + apply leases_ok_nil. exact Kl.
    + intros z _. reflexivity.
    + eapply Forall_impl; [|exact W1]. intros a [[_ Ha] _]. exact Ha.
    + unfold rwp. destruct (wpos ks) as [|i|]; [left; exact W4|right; f_equal; lia|contradiction].
    + exact J17.
  - (* the other direction: its send buffer is now the adopted slice *)
    assert (Hwp : wpos l1 = WAt 0).
    { destruct J16 as [Hn|Hw]; [rewrite Esl in Hn; discriminate|]. rewrite Esl in Hw. exact Hw. }
    constructor; cbn [mk_sys mem snd infb pend rcv oth h_snd h_infb h_pend h_rcv].
    + exact K1.
    + constructor.
      * rewrite Esl. constructor; [exact Hywok|constructor].
      * rewrite Hoffs1. constructor; [intros []|constructor].
      * rewrite Hc1. exact Hl0.
      * rewrite Hwp, Esl. reflexivity.
      * intros _ Hpos. lia.
      * intros _. rewrite Esl. constructor; [exact Eshm|constructor].
      * intros _. rewrite Esl. split; [cbn; lia|constructor; [exact Eshm|constructor]].
    + rewrite Hc1, Hpw. reflexivity.
    + exact K4.
    + exact K5.
    + exact K6.
    + exact K7.
    + intros z. specialize (K8 z). rewrite !cnt_owned in *. cbn [h_snd h_rcv] in *.
      rewrite Hpin0 in K8. rewrite Hkpin0. lia.
    + exact K9.
    + split; assumption.
    + exact K11.
    + exact K12.
    + exact K13.
    + intros z _. reflexivity.
    + exact K15.
    + exact K16.
    + repeat split; assumption.
Qed.

Lemma dstep_reuse_inv D sp0 sp1 d : DInv D sp0 sp1 -> dop_ok sp0 sp1 (DReuse d) ->
  exists D', mdstep D (DReuse d) = Ok (RUnit, D') /\ DInv D' sp0 sp1.
Proof.
  intros [idss0 [idss1 [I0 I1]]] Hok. unfold mdstep, dstep_gen. destruct D as [m [s0 b0 p0 r0] [s1 b1 p1 r1] ot].
  cbn [d_mem d_0 d_1 d_oth] in *. destruct d; cbn [dhalf negb d_0 d_1 d_mem d_oth h_snd h_infb h_pend h_rcv dop_ok] in *.
  - (* stream A (reads direction 1) releases: its send buffer is direction 0's *)
    pose proof (reuse_inv m s1 b1 p1 r1 s0 b0 p0 r0 ot sp1 idss1 sp0 idss0 I1 I0 Hok) as H.
    destruct (release_reserve m r1) as [m1 l1].
    destruct (swap_cond true true l1); destruct H as [H1 H0];
      (eexists; split; [reflexivity|]; exists idss0, idss1; cbn [d_mem d_0 d_1 d_oth]; split; [exact H0|exact H1]).
  - pose proof (reuse_inv m s0 b0 p0 r0 s1 b1 p1 r1 ot sp0 idss0 sp1 idss1 I0 I1 Hok) as H.
    destruct (release_reserve m r0) as [m1 l1].
    destruct (swap_cond true true l1); destruct H as [H0 H1];
      (eexists; split; [reflexivity|]; exists idss0, idss1; cbn [d_mem d_0 d_1 d_oth]; split; [exact H0|exact H1]).
Qed.

Lemma DInv_lens D sp0 sp1 : DInv D sp0 sp1 ->
  len (h_rcv (d_0 D)) = Z.of_nat (length (av sp0)) /\ len (h_snd (d_0 D)) = Z.of_nat (length (pw sp0)) /\
  len (h_rcv (d_1 D)) = Z.of_nat (length (av sp1)) /\ len (h_snd (d_1 D)) = Z.of_nat (length (pw sp1)).
Proof.
  intros [idss0 [idss1 [I0 I1]]]. destruct (Inv_lens _ _ _ _ _ I0) as [A B]. destruct (Inv_lens _ _ _ _ _ I1) as [C E]. auto.
Qed.

Theorem dagrees_of_DInv : forall ops D sp0 sp1, DInv D sp0 sp1 -> dagrees D sp0 sp1 ops.
Proof.
  induction ops as [|o ops IH]; intros D sp0 sp1 I; [exact Logic.I|]. cbn [dagrees]. intros Hok.
  destruct o as [d o|d].
  - pose proof (dstep_op_inv D sp0 sp1 d o I) as H. destruct (dspec_step sp0 sp1 (DOp d o)) as [[[x sp0'] sp1']|].
    + destruct H as [y [D' [Hs [Hr I']]]]. exists y, D'. split; [exact Hs|]. split; [exact Hr|].
      destruct (DInv_lens _ _ _ I') as [L1 [L2 [L3 L4]]]. repeat (split; [assumption|]). apply IH. exact I'.
    + split; [exact H|]. apply IH. exact I.
  - destruct (dstep_reuse_inv D sp0 sp1 d I Hok) as [D' [Hs I']]. cbn [dspec_step]. exists RUnit, D'.
    split; [exact Hs|]. split; [reflexivity|].
    destruct (DInv_lens _ _ _ I') as [L1 [L2 [L3 L4]]]. repeat (split; [assumption|]). apply IH. exact I'.
Qed.

Lemma DInv_init cfg : cfg_ok cfg -> DInv (init_dsys cfg) spec0 spec0.
Proof.
  intros Hc. exists [], []. pose proof (Inv_init cfg Hc) as I. unfold Inv1 in I.
  assert (J : Inv (owned empty_half []) (slot_at (init_shm cfg)) (mk_sys (init_shm cfg) empty_half []) spec0 []).
  { destruct I as [I1 I2 I3 I4 I5 I6 I7 I8 I9 I10 I11 I12 I13 I14 I15 I16 I17]. constructor; auto. }
  split; exact J.
Qed.

(* C06 for both directions of a stream pair, ReleaseReadAndReuse included *)
Theorem duplex_refines cfg ops : cfg_ok cfg -> dagrees (init_dsys cfg) spec0 spec0 ops.
Proof. intros Hc. apply dagrees_of_DInv. apply DInv_init. exact Hc. Qed.

(* ---------------------------------------------------------------------------------------- *)
(* the guard is necessary: ReleaseReadAndReuse by a stream with written, unflushed bytes     *)
(* ---------------------------------------------------------------------------------------- *)
Fixpoint dagrees_unguarded (D : dsys) (sp0 sp1 : spec) (ops : list dop) : Prop :=
  match ops with
  | [] => True
  | o :: r =>
    match dspec_step sp0 sp1 o with
    | None => mdstep D o = Blocked /\ dagrees_unguarded D sp0 sp1 r
    | Some (x, sp0', sp1') =>
        exists y D', mdstep D o = Ok (y, D') /\ dres_agree o x y
          /\ len (h_rcv (d_0 D')) = Z.of_nat (length (av sp0')) /\ len (h_snd (d_0 D')) = Z.of_nat (length (pw sp0'))
          /\ len (h_rcv (d_1 D')) = Z.of_nat (length (av sp1')) /\ len (h_snd (d_1 D')) = Z.of_nat (length (pw sp1'))
          /\ dagrees_unguarded D' sp0' sp1' r
    end
  end.

(* the documented misuse: A sends 4 bytes, B reads them, B writes 3 bytes WITHOUT flushing and calls
   ReleaseReadAndReuse: the swap puts B's own unflushed bytes into B's read buffer *)
Definition misuse_ops : list dop :=
  [DOp false (WBytes [1; 2; 3; 4]%Z); DOp false WFlush; DOp false (RBytes 4);
   DOp true (WBytes [7; 8; 9]%Z); DReuse false].

Fixpoint drun (D : dsys) (ops : list dop) : option dsys :=
  match ops with
  | [] => Some D
  | o :: r => match mdstep D o with Ok (_, D') => drun D' r | Blocked => drun D r | _ => None end
  end.

Lemma misuse_swaps_unflushed_bytes :
  match drun (init_dsys [(16, 4)]) misuse_ops with
  | Some D => len (h_rcv (d_0 D)) = 3%Z /\ len (h_snd (d_1 D)) = 0%Z
  | None => False
  end.
Proof. vm_compute. split; reflexivity. Qed.

Fixpoint dspec_run (sp0 sp1 : spec) (ops : list dop) : spec * spec :=
  match ops with
  | [] => (sp0, sp1)
  | o :: r => match dspec_step sp0 sp1 o with Some (_, a, b) => dspec_run a b r | None => dspec_run sp0 sp1 r end
  end.

Lemma dagrees_unguarded_drun : forall ops D sp0 sp1,
  len (h_rcv (d_0 D)) = Z.of_nat (length (av sp0)) -> dagrees_unguarded D sp0 sp1 ops ->
  exists D', drun D ops = Some D' /\ len (h_rcv (d_0 D')) = Z.of_nat (length (av (fst (dspec_run sp0 sp1 ops)))).
Proof.
  induction ops as [|o r IH]; intros D sp0 sp1 HP H; cbn [drun dspec_run dagrees_unguarded] in *.
  - exists D. auto.
  - destruct (dspec_step sp0 sp1 o) as [[[x a] b]|].
    + destruct H as [y [D1 [Hs [_ [L1 [_ [_ [_ H]]]]]]]]. rewrite Hs. apply IH; assumption.
    + destruct H as [Hs H]. rewrite Hs. apply IH; assumption.
Qed.

Theorem duplex_unguarded_refuted :
  ~ (forall cfg ops, cfg_ok cfg -> dagrees_unguarded (init_dsys cfg) spec0 spec0 ops).
Proof.
  intros H. assert (Hc : cfg_ok [(16, 4)]) by (constructor; [cbn; lia|constructor]).
  specialize (H [(16, 4)] misuse_ops Hc).
  destruct (dagrees_unguarded_drun misuse_ops (init_dsys [(16, 4)]) spec0 spec0 ltac:(reflexivity) H) as [D' [Hr HL]].
  pose proof misuse_swaps_unflushed_bytes as M. rewrite Hr in M. destruct M as [M _].
  rewrite M in HL. vm_compute in HL. discriminate.
Qed.

(* the guard is satisfiable with a real swap: B reads A's message, adopts the slice, echoes through it *)
Fixpoint douts (D : dsys) (ops : list dop) : list (option res) :=
  match ops with
  | [] => []
  | o :: r => match mdstep D o with Ok (y, D') => Some y :: douts D' r | _ => [None] end
  end.

Example duplex_echo_through_adopted_slice :
  let ops := [DOp false (WBytes [1; 2; 3; 4]%Z); DOp false WFlush; DOp false (RBytes 4); DReuse false;
              DOp true (WBytes [7; 8; 9]%Z); DOp true WFlush; DOp true (RBytes 3); DReuse true] in
  douts (init_dsys [(16, 4)]) ops
    = map Some [RN 4; RUnit; RData [1; 2; 3; 4]%Z; RUnit; RN 3; RUnit; RData [7; 8; 9]%Z; RUnit]
  /\ match drun (init_dsys [(16, 4)]) (firstn 5 ops) with
     | Some D => free_counts (d_mem D) = [3] /\ length (slices (h_snd (d_1 D))) = 1   (* no new slot for the echo *)
     | None => False
     end.
Proof. vm_compute. repeat split. Qed.

(* ---------------------------------------------------------------------------------------- *)
(* reachable states of the pair; leases (C08) in both directions                             *)
(* ---------------------------------------------------------------------------------------- *)
Fixpoint dguard (sp0 sp1 : spec) (ops : list dop) : Prop :=
  match ops with
  | [] => True
  | o :: r => dop_ok sp0 sp1 o /\
              match dspec_step sp0 sp1 o with Some (_, a, b) => dguard a b r | None => dguard sp0 sp1 r end
  end.

Theorem dreachable_DInv : forall ops D sp0 sp1 D', DInv D sp0 sp1 -> dguard sp0 sp1 ops -> drun D ops = Some D' ->
  DInv D' (fst (dspec_run sp0 sp1 ops)) (Datatypes.snd (dspec_run sp0 sp1 ops)).
Proof.
  induction ops as [|o r IH]; intros D sp0 sp1 D' I G H; cbn [drun dspec_run dguard] in *.
  - injection H as <-. exact I.
  - destruct G as [Gok G]. destruct o as [d o|d].
    + pose proof (dstep_op_inv D sp0 sp1 d o I) as Hs. destruct (dspec_step sp0 sp1 (DOp d o)) as [[[x a] b]|].
      * destruct Hs as [y [D1 [Hs [_ I1]]]]. rewrite Hs in H. eapply IH; eassumption.
      * rewrite Hs in H. eapply IH; eassumption.
    + destruct (dstep_reuse_inv D sp0 sp1 d I Gok) as [D1 [Hs I1]]. rewrite Hs in H. cbn [dspec_step] in *. eapply IH; eassumption.
Qed.

Theorem duplex_leases_safe cfg ops D' le : cfg_ok cfg -> dguard spec0 spec0 ops -> drun (init_dsys cfg) ops = Some D' ->
  In le (leases (h_rcv (d_0 D')) ++ leases (h_rcv (d_1 D'))) -> l_shm le = true ->
  ~ In (l_off le) (frees (d_mem D')) /\ lease_bytes (d_mem D') le = l_bytes le.
Proof.
  intros Hc G Hr Hin Hs. destruct (dreachable_DInv ops _ _ _ _ (DInv_init cfg Hc) G Hr) as [i0 [i1 [I0 I1]]].
  apply in_app_or in Hin. destruct Hin as [Hin|Hin].
  - destruct (Inv_leases_safe _ _ _ _ _ le I0 Hin Hs) as [A [B _]]. auto.
  - destruct (Inv_leases_safe _ _ _ _ _ le I1 Hin Hs) as [A [B _]]. auto.
Qed.

(* ---------------------------------------------------------------------------------------- *)
(* two transports: the order of flushes across the queue (shm) and the socket (fallback)     *)
(* ---------------------------------------------------------------------------------------- *)
(* The pipe model keeps ONE ordered list of pending deliveries.  That is justified by the transport
   decision of Stream.Flush: a receiver that resumes while both the queue and the socket hold data
   drains the queue first, so the order of flushes survives exactly when no flush goes back to the
   queue after one went through the socket.  [choose] is the decision of Model.flush. *)
Inductive via := VQueue | VSocket.
Definition is_sock (x : via * list byte) : bool := match fst x with VSocket => true | VQueue => false end.

Fixpoint choose (sticky infb : bool) (fl : list (bool * list byte)) : list (via * list byte) :=
  match fl with
  | [] => []
  | (fromshm, bs) :: r =>
      let fb := (sticky && infb) || negb fromshm in
      ((if fb then VSocket else VQueue), bs) :: choose sticky fb r
  end.

Definition bytes_of (l : list (via * list byte)) : list byte := concat (map (@Datatypes.snd _ _) l).
(* one resumption of the receiver: everything in the queue, then the socket events *)
Definition deliver_once (l : list (via * list byte)) : list byte :=
  bytes_of (filter (fun x => negb (is_sock x)) l) ++ bytes_of (filter is_sock l).
(* any number of resumptions, at any points of the flush sequence *)
Definition deliver (chunks : list (list (via * list byte))) : list byte := concat (map deliver_once chunks).

Fixpoint qs (l : list (via * list byte)) : bool :=
  match l with
  | [] => true
  | x :: r => if is_sock x then forallb is_sock r else qs r
  end.

Lemma filter_all_sock l : forallb is_sock l = true ->
  filter (fun x => negb (is_sock x)) l = [] /\ filter is_sock l = l.
Proof.
  induction l as [|x r IH]; intros H; [auto|]. cbn [forallb] in H. apply andb_prop in H. destruct H as [Hx Hr].
  destruct (IH Hr) as [A B]. cbn [filter]. rewrite Hx. cbn [negb]. rewrite A, B. auto.
Qed.

Lemma deliver_once_sorted l : qs l = true -> deliver_once l = bytes_of l.
Proof.
  induction l as [|x r IH]; intros H; [reflexivity|]. cbn [qs] in H. unfold deliver_once in *. cbn [filter].
  destruct (is_sock x) eqn:Ex; cbn [negb].
  - destruct (filter_all_sock r H) as [A B]. rewrite A, B. reflexivity.
  - unfold bytes_of in *. cbn [map concat]. rewrite <- app_assoc. f_equal. apply IH. exact H.
Qed.

Lemma forallb_qs l : forallb is_sock l = true -> qs l = true.
Proof. destruct l as [|x r]; [auto|]. cbn [forallb qs]. intros H. apply andb_prop in H. destruct H as [-> H]. exact H. Qed.

Lemma qs_app a b : qs (a ++ b) = true -> qs a = true /\ qs b = true.
Proof.
  induction a as [|x a IH]; intros H; [auto|]. cbn [app qs] in *. destruct (is_sock x).
  - rewrite forallb_app in H. apply andb_prop in H. destruct H as [H1 H2]. split; [exact H1|apply forallb_qs; exact H2].
  - apply IH. exact H.
Qed.

Lemma deliver_sorted : forall chunks, qs (concat chunks) = true -> deliver chunks = bytes_of (concat chunks).
Proof.
  induction chunks as [|c cs IH]; intros H; [reflexivity|]. cbn [concat] in H. destruct (qs_app _ _ H) as [Hc Hcs].
  unfold deliver in *. cbn [map concat]. rewrite (deliver_once_sorted c Hc), (IH Hcs).
  unfold bytes_of. rewrite map_app, concat_app. reflexivity.
Qed.

Lemma choose_all_sock : forall fl, forallb is_sock (choose true true fl) = true.
Proof. induction fl as [|[f bs] r IH]; [reflexivity|]. cbn [choose andb orb forallb is_sock fst]. exact IH. Qed.

Lemma choose_sorted : forall fl infb, qs (choose true infb fl) = true.
Proof.
  induction fl as [|[f bs] r IH]; intros infb; [reflexivity|]. cbn [choose qs]. cbn [andb].
  destruct (infb || negb f) eqn:E; cbn [is_sock fst]; [apply choose_all_sock|apply IH].
Qed.

Lemma bytes_choose sticky : forall fl infb, bytes_of (choose sticky infb fl) = concat (map (@Datatypes.snd _ _) fl).
Proof.
  induction fl as [|[f bs] r IH]; intros infb; [reflexivity|]. cbn [choose]. unfold bytes_of in *. cbn [map concat Datatypes.snd].
  rewrite IH. reflexivity.
Qed.

(* with the transport decision of the current source every resumption pattern of the receiver delivers
   the flushed bytes in flush order (the proof is about the switch translated from Stream.Flush) *)
Theorem transport_keeps_order : forall infb fl chunks,
  concat chunks = choose true infb fl -> deliver chunks = concat (map (@Datatypes.snd _ _) fl).
Proof.
  intros infb fl chunks H.
  rewrite deliver_sorted by (rewrite H; apply choose_sorted). rewrite H. apply bytes_choose.
Qed.

(* the non-sticky variant (seed C06d / C07): a socket-sized flush followed by a small one is reordered *)
Example nonsticky_transport_reorders :
  let big := [1; 2; 3]%Z in let small := [9]%Z in
  deliver [choose false false [(false, big); (true, small)]] = small ++ big.
Proof. reflexivity. Qed.

(* ---------------------------------------------------------------------------------------- *)
(* the peer's close (half close) does not end a lease (C08)                                  *)
(* ---------------------------------------------------------------------------------------- *)
Theorem peer_close_is_invisible : forall s, step s RPeerClose = Ok (RUnit, s).
Proof. intros s. reflexivity. Qed.

(* what the sweep would do to a kept zero-copy result if it ran for a half-closed stream (seed C08d) *)
Example sweep_on_half_close_frees_a_leased_slot :
  let bs := map Z.of_nat (seq 0 40) in
  match run (init_sys [(16, 4)]) [WBytes bs; WFlush; RBytes 10; RBytes 20] with
  | Ok s => map l_off (leases (rcv s)) = [0]
            /\ existsb (Nat.eqb 0) (concat (free (mem s))) = false
            /\ existsb (Nat.eqb 0) (concat (free (fst (lb_recycle (mem s) (rcv s))))) = true
  | _ => False
  end.
Proof. vm_compute. repeat split. Qed.
