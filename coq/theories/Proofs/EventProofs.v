(* Proofs about Model/Event.v (C13): fuel adequacy, bounds on consumed, monotonicity of one loop iteration in
   the bytes that follow, chunking independence, exact characterisation of the panics. *)
From Coq Require Import List ZArith Lia Bool Arith.
From Shm Require Import Gen.Consts Model.Event.
Import ListNotations.
Open Scope Z_scope.

(* ---------------------------------------------------------------------------------------------- *)
(* lists and decoders                                                                              *)
(* ---------------------------------------------------------------------------------------------- *)
Lemma zlen_app {A} (a b : list A) : zlen (a ++ b) = zlen a + zlen b.
Proof. unfold zlen. rewrite app_length. lia. Qed.
Lemma zlen_nonneg {A} (a : list A) : 0 <= zlen a.
Proof. unfold zlen. lia. Qed.
Lemma zlen_skipn {A} (n : nat) (a : list A) : zlen (skipn n a) = zlen a - Z.of_nat (Nat.min n (length a)).
Proof. unfold zlen. rewrite skipn_length. lia. Qed.

Lemma firstn_app_le {A} (n : nat) (l m : list A) : (n <= length l)%nat -> firstn n (l ++ m) = firstn n l.
Proof.
  intros H. rewrite firstn_app. replace (n - length l)%nat with 0%nat by lia.
  cbn [firstn]. apply app_nil_r.
Qed.
Lemma skipn_app_le {A} (n : nat) (l m : list A) : (n <= length l)%nat -> skipn n (l ++ m) = skipn n l ++ m.
Proof.
  intros H. rewrite skipn_app. replace (n - length l)%nat with 0%nat by lia. reflexivity.
Qed.
Lemma skipn_skipn {A} (n m : nat) (l : list A) : skipn n (skipn m l) = skipn (m + n) l.
Proof.
  revert l. induction m as [|m IH]; intros l; cbn [skipn Nat.add]; [reflexivity|].
  destruct l as [|x l]; [now rewrite skipn_nil | apply IH].
Qed.

Lemma byte_at_app l m i : (i < length l)%nat -> byte_at (l ++ m) i = byte_at l i.
Proof. intros H. unfold byte_at. now rewrite app_nth1. Qed.
Lemma be16_app l m off : (off + 1 < length l)%nat -> be16 (l ++ m) off = be16 l off.
Proof. intros H. unfold be16. rewrite !byte_at_app by lia. reflexivity. Qed.
Lemma be32_app l m off : (off + 3 < length l)%nat -> be32 (l ++ m) off = be32 l off.
Proof. intros H. unfold be32. rewrite !byte_at_app by lia. reflexivity. Qed.
Lemma be64_app l m off : (off + 7 < length l)%nat -> be64 (l ++ m) off = be64 l off.
Proof. intros H. unfold be64. rewrite !be32_app by lia. reflexivity. Qed.

Lemma u8_range b : 0 <= u8 b < 256.
Proof. unfold u8. apply Z.mod_pos_bound. lia. Qed.
Lemma byte_at_range l i : 0 <= byte_at l i < 256.
Proof. apply u8_range. Qed.
Lemma be32_range l off : 0 <= be32 l off < 4294967296.
Proof.
  unfold be32.
  pose proof (byte_at_range l off). pose proof (byte_at_range l (off + 1)).
  pose proof (byte_at_range l (off + 2)). pose proof (byte_at_range l (off + 3)). lia.
Qed.

Ltac rsimp := cbn [r_consumed r_outcome r_sess r_actions shift f_outcome f_actions f_sess f_pending].
Ltac ltb_cases :=
  repeat match goal with
  | H : (_ <? _) = true |- _ => apply Z.ltb_lt in H
  | H : (_ <? _) = false |- _ => apply Z.ltb_ge in H
  end.

(* ---------------------------------------------------------------------------------------------- *)
(* the session flags never change on the control path                                             *)
(* ---------------------------------------------------------------------------------------------- *)
Definition same_flags (a b : sess) : Prop :=
  s_client a = s_client b /\ s_has_listener a = s_has_listener b /\ s_has_manager a = s_has_manager b
  /\ s_epoch a = s_epoch b /\ s_lstate a = s_lstate b.
Lemma same_flags_refl a : same_flags a a.
Proof. repeat split. Qed.
Lemma same_flags_trans a b c : same_flags a b -> same_flags b c -> same_flags a c.
Proof. unfold same_flags. intuition congruence. Qed.

Definition no_post (acts : list action) : Prop := forall e, ~ In (APostHotRestart e) acts.
Lemma no_post_nil : no_post [].
Proof. intros e H. destruct H. Qed.
Lemma no_post_app a b : no_post a -> no_post b -> no_post (a ++ b).
Proof. intros Ha Hb e H. apply in_app_or in H. destruct H; [eapply Ha | eapply Hb]; eauto. Qed.
Lemma no_post_one a : (forall e, a <> APostHotRestart e) -> no_post [a].
Proof. intros H e [E | []]. eapply H; eauto. Qed.

Lemma get_stream_props s id st s' f acts :
  get_stream s id st = (s', f, acts) -> same_flags s s' /\ no_post acts.
Proof.
  unfold get_stream. destruct (find_stream id (s_streams s)).
  - intros E; inversion E; subst. split; [apply same_flags_refl | apply no_post_nil].
  - destruct (negb (s_client s) && (st =? c_streamOpened)); intros E; inversion E; subst.
    + split; [repeat split | apply no_post_one; discriminate].
    + split; [apply same_flags_refl | apply no_post_nil].
Qed.
Lemma half_close_props s id s' acts :
  half_close s id = (s', acts) -> same_flags s s' /\ no_post acts.
Proof.
  unfold half_close. destruct (find_stream id (s_streams s)) as [st|].
  - destruct (st =? c_streamOpened); intros E; inversion E; subst.
    + split; [repeat split | apply no_post_one; discriminate].
    + split; [apply same_flags_refl | apply no_post_nil].
  - intros E; inversion E; subst. split; [apply same_flags_refl | apply no_post_nil].
Qed.
Lemma stream_message_props s id st fb d s' acts :
  stream_message s id st fb d = (s', acts) -> same_flags s s' /\ no_post acts.
Proof.
  unfold stream_message. destruct (st =? c_streamClosed); [apply half_close_props|].
  destruct (find_stream id (s_streams s)) as [x|].
  - destruct (x =? c_streamClosed); intros E; inversion E; subst;
      (split; [apply same_flags_refl | apply no_post_one; discriminate]).
  - intros E; inversion E; subst. split; [apply same_flags_refl | apply no_post_nil].
Qed.
Lemma drain_props q : forall s s' acts, drain q s = (s', acts) -> same_flags s s' /\ no_post acts.
Proof.
  induction q as [|e r IH]; intros s s' acts; cbn [drain].
  - intros E; inversion E; subst. split; [apply same_flags_refl | apply no_post_nil].
  - destruct (get_stream s (qe_id e) (qe_status e mod 256)) as [[s1 found] a1] eqn:G.
    apply get_stream_props in G. destruct G as [F1 N1].
    set (X := if found then _ else _). destruct X as [s2 a2] eqn:EX. subst X.
    assert (P2 : same_flags s1 s2 /\ no_post a2).
    { destruct found.
      - eapply stream_message_props; eauto.
      - destruct (qe_status e mod 256 =? c_streamOpened); inversion EX; subst;
          (split; [apply same_flags_refl | first [apply no_post_one; discriminate | apply no_post_nil]]). }
    destruct P2 as [F2 N2].
    destruct (drain r s2) as [s3 a3] eqn:D. apply IH in D. destruct D as [F3 N3].
    intros E; inversion E; subst. split.
    + eapply same_flags_trans; [exact F1|]. eapply same_flags_trans; eauto.
    + apply no_post_app; [exact N1|]. apply no_post_app; assumption.
Qed.

(* ---------------------------------------------------------------------------------------------- *)
(* the handlers: how much they consume, what they depend on, when they panic                     *)
(* ---------------------------------------------------------------------------------------------- *)
Lemma run_handler_done t s h buf n s' acts e :
  run_handler t s h buf = HDone n s' acts e ->
  same_flags s s' /\
  (forall ep, In (APostHotRestart ep) acts -> s_has_manager s = true) /\
  match e with
  | None => 0 < n <= c_headerSize + zlen buf
  | Some _ => 0 <= n <= c_headerSize /\ s' = s /\ acts = []
  end.
Proof.
  unfold run_handler.
  destruct (t =? c_typePolling) eqn:T1.
  { unfold handle_polling. destruct (drain (s_queue s) (with_queue s [])) as [s1 a1] eqn:D.
    apply drain_props in D. destruct D as [F N].
    intros E; inversion E; subst. pose proof (zlen_nonneg buf). unfold c_headerSize.
    split; [apply F|]. split; [|lia].
    intros ep [X | X]; [discriminate | exfalso; eapply N; eauto]. }
  destruct (t =? c_typeStreamClose) eqn:T2.
  { unfold handle_stream_close. destruct (zlen buf <? streamCloseIdLen) eqn:L; [discriminate|].
    destruct (drain (s_queue s) (with_queue s [])) as [sq aq] eqn:D. apply drain_props in D. destruct D as [Fq Nq].
    destruct (half_close sq (be32 buf 0)) as [s1 a1] eqn:HC. apply half_close_props in HC. destruct HC as [F N].
    intros E; inversion E; subst. ltb_cases. unfold c_headerSize, streamCloseIdLen in *.
    split; [eapply same_flags_trans; [apply Fq | exact F]|]. split; [|lia].
    intros ep X. exfalso. apply in_app_or in X. destruct X; [eapply Nq | eapply N]; eauto. }
  destruct (t =? c_typeFallbackData) eqn:T3.
  { unfold handle_fallback.
    destruct (hdr_length h - c_headerSize <? fallbackDataHeader) eqn:L0.
    { intros E; inversion E; subst. unfold c_headerSize.
      split; [apply same_flags_refl|]. split; [intros ep []|]. repeat split; lia. }
    destruct (zlen buf <? hdr_length h - c_headerSize) eqn:L1; [discriminate|].
    destruct (hdr_length h - c_headerSize <? 0) eqn:L2; [discriminate|].
    destruct (hdr_length h - c_headerSize <? 4) eqn:L3; [discriminate|].
    destruct (hdr_length h - c_headerSize <? 8) eqn:L4; [discriminate|].
    set (data := firstn _ buf).
    destruct (drain (s_queue s) (with_queue s [])) as [sq aq] eqn:D. apply drain_props in D. destruct D as [Fq Nq].
    assert (Fq' : same_flags s sq) by apply Fq.
    destruct (get_stream sq (be32 data 0) (be32 data 4 mod 256)) as [[s1 found] a1] eqn:G.
    apply get_stream_props in G. destruct G as [F1 N1]. ltb_cases. unfold c_headerSize in *.
    destruct found.
    - destruct (stream_message s1 _ _ true _) as [s2 a2] eqn:SM. apply stream_message_props in SM.
      destruct SM as [F2 N2]. intros E; inversion E; subst.
      split; [eapply same_flags_trans; [exact Fq'|]; eapply same_flags_trans; eauto|]. split; [|lia].
      intros ep X. exfalso. cbn [app] in X. destruct X as [X | X]; [discriminate|].
      apply in_app_or in X. destruct X as [X | X]; [eapply Nq; eauto|].
      apply in_app_or in X. destruct X; [eapply N1 | eapply N2]; eauto.
    - intros E; inversion E; subst.
      split; [eapply same_flags_trans; eauto|]. split; [|lia].
      intros ep X. exfalso. cbn [app] in X. destruct X as [X | X]; [discriminate|].
      apply in_app_or in X. destruct X; [eapply Nq | eapply N1]; eauto. }
  destruct (t =? c_typeHotRestart) eqn:T4.
  { unfold handle_hot_restart. destruct (s_has_manager s) eqn:M; cbn [negb].
    2:{ intros E; inversion E; subst. unfold c_headerSize.
        split; [apply same_flags_refl|]. split; [intros ep []|]. repeat split; lia. }
    destruct (zlen buf <? c_epochIDLen) eqn:L; [discriminate|].
    intros E; inversion E; subst. ltb_cases. unfold c_headerSize, c_epochIDLen in *.
    split; [apply same_flags_refl|]. split; [intros ep _; reflexivity | lia]. }
  destruct (t =? c_typeHotRestartAck) eqn:T5.
  { unfold handle_hot_restart_ack. destruct (s_has_listener s) eqn:Li; cbn [negb].
    2:{ intros E; inversion E; subst. unfold c_headerSize.
        split; [apply same_flags_refl|]. split; [intros ep []|]. repeat split; lia. }
    destruct (zlen buf <? c_epochIDLen) eqn:L; [discriminate|].
    intros E; inversion E; subst. ltb_cases. unfold c_headerSize, c_epochIDLen in *.
    split; [destruct (_ && _); repeat split|]. split; [|lia].
    intros ep [X | []]; discriminate. }
  intros E; inversion E; subst. unfold c_headerSize.
  split; [apply same_flags_refl|]. split; [intros ep []|]. repeat split; lia.
Qed.

(* no handler panics: every slice expression and the listener dereference sit behind the check the code performs *)
Lemma run_handler_no_panic t s h buf p : run_handler t s h buf <> HPanic p.
Proof.
  unfold run_handler.
  destruct (t =? c_typePolling).
  { unfold handle_polling. destruct (drain _ _). discriminate. }
  destruct (t =? c_typeStreamClose).
  { unfold handle_stream_close. destruct (_ <? _); [discriminate|]. destruct (drain _ _).
    destruct (half_close _ _). discriminate. }
  destruct (t =? c_typeFallbackData).
  { unfold handle_fallback.
    destruct (hdr_length h - c_headerSize <? fallbackDataHeader) eqn:L0; [discriminate|].
    destruct (zlen buf <? hdr_length h - c_headerSize) eqn:L1; [discriminate|].
    ltb_cases. unfold fallbackDataHeader in L0.
    destruct (hdr_length h - c_headerSize <? 0) eqn:L2; [ltb_cases; lia|].
    destruct (hdr_length h - c_headerSize <? 4) eqn:L3; [ltb_cases; lia|].
    destruct (hdr_length h - c_headerSize <? 8) eqn:L4; [ltb_cases; lia|].
    destruct (drain _ _) as [sq aq].
    destruct (get_stream _ _ _) as [[s1 found] a1]. destruct found.
    - destruct (stream_message _ _ _ _ _). discriminate.
    - discriminate. }
  destruct (t =? c_typeHotRestart).
  { unfold handle_hot_restart. destruct (negb _); [discriminate|]. destruct (_ <? _); discriminate. }
  destruct (t =? c_typeHotRestartAck).
  { unfold handle_hot_restart_ack. destruct (s_has_listener s) eqn:L; cbn [negb]; [|discriminate].
    destruct (_ <? _); discriminate. }
  discriminate.
Qed.

(* a handler that did not ask for more bytes does not look at what follows *)
Lemma run_handler_mono t s h buf more :
  run_handler t s h buf <> HStop -> run_handler t s h (buf ++ more) = run_handler t s h buf.
Proof.
  unfold run_handler.
  destruct (t =? c_typePolling); [reflexivity|].
  destruct (t =? c_typeStreamClose).
  { unfold handle_stream_close. destruct (zlen buf <? streamCloseIdLen) eqn:L; [congruence|]. intros _.
    ltb_cases. unfold streamCloseIdLen in *.
    replace (zlen (buf ++ more) <? 4) with false
      by (symmetry; apply Z.ltb_ge; rewrite zlen_app; pose proof (zlen_nonneg more); lia).
    rewrite be32_app by (unfold zlen in L; lia). reflexivity. }
  destruct (t =? c_typeFallbackData).
  { unfold handle_fallback. destruct (hdr_length h - c_headerSize <? fallbackDataHeader); [reflexivity|].
    destruct (zlen buf <? hdr_length h - c_headerSize) eqn:L; [congruence|]. intros _.
    ltb_cases.
    replace (zlen (buf ++ more) <? hdr_length h - c_headerSize) with false
      by (symmetry; apply Z.ltb_ge; rewrite zlen_app; pose proof (zlen_nonneg more); lia).
    destruct (hdr_length h - c_headerSize <? 0) eqn:L2; [reflexivity|]. ltb_cases.
    rewrite firstn_app_le by (unfold zlen in L; lia). reflexivity. }
  destruct (t =? c_typeHotRestart).
  { unfold handle_hot_restart. destruct (negb (s_has_manager s)); [reflexivity|].
    destruct (zlen buf <? c_epochIDLen) eqn:L; [congruence|]. intros _.
    ltb_cases. unfold c_epochIDLen in *.
    replace (zlen (buf ++ more) <? 8) with false
      by (symmetry; apply Z.ltb_ge; rewrite zlen_app; pose proof (zlen_nonneg more); lia).
    rewrite be64_app by (unfold zlen in L; lia). reflexivity. }
  destruct (t =? c_typeHotRestartAck).
  { unfold handle_hot_restart_ack. destruct (negb (s_has_listener s)) eqn:NL; [reflexivity|].
    destruct (zlen buf <? c_epochIDLen) eqn:L; [congruence|]. intros _.
    ltb_cases. unfold c_epochIDLen in *.
    replace (zlen (buf ++ more) <? 8) with false
      by (symmetry; apply Z.ltb_ge; rewrite zlen_app; pose proof (zlen_nonneg more); lia).
    rewrite be64_app by (unfold zlen in L; lia). reflexivity. }
  reflexivity.
Qed.

(* ---------------------------------------------------------------------------------------------- *)
(* one loop iteration                                                                              *)
(* ---------------------------------------------------------------------------------------------- *)
Lemma step1_next s rest n s' acts :
  step1 s rest = SNext n s' acts ->
  0 < n <= zlen rest /\ same_flags s s' /\
  (forall ep, In (APostHotRestart ep) acts -> s_has_manager s = true).
Proof.
  unfold step1. destruct (zlen rest <? c_headerSize) eqn:L; [discriminate|].
  destruct (check_header _); try discriminate.
  destruct (_ || _); [discriminate|]. destruct (negb _); [discriminate|].
  destruct (run_handler _ s _ _) as [|n0 s0 a0 e0|p] eqn:R; try discriminate.
  apply run_handler_done in R. destruct R as (F & P & Hn). destruct e0; [discriminate|].
  intros E; inversion E; subst. ltb_cases. split; [|split; assumption].
  change (Z.to_nat c_headerSize) with 8%nat in Hn. rewrite zlen_skipn in Hn.
  unfold c_headerSize, zlen in *. lia.
Qed.

Lemma step1_err s rest n s' acts e :
  step1 s rest = SErr n s' acts e -> 0 <= n <= zlen rest /\ s' = s /\ acts = [].
Proof.
  unfold step1. destruct (zlen rest <? c_headerSize) eqn:L; [discriminate|]. ltb_cases.
  assert (B : 0 <= c_headerSize <= zlen rest) by (unfold c_headerSize in *; lia).
  destruct (check_header _); try (intros E; inversion E; subst; auto).
  revert E. destruct (_ || _); [intros E; inversion E; subst; auto|].
  destruct (negb _); [intros E; inversion E; subst; auto|].
  destruct (run_handler _ s _ _) as [|n0 s0 a0 e0|p] eqn:R; try discriminate.
  apply run_handler_done in R. destruct R as (_ & _ & Hn). destruct e0; [|discriminate].
  destruct Hn as (Hn & -> & ->). intros E; inversion E; subst. repeat split; lia.
Qed.

Lemma step1_no_panic s rest p : step1 s rest <> SPanic p.
Proof.
  unfold step1. destruct (zlen rest <? c_headerSize); [discriminate|].
  destruct (check_header _); try discriminate.
  destruct (_ || _); [discriminate|]. destruct (negb _); [discriminate|].
  destruct (run_handler _ s _ _) as [|n0 s0 a0 e0|p0] eqn:R; try discriminate.
  - destruct e0; discriminate.
  - exfalso. eapply run_handler_no_panic; eauto.
Qed.

Lemma step1_mono s rest more :
  step1 s rest <> SNeedMore -> step1 s (rest ++ more) = step1 s rest.
Proof.
  unfold step1. destruct (zlen rest <? c_headerSize) eqn:L; [congruence|]. ltb_cases.
  replace (zlen (rest ++ more) <? c_headerSize) with false
    by (symmetry; apply Z.ltb_ge; rewrite zlen_app; pose proof (zlen_nonneg more); lia).
  change (Z.to_nat c_headerSize) with 8%nat.
  assert (Hl : (8 <= length rest)%nat) by (unfold zlen, c_headerSize in L; lia).
  rewrite firstn_app_le by exact Hl. rewrite skipn_app_le by exact Hl.
  destruct (check_header _); try reflexivity.
  destruct (_ || _); [reflexivity|]. destruct (negb _); [reflexivity|].
  destruct (run_handler (hdr_type (firstn 8 rest)) s (firstn 8 rest) (skipn 8 rest)) eqn:R.
  - congruence.
  - intros _. rewrite run_handler_mono by congruence. rewrite R. reflexivity.
  - intros _. rewrite run_handler_mono by congruence. rewrite R. reflexivity.
Qed.

Lemma step1_short s rest : zlen rest < c_headerSize -> step1 s rest = SNeedMore.
Proof. intros H. unfold step1. apply Z.ltb_lt in H. now rewrite H. Qed.

(* ---------------------------------------------------------------------------------------------- *)
(* the loop: fuel, bounds                                                                          *)
(* ---------------------------------------------------------------------------------------------- *)
Lemma skipn_shorter (n : Z) (rest : list Z) : 0 < n <= zlen rest -> (length (skipn (Z.to_nat n) rest) < length rest)%nat.
Proof. intros H. rewrite skipn_length. unfold zlen in H. lia. Qed.

Lemma loop_fuel f1 : forall f2 s rest, (length rest < f1)%nat -> (length rest < f2)%nat ->
  loop f1 s rest = loop f2 s rest.
Proof.
  induction f1 as [|f1 IH]; intros f2 s rest H1 H2; [lia|].
  destruct f2 as [|f2]; [lia|]. cbn [loop].
  destruct (step1 s rest) as [|n s' acts|n s' acts e|p] eqn:S1; try reflexivity.
  apply step1_next in S1. destruct S1 as [Hn _]. pose proof (skipn_shorter n rest Hn).
  f_equal. apply IH; lia.
Qed.

Lemma handle_events_unfold s rest :
  handle_events s rest =
  match step1 s rest with
  | SNeedMore => {| r_sess := s; r_consumed := 0; r_outcome := Ok; r_actions := [] |}
  | SPanic p => {| r_sess := s; r_consumed := 0; r_outcome := Panic p; r_actions := [] |}
  | SErr n s' acts e => {| r_sess := s'; r_consumed := n; r_outcome := Err e; r_actions := acts |}
  | SNext n s' acts => shift n acts (handle_events s' (skipn (Z.to_nat n) rest))
  end.
Proof.
  unfold handle_events at 1. cbn [loop].
  destruct (step1 s rest) as [|n s' acts|n s' acts e|p] eqn:S1; try reflexivity.
  apply step1_next in S1. destruct S1 as [Hn _]. pose proof (skipn_shorter n rest Hn).
  f_equal. unfold handle_events. apply loop_fuel; lia.
Qed.

(* induction principle: on the length of the remaining bytes *)
Lemma rest_ind (P : list Z -> Prop) :
  (forall rest, (forall r', (length r' < length rest)%nat -> P r') -> P rest) -> forall rest, P rest.
Proof.
  intros H rest. remember (length rest) as k eqn:E. revert rest E.
  induction k as [k IH] using lt_wf_ind. intros rest E. apply H. intros r' L. eapply IH; [|reflexivity]. lia.
Qed.

Lemma no_out_of_fuel : forall rest s, r_outcome (handle_events s rest) <> OutOfFuel.
Proof.
  induction rest as [rest IH] using rest_ind. intros s. rewrite handle_events_unfold.
  destruct (step1 s rest) as [|n s' acts|n s' acts e|p] eqn:S1; rsimp; try discriminate.
  apply step1_next in S1. destruct S1 as [Hn _]. apply IH. now apply skipn_shorter.
Qed.

Lemma consumed_bound : forall rest s, 0 <= r_consumed (handle_events s rest) <= zlen rest.
Proof.
  induction rest as [rest IH] using rest_ind. intros s. rewrite handle_events_unfold.
  destruct (step1 s rest) as [|n s' acts|n s' acts e|p] eqn:S1; rsimp.
  - pose proof (zlen_nonneg rest). lia.
  - apply step1_next in S1. destruct S1 as [Hn _].
    specialize (IH _ (skipn_shorter n rest Hn) s'). rewrite zlen_skipn in IH. unfold zlen in *. lia.
  - apply step1_err in S1. lia.
  - pose proof (zlen_nonneg rest). lia.
Qed.

Lemma flags_preserved : forall rest s, same_flags s (r_sess (handle_events s rest)).
Proof.
  induction rest as [rest IH] using rest_ind. intros s. rewrite handle_events_unfold.
  destruct (step1 s rest) as [|n s' acts|n s' acts e|p] eqn:S1; rsimp; try apply same_flags_refl.
  - apply step1_next in S1. destruct S1 as (Hn & F & _).
    eapply same_flags_trans; [exact F|]. apply IH. now apply skipn_shorter.
  - apply step1_err in S1. destruct S1 as (_ & -> & _). apply same_flags_refl.
Qed.

(* after a successful call the bytes that are left do not start with a complete event *)
Lemma ok_leftover_stuck : forall rest s,
  r_outcome (handle_events s rest) = Ok ->
  step1 (r_sess (handle_events s rest)) (skipn (Z.to_nat (r_consumed (handle_events s rest))) rest) = SNeedMore.
Proof.
  induction rest as [rest IH] using rest_ind. intros s. rewrite handle_events_unfold.
  destruct (step1 s rest) as [|n s' acts|n s' acts e|p] eqn:S1; rsimp; try discriminate.
  - intros _. exact S1.
  - intros O. pose proof S1 as S1'. apply step1_next in S1'. destruct S1' as [Hn _].
    pose proof (consumed_bound (skipn (Z.to_nat n) rest) s') as B.
    specialize (IH _ (skipn_shorter n rest Hn) s' O).
    rewrite skipn_skipn in IH. rewrite Z2Nat.inj_add by lia. exact IH.
Qed.

(* ---------------------------------------------------------------------------------------------- *)
(* chunking                                                                                        *)
(* ---------------------------------------------------------------------------------------------- *)
Lemma shift_shift n a m b r : shift n a (shift m b r) = shift (n + m) (a ++ b) r.
Proof. unfold shift. cbn. f_equal; [lia | apply app_assoc]. Qed.
Lemma shift_outcome n a r : r_outcome (shift n a r) = r_outcome r.
Proof. reflexivity. Qed.
Lemma shift_consumed n a r : r_consumed (shift n a r) = n + r_consumed r.
Proof. reflexivity. Qed.
Lemma shift_actions n a r : r_actions (shift n a r) = a ++ r_actions r.
Proof. reflexivity. Qed.
Lemma shift_sess n a r : r_sess (shift n a r) = r_sess r.
Proof. reflexivity. Qed.
Lemma shift_0 r : shift 0 [] r = r.
Proof. destruct r. reflexivity. Qed.

(* delivering a ++ b at once = delivering a, then what a left over followed by b *)
Lemma handle_events_app : forall a s b,
  let r := handle_events s a in
  handle_events s (a ++ b) =
  match r_outcome r with
  | Ok => shift (r_consumed r) (r_actions r)
                (handle_events (r_sess r) (skipn (Z.to_nat (r_consumed r)) a ++ b))
  | _ => r
  end.
Proof.
  induction a as [a IH] using rest_ind. intros s b. cbv zeta.
  rewrite (handle_events_unfold s a).
  destruct (step1 s a) as [|n s' acts|n s' acts e|p] eqn:S1; cbn [r_outcome r_consumed r_actions r_sess].
  - cbn [Z.to_nat skipn]. now rewrite shift_0.
  - rewrite (handle_events_unfold s (a ++ b)). rewrite step1_mono by congruence. rewrite S1.
    pose proof S1 as S1'. apply step1_next in S1'. destruct S1' as [Hn _].
    rewrite skipn_app_le by (unfold zlen in Hn; lia).
    rewrite (IH _ (skipn_shorter n a Hn) s' b).
    pose proof (consumed_bound (skipn (Z.to_nat n) a) s') as B.
    set (r' := handle_events s' (skipn (Z.to_nat n) a)) in *.
    rewrite shift_outcome, shift_consumed, shift_actions, shift_sess.
    destruct (r_outcome r'); try reflexivity.
    rewrite shift_shift. rewrite skipn_skipn. rewrite Z2Nat.inj_add by lia. reflexivity.
  - rewrite (handle_events_unfold s (a ++ b)). rewrite step1_mono by congruence. now rewrite S1.
  - rewrite (handle_events_unfold s (a ++ b)). rewrite step1_mono by congruence. now rewrite S1.
Qed.

Lemma stuck_handle_events s pending :
  step1 s pending = SNeedMore ->
  handle_events s pending = {| r_sess := s; r_consumed := 0; r_outcome := Ok; r_actions := [] |}.
Proof. intros H. rewrite handle_events_unfold. now rewrite H. Qed.

Theorem chunking_gen : forall chunks s pending,
  step1 s pending = SNeedMore ->
  let w := handle_events s (pending ++ concat chunks) in
  let f := feed s pending chunks in
  f_outcome f = r_outcome w /\ f_actions f = r_actions w /\ f_sess f = r_sess w /\
  (r_outcome w = Ok -> f_pending f = skipn (Z.to_nat (r_consumed w)) (pending ++ concat chunks)).
Proof.
  induction chunks as [|c cs IH]; intros s pending St; cbv zeta.
  - cbn [concat feed]. rewrite app_nil_r. rewrite (stuck_handle_events _ _ St). rsimp. auto.
  - cbn [concat feed]. set (r := handle_events s (pending ++ c)).
    rewrite app_assoc. rewrite (handle_events_app (pending ++ c) s (concat cs)). cbv zeta. fold r.
    pose proof (ok_leftover_stuck (pending ++ c) s) as St'. fold r in St'.
    pose proof (consumed_bound (pending ++ c) s) as B. fold r in B.
    destruct (r_outcome r) eqn:O.
    + specialize (IH (r_sess r) _ (St' eq_refl)). cbv zeta in IH.
      destruct IH as (I1 & I2 & I3 & I4). rsimp.
      repeat split; try congruence.
      intros Ok'. rewrite (I4 Ok').
      pose proof (consumed_bound (skipn (Z.to_nat (r_consumed r)) (pending ++ c) ++ concat cs) (r_sess r)) as B2.
      rewrite Z2Nat.inj_add by lia. rewrite <- skipn_skipn.
      rewrite (skipn_app_le (Z.to_nat (r_consumed r)) (pending ++ c) (concat cs)) by (unfold zlen in B; lia).
      reflexivity.
    + rsimp. rewrite O. repeat split. discriminate.
    + rsimp. rewrite O. repeat split. discriminate.
    + rsimp. rewrite O. repeat split. discriminate.
Qed.

Theorem chunking : forall s bytes chunks, concat chunks = bytes ->
  let w := handle_events s bytes in
  let f := feed s [] chunks in
  f_outcome f = r_outcome w /\ f_actions f = r_actions w /\ f_sess f = r_sess w /\
  (r_outcome w = Ok -> f_pending f = skipn (Z.to_nat (r_consumed w)) bytes).
Proof.
  intros s bytes chunks <-. apply (chunking_gen chunks s []). apply step1_short. reflexivity.
Qed.

(* the hot-restart lambdas posted (and hence whether one of them panics) do not depend on the cutting either *)
Corollary chunking_posted : forall s bytes chunks, concat chunks = bytes ->
  run_posted s (f_actions (feed s [] chunks)) = run_posted s (r_actions (handle_events s bytes)).
Proof. intros s bytes chunks H. destruct (chunking s bytes chunks H) as (_ & -> & _). reflexivity. Qed.

(* actions of a prefix are a prefix *)
Theorem prefix_actions : forall s a b,
  exists more, r_actions (handle_events s (a ++ b)) = r_actions (handle_events s a) ++ more.
Proof.
  intros s a b. rewrite handle_events_app. destruct (r_outcome (handle_events s a)).
  - eexists. reflexivity.
  - exists []. now rewrite app_nil_r.
  - exists []. now rewrite app_nil_r.
  - exists []. now rewrite app_nil_r.
Qed.

(* ---------------------------------------------------------------------------------------------- *)
(* panics                                                                                          *)
(* ---------------------------------------------------------------------------------------------- *)
Theorem handle_events_no_panic : forall rest s p, r_outcome (handle_events s rest) <> Panic p.
Proof.
  induction rest as [rest IH] using rest_ind. intros s p. rewrite handle_events_unfold.
  destruct (step1 s rest) as [|n s' acts|n s' acts e|p0] eqn:S1; rsimp; try discriminate.
  - apply step1_next in S1. destruct S1 as (Hn & _). apply IH. now apply skipn_shorter.
  - exfalso. eapply step1_no_panic; eauto.
Qed.

(* a hot-restart lambda is only posted by a session that has a manager *)
Lemma posted_has_manager : forall rest s ep,
  In (APostHotRestart ep) (r_actions (handle_events s rest)) -> s_has_manager s = true.
Proof.
  induction rest as [rest IH] using rest_ind. intros s ep. rewrite handle_events_unfold.
  destruct (step1 s rest) as [|n s' acts|n s' acts e|p0] eqn:S1; rsimp; try (intros []).
  - intros I. apply step1_next in S1. destruct S1 as (Hn & F & P).
    apply in_app_or in I. destruct I as [I | I]; [eapply P; eauto|].
    destruct F as (_ & _ & -> & _). eapply IH; [now apply skipn_shorter | exact I].
  - apply step1_err in S1. destruct S1 as (_ & _ & ->). intros [].
Qed.

Theorem no_panic : forall s bytes,
  (forall p, deliver_outcome s bytes <> Panic p) /\ 0 <= r_consumed (handle_events s bytes) <= zlen bytes.
Proof.
  intros s bytes. split; [|apply consumed_bound]. intros p. unfold deliver_outcome.
  assert (RP : run_posted s (r_actions (handle_events s bytes)) = Ok).
  { unfold run_posted. destruct (existsb _ _) eqn:X; [|reflexivity]. exfalso.
    apply existsb_exists in X. destruct X as (a & I & Pa). destruct a; try discriminate.
    cbn [posted_panics] in Pa. apply posted_has_manager in I. rewrite I in Pa. discriminate. }
  rewrite RP. destruct (r_outcome (handle_events s bytes)) eqn:O; try discriminate.
  exfalso. eapply handle_events_no_panic; eauto.
Qed.

(* ---------------------------------------------------------------------------------------------- *)
(* handshake                                                                                       *)
(* ---------------------------------------------------------------------------------------------- *)
(* extractShmMetadata accepts exactly the bodies that pass [meta_wf], rejects the others with an error, and never
   slices out of range *)
Lemma extract_spec body :
  (meta_wf body = true -> exists q b, extract_shm_metadata body = MetaOk q b) /\
  (meta_wf body = false -> extract_shm_metadata body = MetaErr).
Proof.
  unfold extract_shm_metadata, meta_wf. change (0 + 2) with 2.
  destruct (zlen body <? 2) eqn:L1.
  { ltb_cases. replace (2 <=? zlen body) with false by (symmetry; apply Z.leb_gt; lia). cbn. split; [discriminate | reflexivity]. }
  ltb_cases. replace (2 <=? zlen body) with true by (symmetry; apply Z.leb_le; lia). cbn [andb].
  pose proof (byte_at_range body 0). pose proof (byte_at_range body 1).
  assert (Q : 0 <= be16 body 0) by (unfold be16; cbn [Nat.add]; lia).
  destruct (zlen body <? 2 + be16 body 0 + 2) eqn:L3.
  { ltb_cases. replace (2 + be16 body 0 + 2 <=? zlen body) with false by (symmetry; apply Z.leb_gt; lia). cbn.
    split; [discriminate | reflexivity]. }
  ltb_cases. replace (2 + be16 body 0 + 2 <=? zlen body) with true by (symmetry; apply Z.leb_le; lia). cbn [andb].
  replace (zlen body <? 2 + be16 body 0) with false by (symmetry; apply Z.ltb_ge; lia).
  destruct (zlen body <? 2 + be16 body 0 + 2 + be16 body (Z.to_nat (2 + be16 body 0))) eqn:L4; ltb_cases.
  - replace (_ <=? zlen body) with false by (symmetry; apply Z.leb_gt; lia). split; [discriminate | reflexivity].
  - replace (_ <=? zlen body) with true by (symmetry; apply Z.leb_le; lia). split; [eauto | discriminate].
Qed.

Lemma extract_no_panic body : extract_shm_metadata body <> MetaPanic.
Proof.
  destruct (meta_wf body) eqn:W.
  - destruct (proj1 (extract_spec body) W) as (q & b & ->). discriminate.
  - rewrite (proj2 (extract_spec body) W). discriminate.
Qed.

Lemma hs_share_by_path_no_panic h input replies : hs_out (hs_share_by_path h input replies) <> HsPanic.
Proof.
  unfold hs_share_by_path. destruct (read_body h input) as [| |body]; try discriminate.
  pose proof (extract_no_panic body). destruct (extract_shm_metadata body); [congruence | discriminate | discriminate].
Qed.
Lemma hs_share_by_memfd_no_panic v h input replies : hs_out (hs_share_by_memfd v h input replies) <> HsPanic.
Proof.
  unfold hs_share_by_memfd. destruct (read_body h input) as [| |body]; try discriminate.
  pose proof (extract_no_panic body). destruct (extract_shm_metadata body); [congruence | discriminate | discriminate].
Qed.

Theorem handshake_no_panic : forall input, hs_out (server_handshake input) <> HsPanic.
Proof.
  intros input. unfold server_handshake.
  destruct (read_header input) as [[h|] rest]; [|discriminate].
  destruct (check_header h); try discriminate.
  destruct (hdr_version h =? c_initializerVersion_2).
  { destruct (negb _); [discriminate|]. apply hs_share_by_path_no_panic. }
  destruct (hdr_version h =? c_initializerVersion_3); [|discriminate].
  destruct (negb _); [discriminate|].
  destruct (read_header rest) as [[h2|] rest2]; [|discriminate].
  destruct (check_header h2); try discriminate.
  destruct (hdr_type h2 =? c_typeShareMemoryByFilePath); [apply hs_share_by_path_no_panic|].
  destruct (hdr_type h2 =? c_typeShareMemoryByMemfd); [apply hs_share_by_memfd_no_panic | discriminate].
Qed.

(* the body length is never the result of a uint32 wrap: a body is only allocated for Length >= headerSize *)
Lemma read_body_no_wrap h input body :
  read_body h input = BodyOk body -> zlen body = hdr_length h - c_headerSize.
Proof.
  unfold read_body. destruct (hdr_length h <? c_headerSize) eqn:L; [discriminate|]. ltb_cases.
  pose proof (be32_range h 0) as R. unfold hdr_length in *. unfold w32.
  rewrite Z.mod_small by (unfold c_headerSize in *; lia).
  destruct (zlen input <? be32 h 0 - c_headerSize) eqn:L2; [discriminate|]. ltb_cases.
  intros E; inversion E; subst. unfold zlen in *. rewrite firstn_length. unfold c_headerSize in *. lia.
Qed.
