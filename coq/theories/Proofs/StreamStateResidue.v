From Coq Require Import List ZArith Lia Bool Arith.
From Shm Require Import Gen.Consts Model.StreamState Proofs.StreamStateProofs.
Import ListNotations.
Open Scope Z_scope.

(* What a close leaves behind; stability of the view OnData was offered; finality of the user operations; the
   pendingData mutex.  (Split from StreamStateProofs.v so that the files build in parallel.) *)
(* ====================================================================================================
   Nothing is left behind by a close: once close() has cleaned (nobody is between its CAS and the end of
   clean()), pendingData and recvBuf are empty and stay empty — in particular a goroutine that was spawned
   after close()'s Wait finds nothing to move into the recycled recvBuf
   ==================================================================================================== *)
Definition c_late (c : cpc) : bool := match c with CPend _ | CRecv _ => true | _ => false end.
Definition c_pre (c : cpc) : bool := match c with CWait _ | CTbl _ | CPend _ => true | _ => false end.
Definition c_cl4 (c : cpc) : bool := match c with CWait _ | CTbl _ | CPend _ | CRecv _ => true | _ => false end.
Definition c_atrecv (c : cpc) : bool := match c with CRecv _ => true | _ => false end.

Definition e_wrec (e : epcT) : Z := match e with EAdd _ | EChk | EClrP | EClrR => 1 | _ => 0 end.
Definition g_clr1 (g : gpc) : bool := match g with GClr => true | _ => false end.
Lemma own_split2 l : cz g_own l = cz g_sw l + cz g_clr1 l.
Proof. induction l as [|g l IH]; cbn [cz]; [lia|]. rewrite IH. destruct g; cbn [g_own g_sw g_clr1]; lia. Qed.
Definition nsw (s : est) : Z := cz g_sw (gors s) + e_proxy (epc s) + s_proxy (spc s) + s_busy (spc s).
(* (linear clauses, as in InvC) *)
Record InvQ (s : est) : Prop := {
  (* an arrival whose table lookup preceded the clean may be added after it: the event loop is then on its way to
     the state check that clears it *)
  q_pend : st s = c_streamClosed -> nz (pending s) <= cz c_pre (clos s) + cz (gl c_pre) (gors s) + e_wclr (epc s);
  (* and if somebody moves it into recvBuf, that somebody (or whoever follows) still recycles it: a goroutine on
     its way to the sweep after its OnData loop (or about to be spawned), or — no callbacks — the event loop *)
  q_recv0 : st s = c_streamClosed -> b2z (cbset s) = 0 ->
            nz (recv s) <= cz c_cl4 (clos s) + cz (gl c_cl4) (gors s) + nsw s + e_wrec (epc s);
  q_recv1 : st s = c_streamClosed -> b2z (cbset s) = 1 ->
            nz (recv s) <= cz c_cl4 (clos s) + cz (gl c_cl4) (gors s) + nsw s;
  (* a goroutine that is past its sweep left recvBuf empty, and nobody else fills it *)
  q_clr : st s = c_streamClosed -> nz (recv s) + cz g_clr1 (gors s) <= 1 + cz c_cl4 (clos s) + cz (gl c_cl4) (gors s) }.

Lemma nz_skipn_le2 {A} k (l : list A) : nz (skipn k l) <= nz l.
Proof. apply nz_skipn_le. Qed.
Lemma nz_app_le {A} (l : list A) (p : list (list A)) : nz (l ++ concat p) <= nz l + nz p.
Proof. pose proof (nz_range (l ++ concat p)). destruct l; destruct p; simpl in *; lia. Qed.
Lemma le_pre_cl4 l : cz c_pre l <= cz c_cl4 l.
Proof. apply cz_le. intros [] E; simpl in *; congruence. Qed.
Lemma le_gpre_gcl4 l : cz (gl c_pre) l <= cz (gl c_cl4) l.
Proof. apply cz_le. intros g E; destruct g; simpl in *; try congruence; match goal with c : cpc |- _ => destruct c; simpl in *; congruence end. Qed.
Lemma le_cleanT_pre l : cz c_cleanT l <= cz c_pre l.
Proof. apply cz_le. intros [] E; simpl in *; congruence. Qed.
Lemma le_gcleanT_gpre l : cz (gl c_cleanT) l <= cz (gl c_pre) l.
Proof. apply cz_le. intros g E; destruct g; simpl in *; try congruence; match goal with c : cpc |- _ => destruct c; simpl in *; congruence end. Qed.
Lemma le_sw_all l : cz g_sw l <= cz g_all l.
Proof. apply cz_le. intros g _; reflexivity. Qed.

Ltac cbq := cbn [c_late c_pre c_cl4 c_atrecv e_wclr e_wrec g_clr1] in *.
Ltac czq s :=
  pose proof (cz_nonneg c_late (clos s)); pose proof (cz_nonneg (gl c_late) (gors s));
  pose proof (cz_nonneg c_pre (clos s)); pose proof (cz_nonneg (gl c_pre) (gors s));
  pose proof (cz_nonneg c_cl4 (clos s)); pose proof (cz_nonneg (gl c_cl4) (gors s));
  pose proof (le_pre_cl4 (clos s)); pose proof (le_gpre_gcl4 (gors s));
  pose proof (le_cleanT_pre (clos s)); pose proof (le_gcleanT_gpre (gors s)); pose proof (le_sw_all (gors s));
  pose proof (cz_nonneg g_sw (gors s)); pose proof (cz_nonneg g_all (gors s)); pose proof (cz_nonneg g_clr1 (gors s));
  pose proof (own_split2 (gors s));
  pose proof (cz_nonneg c_cleanT (clos s)); pose proof (cz_nonneg (gl c_cleanT) (gors s));
  pose proof (b2z_range (intable s)); pose proof (b2z_range (cbset s));
  pose proof (e_range (epc s)); pose proof (s_range (spc s));
  pose proof (nz_range (pending s)); pose proof (nz_range (recv s));
  assert (0 <= e_wclr (epc s) <= e_wrec (epc s) /\ e_wrec (epc s) <= 1) by (destruct (epc s); simpl; lia).
Ltac czinq := match goal with
  | Hn : nth_error (clos _) _ = Some _ |- _ =>
      try (pose proof (cz_pos_in c_late _ _ _ Hn eq_refl)); try (pose proof (cz_pos_in c_pre _ _ _ Hn eq_refl));
      try (pose proof (cz_pos_in c_cl4 _ _ _ Hn eq_refl))
  | Hn : nth_error (gors _) _ = Some _ |- _ =>
      try (pose proof (cz_pos_in (gl c_late) _ _ _ Hn eq_refl)); try (pose proof (cz_pos_in (gl c_pre) _ _ _ Hn eq_refl));
      try (pose proof (cz_pos_in (gl c_cl4) _ _ _ Hn eq_refl)); try (pose proof (cz_pos_in g_all _ _ _ Hn eq_refl));
      try (pose proof (cz_pos_in g_sw _ _ _ Hn eq_refl)); try (pose proof (cz_pos_in g_swin _ _ _ Hn eq_refl));
      try (pose proof (cz_pos_in g_clr1 _ _ _ Hn eq_refl)); try (pose proof (cz_pos_in g_own _ _ _ Hn eq_refl))
  | _ => idtac end.
Ltac nzq := repeat match goal with
  | |- context [nz (skipn ?k ?l)] =>
      lazymatch goal with H : nz (skipn k l) <= nz l |- _ => fail | _ => pose proof (nz_skipn_le k l) end
  | |- context [nz (?l ++ concat ?p)] =>
      lazymatch goal with H : nz (l ++ concat p) <= nz l + nz p |- _ => fail
      | _ => pose proof (nz_app_le l p); pose proof (nz_range (l ++ concat p)) end
  | |- context [nz (?l ++ [?m])] =>
      lazymatch goal with H : 0 <= nz (l ++ [m]) <= 1 |- _ => fail | _ => pose proof (nz_range (l ++ [m])) end
  end.
Ltac finq s := cb; cbq; rw_eqs; rw_cnt; cb; cbq; try assumption; try (intros; assumption);
  czinq; cb; cbq; uc; zeqh; uc; cb; cbq; nzq; try lia; czq s; lia.

Lemma stepQ s w : InvP s -> InvT s -> InvC s -> InvQ s -> InvQ (step s w).
Proof.
  intros [_ P2 P3 P3s _ P7] [T1 _ _] [C1 C2 _ C4 _ _ _ _] [Q2 Q3 Q4 Q5]. unfold nsw in *.
  constructor; unfold nsw.
  - clear Q3 Q4 Q5 C1 C2 C4 T1 P7. cases s w; brk; finq s.
  - clear P7 T1. cases s w; brk; finq s.
  - clear P7 T1. cases s w; brk; finq s.
  - clear Q2 Q3 Q4 P7 T1. cases s w; brk; finq s.
Qed.
Lemma initQ cb0 inb n scr ups sy nds pks : InvQ (init_rd cb0 inb n scr ups sy nds pks).
Proof. constructor; unfold nsw; cbn; rewrite ?cz_repeat_false by reflexivity; uc; destruct cb0; cbn; lia. Qed.
Lemma runQ sched s : InvAll s -> InvQ s -> InvQ (run sched s).
Proof.
  revert s; induction sched as [|w l IH]; simpl; intros s HA HQ; auto.
  apply IH; [apply stepAll, HA|apply stepQ; [apply HA|apply HA|apply HA|exact HQ]].
Qed.

(* at closed quiescence nothing is left in pendingData or recvBuf (a read returns end-of-stream at once) *)
Theorem no_residue cb0 inb nc scr ups sy nds pks sched :
  let s := run sched (init_rd cb0 inb nc scr ups sy nds pks) in
  st s = c_streamClosed -> epc s = EIdle -> (spc s = SIdle \/ spc s = SDone) ->
  (forall i g, nth_error (gors s) i = Some g -> g = GExit) ->
  (forall i c, nth_error (clos s) i = Some c -> c = KRet \/ c = KStart) ->
  pending s = [] /\ recv s = [] /\ read_res s = REndOfStream.
Proof.
  intros s Hst He Hsp Hg Hc.
  pose proof (runQ sched _ (initAll cb0 inb nc scr ups sy nds pks) (initQ cb0 inb nc scr ups sy nds pks)) as [Q2 Q3 Q4 _]. fold s in Q2, Q3, Q4.
  assert (G0 : forall f, f GExit = false -> cz f (gors s) = 0).
  { intros f Hf. apply cz_all_false. intros j g Hj. rewrite (Hg j g Hj). exact Hf. }
  assert (C0 : forall f, f KRet = false -> f KStart = false -> cz f (clos s) = 0).
  { intros f H1 H2. apply cz_all_false. intros j c Hj. destruct (Hc j c Hj) as [->| ->]; auto. }
  assert (Hsb : s_busy (spc s) = 0 /\ s_proxy (spc s) = 0) by (destruct Hsp as [-> | ->]; split; reflexivity).
  specialize (Q2 Hst). unfold nsw in *.
  rewrite (G0 (gl c_pre)), (C0 c_pre), He in Q2 by reflexivity.
  pose proof (nz_range (pending s)). pose proof (nz_range (recv s)). cbn [e_wclr] in Q2.
  assert (Hp : pending s = []) by (apply nz_nil; lia).
  assert (Hr : recv s = []).
  { apply nz_nil. pose proof (b2z_range (cbset s)).
    destruct (Z.eq_dec (b2z (cbset s)) 0) as [E|E].
    - specialize (Q3 Hst E). rewrite (G0 (gl c_cl4)), (C0 c_cl4), (G0 g_sw), He in Q3 by reflexivity. cbn [e_wrec e_proxy] in Q3. lia.
    - assert (E1 : b2z (cbset s) = 1) by lia. specialize (Q4 Hst E1).
      rewrite (G0 (gl c_cl4)), (C0 c_cl4), (G0 g_sw), He in Q4 by reflexivity. cbn [e_proxy] in Q4. lia. }
  repeat split; auto. unfold read_res. rewrite Hp, Hr. simpl.
  destruct (Z.eqb_spec (st s) c_streamOpened); [uc; lia|reflexivity].
Qed.

(* ---------- the bytes an OnData invocation was offered stay readable until it returns: while an OnData runs the
   event loop never touches recvBuf.  (The closed path of fillDataToReadBuffer recycles recvBuf only when no
   callbacks are installed; that point is only reached with no goroutine at all.) ---------- *)
Definition e_clrR (e : epcT) : Z := match e with EClrR => 1 | _ => 0 end.
Record InvV (s : est) : Prop := {
  v_clr : e_clrR (epc s) = 0 \/ cz g_run (gors s) + cz g_cb (gors s) = 0 }.
Lemma stepV s w : InvP s -> InvC s -> InvV s -> InvV (step s w).
Proof.
  intros [P1 _ _ _ _ _] [_ _ _ C4 _ _ _ _] [V1].
  assert (Hrun : cz g_run (gors s) <= cz g_all (gors s)) by (apply cz_le; intros g _; reflexivity).
  assert (Hcb : cz g_cb (gors s) <= cz g_all (gors s)) by (apply cz_le; intros g _; reflexivity).
  assert (Hle : 0 <= e_clrR (epc s) <= e_clr (epc s)) by (destruct (epc s); simpl; lia).
  cases s w; brk; constructor; cbn [e_clrR]; cb; rw_eqs; rw_cnt; cb; cbn [e_clrR] in *; try assumption;
    czin; cb; uc; zeqh; uc; cb; cbn [e_clrR e_clr] in *; try lia; czpos s; lia.
Qed.
Lemma initV cb0 inb n scr ups sy nds pks : InvV (init_rd cb0 inb n scr ups sy nds pks).
Proof. constructor; cbn; lia. Qed.
Lemma runV sched s : InvAll s -> InvV s -> InvV (run sched s).
Proof.
  revert s; induction sched as [|w l IH]; simpl; intros s HA HV; auto.
  apply IH; [apply stepAll, HA|apply stepV; [apply HA|apply HA|exact HV]].
Qed.

Theorem view_stable cb0 inb nc scr ups sy nds pks sched :
  let s := run sched (init_rd cb0 inb nc scr ups sy nds pks) in
  cz g_run (gors s) >= 1 -> recv (step s WEv) = recv s.
Proof.
  intros s Hrun.
  pose proof (runV sched _ (initAll cb0 inb nc scr ups sy nds pks) (initV cb0 inb nc scr ups sy nds pks)) as [HV]. fold s in HV.
  pose proof (cz_nonneg g_cb (gors s)).
  cbn [step]. unfold estep. destruct (epc s) eqn:Ee; cbn [e_clrR] in HV; try lia.
  all: repeat match goal with
       | |- context [match inbox ?x with _ => _ end] => destruct (inbox x) as [|[m|] r]
       | |- context [if ?c then _ else _] => destruct c
       end; reflexivity.
Qed.

(* ====================================================================================================
   Finality of the user operations: once some Close() has returned (nret > 0) the state is never `opened`
   again — whichever of the three non-open states it is in, localHalfClosed included — so every Flush whose
   state check comes later fails with ErrStreamClosed and sends nothing, and a read never blocks
   ==================================================================================================== *)
Record InvN (s : est) : Prop := {
  n_nn : 0 <= nret s;
  n_ret : st s = c_streamOpened -> nret s = 0 }.
Lemma stepN s w : InvP s -> InvN s -> InvN (step s w).
Proof. intros [_ P2 P3 P3s _ _] [N1 N2]. cases s w; brk; constructor; fin s. Qed.
Lemma initN cb0 inb n scr ups sy nds pks : InvN (init_rd cb0 inb n scr ups sy nds pks).
Proof. constructor; cbn; [lia|auto]. Qed.
Lemma runN sched s : InvAll s -> InvN s -> InvN (run sched s).
Proof.
  revert s; induction sched as [|w l IH]; simpl; intros s HA HN; auto.
  apply IH; [apply stepAll, HA|apply stepN; [apply HA|exact HN]].
Qed.

(* a result (nil?, aft) is fine unless the Flush succeeded although a Close() had returned before its state check *)
Definition r_ok (r : bool * bool) : bool := negb (fst r && snd r).
Definition u_ok (u : ulocal) : Prop :=
  Forall (fun r => r_ok r = true) (ures u) /\ (forall m, upc u <> UPut m true).

Lemma Forall_set_nth {A} (P : A -> Prop) l i x : Forall P l -> P x -> Forall P (set_nth i x l).
Proof.
  intros H Hx. revert i; induction H as [|a l Ha Hl IH]; intros [|i]; simpl; constructor; auto.
Qed.
Lemma Forall_nth {A} (P : A -> Prop) l i x : Forall P l -> nth_error l i = Some x -> P x.
Proof. intros H Hx. rewrite Forall_forall in H. apply H. eapply nth_error_In; eauto. Qed.

Lemma users_frame s w : (forall i, w <> WUser i) -> users (step s w) = users s.
Proof.
  intros Hw. cases s w; brk; cb; try reflexivity; exfalso; eapply Hw; reflexivity.
Qed.

Lemma stepU s w : InvN s -> Forall u_ok (users s) -> Forall u_ok (users (step s w)).
Proof.
  intros [N1 N2] HU.
  destruct w as [|j|j| |i|]; try (rewrite users_frame; [exact HU|intros k; discriminate]).
  cbn [step]. unfold ustep. destruct (nth_error (users s) i) as [u|] eqn:Hn; [|exact HU].
  destruct (Forall_nth _ _ _ _ HU Hn) as [Hr Hp].
  destruct (upc u) as [|m|m|m aft] eqn:Eu.
  - destruct (utodo u); [exact HU|]. cb. apply Forall_set_nth; [exact HU|]. split; cbn; [exact Hr|intros m0; discriminate].
  - cb. apply Forall_set_nth; [exact HU|]. split; cbn; [exact Hr|intros m0; discriminate].
  - destruct (Z.eqb_spec (st s) c_streamOpened) as [E|E]; cb; apply Forall_set_nth; try exact HU; split; cbn.
    + exact Hr.
    + rewrite (N2 E). cbn. intros m0; discriminate.
    + apply Forall_app; split; [exact Hr|repeat constructor].
    + intros m0; discriminate.
  - cb. apply Forall_set_nth; [exact HU|]. split; cbn.
    + apply Forall_app; split; [exact Hr|]. constructor; [|constructor].
      destruct aft; [exfalso; apply (Hp m); reflexivity|reflexivity].
    + intros m0; discriminate.
Qed.
Lemma initU cb0 inb n scr ups sy nds pks : Forall u_ok (users (init_rd cb0 inb n scr ups sy nds pks)).
Proof.
  cbn. induction ups as [|p ups IH]; cbn; constructor; auto. split; cbn; [constructor|intros m; discriminate].
Qed.
Lemma runU sched s : InvAll s -> InvN s -> Forall u_ok (users s) -> Forall u_ok (users (run sched s)).
Proof.
  revert s; induction sched as [|w l IH]; simpl; intros s HA HN HU; auto.
  apply IH; [apply stepAll, HA|apply stepN; [apply HA|exact HN]|apply stepU; auto].
Qed.

Theorem final_ops cb0 inb nc scr ups sy nds pks sched :
  let s := run sched (init_rd cb0 inb nc scr ups sy nds pks) in
  (* every Flush whose state check came after a returned Close() failed, and none is about to send *)
  (forall i u, nth_error (users s) i = Some u ->
     Forall (fun r => snd r = true -> fst r = false) (ures u) /\ (forall m, upc u <> UPut m true)) /\
  (* and from now on: whatever non-open state the stream is in *)
  (0 < nret s -> st s <> c_streamOpened /\ flush_res s = RErrStreamClosed /\ read_res s <> RBlocked).
Proof.
  intros s.
  pose proof (runN sched _ (initAll cb0 inb nc scr ups sy nds pks) (initN cb0 inb nc scr ups sy nds pks)) as [N1 N2]. fold s in N1, N2.
  pose proof (runU sched _ (initAll cb0 inb nc scr ups sy nds pks) (initN cb0 inb nc scr ups sy nds pks) (initU cb0 inb nc scr ups sy nds pks)) as HU.
  fold s in HU. split.
  - intros i u Hi. destruct (Forall_nth _ _ _ _ HU Hi) as [Hr Hp]. split; [|exact Hp].
    rewrite Forall_forall in *. intros [ok aft] Hin Haft. specialize (Hr _ Hin). unfold r_ok in Hr. cbn in *.
    subst aft. destruct ok; [discriminate|reflexivity].
  - intros Hn. assert (Hst : st s <> c_streamOpened) by (intros E; specialize (N2 E); lia).
    split; [exact Hst|split; [apply flush_closed|apply read_not_blocked]]; auto.
Qed.

(* ====================================================================================================
   The pendingData mutex: the fine-grained machine refines the atomic one — every fine schedule performs a
   schedule of the atomic machine (its Plain and Commit steps, in order); lock, busy, walk and unlock steps
   leave the stream state alone.  Hence every theorem above holds of every state the fine machine reaches.
   ==================================================================================================== *)
Lemma faction_held f w : (faction f w = FCommit \/ (exists i, faction f w = FWalk i)) -> exists h i n c, plk f = Some (h, i, n, c).
Proof.
  unfold faction. destruct (plk f) as [[[[h j] n] c]|]; [intros _; eauto|].
  destruct (pend_op (base f) w); intros [H|[i H]]; discriminate.
Qed.
Lemma frun_proj sched f : base (frun sched f) = run (fproj sched f) (base f).
Proof.
  revert f; induction sched as [|w r IH]; intros f; [reflexivity|].
  cbn [frun fold_left fproj]. fold (frun r (fstep f w)). rewrite IH.
  destruct (faction f w) eqn:Ea; unfold fstep at 2; rewrite Ea; cbn [base run fold_left]; try reflexivity.
  - destruct (faction_held f w (or_intror (ex_intro _ i Ea))) as [h [j [n [c Hp]]]]. rewrite Hp. reflexivity.
  - destruct (faction_held f w (or_introl Ea)) as [h [j [n [c Hp]]]]. rewrite Hp. reflexivity.
Qed.

Theorem fine_reach sched s0 : exists sched', base (frun sched (finit s0)) = run sched' s0.
Proof. exists (fproj sched (finit s0)). apply frun_proj. Qed.

Lemma who_eqb_eq a b : who_eqb a b = true <-> a = b.
Proof.
  destruct a, b; simpl; split; intros H; try discriminate; try reflexivity;
    try (apply Nat.eqb_eq in H; subst; reflexivity); try (inversion H; subst; apply Nat.eqb_refl).
Qed.

(* while some other thread holds the mutex (walking r.unread or between its operation and its unlock), a thread
   whose next step is a pendingData operation — in particular the event loop's add — does not move *)
Theorem excluded_while_held sched s0 w h i n c :
  let f := frun sched (finit s0) in
  plk f = Some (h, i, n, c) -> h <> w -> pend_op (base f) w <> None -> fstep f w = f.
Proof.
  intros f Hp Hne Hop. unfold fstep, faction. rewrite Hp.
  destruct (who_eqb h w) eqn:E; [apply who_eqb_eq in E; contradiction|].
  destruct (pend_op (base f) w); [reflexivity|congruence].
Qed.

(* order / exactly once, over the fine steps *)
Theorem order_once_fine cb0 inb nc scr ups sy nds pks sched :
  let s := base (frun sched (finit (init_rd cb0 inb nc scr ups sy nds pks))) in
  arrived s = concat (map snd (chunks s)) ++ concat (pending s) /\
  moved s = concat (map snd (filter fst (chunks s))) /\
  (st s <> c_streamClosed -> arrived s = consumed s ++ recv s ++ concat (pending s)).
Proof.
  intros s. unfold s. rewrite frun_proj. cbn [finit base]. apply order_once.
Qed.
