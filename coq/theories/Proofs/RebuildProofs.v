(* Invariants of the rebuild-watcher model (C17). *)
From Coq Require Import List ZArith Bool Arith Lia.
From Shm Require Import Gen.Consts Model.HotRestart Model.Rebuild Proofs.HotRestartProofs.
Import ListNotations.
Open Scope Z_scope.

(* ------------------------------------------------------------------ list facts *)
Lemma nth_upd_same : forall A (l : list A) i x d, (i < length l)%nat -> nth i (upd l i x) d = x.
Proof. induction l as [|h t IH]; intros [|i] x d H; cbn in *; try lia; auto. apply IH. lia. Qed.

Lemma nth_upd_other : forall A (l : list A) i j x d, i <> j -> nth j (upd l i x) d = nth j l d.
Proof. induction l as [|h t IH]; intros [|i] [|j] x d H; cbn; auto; try congruence. Qed.

Lemma nth_error_nth : forall A (l : list A) i d, (i < length l)%nat -> nth_error l i = Some (nth i l d).
Proof. induction l as [|h t IH]; intros [|i] d H; cbn in *; try lia; auto. apply IH. lia. Qed.

Lemma r_run_app : forall a b s, r_run (a ++ b) s = r_run b (r_run a s).
Proof. intros. unfold r_run. apply fold_left_app. Qed.

Lemma r_run_inv : forall (P : rstate -> Prop), (forall s ev, P s -> P (r_step s ev)) ->
  forall evs s, P s -> P (r_run evs s).
Proof. intros P Hs evs. induction evs as [|ev r IH]; intros s H; cbn; auto. Qed.

(* ------------------------------------------------------------------ hr_event frame *)
Lemma hr_event_frame : forall s i e ok,
  watchers (hr_event s i e ok) = watchers s /\ created (hr_event s i e ok) = created s /\
  closed (hr_event s i e ok) = closed s /\ bad (hr_event s i e ok) = bad s.
Proof.
  intros. unfold hr_event.
  destruct ((r_state s =? st_hr) && negb (r_epoch s =? e)); [auto|].
  destruct (r_state s =? st_hr); cbn.
  - destruct (nth_error (reserve s) i) as [[o|]|]; cbn; auto; destruct ok; cbn; auto.
  - destruct (nth_error (repeat None (length (pools s))) i) as [[o|]|]; cbn; auto; destruct ok; cbn; auto.
Qed.

(* ------------------------------------------------------------------ C17_close_stops *)
Definition isC (w : watcher) : nat := match w_pc w with WCompare => 1%nat | _ => 0%nat end.
Fixpoint cnt (ws : list watcher) : nat := match ws with [] => 0%nat | w :: r => (isC w + cnt r)%nat end.

Lemma pending_cnt : forall s, pending s = cnt (watchers s).
Proof.
  intro s. unfold pending. induction (watchers s) as [|w r IH]; cbn; auto.
  unfold isC. destruct (w_pc w); cbn; rewrite IH; reflexivity.
Qed.

Lemma cnt_upd : forall ws id w d, (id < length ws)%nat ->
  (cnt (upd ws id w) + isC (nth id ws d) = cnt ws + isC w)%nat.
Proof.
  induction ws as [|h t IH]; intros [|id] w d H; cbn in *; try lia.
  specialize (IH id w d). lia.
Qed.

Lemma close_step : forall s ev, closed s = true ->
  closed (r_step s ev) = true /\ (created (r_step s ev) + pending (r_step s ev) <= created s + pending s)%nat.
Proof.
  intros s ev Hc. unfold r_step. destruct (r_enabled s ev) eqn:He; [|split; [exact Hc | lia]].
  rewrite !pending_cnt.
  assert (SW : forall id w, in_range s id = true -> isC w = 0%nat -> (isC (watcher_of s id) >= 0)%nat ->
            closed (set_watcher s id w) = true /\
            (created (set_watcher s id w) + cnt (watchers (set_watcher s id w)) <= created s + cnt (watchers s))%nat).
  { intros id w Hr Hw _. cbn. split; [exact Hc|]. unfold in_range in Hr. apply Nat.ltb_lt in Hr.
    pose proof (cnt_upd (watchers s) id w {| w_pc := WExit; w_pool := 0%nat |} Hr). lia. }
  destruct ev; cbn [r_apply]; cbn in He.
  - (* WLoad *) apply andb_prop in He. destruct He as [Hr _].
    destruct (r_state s =? st_hr); [split; [exact Hc | lia]|]. apply SW; auto. lia.
  - (* WakeClose *) apply andb_prop in He. destruct He as [He _]. apply andb_prop in He. destruct He as [Hr _].
    destruct (r_state s =? st_hr); apply SW; auto; lia.
  - (* WakeCtx *) apply andb_prop in He. destruct He as [He _]. apply andb_prop in He. destruct He as [Hr _].
    apply SW; auto. lia.
  - (* TimerFires: disabled once closed *) rewrite Hc in He. rewrite andb_false_r in He. discriminate.
  - (* Compare *) apply andb_prop in He. destruct He as [Hr Hpc].
    assert (HC : isC (watcher_of s id) = 1%nat).
    { unfold isC. destruct (w_pc (watcher_of s id)); try discriminate. reflexivity. }
    pose proof Hr as Hr'. unfold in_range in Hr'. apply Nat.ltb_lt in Hr'.
    assert (G : forall w, isC w = 0%nat -> (cnt (upd (watchers s) id w) + 1 = cnt (watchers s))%nat).
    { intros w Hw. pose proof (cnt_upd (watchers s) id w {| w_pc := WExit; w_pool := 0%nat |} Hr') as X.
      unfold watcher_of in HC. rewrite HC in X. lia. }
    destruct (negb (obj_epoch s (pool_of s id) =? obj_epoch s (w_pool (watcher_of s id)))).
    { cbn [created watchers closed set_watcher]. split; [exact Hc|]. pose proof (G {| w_pc := WTop; w_pool := w_pool (watcher_of s id) |} eq_refl). lia. }
    destruct (negb ok).
    { cbn [created watchers closed set_watcher]. split; [exact Hc|]. pose proof (G {| w_pc := WWait; w_pool := w_pool (watcher_of s id) |} eq_refl). lia. }
    destruct (nth_error (objs s) (w_pool (watcher_of s id))).
    + cbn [created watchers closed set_watcher]. split; [exact Hc|]. pose proof (G {| w_pc := WTop; w_pool := w_pool (watcher_of s id) |} eq_refl). lia.
    + cbn [created watchers closed set_watcher]. split; [exact Hc|]. pose proof (G {| w_pc := WTop; w_pool := w_pool (watcher_of s id) |} eq_refl). lia.
  - cbn. split; [exact Hc | lia].
  - destruct (hr_event_frame s i e ok) as [H1 [H2 [H3 _]]]. rewrite H1, H2, H3. split; [exact Hc | lia].
  - destruct (count_some (reserve s) =? length (pools s))%nat; cbn; split; auto; lia.
  - cbn. split; [exact Hc | lia].
  - cbn. split; [reflexivity | lia].
  - cbn. split; [exact Hc | lia].
  - split; [exact Hc | lia].
Qed.

Theorem close_stops : forall evs s, closed s = true ->
  closed (r_run evs s) = true /\ (created (r_run evs s) + pending (r_run evs s) <= created s + pending s)%nat.
Proof.
  induction evs as [|ev r IH]; intros s Hc; [cbn; split; [exact Hc | lia]|].
  change (r_run (ev :: r) s) with (r_run r (r_step s ev)).
  destruct (close_step s ev Hc) as [H1 H2]. destruct (IH _ H1) as [H3 H4]. split; [exact H3 | lia].
Qed.

(* once every watcher has returned (the condition under which Close gets past wg.Wait) they stay so *)
Definition all_exited (s : rstate) : Prop := Forall (fun w => w_pc w = WExit) (watchers s).

Lemma exited_step : forall s ev, all_exited s -> all_exited (r_step s ev) /\ created (r_step s ev) = created s.
Proof.
  intros s ev H. unfold r_step. destruct (r_enabled s ev) eqn:He; [|auto].
  assert (X : forall id, in_range s id = true -> w_pc (watcher_of s id) = WExit).
  { intros id Hr. unfold in_range in Hr. apply Nat.ltb_lt in Hr. unfold watcher_of.
    pose proof (nth_error_nth _ (watchers s) id {| w_pc := WExit; w_pool := 0%nat |} Hr) as Hn.
    apply (Forall_nth_error _ _ _ _ _ H Hn). }
  destruct ev; cbn [r_apply]; cbn in He.
  - apply andb_prop in He. destruct He as [Hr Hp]. rewrite (X id Hr) in Hp. discriminate.
  - apply andb_prop in He. destruct He as [He _]. apply andb_prop in He. destruct He as [Hr Hp]. rewrite (X id Hr) in Hp. discriminate.
  - apply andb_prop in He. destruct He as [He Hp]. apply andb_prop in He. destruct He as [Hr _]. rewrite (X id Hr) in Hp. discriminate.
  - apply andb_prop in He. destruct He as [He Hp]. apply andb_prop in He. destruct He as [Hr _]. rewrite (X id Hr) in Hp. discriminate.
  - apply andb_prop in He. destruct He as [Hr Hp]. rewrite (X id Hr) in Hp. discriminate.
  - cbn. auto.
  - destruct (hr_event_frame s i e ok) as [H1 [H2 _]]. unfold all_exited. rewrite H1, H2. auto.
  - destruct (count_some (reserve s) =? length (pools s))%nat; cbn; auto.
  - cbn. auto.
  - cbn. auto.
  - cbn. auto.
  - auto.
Qed.

Theorem close_final : forall evs s, all_exited s -> all_exited (r_run evs s) /\ created (r_run evs s) = created s.
Proof.
  induction evs as [|ev r IH]; intros s H; [cbn; auto|].
  change (r_run (ev :: r) s) with (r_run r (r_step s ev)).
  destruct (exited_step s ev H) as [H1 H2]. destruct (IH _ H1) as [H3 H4]. split; [exact H3 | congruence].
Qed.

(* ------------------------------------------------------------------ C17_fail_fast *)
Theorem fail_fast : forall s k,
  get_stream_r s k <> GsBlocked /\
  (get_stream_r s k = GsErr <-> obj_alive s (pool_of s k) = false) /\
  (get_stream_r s k = GsOk <-> obj_alive s (pool_of s k) = true).
Proof.
  intros s k. unfold get_stream_r. destruct (obj_alive s (pool_of s k)); repeat split; intros; try discriminate; auto.
Qed.

(* ------------------------------------------------------------------ C17_heals *)
Record Lost (s : rstate) (id : nat) (pc : wpc) : Prop := {
  lost_range : in_range s id = true;
  lost_open : closed s = false;
  lost_pc : w_pc (watcher_of s id) = pc;
  lost_pool : w_pool (watcher_of s id) = pool_of s id;
  lost_obj : (pool_of s id < length (objs s))%nat }.

Lemma watcher_of_set : forall s id w, in_range s id = true -> watcher_of (set_watcher s id w) id = w.
Proof.
  intros s id w Hr. unfold watcher_of, set_watcher. cbn. apply nth_upd_same. unfold in_range in Hr. apply Nat.ltb_lt. exact Hr.
Qed.

Lemma lost_set : forall s id pc pc', Lost s id pc ->
  Lost (set_watcher s id {| w_pc := pc'; w_pool := w_pool (watcher_of s id) |}) id pc'.
Proof.
  intros s id pc pc' [Hr Ho Hp Hpool Hobj]. constructor.
  - unfold in_range in *. cbn. rewrite upd_length. exact Hr.
  - exact Ho.
  - rewrite watcher_of_set by exact Hr. reflexivity.
  - rewrite watcher_of_set by exact Hr. cbn. exact Hpool.
  - exact Hobj.
Qed.

Lemma heal_wake : forall s id, Lost s id WSelect -> r_state s <> st_hr -> obj_alive s (pool_of s id) = false ->
  let s' := r_step s (WakeClose id) in
  Lost s' id WWait /\ r_state s' = r_state s /\ created s' = created s /\ bad s' = bad s /\ objs s' = objs s.
Proof.
  intros s id L Hs Ha. pose proof L as [Hr Ho Hp Hpool Hobj]. unfold r_step. cbn [r_enabled].
  rewrite Hr, Hp, Hpool, Ha. cbn [andb negb]. cbn [r_apply].
  apply Z.eqb_neq in Hs. rewrite Hs. split; [apply (lost_set s id WSelect WWait L) | cbn; auto].
Qed.

Lemma heal_timer : forall s id, Lost s id WWait ->
  let s' := r_step s (TimerFires id) in
  Lost s' id WCompare /\ r_state s' = r_state s /\ created s' = created s /\ bad s' = bad s /\ objs s' = objs s.
Proof.
  intros s id L. pose proof L as [Hr Ho Hp Hpool Hobj]. unfold r_step. cbn [r_enabled].
  rewrite Hr, Hp, Ho. cbn [andb negb]. cbn [r_apply].
  split; [apply (lost_set s id WWait WCompare L) | cbn; auto].
Qed.

Lemma heal_fail : forall s id, Lost s id WCompare ->
  let s' := r_step s (Compare id false) in
  Lost s' id WWait /\ r_state s' = r_state s /\ created s' = created s /\ bad s' = bad s /\ objs s' = objs s.
Proof.
  intros s id L. pose proof L as [Hr Ho Hp Hpool Hobj]. unfold r_step. cbn [r_enabled].
  rewrite Hr, Hp. cbn [andb]. cbn [r_apply]. rewrite Hpool, Z.eqb_refl. cbn [negb].
  rewrite <- Hpool at 1 2.
  split; [apply (lost_set s id WCompare WWait L) | cbn; auto].
Qed.

Lemma heal_ok : forall s id, Lost s id WCompare ->
  let s' := r_step s (Compare id true) in
  get_stream_r s' id = GsOk /\ w_pc (watcher_of s' id) = WTop /\ created s' = S (created s) /\ bad s' = bad s /\
  obj_epoch s' (pool_of s' id) = r_epoch s.
Proof.
  intros s id L. pose proof L as [Hr Ho Hp Hpool Hobj]. unfold r_step. cbn [r_enabled].
  rewrite Hr, Hp. cbn [andb]. cbn [r_apply]. rewrite Hpool, Z.eqb_refl. cbn [negb].
  destruct (nth_error (objs s) (pool_of s id)) as [p|] eqn:Hn.
  2:{ apply nth_error_None in Hn. lia. }
  unfold get_stream_r, obj_alive, obj_epoch, pool_of, watcher_of. cbn.
  rewrite (nth_error_upd_same _ _ _ _ _ Hn). cbn.
  rewrite Nat.eqb_refl.
  rewrite nth_upd_same by (unfold in_range in Hr; apply Nat.ltb_lt; exact Hr). cbn. auto.
Qed.

Fixpoint retries (id : nat) (k : nat) : list revent :=
  match k with O => [] | S k' => Compare id false :: TimerFires id :: retries id k' end.

Theorem heals : forall k s id,
  Lost s id WSelect -> r_state s <> st_hr -> obj_alive s (pool_of s id) = false ->
  let s' := r_run ([WakeClose id; TimerFires id] ++ retries id k ++ [Compare id true]) s in
  get_stream_r s' id = GsOk /\ w_pc (watcher_of s' id) = WTop /\ created s' = S (created s) /\ bad s' = bad s.
Proof.
  intros k s id L Hs Ha. cbn zeta.
  change (r_run ([WakeClose id; TimerFires id] ++ retries id k ++ [Compare id true]) s)
    with (r_run (retries id k ++ [Compare id true]) (r_step (r_step s (WakeClose id)) (TimerFires id))).
  destruct (heal_wake s id L Hs Ha) as [L1 [_ [C1 [B1 _]]]].
  destruct (heal_timer _ id L1) as [L2 [_ [C2 [B2 _]]]].
  set (s2 := r_step (r_step s (WakeClose id)) (TimerFires id)) in *.
  assert (G : forall k s2, Lost s2 id WCompare ->
            let s' := r_run (retries id k ++ [Compare id true]) s2 in
            get_stream_r s' id = GsOk /\ w_pc (watcher_of s' id) = WTop /\ created s' = S (created s2) /\ bad s' = bad s2).
  { clear. induction k as [|k IH]; intros s2 L; cbn zeta.
    - cbn. destruct (heal_ok s2 id L) as [A [B [C [D _]]]]. auto.
    - cbn [retries app r_run fold_left].
      destruct (heal_fail s2 id L) as [L1 [_ [C1 [B1 _]]]].
      destruct (heal_timer _ id L1) as [L2 [_ [C2 [B2 _]]]].
      destruct (IH _ L2) as [A [B [C D]]]. cbn zeta in *. unfold r_run in *.
      repeat split; auto; congruence. }
  destruct (G k s2 L2) as [A [B [C D]]]. cbn zeta in *. repeat split; auto; congruence.
Qed.

(* a hot restart in progress pauses the watcher: no session is created, the pool is left alone *)
Theorem paused_by_hot_restart : forall s id, r_state s = st_hr ->
  (w_pc (watcher_of s id) = WTop -> r_step s (WLoad id) = s) /\
  (w_pc (watcher_of s id) = WSelect -> created (r_step s (WakeClose id)) = created s /\ objs (r_step s (WakeClose id)) = objs s).
Proof.
  intros s id Hs. split; intro Hp; unfold r_step.
  - destruct (r_enabled s (WLoad id)); [|reflexivity]. cbn [r_apply]. rewrite Hs, Z.eqb_refl. reflexivity.
  - destruct (r_enabled s (WakeClose id)); [|auto]. cbn [r_apply]. rewrite Hs, Z.eqb_refl. cbn. auto.
Qed.

(* ------------------------------------------------------------------ C17_not_twice: the guard *)
Theorem guard_distinct : forall s id ok,
  in_range s id = true -> w_pc (watcher_of s id) = WCompare ->
  obj_epoch s (pool_of s id) <> obj_epoch s (w_pool (watcher_of s id)) ->
  let s' := r_step s (Compare id ok) in
  created s' = created s /\ objs s' = objs s /\ pools s' = pools s /\ bad s' = bad s /\ w_pc (watcher_of s' id) = WTop.
Proof.
  intros s id ok Hr Hp Hne. unfold r_step. cbn [r_enabled]. rewrite Hr, Hp. cbn [andb r_apply].
  apply Z.eqb_neq in Hne. rewrite Hne. cbn [negb]. cbn. repeat split; auto.
  unfold watcher_of. cbn. rewrite nth_upd_same by (unfold in_range in Hr; apply Nat.ltb_lt; exact Hr). reflexivity.
Qed.

(* equal epochs: HotRestart(0) on a manager whose sessions have epoch 0.  After the hand-over the old
   server lets go, the watcher (still holding the parked pool object) finds the epochs equal and dials:
   the new session is stored into the PARKED object *)
Definition equal_epoch_history : list revent :=
  [WLoad 0; HREvent 0 0 true; HRTick; SessionLost 0; WakeClose 0; TimerFires 0; Compare 0 true].

Theorem not_twice_refuted : ~ (forall n evs, bad (r_run evs (r_init n)) = 0%nat).
Proof.
  intro H. specialize (H 1%nat equal_epoch_history). vm_compute in H. discriminate.
Qed.

(* ------------------------------------------------------------------ C17_not_twice: all histories *)
(* a swap is "fresh" if the epoch in force differs from the epoch of the session the pool's watcher
   holds (trivially so for an event the manager ignores, or a watcher that holds nothing) *)
Definition fresh (s : rstate) (ev : revent) : bool :=
  match ev with
  | HREvent i e ok =>
      ((r_state s =? st_hr) && negb (r_epoch s =? e))
      || match w_pc (watcher_of s i) with WTop => true | _ => false end
      || negb (obj_epoch s (w_pool (watcher_of s i)) =? e)
  | _ => true
  end.

Fixpoint run_fresh (evs : list revent) (s : rstate) : Prop :=
  match evs with
  | [] => True
  | ev :: r => fresh s ev = true /\ run_fresh r (r_step s ev)
  end.

Definition oslot (os : list pobj) (o : nat) : option nat := option_map o_slot (nth_error os o).
Definition oepoch (os : list pobj) (o : nat) : Z := match nth_error os o with Some p => o_epoch p | None => -1 end.

Lemma obj_epoch_oepoch : forall s o, obj_epoch s o = oepoch (objs s) o.
Proof. reflexivity. Qed.

Lemma kill_obj_meta : forall os o x, oslot (kill_obj os o) x = oslot os x /\ oepoch (kill_obj os o) x = oepoch os x.
Proof.
  intros os o x. unfold kill_obj. destruct (nth_error os o) as [p|] eqn:Hp; [|auto].
  unfold oslot, oepoch. destruct (Nat.eq_dec o x) as [->|Hne].
  - rewrite (nth_error_upd_same _ _ _ _ _ Hp), Hp. cbn. auto.
  - rewrite (nth_error_upd_other _ _ _ _ _ Hne). auto.
Qed.

Lemma kill_reserved_meta : forall rs os x,
  oslot (kill_reserved rs os) x = oslot os x /\ oepoch (kill_reserved rs os) x = oepoch os x.
Proof.
  induction rs as [|[o|] r IH]; intros os x; cbn; auto.
  destruct (IH (kill_obj os o) x) as [A B]. destruct (kill_obj_meta os o x) as [C D]. split; congruence.
Qed.

Lemma oslot_range : forall os o k, oslot os o = Some k -> (o < length os)%nat.
Proof.
  intros os o k H. unfold oslot in H. destruct (nth_error os o) eqn:E; [|discriminate].
  apply nth_error_Some. congruence.
Qed.

Lemma meta_app : forall os p x, (x < length os)%nat ->
  oslot (os ++ [p]) x = oslot os x /\ oepoch (os ++ [p]) x = oepoch os x.
Proof. intros. unfold oslot, oepoch. rewrite nth_error_app1 by assumption. auto. Qed.

Lemma meta_app_new : forall os p, oslot (os ++ [p]) (length os) = Some (o_slot p) /\ oepoch (os ++ [p]) (length os) = o_epoch p.
Proof. intros. unfold oslot, oepoch. rewrite nth_error_app2 by lia. rewrite Nat.sub_diag. cbn. auto. Qed.

Record WF (s : rstate) : Prop := {
  wf_len : length (watchers s) = length (pools s);
  wf_pools : forall id, (id < length (pools s))%nat -> oslot (objs s) (pool_of s id) = Some id;
  wf_watch : forall id, (id < length (pools s))%nat -> w_pc (watcher_of s id) <> WTop ->
             oslot (objs s) (w_pool (watcher_of s id)) = Some id /\
             (w_pool (watcher_of s id) = pool_of s id \/
              oepoch (objs s) (w_pool (watcher_of s id)) <> oepoch (objs s) (pool_of s id));
  wf_bad : bad s = 0%nat }.

Lemma wf_init : forall n, WF (r_init n).
Proof.
  intro n. constructor; cbn.
  - rewrite repeat_length, seq_length. reflexivity.
  - intros id Hid. rewrite seq_length in Hid. unfold pool_of, oslot. cbn.
    rewrite seq_nth by exact Hid. cbn.
    rewrite nth_error_map. rewrite (nth_error_nth _ (seq 0 n) id 0%nat) by (rewrite seq_length; exact Hid).
    rewrite seq_nth by exact Hid. reflexivity.
  - intros id Hid Hpc. exfalso. apply Hpc. unfold watcher_of. cbn.
    rewrite seq_length in Hid. clear Hpc. revert id Hid. induction n; intros [|id] H; cbn; try lia; auto. apply IHn. lia.
  - reflexivity.
Qed.

(* same heap metadata, same tables: WF carries over *)
Lemma wf_same_meta : forall s s',
  pools s' = pools s -> watchers s' = watchers s -> bad s' = bad s ->
  (forall x, oslot (objs s') x = oslot (objs s) x /\ oepoch (objs s') x = oepoch (objs s) x) ->
  WF s -> WF s'.
Proof.
  intros s s' Hp Hw Hb Hm [L P W B]. unfold pool_of, watcher_of in *.
  constructor; unfold pool_of, watcher_of; rewrite ?Hp, ?Hw, ?Hb; auto.
  - intros id Hid. destruct (Hm (nth id (pools s) 0%nat)) as [A _]. rewrite A. auto.
  - intros id Hid Hpc. destruct (W id Hid Hpc) as [W1 W2].
    destruct (Hm (w_pool (nth id (watchers s) {| w_pc := WExit; w_pool := 0%nat |}))) as [A A'].
    destruct (Hm (nth id (pools s) 0%nat)) as [_ B'].
    rewrite A, A', B'. auto.
Qed.

Lemma wf_set_watcher : forall s id w, WF s -> (id < length (pools s))%nat ->
  (w_pc w <> WTop -> oslot (objs s) (w_pool w) = Some id /\
                     (w_pool w = pool_of s id \/ oepoch (objs s) (w_pool w) <> oepoch (objs s) (pool_of s id))) ->
  WF (set_watcher s id w).
Proof.
  intros s id w [L P W B] Hid Hw. constructor; cbn.
  - rewrite upd_length. exact L.
  - exact P.
  - intros j Hj Hpc. unfold watcher_of in *. cbn in *. destruct (Nat.eq_dec id j) as [->|Hne].
    + rewrite nth_upd_same in * by lia. apply Hw. exact Hpc.
    + rewrite nth_upd_other in * by exact Hne. apply W; assumption.
  - exact B.
Qed.

Lemma step_wf : forall s ev, WF s -> fresh s ev = true -> WF (r_step s ev).
Proof.
  intros s ev H Hf. unfold r_step. destruct (r_enabled s ev) eqn:He; [|exact H].
  pose proof H as [L P W B].
  assert (RNG : forall id, in_range s id = true -> (id < length (pools s))%nat).
  { intros id Hr. unfold in_range in Hr. apply Nat.ltb_lt in Hr. lia. }
  (* a watcher that keeps its pool object and had a pc different from WTop *)
  assert (KEEP : forall id pc', (id < length (pools s))%nat -> w_pc (watcher_of s id) <> WTop ->
                 WF (set_watcher s id {| w_pc := pc'; w_pool := w_pool (watcher_of s id) |})).
  { intros id pc' Hid Hpc. apply wf_set_watcher; auto. cbn. intros _. apply W; assumption. }
  destruct ev; cbn [r_apply]; cbn [r_enabled] in He.
  - (* WLoad *) apply andb_prop in He. destruct He as [Hr _].
    destruct (r_state s =? st_hr); [exact H|]. apply wf_set_watcher; auto. cbn. intros _. split; [apply P; auto | left; reflexivity].
  - (* WakeClose *) apply andb_prop in He. destruct He as [He _]. apply andb_prop in He. destruct He as [Hr Hpc].
    assert (w_pc (watcher_of s id) <> WTop) by (destruct (w_pc (watcher_of s id)); discriminate).
    destruct (r_state s =? st_hr); apply KEEP; auto.
  - (* WakeCtx *) apply andb_prop in He. destruct He as [He Hpc]. apply andb_prop in He. destruct He as [Hr _].
    assert (w_pc (watcher_of s id) <> WTop) by (destruct (w_pc (watcher_of s id)); discriminate).
    apply KEEP; auto.
  - (* TimerFires *) apply andb_prop in He. destruct He as [He Hpc]. apply andb_prop in He. destruct He as [Hr _].
    assert (w_pc (watcher_of s id) <> WTop) by (destruct (w_pc (watcher_of s id)); discriminate).
    apply KEEP; auto.
  - (* Compare *) apply andb_prop in He. destruct He as [Hr Hpc].
    assert (Hnt : w_pc (watcher_of s id) <> WTop) by (destruct (w_pc (watcher_of s id)); discriminate).
    pose proof (RNG id Hr) as Hid.
    destruct (negb (obj_epoch s (pool_of s id) =? obj_epoch s (w_pool (watcher_of s id)))) eqn:Hcmp; [apply KEEP; auto|].
    destruct (negb ok); [apply KEEP; auto|].
    destruct (nth_error (objs s) (w_pool (watcher_of s id))) as [p|] eqn:Hp; [|apply KEEP; auto].
    apply negb_false_iff in Hcmp. apply Z.eqb_eq in Hcmp. rewrite !obj_epoch_oepoch in Hcmp.
    destruct (W id Hid Hnt) as [Wslot Wdis].
    assert (Heq : w_pool (watcher_of s id) = pool_of s id) by (destruct Wdis as [E|E]; [exact E | congruence]).
    set (o := w_pool (watcher_of s id)) in *.
    set (p' := {| o_epoch := r_epoch s; o_alive := true; o_slot := o_slot p; o_by := 2 |}).
    assert (SL : forall x, oslot (upd (objs s) o p') x = oslot (objs s) x).
    { intro x. unfold oslot. destruct (Nat.eq_dec o x) as [<-|Hne].
      - rewrite (nth_error_upd_same _ _ _ _ _ Hp), Hp. reflexivity.
      - rewrite (nth_error_upd_other _ _ _ _ _ Hne). reflexivity. }
    assert (EP : forall x, x <> o -> oepoch (upd (objs s) o p') x = oepoch (objs s) x).
    { intros x Hne. unfold oepoch. rewrite nth_error_upd_other by congruence. reflexivity. }
    constructor; cbn.
    + rewrite upd_length. exact L.
    + intros j Hj. unfold pool_of. cbn. rewrite SL. apply P. exact Hj.
    + intros j Hj Hpcj. unfold watcher_of, pool_of in *. cbn in *.
      destruct (Nat.eq_dec id j) as [->|Hne].
      * rewrite nth_upd_same in Hpcj by lia. cbn in Hpcj. congruence.
      * rewrite nth_upd_other in * by exact Hne. rewrite SL.
        destruct (W j Hj Hpcj) as [Ws Wd]. split; [exact Ws|].
        assert (N1 : w_pool (nth j (watchers s) {| w_pc := WExit; w_pool := 0%nat |}) <> o).
        { intro X. rewrite X in Ws. unfold watcher_of in Wslot. fold o in Wslot. congruence. }
        assert (N2 : nth j (pools s) 0%nat <> o).
        { intro X. pose proof (P j Hj) as Pj. unfold pool_of in Pj. rewrite X in Pj. congruence. }
        rewrite !EP by assumption. exact Wd.
    + rewrite Heq. rewrite Nat.eqb_refl. exact B.
  - (* SessionLost *)
    eapply wf_same_meta with (s := s); cbn; auto. intro x. apply kill_obj_meta.
  - (* HREvent *)
    cbn [fresh] in Hf. unfold hr_event.
    destruct ((r_state s =? st_hr) && negb (r_epoch s =? e)) eqn:Hstale; [exact H|]. cbn [orb] in Hf.
    set (s1 := if r_state s =? st_hr then s
               else {| objs := kill_reserved (reserve s) (objs s); pools := pools s;
                       reserve := repeat None (length (pools s)); r_state := st_hr; r_epoch := e;
                       closed := closed s; watchers := watchers s; created := created s; bad := bad s |}).
    assert (S1 : WF s1 /\ pools s1 = pools s /\ watchers s1 = watchers s /\ r_epoch s1 = e /\
                 (forall x, oepoch (objs s1) x = oepoch (objs s) x)).
    { subst s1. destruct (r_state s =? st_hr) eqn:Hst.
      - split; [exact H|]. split; [reflexivity|]. split; [reflexivity|]. split; [|reflexivity].
        cbn in Hstale. apply negb_false_iff in Hstale. apply Z.eqb_eq in Hstale. exact Hstale.
      - split; [|split; [reflexivity|split; [reflexivity|split; [reflexivity|]]]].
        + eapply wf_same_meta with (s := s); cbn; auto. intro x. apply kill_reserved_meta.
        + intro x. cbn. apply kill_reserved_meta. }
    destruct S1 as [H1 [Hp1 [Hw1 [He1 Hep1]]]]. clearbody s1.
    destruct (nth_error (reserve s1) i) as [[o|]|]; try exact H1;
      (destruct ok; cbn [negb]; [|exact H1]).
    all: pose proof H1 as [L1 P1 W1 B1];
      assert (Hi : (i < length (pools s1))%nat) by (rewrite Hp1; apply Nat.ltb_lt; exact He).
    all: constructor; cbn.
    all: try (rewrite upd_length; exact L1).
    all: try exact B1.
    all: try (intros j Hj; rewrite upd_length in Hj; unfold pool_of; cbn;
              destruct (Nat.eq_dec i j) as [->|Hne];
              [ rewrite nth_upd_same by exact Hj; apply meta_app_new
              | rewrite nth_upd_other by exact Hne; pose proof (P1 j Hj) as Pj; unfold pool_of in Pj;
                destruct (meta_app (objs s1) (new_obj (r_epoch s1) i 1) _ (oslot_range _ _ _ Pj)) as [A _];
                rewrite A; exact Pj ]).
    all: intros j Hj Hpcj; rewrite upd_length in Hj; unfold watcher_of, pool_of in *; cbn in *;
         destruct (W1 j Hj Hpcj) as [Ws Wd];
         pose proof (oslot_range _ _ _ Ws) as Rw;
         destruct (meta_app (objs s1) (new_obj (r_epoch s1) i 1) _ Rw) as [A A'];
         rewrite A; (split; [exact Ws|]);
         destruct (Nat.eq_dec i j) as [->|Hne].
    all: try (rewrite nth_upd_other by exact Hne; pose proof (P1 j Hj) as Pj; unfold pool_of in Pj;
              destruct (meta_app (objs s1) (new_obj (r_epoch s1) j 1) _ (oslot_range _ _ _ Pj)) as [_ B'];
              destruct (meta_app (objs s1) (new_obj (r_epoch s1) i 1) _ (oslot_range _ _ _ Pj)) as [_ B''];
              rewrite A', B''; exact Wd).
    all: right; rewrite nth_upd_same by exact Hj; rewrite A';
         destruct (meta_app_new (objs s1) (new_obj (r_epoch s1) j 1)) as [_ N]; rewrite N; cbn;
         rewrite He1; rewrite Hep1; rewrite Hw1 in *;
         unfold watcher_of in Hf; rewrite obj_epoch_oepoch in Hf;
         destruct (w_pc (nth j (watchers s) {| w_pc := WExit; w_pool := 0%nat |})); try congruence;
         cbn in Hf; apply negb_true_iff in Hf; apply Z.eqb_neq in Hf; exact Hf.
  - (* HRTick *) destruct (count_some (reserve s) =? length (pools s))%nat; [|exact H].
    eapply wf_same_meta with (s := s); cbn; auto.
  - (* HRTimeout *) eapply wf_same_meta with (s := s); cbn; auto. intro x. apply kill_reserved_meta.
  - eapply wf_same_meta with (s := s); cbn; auto.
  - eapply wf_same_meta with (s := s); cbn; auto. intro x. apply kill_reserved_meta.
  - exact H.
Qed.

Theorem not_twice_partial : forall n evs, run_fresh evs (r_init n) -> bad (r_run evs (r_init n)) = 0%nat.
Proof.
  intros n evs.
  assert (G : forall evs s, WF s -> run_fresh evs s -> WF (r_run evs s)).
  { induction evs0 as [|ev r IH]; intros s Hs Hf; [exact Hs|].
    change (r_run (ev :: r) s) with (r_run r (r_step s ev)). destruct Hf as [Hf Hr].
    apply IH; [apply step_wf; assumption | exact Hr]. }
  intro Hf. apply (wf_bad _ (G evs (r_init n) (wf_init n) Hf)).
Qed.
