(* Invariants of the rebuild-watcher model (C17). *)
From Coq Require Import List ZArith Bool Arith Lia.
From Shm Require Import Gen.Consts Model.HotRestart Model.Rebuild Proofs.HotRestartProofs.
Import ListNotations.
Open Scope Z_scope.

(* ------------------------------------------------------------------ list facts *)
Lemma nth_upd_same : forall A (l : list A) i x d, (i < length l)%nat -> nth i (upd l i x) d = x.
Proof. induction l as [|h t IH]; intros [|i] x d H; cbn in *; try lia; auto. apply IH. lia. Qed.

Lemma nth_upd_other : forall A (l : list A) i j x d, i <> j -> nth j (upd l i x) d = nth j l d.
Proof. induction l as [|h t IH]; intros [|i] [|j] x d H; cbn; auto; try congruence. Qed.

Lemma nth_error_nth : forall A (l : list A) i d, (i < length l)%nat -> nth_error l i = Some (nth i l d).
Proof. induction l as [|h t IH]; intros [|i] d H; cbn in *; try lia; auto. apply IH. lia. Qed.

Lemma r_run_app : forall a b s, r_run (a ++ b) s = r_run b (r_run a s).
Proof. intros. unfold r_run. apply fold_left_app. Qed.

Lemma r_run_inv : forall (P : rstate -> Prop), (forall s ev, P s -> P (r_step s ev)) ->
  forall evs s, P s -> P (r_run evs s).
Proof. intros P Hs evs. induction evs as [|ev r IH]; intros s H; cbn; auto. Qed.

(* ------------------------------------------------------------------ hr_event frame *)
Lemma hr_event_frame : forall s i e ok,
  watchers (hr_event s i e ok) = watchers s /\ created (hr_event s i e ok) = created s /\
  closed (hr_event s i e ok) = closed s /\ bad (hr_event s i e ok) = bad s.
Proof.
  intros. unfold hr_event. destruct (closed s) eqn:Hcl; [auto|].
  destruct ((r_state s =? st_hr) && negb (r_epoch s =? e)); [auto|].
  destruct (r_state s =? st_hr); cbn.
  - destruct (nth_error (reserve s) i) as [[o|]|]; cbn; try destruct ok; cbn; repeat split; auto.
  - destruct (nth_error (repeat None (length (pools s))) i) as [[o|]|]; cbn; try destruct ok; cbn; repeat split; auto.
Qed.

(* ------------------------------------------------------------------ C17_close_stops *)
Definition isC (w : watcher) : nat := match w_pc w with WCompare => 1%nat | _ => 0%nat end.
Fixpoint cnt (ws : list watcher) : nat := match ws with [] => 0%nat | w :: r => (isC w + cnt r)%nat end.

Lemma pending_cnt : forall s, pending s = cnt (watchers s).
Proof.
  intro s. unfold pending. induction (watchers s) as [|w r IH]; cbn; auto.
  unfold isC. destruct (w_pc w); cbn; rewrite IH; reflexivity.
Qed.

Lemma cnt_upd : forall ws id w d, (id < length ws)%nat ->
  (cnt (upd ws id w) + isC (nth id ws d) = cnt ws + isC w)%nat.
Proof.
  induction ws as [|h t IH]; intros [|id] w d H; cbn in *; try lia.
  specialize (IH id w d). lia.
Qed.

Lemma close_step : forall s ev, closed s = true ->
  closed (r_step s ev) = true /\ (created (r_step s ev) + pending (r_step s ev) <= created s + pending s)%nat.
Proof.
  intros s ev Hc. unfold r_step. destruct (r_enabled s ev) eqn:He; [|split; [exact Hc | lia]].
  rewrite !pending_cnt.
  assert (SW : forall id w, in_range s id = true -> isC w = 0%nat -> (isC (watcher_of s id) >= 0)%nat ->
            closed (set_watcher s id w) = true /\
            (created (set_watcher s id w) + cnt (watchers (set_watcher s id w)) <= created s + cnt (watchers s))%nat).
  { intros id w Hr Hw _. cbn. split; [exact Hc|]. unfold in_range in Hr. apply Nat.ltb_lt in Hr.
    pose proof (cnt_upd (watchers s) id w {| w_pc := WExit; w_pool := 0%nat |} Hr). lia. }
  destruct ev; cbn [r_apply]; cbn in He.
  - (* WLoad *) apply andb_prop in He. destruct He as [Hr _].
    destruct (r_state s =? st_hr); [split; [exact Hc | lia]|]. apply SW; auto. lia.
  - (* WakeClose *) apply andb_prop in He. destruct He as [He _]. apply andb_prop in He. destruct He as [Hr _].
    destruct (r_state s =? st_hr); [apply SW; auto; lia|].
    destruct (check_early s && negb (pool_of s id =? w_pool (watcher_of s id))%nat); apply SW; auto; lia.
  - (* WakeCtx *) apply andb_prop in He. destruct He as [He _]. apply andb_prop in He. destruct He as [Hr _].
    apply SW; auto. lia.
  - (* TimerFires: disabled once closed *) rewrite Hc in He. rewrite andb_false_r in He. discriminate.
  - (* Compare *) apply andb_prop in He. destruct He as [Hr Hpc].
    assert (HC : isC (watcher_of s id) = 1%nat).
    { unfold isC. destruct (w_pc (watcher_of s id)); try discriminate. reflexivity. }
    pose proof Hr as Hr'. unfold in_range in Hr'. apply Nat.ltb_lt in Hr'.
    assert (G : forall w, isC w = 0%nat -> (cnt (upd (watchers s) id w) + 1 = cnt (watchers s))%nat).
    { intros w Hw. pose proof (cnt_upd (watchers s) id w {| w_pc := WExit; w_pool := 0%nat |} Hr') as X.
      unfold watcher_of in HC. rewrite HC in X. lia. }
    assert (BR : forall pc', isC {| w_pc := pc'; w_pool := w_pool (watcher_of s id) |} = 0%nat ->
                 closed (set_watcher s id {| w_pc := pc'; w_pool := w_pool (watcher_of s id) |}) = true /\
                 (created (set_watcher s id {| w_pc := pc'; w_pool := w_pool (watcher_of s id) |}) +
                  cnt (watchers (set_watcher s id {| w_pc := pc'; w_pool := w_pool (watcher_of s id) |})) <= created s + cnt (watchers s))%nat).
    { intros pc' Hz. cbn [created watchers closed set_watcher]. split; [exact Hc|]. pose proof (G _ Hz). lia. }
    destruct (negb (check_early s) && negb (pool_of s id =? w_pool (watcher_of s id))%nat); [apply BR; reflexivity|].
    destruct (negb ok).
    { destruct (check_early s && negb (pool_of s id =? w_pool (watcher_of s id))%nat); apply BR; reflexivity. }
    destruct (nth_error (objs s) (w_pool (watcher_of s id))); [|apply BR; reflexivity].
    destruct (store_late s); cbn [created watchers closed]; (split; [exact Hc|]).
    + pose proof (G {| w_pc := WStore; w_pool := w_pool (watcher_of s id) |} eq_refl). lia.
    + pose proof (G {| w_pc := WTop; w_pool := w_pool (watcher_of s id) |} eq_refl). lia.
  - (* Store *) apply andb_prop in He. destruct He as [Hr Hpc].
    assert (HC : isC (watcher_of s id) = 0%nat).
    { unfold isC. destruct (w_pc (watcher_of s id)); try discriminate. reflexivity. }
    pose proof Hr as Hr'. unfold in_range in Hr'. apply Nat.ltb_lt in Hr'.
    pose proof (cnt_upd (watchers s) id {| w_pc := WTop; w_pool := w_pool (watcher_of s id) |} {| w_pc := WExit; w_pool := 0%nat |} Hr') as X.
    unfold watcher_of in HC. rewrite HC in X.
    destruct (nth_error (objs s) (w_pool (watcher_of s id))); cbn [created watchers closed set_watcher];
      (split; [exact Hc | unfold isC at 1 in X; cbn [w_pc] in X; lia]).
  - cbn. split; [exact Hc | lia].
  - destruct (hr_event_frame s i e ok) as [H1 [H2 [H3 _]]]. rewrite H1, H2, H3. split; [exact Hc | lia].
  - destruct (count_some (reserve s) =? length (pools s))%nat; cbn; split; auto; lia.
  - cbn. split; [exact Hc | lia].
  - destruct (cprog s) as [|c rest]; [split; [exact Hc | lia]|].
    destruct c; cbn; (split; [first [reflexivity | exact Hc] | lia]).
  - split; [exact Hc | lia].
Qed.

Theorem close_stops : forall evs s, closed s = true ->
  closed (r_run evs s) = true /\ (created (r_run evs s) + pending (r_run evs s) <= created s + pending s)%nat.
Proof.
  induction evs as [|ev r IH]; intros s Hc; [cbn; split; [exact Hc | lia]|].
  change (r_run (ev :: r) s) with (r_run r (r_step s ev)).
  destruct (close_step s ev Hc) as [H1 H2]. destruct (IH _ H1) as [H3 H4]. split; [exact H3 | lia].
Qed.

(* once every watcher has returned (the condition under which Close gets past wg.Wait) they stay so *)
Definition all_exited (s : rstate) : Prop := Forall (fun w => w_pc w = WExit) (watchers s).

Lemma exited_step : forall s ev, all_exited s -> all_exited (r_step s ev) /\ created (r_step s ev) = created s.
Proof.
  intros s ev H. unfold r_step. destruct (r_enabled s ev) eqn:He; [|auto].
  assert (X : forall id, in_range s id = true -> w_pc (watcher_of s id) = WExit).
  { intros id Hr. unfold in_range in Hr. apply Nat.ltb_lt in Hr. unfold watcher_of.
    pose proof (nth_error_nth _ (watchers s) id {| w_pc := WExit; w_pool := 0%nat |} Hr) as Hn.
    apply (Forall_nth_error _ _ _ _ _ H Hn). }
  destruct ev; cbn [r_apply]; cbn in He.
  - apply andb_prop in He. destruct He as [Hr Hp]. rewrite (X id Hr) in Hp. discriminate.
  - apply andb_prop in He. destruct He as [He _]. apply andb_prop in He. destruct He as [Hr Hp]. rewrite (X id Hr) in Hp. discriminate.
  - apply andb_prop in He. destruct He as [He Hp]. apply andb_prop in He. destruct He as [Hr _]. rewrite (X id Hr) in Hp. discriminate.
  - apply andb_prop in He. destruct He as [He Hp]. apply andb_prop in He. destruct He as [Hr _]. rewrite (X id Hr) in Hp. discriminate.
  - apply andb_prop in He. destruct He as [Hr Hp]. rewrite (X id Hr) in Hp. discriminate.
  - apply andb_prop in He. destruct He as [Hr Hp]. rewrite (X id Hr) in Hp. discriminate.
  - cbn. auto.
  - destruct (hr_event_frame s i e ok) as [H1 [H2 _]]. unfold all_exited. rewrite H1, H2. auto.
  - destruct (count_some (reserve s) =? length (pools s))%nat; cbn; auto.
  - cbn. auto.
  - destruct (cprog s) as [|c rest]; [auto|]. destruct c; cbn; auto.
  - auto.
Qed.

Theorem close_final : forall evs s, all_exited s -> all_exited (r_run evs s) /\ created (r_run evs s) = created s.
Proof.
  induction evs as [|ev r IH]; intros s H; [cbn; auto|].
  change (r_run (ev :: r) s) with (r_run r (r_step s ev)).
  destruct (exited_step s ev H) as [H1 H2]. destruct (IH _ H1) as [H3 H4]. split; [exact H3 | congruence].
Qed.

(* ------------------------------------------------------------------ C17_fail_fast *)
Theorem fail_fast : forall s k,
  get_stream_r s k <> GsBlocked /\
  (get_stream_r s k = GsErr <-> obj_alive s (pool_of s k) = false) /\
  (get_stream_r s k = GsOk <-> obj_alive s (pool_of s k) = true).
Proof.
  intros s k. unfold get_stream_r. destruct (obj_alive s (pool_of s k)); repeat split; intros; try discriminate; auto.
Qed.

(* ------------------------------------------------------------------ C17_heals *)
Record Lost (s : rstate) (id : nat) (pc : wpc) : Prop := {
  lost_range : in_range s id = true;
  lost_open : closed s = false;
  lost_pc : w_pc (watcher_of s id) = pc;
  lost_pool : w_pool (watcher_of s id) = pool_of s id;
  lost_obj : (pool_of s id < length (objs s))%nat;
  lost_code : store_late s = false }.

Lemma watcher_of_set : forall s id w, in_range s id = true -> watcher_of (set_watcher s id w) id = w.
Proof.
  intros s id w Hr. unfold watcher_of, set_watcher. cbn. apply nth_upd_same. unfold in_range in Hr. apply Nat.ltb_lt. exact Hr.
Qed.

Lemma lost_set : forall s id pc pc', Lost s id pc ->
  Lost (set_watcher s id {| w_pc := pc'; w_pool := w_pool (watcher_of s id) |}) id pc'.
Proof.
  intros s id pc pc' [Hr Ho Hp Hpool Hobj Hl]. constructor.
  - unfold in_range in *. cbn. rewrite upd_length. exact Hr.
  - exact Ho.
  - rewrite watcher_of_set by exact Hr. reflexivity.
  - rewrite watcher_of_set by exact Hr. cbn. exact Hpool.
  - exact Hobj.
  - exact Hl.
Qed.

Lemma heal_wake : forall s id, Lost s id WSelect -> r_state s <> st_hr -> obj_alive s (pool_of s id) = false ->
  let s' := r_step s (WakeClose id) in
  Lost s' id WWait /\ r_state s' = r_state s /\ created s' = created s /\ bad s' = bad s /\ objs s' = objs s.
Proof.
  intros s id L Hs Ha. pose proof L as [Hr Ho Hp Hpool Hobj Hlate]. unfold r_step. cbn [r_enabled].
  rewrite Hr, Hp, Hpool, Ha. cbn [andb negb]. cbn [r_apply].
  apply Z.eqb_neq in Hs. rewrite Hs. rewrite Hpool, Nat.eqb_refl. cbn [negb]. rewrite andb_false_r.
  rewrite <- Hpool at 1.
  split; [apply (lost_set s id WSelect WWait L) | cbn; auto].
Qed.

Lemma heal_timer : forall s id, Lost s id WWait ->
  let s' := r_step s (TimerFires id) in
  Lost s' id WCompare /\ r_state s' = r_state s /\ created s' = created s /\ bad s' = bad s /\ objs s' = objs s.
Proof.
  intros s id L. pose proof L as [Hr Ho Hp Hpool Hobj Hlate]. unfold r_step. cbn [r_enabled].
  rewrite Hr, Hp, Ho. cbn [andb negb]. cbn [r_apply].
  split; [apply (lost_set s id WWait WCompare L) | cbn; auto].
Qed.

Lemma heal_fail : forall s id, Lost s id WCompare ->
  let s' := r_step s (Compare id false) in
  Lost s' id WWait /\ r_state s' = r_state s /\ created s' = created s /\ bad s' = bad s /\ objs s' = objs s.
Proof.
  intros s id L. pose proof L as [Hr Ho Hp Hpool Hobj Hlate]. unfold r_step. cbn [r_enabled].
  rewrite Hr, Hp. cbn [andb]. cbn [r_apply]. rewrite Hpool, Nat.eqb_refl. cbn [negb]. rewrite !andb_false_r.
  rewrite <- Hpool at 1.
  split; [apply (lost_set s id WCompare WWait L) | cbn; auto].
Qed.

(* the dial succeeds and the replacement is stored, all in the critical section *)
Lemma heal_ok : forall s id, Lost s id WCompare ->
  let s' := r_step s (Compare id true) in
  get_stream_r s' id = GsOk /\ w_pc (watcher_of s' id) = WTop /\ created s' = S (created s) /\ bad s' = bad s /\
  obj_epoch s' (pool_of s' id) = r_epoch s.
Proof.
  intros s id L. pose proof L as [Hr Ho Hp Hpool Hobj Hlate]. unfold r_step. cbn [r_enabled].
  rewrite Hr, Hp. cbn [andb]. cbn [r_apply]. rewrite Hpool, Nat.eqb_refl. cbn [negb]. rewrite !andb_false_r.
  destruct (nth_error (objs s) (pool_of s id)) as [p|] eqn:Hn.
  2:{ apply nth_error_None in Hn. lia. }
  rewrite Hlate.
  unfold get_stream_r, obj_alive, obj_epoch, pool_of, watcher_of. cbn.
  rewrite (nth_error_upd_same _ _ _ _ _ Hn). cbn. try rewrite Nat.eqb_refl.
  rewrite nth_upd_same by (unfold in_range in Hr; apply Nat.ltb_lt; exact Hr). cbn. auto.
Qed.

Fixpoint retries (id : nat) (k : nat) : list revent :=
  match k with O => [] | S k' => Compare id false :: TimerFires id :: retries id k' end.

Theorem heals : forall k s id,
  Lost s id WSelect -> r_state s <> st_hr -> obj_alive s (pool_of s id) = false ->
  let s' := r_run ([WakeClose id; TimerFires id] ++ retries id k ++ [Compare id true]) s in
  get_stream_r s' id = GsOk /\ w_pc (watcher_of s' id) = WTop /\ created s' = S (created s) /\ bad s' = bad s.
Proof.
  intros k s id L Hs Ha. cbn zeta.
  change (r_run ([WakeClose id; TimerFires id] ++ retries id k ++ [Compare id true]) s)
    with (r_run (retries id k ++ [Compare id true]) (r_step (r_step s (WakeClose id)) (TimerFires id))).
  destruct (heal_wake s id L Hs Ha) as [L1 [_ [C1 [B1 _]]]].
  destruct (heal_timer _ id L1) as [L2 [_ [C2 [B2 _]]]].
  set (s2 := r_step (r_step s (WakeClose id)) (TimerFires id)) in *.
  assert (G : forall k s2, Lost s2 id WCompare ->
            let s' := r_run (retries id k ++ [Compare id true]) s2 in
            get_stream_r s' id = GsOk /\ w_pc (watcher_of s' id) = WTop /\ created s' = S (created s2) /\ bad s' = bad s2).
  { clear. induction k as [|k IH]; intros s2 L; cbn zeta.
    - cbn. destruct (heal_ok s2 id L) as [A [B [C [D _]]]]. auto.
    - cbn [retries app].
      change (r_run (Compare id false :: TimerFires id :: retries id k ++ [Compare id true]) s2)
        with (r_run (retries id k ++ [Compare id true]) (r_step (r_step s2 (Compare id false)) (TimerFires id))).
      destruct (heal_fail s2 id L) as [L1 [_ [C1 [B1 _]]]].
      destruct (heal_timer _ id L1) as [L2 [_ [C2 [B2 _]]]].
      destruct (IH _ L2) as [A [B [C D]]]. cbn zeta in *.
      repeat split; auto; congruence. }
  destruct (G k s2 L2) as [A [B [C D]]]. cbn zeta in *. repeat split; auto; congruence.
Qed.

(* a hot restart in progress pauses the watcher: no session is created, the pool is left alone *)
Theorem paused_by_hot_restart : forall s id, r_state s = st_hr ->
  (w_pc (watcher_of s id) = WTop -> r_step s (WLoad id) = s) /\
  (w_pc (watcher_of s id) = WSelect -> created (r_step s (WakeClose id)) = created s /\ objs (r_step s (WakeClose id)) = objs s).
Proof.
  intros s id Hs. split; intro Hp; unfold r_step.
  - destruct (r_enabled s (WLoad id)); [|reflexivity]. cbn [r_apply]. rewrite Hs, Z.eqb_refl. reflexivity.
  - destruct (r_enabled s (WakeClose id)); [|auto]. cbn [r_apply]. rewrite Hs, Z.eqb_refl. cbn. auto.
Qed.

(* ------------------------------------------------------------------ C17_not_twice *)
(* the guard (identity of the pool object, checked in the critical section of the dial): a watcher whose
   pool object is no longer sm.pools[id] does not dial *)
Theorem guard_swapped : forall s id ok, check_early s = false ->
  in_range s id = true -> w_pc (watcher_of s id) = WCompare ->
  pool_of s id <> w_pool (watcher_of s id) ->
  let s' := r_step s (Compare id ok) in
  created s' = created s /\ objs s' = objs s /\ pools s' = pools s /\ bad s' = bad s /\ w_pc (watcher_of s' id) = WTop.
Proof.
  intros s id ok Hce Hr Hp Hne. unfold r_step. cbn [r_enabled]. rewrite Hr, Hp. cbn [andb r_apply].
  apply Nat.eqb_neq in Hne. rewrite Hne, Hce. cbn [negb andb]. cbn. repeat split; auto.
  unfold watcher_of. cbn. rewrite nth_upd_same by (unfold in_range in Hr; apply Nat.ltb_lt; exact Hr). reflexivity.
Qed.

(* the code: identity check after the wait, dial and Store in one critical section.  Then no watcher is ever
   at WStore, and a session is stored only into the pool object that passed the check a moment ago *)
Record CodeInv (s : rstate) : Prop := {
  ci_bad : bad s = 0%nat;
  ci_early : check_early s = false;
  ci_late : store_late s = false;
  ci_nostore : forall id, in_range s id = true -> w_pc (watcher_of s id) <> WStore }.

Lemma hr_event_flags : forall s i e ok,
  check_early (hr_event s i e ok) = check_early s /\ store_late (hr_event s i e ok) = store_late s.
Proof.
  intros. unfold hr_event. destruct (closed s); [auto|].
  destruct ((r_state s =? st_hr) && negb (r_epoch s =? e)); [auto|].
  destruct (r_state s =? st_hr); cbn.
  - destruct (nth_error (reserve s) i) as [[o|]|]; cbn; auto; destruct ok; cbn; auto.
  - destruct (nth_error (repeat None (length (pools s))) i) as [[o|]|]; cbn; auto; destruct ok; cbn; auto.
Qed.

Lemma codeinv_set : forall s id w, CodeInv s -> in_range s id = true -> w_pc w <> WStore -> CodeInv (set_watcher s id w).
Proof.
  intros s id w [B E L N] Hr Hw. constructor; cbn; auto.
  intros j Hj. unfold in_range in *. cbn in Hj. rewrite upd_length in Hj.
  unfold watcher_of in *. cbn. destruct (Nat.eq_dec id j) as [->|Hne].
  - rewrite nth_upd_same by (apply Nat.ltb_lt; exact Hr). exact Hw.
  - rewrite nth_upd_other by exact Hne. apply N. exact Hj.
Qed.

Lemma step_codeinv : forall s ev, CodeInv s -> CodeInv (r_step s ev).
Proof.
  intros s ev H. pose proof H as [B E L N]. unfold r_step. destruct (r_enabled s ev) eqn:He; [|exact H].
  assert (SAME : forall s', bad s' = bad s -> check_early s' = check_early s -> store_late s' = store_late s ->
                 watchers s' = watchers s -> CodeInv s').
  { intros s' Hb Hc Hl Hw. constructor; try congruence.
    intros j Hj. unfold in_range, watcher_of in *. rewrite Hw in *. apply N. exact Hj. }
  destruct ev; cbn [r_apply]; cbn [r_enabled] in He.
  - apply andb_prop in He. destruct He as [Hr _]. destruct (r_state s =? st_hr); [exact H|].
    apply codeinv_set; auto; cbn; discriminate.
  - apply andb_prop in He. destruct He as [He _]. apply andb_prop in He. destruct He as [Hr _].
    destruct (r_state s =? st_hr); [apply codeinv_set; auto; cbn; discriminate|].
    destruct (check_early s && negb (pool_of s id =? w_pool (watcher_of s id))%nat); apply codeinv_set; auto; cbn; discriminate.
  - apply andb_prop in He. destruct He as [He _]. apply andb_prop in He. destruct He as [Hr _].
    apply codeinv_set; auto; cbn; discriminate.
  - apply andb_prop in He. destruct He as [He _]. apply andb_prop in He. destruct He as [Hr _].
    apply codeinv_set; auto; cbn; discriminate.
  - (* Compare: the session is stored only if the identity check of the same critical section passed *)
    apply andb_prop in He. destruct He as [Hr _]. rewrite E. cbn [negb andb].
    destruct (negb (pool_of s id =? w_pool (watcher_of s id))%nat) eqn:Hid; [apply codeinv_set; auto; cbn; discriminate|].
    destruct (negb ok); [apply codeinv_set; auto; cbn; discriminate|].
    destruct (nth_error (objs s) (w_pool (watcher_of s id))); [|apply codeinv_set; auto; cbn; discriminate].
    rewrite L. apply negb_false_iff in Hid. apply Nat.eqb_eq in Hid.
    constructor; cbn; auto.
    + rewrite <- Hid, Nat.eqb_refl. exact B.
    + intros j Hj. unfold in_range in *. cbn in Hj. rewrite upd_length in Hj.
      unfold watcher_of in *. cbn. destruct (Nat.eq_dec id j) as [->|Hne].
      * rewrite nth_upd_same by (apply Nat.ltb_lt; exact Hr). cbn. discriminate.
      * rewrite nth_upd_other by exact Hne. apply N. exact Hj.
  - (* Store: no watcher is there *)
    exfalso. apply andb_prop in He. destruct He as [Hr Hpc]. apply (N id Hr).
    destruct (w_pc (watcher_of s id)); try discriminate. reflexivity.
  - apply SAME; reflexivity.
  - destruct (hr_event_frame s i e ok) as [Hw [_ [_ Hb]]]. destruct (hr_event_flags s i e ok) as [F1 F2].
    apply SAME; congruence.
  - destruct (count_some (reserve s) =? length (pools s))%nat; [apply SAME; reflexivity | exact H].
  - apply SAME; reflexivity.
  - destruct (cprog s) as [|c rest]; [exact H|]. destruct c; apply SAME; reflexivity.
  - exact H.
Qed.

Lemma init_codeinv : forall n, CodeInv (r_init n).
Proof.
  intro n. constructor; try reflexivity.
  intros id Hr Hpc. unfold in_range, watcher_of in *. cbn in *. rewrite repeat_length in Hr.
  apply Nat.ltb_lt in Hr. revert id Hr Hpc. induction n; intros [|id] H1 H2; cbn in *; try lia; try discriminate.
  apply (IHn id); [lia | exact H2].
Qed.

(* for ALL histories: no watcher ever stores a rebuilt session into a pool object that is no longer
   sm.pools[id] *)
Theorem not_twice_full : forall n evs, bad (r_run evs (r_init n)) = 0%nat.
Proof.
  intros n evs. apply (ci_bad _ (r_run_inv CodeInv step_codeinv evs (r_init n) (init_codeinv n))).
Qed.

(* the order before the repair (Store after sm.Unlock()): the handler swaps the pool after the watcher
   released the lock and before it stored — the replacement goes into the pool that has just been parked *)
Definition store_race_history : list revent :=
  [WLoad 0; SessionLost 0; WakeClose 0; TimerFires 0; Compare 0 true; HREvent 0 5 true; Store 0].

(* the session lost, the hot-restart event for that pool handled DURING the rebuild wait *)
Definition swap_during_wait_history : list revent :=
  [WLoad 0; SessionLost 0; WakeClose 0; HREvent 0 5 true; TimerFires 0; Compare 0 true; Store 0].

(* a session created by a watcher goes into the pool object that is sm.pools[id] at that moment *)
Theorem rebuild_into_current : forall s id ok, check_early s = false ->
  created (r_step s (Compare id ok)) = S (created s) -> w_pool (watcher_of s id) = pool_of s id.
Proof.
  intros s id ok Hce. unfold r_step. destruct (r_enabled s (Compare id ok)); [|intro X; exfalso; lia].
  cbn [r_apply]. rewrite Hce. cbn [negb andb].
  destruct (negb (pool_of s id =? w_pool (watcher_of s id))%nat) eqn:Hc; [cbn; intro X; exfalso; lia|].
  intros _. apply negb_false_iff in Hc. apply Nat.eqb_eq in Hc. congruence.
Qed.

(* the former witness of the epoch comparison: HotRestart(0) on a manager whose sessions have epoch 0 *)
Definition equal_epoch_history : list revent :=
  [WLoad 0; HREvent 0 0 true; HRTick; SessionLost 0; WakeClose 0; TimerFires 0; Compare 0 true; Store 0].

(* ------------------------------------------------------------------ Close: termination and finality *)
Definition alive_of (os : list pobj) (o : nat) : bool :=
  match nth_error os o with Some p => o_alive p | None => false end.

Lemma kill_obj_length : forall os o, length (kill_obj os o) = length os.
Proof. intros. unfold kill_obj. destruct (nth_error os o); [apply upd_length | reflexivity]. Qed.

Lemma kill_reserved_length : forall rs os, length (kill_reserved rs os) = length os.
Proof. induction rs as [|[o|] r IH]; intro os; cbn; auto. rewrite IH. apply kill_obj_length. Qed.

Lemma kill_obj_alive : forall os o x, alive_of (kill_obj os o) x = alive_of os x && negb (x =? o)%nat.
Proof.
  intros os o x. unfold kill_obj, alive_of. destruct (nth_error os o) as [p|] eqn:Hp.
  - destruct (Nat.eq_dec o x) as [->|Hne].
    + rewrite (nth_error_upd_same _ _ _ _ _ Hp), Nat.eqb_refl. cbn. rewrite andb_false_r. reflexivity.
    + rewrite (nth_error_upd_other _ _ _ _ _ Hne).
      assert ((x =? o)%nat = false) as -> by (apply Nat.eqb_neq; congruence). rewrite andb_true_r. reflexivity.
  - destruct (Nat.eq_dec o x) as [->|Hne].
    + rewrite Hp. reflexivity.
    + assert ((x =? o)%nat = false) as -> by (apply Nat.eqb_neq; congruence). rewrite andb_true_r. reflexivity.
Qed.

Lemma kill_reserved_alive_le : forall rs os x, alive_of (kill_reserved rs os) x = true -> alive_of os x = true.
Proof.
  induction rs as [|[o|] r IH]; intros os x H; cbn in H; auto.
  apply IH in H. rewrite kill_obj_alive in H. apply andb_prop in H. apply H.
Qed.

Lemma kill_reserved_dead : forall rs os x, In (Some x) rs -> alive_of (kill_reserved rs os) x = false.
Proof.
  induction rs as [|[o|] r IH]; intros os x Hin; cbn in *; [contradiction| |].
  - destruct Hin as [E|Hin]; [|apply IH; exact Hin].
    inversion E; subst. destruct (alive_of (kill_reserved r (kill_obj os x)) x) eqn:A; [|reflexivity].
    apply kill_reserved_alive_le in A. rewrite kill_obj_alive, Nat.eqb_refl, andb_false_r in A. discriminate.
  - destruct Hin as [E|Hin]; [discriminate | apply IH; exact Hin].
Qed.

(* the state SessionManager.Close leaves behind: context cancelled, every watcher returned, every pool's
   session closed, nothing parked *)
Record Quiesced (s : rstate) : Prop := {
  q_closed : closed s = true;
  q_exited : all_exited s;
  q_pools : forall i, (i < length (pools s))%nat -> obj_alive s (pool_of s i) = false;
  q_reserve : Forall (fun r => r = None) (reserve s) }.

Lemma quiesced_step : forall s ev, Quiesced s ->
  Quiesced (r_step s ev) /\ created (r_step s ev) = created s /\ length (objs (r_step s ev)) = length (objs s).
Proof.
  intros s ev Q. pose proof Q as [Qc Qx Qp Qr].
  destruct (exited_step s ev Qx) as [Ex Ec].
  unfold r_step in *. destruct (r_enabled s ev) eqn:He; [|auto].
  assert (X : forall id, in_range s id = true -> w_pc (watcher_of s id) = WExit).
  { intros id Hr. unfold in_range in Hr. apply Nat.ltb_lt in Hr. unfold watcher_of.
    pose proof (nth_error_nth _ (watchers s) id {| w_pc := WExit; w_pool := 0%nat |} Hr) as Hn.
    apply (Forall_nth_error _ _ _ _ _ Qx Hn). }
  destruct ev; cbn [r_apply] in *; cbn [r_enabled] in He.
  - apply andb_prop in He. destruct He as [Hr Hp]. rewrite (X id Hr) in Hp. discriminate.
  - apply andb_prop in He. destruct He as [He _]. apply andb_prop in He. destruct He as [Hr Hp]. rewrite (X id Hr) in Hp. discriminate.
  - apply andb_prop in He. destruct He as [He Hp]. apply andb_prop in He. destruct He as [Hr _]. rewrite (X id Hr) in Hp. discriminate.
  - apply andb_prop in He. destruct He as [He Hp]. apply andb_prop in He. destruct He as [Hr _]. rewrite (X id Hr) in Hp. discriminate.
  - apply andb_prop in He. destruct He as [Hr Hp]. rewrite (X id Hr) in Hp. discriminate.
  - apply andb_prop in He. destruct He as [Hr Hp]. rewrite (X id Hr) in Hp. discriminate.
  - (* SessionLost *)
    split; [|split; [reflexivity | cbn; apply kill_obj_length]].
    constructor; cbn; auto. intros i Hi. specialize (Qp i Hi). unfold obj_alive, pool_of in *. cbn.
    change (alive_of (kill_obj (objs s) o) (nth i (pools s) 0%nat) = false).
    rewrite kill_obj_alive. change (alive_of (objs s) (nth i (pools s) 0%nat)) with
      (match nth_error (objs s) (nth i (pools s) 0%nat) with Some p => o_alive p | None => false end). rewrite Qp. reflexivity.
  - (* HREvent: the handler sees the cancelled context *)
    unfold hr_event in *. rewrite Qc in *. auto.
  - (* HRTick *)
    destruct (count_some (reserve s) =? length (pools s))%nat; [|auto].
    split; [|auto]. constructor; cbn; auto.
  - (* HRTimeout *)
    split; [|split; [reflexivity | cbn; apply kill_reserved_length]].
    constructor; cbn; auto.
    + intros i Hi. specialize (Qp i Hi). unfold obj_alive, pool_of in *. cbn.
      change (alive_of (kill_reserved (reserve s) (objs s)) (nth i (pools s) 0%nat) = false).
      destruct (alive_of (kill_reserved (reserve s) (objs s)) (nth i (pools s) 0%nat)) eqn:A; [|reflexivity].
      apply kill_reserved_alive_le in A. unfold alive_of in A. rewrite Qp in A. discriminate.
    + apply Forall_repeat. reflexivity.
  - (* CloseStep: whatever statement of Close runs in this state, it stays quiesced *)
    destruct (cprog s) as [|c rest]; [auto|].
    assert (KP : forall rs, forall i, (i < length (pools s))%nat ->
                 alive_of (kill_reserved rs (objs s)) (nth i (pools s) 0%nat) = false).
    { intros rs i Hi. specialize (Qp i Hi). unfold obj_alive, pool_of in Qp.
      destruct (alive_of (kill_reserved rs (objs s)) (nth i (pools s) 0%nat)) eqn:A; [|reflexivity].
      apply kill_reserved_alive_le in A. unfold alive_of in A. rewrite Qp in A. discriminate. }
    destruct c; cbn.
    + split; [|auto]. constructor; cbn; auto.
    + split; [|auto]. constructor; cbn; auto.
    + split; [|split; [reflexivity | rewrite !kill_reserved_length; reflexivity]]. constructor; cbn; auto.
      * intros i Hi. specialize (Qp i Hi). unfold obj_alive, pool_of in *. cbn.
        change (alive_of (kill_reserved (reserve s) (kill_reserved (map Some (pools s)) (objs s))) (nth i (pools s) 0%nat) = false).
        destruct (alive_of (kill_reserved (reserve s) (kill_reserved (map Some (pools s)) (objs s))) (nth i (pools s) 0%nat)) eqn:A; [|reflexivity].
        apply kill_reserved_alive_le in A. apply kill_reserved_alive_le in A. unfold alive_of in A. rewrite Qp in A. discriminate.
      * apply Forall_repeat. reflexivity.
  - auto.
Qed.

(* after Close has returned nothing is ever created again — neither by a watcher nor by the hot-restart
   handler (no pool object is added), over every further history *)
Theorem close_quiesced_forever : forall evs s, Quiesced s ->
  Quiesced (r_run evs s) /\ created (r_run evs s) = created s /\ length (objs (r_run evs s)) = length (objs s).
Proof.
  induction evs as [|ev r IH]; intros s Q; [cbn; auto|].
  change (r_run (ev :: r) s) with (r_run r (r_step s ev)).
  destruct (quiesced_step s ev Q) as [Q1 [C1 L1]]. destruct (IH _ Q1) as [Q2 [C2 L2]].
  split; [exact Q2 | split; congruence].
Qed.

(* after cancel, outside hotRestartState, every watcher that is not just past its timer has a path of
   its OWN steps to its return that creates nothing *)
Definition exit_path (id : nat) (pc : wpc) : list revent :=
  match pc with WTop => [WLoad id; WakeCtx id] | WSelect | WWait => [WakeCtx id] | _ => [] end.

Theorem close_exit_path : forall s id, closed s = true -> r_state s <> st_hr -> in_range s id = true ->
  w_pc (watcher_of s id) <> WCompare -> w_pc (watcher_of s id) <> WStore ->
  let s' := r_run (exit_path id (w_pc (watcher_of s id))) s in
  w_pc (watcher_of s' id) = WExit /\ created s' = created s /\ objs s' = objs s.
Proof.
  intros s id Hc Hs Hr Hpc Hps. cbn zeta. apply Z.eqb_neq in Hs.
  assert (CTX : forall t, in_range t id = true -> closed t = true ->
                (w_pc (watcher_of t id) = WSelect \/ w_pc (watcher_of t id) = WWait) ->
                w_pc (watcher_of (r_step t (WakeCtx id)) id) = WExit /\
                created (r_step t (WakeCtx id)) = created t /\ objs (r_step t (WakeCtx id)) = objs t).
  { intros t Ht Hct Hp. unfold r_step. cbn [r_enabled]. rewrite Ht, Hct.
    assert (match w_pc (watcher_of t id) with WSelect | WWait => true | _ => false end = true) as ->
      by (destruct Hp as [-> | ->]; reflexivity).
    cbn [andb r_apply]. rewrite watcher_of_set by exact Ht. cbn. auto. }
  destruct (w_pc (watcher_of s id)) eqn:Epc; cbn [exit_path r_run fold_left]; try congruence.
  - (* WTop *)
    assert (E1 : r_step s (WLoad id) = set_watcher s id {| w_pc := WSelect; w_pool := pool_of s id |}).
    { unfold r_step. cbn [r_enabled]. rewrite Hr, Epc. cbn [andb r_apply]. rewrite Hs. reflexivity. }
    rewrite E1.
    destruct (CTX (set_watcher s id {| w_pc := WSelect; w_pool := pool_of s id |})) as [A [B C]].
    + unfold in_range in *. cbn. rewrite upd_length. exact Hr.
    + exact Hc.
    + left. rewrite watcher_of_set by exact Hr. reflexivity.
    + auto.
  - apply CTX; auto.
  - apply CTX; auto.
  - cbn. auto.
Qed.

(* ... but a watcher that is at its loop head while the manager is in hotRestartState cannot leave by
   its own steps, cancelled or not: `time.Sleep(500ms); continue` does not look at ctx.  Close waits
   until the hot restart has ended (C16_exit: its checker is running; the 2 s bound is timer behaviour) *)
Definition own (id : nat) (ev : revent) : bool :=
  match ev with
  | WLoad j | WakeClose j | WakeCtx j | TimerFires j | Compare j _ | Store j => Nat.eqb j id
  | _ => false
  end.

Theorem close_waits_for_hot_restart : forall evs s id,
  forallb (own id) evs = true -> r_state s = st_hr -> w_pc (watcher_of s id) = WTop ->
  r_run evs s = s.
Proof.
  induction evs as [|ev r IH]; intros s id Ho Hs Hp; [reflexivity|].
  cbn [forallb] in Ho. apply andb_prop in Ho. destruct Ho as [Hev Hr].
  change (r_run (ev :: r) s) with (r_run r (r_step s ev)).
  assert (E : r_step s ev = s).
  { unfold r_step. destruct (r_enabled s ev) eqn:He; [|reflexivity].
    destruct ev; cbn [own] in Hev; try discriminate; apply Nat.eqb_eq in Hev; subst; cbn [r_enabled] in He;
      rewrite Hp in He; rewrite ?andb_false_r in He; cbn in He; try discriminate.
    cbn [r_apply]. rewrite Hs, Z.eqb_refl. reflexivity. }
  rewrite E. apply IH with (id := id); assumption.
Qed.

(* ------------------------------------------------------------------ Close returned: depends on the ORDER of its statements *)
(* where Close is in its body, and what has been achieved by then (for the order of the code) *)
Definition CloseInv (s : rstate) : Prop :=
  match cprog s with
  | [CCancel; CWait; CCloseAll] => True
  | [CWait; CCloseAll] => closed s = true
  | [CCloseAll] => closed s = true /\ all_exited s
  | [] => closed s = true /\ Quiesced s
  | _ => False
  end.

Lemma step_cprog : forall s ev, ev <> CloseStep -> cprog (r_step s ev) = cprog s.
Proof.
  intros s ev Hne. unfold r_step. destruct (r_enabled s ev); [|reflexivity].
  destruct ev; cbn [r_apply]; try reflexivity; try congruence.
  - destruct (r_state s =? st_hr); reflexivity.
  - destruct (r_state s =? st_hr); [reflexivity|].
    destruct (check_early s && negb (pool_of s id =? w_pool (watcher_of s id))%nat); reflexivity.
  - destruct (negb (check_early s) && negb (pool_of s id =? w_pool (watcher_of s id))%nat); [reflexivity|].
    destruct (negb ok).
    + destruct (check_early s && negb (pool_of s id =? w_pool (watcher_of s id))%nat); reflexivity.
    + destruct (nth_error (objs s) (w_pool (watcher_of s id))); [destruct (store_late s)|]; reflexivity.
  - destruct (nth_error (objs s) (w_pool (watcher_of s id))); reflexivity.
  - unfold hr_event. destruct (closed s); [reflexivity|].
    destruct ((r_state s =? st_hr) && negb (r_epoch s =? e)); [reflexivity|].
    destruct (r_state s =? st_hr); cbn.
    + destruct (nth_error (reserve s) i) as [[o|]|]; cbn; auto; destruct ok; cbn; auto.
    + destruct (nth_error (repeat None (length (pools s))) i) as [[o|]|]; cbn; auto; destruct ok; cbn; auto.
  - destruct (count_some (reserve s) =? length (pools s))%nat; reflexivity.
Qed.

Lemma step_closeinv : forall s ev, CloseInv s -> CloseInv (r_step s ev).
Proof.
  intros s ev H.
  destruct (match ev with CloseStep => true | _ => false end) eqn:Hcs.
  - (* the next statement of Close *)
    destruct ev; try discriminate. unfold r_step. destruct (r_enabled s CloseStep) eqn:He; [|exact H].
    unfold CloseInv in *. cbn [r_enabled] in He. cbn [r_apply].
    destruct (cprog s) as [|c1 [|c2 [|c3 [|c4 r]]]] eqn:Hp; try discriminate;
      try (destruct c1; try contradiction); try (destruct c2; try contradiction);
      try (destruct c3; try contradiction); cbn.
    + (* [CCloseAll]: every watcher has returned; one critical section closes pools and parked pools *)
      destruct H as [Hc Hx]. split; [exact Hc|]. constructor; cbn; auto.
      * intros i Hi. unfold obj_alive, pool_of. cbn.
        change (alive_of (kill_reserved (reserve s) (kill_reserved (map Some (pools s)) (objs s))) (nth i (pools s) 0%nat) = false).
        destruct (alive_of (kill_reserved (reserve s) (kill_reserved (map Some (pools s)) (objs s))) (nth i (pools s) 0%nat)) eqn:A; [|reflexivity].
        apply kill_reserved_alive_le in A.
        rewrite kill_reserved_dead in A; [discriminate|]. apply in_map. apply nth_In. exact Hi.
      * apply Forall_repeat. reflexivity.
    + (* [CWait; CCloseAll]: wg.Wait returns only when every watcher has returned *)
      split; [exact H|]. unfold all_exited. rewrite forallb_forall in He. apply Forall_forall. intros w Hw.
      specialize (He w Hw). destruct (w_pc w); try discriminate. reflexivity.
    + (* the whole body: cancel *) reflexivity.
  - (* anything else: Close does not move *)
    assert (Hne : ev <> CloseStep) by (intro X; subst; discriminate).
    unfold CloseInv in *. rewrite (step_cprog s ev Hne).
    destruct (cprog s) as [|c1 [|c2 [|c3 [|c4 r]]]] eqn:Hp; try contradiction;
      try (destruct c1; try contradiction); try (destruct c2; try contradiction);
      try (destruct c3; try contradiction).
    + destruct H as [Hc Q]. split; [apply (close_step s ev Hc) | apply (quiesced_step s ev Q)].
    + destruct H as [Hc Hx]. split; [apply (close_step s ev Hc) | apply (exited_step s ev Hx)].
    + apply (close_step s ev H).
    + exact I.
Qed.

Lemma init_closeinv : forall n, CloseInv (r_init n).
Proof. intro n. exact I. Qed.

(* for ALL histories: whenever Close has returned (its body is exhausted) every watcher has returned,
   every pool's session is closed and nothing is parked — and by close_quiesced_forever it stays so *)
Theorem close_returned : forall n evs,
  cprog (r_run evs (r_init n)) = [] -> Quiesced (r_run evs (r_init n)).
Proof.
  intros n evs Hp.
  pose proof (r_run_inv CloseInv step_closeinv evs (r_init n) (init_closeinv n)) as H.
  unfold CloseInv in H. rewrite Hp in H. apply H.
Qed.

(* a hot-restart event handled once cancelFunc has been called changes nothing *)
Theorem hr_event_after_cancel : forall s i e ok, closed s = true -> r_step s (HREvent i e ok) = s.
Proof.
  intros s i e ok Hc. unfold r_step. destruct (r_enabled s (HREvent i e ok)); [|reflexivity].
  cbn [r_apply]. unfold hr_event. rewrite Hc. reflexivity.
Qed.

(* the former witness against the unrestricted statement: a hot-restart event arriving on a parked
   session while Close is between cancel and its closing section *)
Definition close_race_history : list revent :=
  [HREvent 0 5 true; HRTick; CloseStep; WLoad 0; WakeCtx 0; CloseStep; HREvent 0 6 true; CloseStep].

(* the seeded order: pools closed BEFORE waiting for the watchers.  A watcher past its timer stores the
   replacement after the pools were closed; Close returns with a live session in the pool *)
Definition seeded_close_prog : list cstep := [CCancel; CCloseAll; CWait].
Definition inflight_history : list revent :=
  [WLoad 0; SessionLost 0; WakeClose 0; TimerFires 0; CloseStep; CloseStep; Compare 0 true; WLoad 0; WakeCtx 0; CloseStep].
