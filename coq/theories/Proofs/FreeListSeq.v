(* Sequential functional correctness of the free list (C01 / C02, `_partial_sequential`):
   a single thread running ANY sequence of alloc / free / update operations to completion behaves
   exactly like the abstract FIFO  (L : free chain, H : held)  :
     alloc  = if |L| >= 2 then hand out (hd L) else fail and change nothing   ("never the last slot")
     free b = L ++ [b]
   and the concrete memory always represents (L, H): head = hd L, tail = last L, links complete,
   size = |L|, L and H disjoint and duplicate-free.                                             *)
From Coq Require Import List ZArith Lia Bool Arith.
From Shm Require Import Gen.Consts Model.FreeList.
Import ListNotations.
Open Scope Z_scope.

Fixpoint iter (k : nat) (mp : mem * tlocal) : mem * tlocal :=
  match k with O => mp | S k' => iter k' (tstep (fst mp) (snd mp)) end.

Lemma iter_add a b mp : iter (a + b) mp = iter b (iter a mp).
Proof. revert mp; induction a as [|a IH]; simpl; intros; auto. Qed.

Lemma run_single k m p :
  run (repeat O k) {| mm := m; thr := [p] |} =
  {| mm := fst (iter k (m, p)); thr := [snd (iter k (m, p))] |}.
Proof.
  revert m p; induction k as [|k IH]; intros m p; simpl; auto.
  unfold step at 1; simpl. destruct (tstep m p) as [m' p'] eqn:E. simpl. rewrite IH. reflexivity.
Qed.

(* ---------- representation ---------- *)
Fixpoint linked (m : mem) (L : list Z) : Prop :=
  match L with
  | [] => True
  | a :: r => match r with
              | [] => has_next (s_flag m a) = false
              | b :: _ => has_next (s_flag m a) = true /\ s_next m a = b /\ linked m r
              end
  end.

Record Rep (m : mem) (L H : list Z) : Prop := {
  r_ne : L <> [];
  r_nd : NoDup (L ++ H);
  r_valid : forall o, In o (L ++ H) -> valid_off m o = true /\ o + stride m <= m_n m * stride m;
  r_head : m_head m = hd 0 L;
  r_tail : m_tail m = last L 0;
  r_size : m_size m = Z.of_nat (length L);
  r_link : linked m L }.

Definition geom (m m' : mem) : Prop :=
  m_n m' = m_n m /\ m_cpb m' = m_cpb m /\ m_base m' = m_base m /\ m_len m' = m_len m.

Lemma valid_geom m m' o : geom m m' -> valid_off m' o = valid_off m o.
Proof. intros [H1 [H2 _]]. unfold valid_off, stride. rewrite H1, H2. reflexivity. Qed.
Lemma stride_geom m m' : geom m m' -> stride m' = stride m.
Proof. intros [H1 [H2 _]]. unfold stride. rewrite H2. reflexivity. Qed.

(* linked only looks at flag / next of the members of L *)
Lemma linked_ext m m' L :
  (forall o, In o L -> s_flag m' o = s_flag m o /\ s_next m' o = s_next m o) -> linked m L -> linked m' L.
Proof.
  induction L as [|a r IH]; simpl; auto. intros He Hl.
  destruct (He a (or_introl eq_refl)) as [Hf Hn]. destruct r as [|b r'].
  - rewrite Hf; auto.
  - destruct Hl as [H1 [H2 H3]]. rewrite Hf, Hn. split; [auto|split; [auto|]]. apply IH; [|auto].
    intros o Ho. apply He. right; auto.
Qed.

Lemma fupd_same f k v : fupd f k v k = v.
Proof. unfold fupd. rewrite Z.eqb_refl. reflexivity. Qed.
Lemma fupd_other f k v j : j <> k -> fupd f k v j = f j.
Proof. unfold fupd. intros. destruct (j =? k) eqn:E; auto. apply Z.eqb_eq in E. congruence. Qed.

Lemma has_next_set v : has_next (lor_flag v c_hasNextBufferFlag) = true.
Proof.
  unfold has_next, lor_flag. apply negb_true_iff. apply Z.eqb_neq.
  rewrite Z.land_lor_distr_l, Z.land_diag. intros H. apply Z.lor_eq_0_iff in H. destruct H as [_ H]. vm_compute in H. discriminate.
Qed.
Lemma has_next_inused : has_next (lor_flag 0 c_sliceInUsedFlag) = false.
Proof. vm_compute. reflexivity. Qed.
Lemma has_next_zero : has_next 0 = false.
Proof. vm_compute. reflexivity. Qed.
Lemma retry_pos : (0 <? c_popRetryBound) = true.
Proof. vm_compute. reflexivity. Qed.

(* ---------- the abstract specification ---------- *)
Definition spec_op (L H : list Z) (o : fop) : (fres * list Z * list Z) :=
  match o with
  | Alloc => match L with
             | a :: (_ :: _) as r => (RAlloc (Some a), r, H ++ [a])
             | _ => (RAlloc None, L, H)
             end
  | FreeOldest => (RDone, L ++ [hd 0 H], tl H)
  | FreeNewest => (RDone, L ++ [last H 0], removelast H)
  | _ => (RDone, L, H)
  end.

Fixpoint spec (L H : list Z) (ops : list fop) : list fres * list Z * list Z :=
  match ops with
  | [] => ([], L, H)
  | o :: r =>
      match o, H with
      | Alloc, _ | _, _ :: _ =>
          let '(x, L', H') := spec_op L H o in
          let '(xs, L'', H'') := spec L' H' r in (x :: xs, L'', H'')
      | _, [] => spec L H r     (* cannot start: dropped *)
      end
  end.

Definition idle_with (p : tlocal) (ops : list fop) (H : list Z) (rs : list fres) : Prop :=
  pc p = Idle /\ todo p = ops /\ held p = H /\ res p = rs /\ dead p = false.

Definition op_nochain (o : fop) : bool := match o with FreeChain => false | _ => true end.

Lemma iter_S k mp : iter (S k) mp = iter k (tstep (fst mp) (snd mp)).
Proof. reflexivity. Qed.
Lemma iter_0 mp : iter 0 mp = mp.
Proof. reflexivity. Qed.

(* one step at a time: never let cbn unfold the whole iteration (the stuck conditionals of one step
   would be duplicated into every branch of the next) *)
Ltac stp := rewrite ?iter_0; try rewrite iter_S;
  cbn [tstep fst snd pc todo held res dead lost mk mkh finish normalize enter_loop after_push
       m_size m_head m_tail m_counter m_cpb m_n m_base m_len s_cap s_size s_start s_next s_flag
       set_size set_head set_tail set_counter set_ssize set_sstart set_snext set_sflag].

(* ---- alloc ---- *)
Lemma alloc_fail m p L H r rs :
  Rep m L H -> idle_with p (Alloc :: r) H rs -> (length L <= 1)%nat ->
  exists m' p', iter 3 (m, p) = (m', p') /\ Rep m' L H /\ geom m m' /\ idle_with p' r H (rs ++ [RAlloc None]).
Proof.
  intros R [Hpc [Htd [Hh [Hr Hd]]]] Hlen. destruct p as [pc0 td hd0 rs0 dd ls]; simpl in *; subst.
  pose proof (r_size _ _ _ R) as Hs.
  assert (Hle : (m_size m - 1 <=? 0) = true) by (apply Z.leb_le; lia).
  eexists; eexists. split.
  - stp. stp. rewrite Hle. stp. stp. reflexivity.
  - split; [|split].
    + destruct R; constructor; simpl; auto; try lia.
      eapply linked_ext; [|eassumption]. intros; split; reflexivity.
    + repeat split; reflexivity.
    + repeat split; reflexivity.
Qed.


