(* Sequential functional correctness of the free list (C01 / C02, `_partial_sequential`):
   a single thread running ANY sequence of alloc / free / update operations to completion behaves
   exactly like the abstract FIFO  (L : free chain, H : held)  :
     alloc  = if |L| >= 2 then hand out (hd L) else fail and change nothing   ("never the last slot")
     free b = L ++ [b]
   and the concrete memory always represents (L, H): head = hd L, tail = last L, links complete,
   size = |L|, L and H disjoint and duplicate-free.                                             *)
From Coq Require Import List ZArith Lia Bool Arith Permutation.
From Shm Require Import Gen.Consts Model.FreeList Proofs.FreeListProofs.
Import ListNotations.
Open Scope Z_scope.

Fixpoint iter (k : nat) (mp : mem * tlocal) : mem * tlocal :=
  match k with O => mp | S k' => iter k' (tstep (fst mp) (snd mp)) end.

Lemma iter_add a b mp : iter (a + b) mp = iter b (iter a mp).
Proof. revert mp; induction a as [|a IH]; simpl; intros; auto. Qed.

Lemma run_single k m p :
  run (repeat O k) {| mm := m; thr := [p] |} =
  {| mm := fst (iter k (m, p)); thr := [snd (iter k (m, p))] |}.
Proof.
  revert m p; induction k as [|k IH]; intros m p; simpl; auto.
  unfold step at 1; simpl. destruct (tstep m p) as [m' p'] eqn:E. simpl. rewrite IH. reflexivity.
Qed.

(* ---------- representation ---------- *)
Fixpoint linked (m : mem) (L : list Z) : Prop :=
  match L with
  | [] => True
  | a :: r => match r with
              | [] => has_next (s_flag m a) = false
              | b :: _ => has_next (s_flag m a) = true /\ s_next m a = b /\ linked m r
              end
  end.

Record Rep (m : mem) (L H : list Z) : Prop := {
  r_ne : L <> [];
  r_nd : NoDup (L ++ H);
  r_valid : forall o, In o (L ++ H) -> valid_off m o = true /\ o + stride m <= m_n m * stride m;
  r_head : m_head m = hd 0 L;
  r_tail : m_tail m = last L 0;
  r_size : m_size m = Z.of_nat (length L);
  r_link : linked m L }.

Definition geom (m m' : mem) : Prop :=
  m_n m' = m_n m /\ m_cpb m' = m_cpb m /\ m_base m' = m_base m /\ m_len m' = m_len m.

Lemma valid_geom m m' o : geom m m' -> valid_off m' o = valid_off m o.
Proof. intros [H1 [H2 _]]. unfold valid_off, stride. rewrite H1, H2. reflexivity. Qed.
Lemma stride_geom m m' : geom m m' -> stride m' = stride m.
Proof. intros [H1 [H2 _]]. unfold stride. rewrite H2. reflexivity. Qed.

(* linked only looks at flag / next of the members of L *)
Lemma linked_ext m m' L :
  (forall o, In o L -> s_flag m' o = s_flag m o /\ s_next m' o = s_next m o) -> linked m L -> linked m' L.
Proof.
  induction L as [|a r IH]; simpl; auto. intros He Hl.
  destruct (He a (or_introl eq_refl)) as [Hf Hn]. destruct r as [|b r'].
  - rewrite Hf; auto.
  - destruct Hl as [H1 [H2 H3]]. rewrite Hf, Hn. split; [auto|split; [auto|]]. apply IH; [|auto].
    intros o Ho. apply He. right; auto.
Qed.

Lemma fupd_same f k v : fupd f k v k = v.
Proof. unfold fupd. rewrite Z.eqb_refl. reflexivity. Qed.
Lemma fupd_other f k v j : j <> k -> fupd f k v j = f j.
Proof. unfold fupd. intros. destruct (j =? k) eqn:E; auto. apply Z.eqb_eq in E. congruence. Qed.

Lemma has_next_set v : has_next (lor_flag v c_hasNextBufferFlag) = true.
Proof.
  unfold has_next, lor_flag. apply negb_true_iff. apply Z.eqb_neq.
  rewrite Z.land_lor_distr_l, Z.land_diag. intros H. apply Z.lor_eq_0_iff in H. destruct H as [_ H]. vm_compute in H. discriminate.
Qed.
Lemma has_next_inused : has_next (lor_flag 0 c_sliceInUsedFlag) = false.
Proof. vm_compute. reflexivity. Qed.
Lemma has_next_zero : has_next 0 = false.
Proof. vm_compute. reflexivity. Qed.
Lemma retry_pos : (0 <? c_popRetryBound) = true.
Proof. vm_compute. reflexivity. Qed.

(* ---------- the abstract specification ---------- *)
Definition spec_op (L H : list Z) (o : fop) : (fres * list Z * list Z) :=
  match o with
  | Alloc => match L with
             | a :: (_ :: _) as r => (RAlloc (Some a), r, H ++ [a])
             | _ => (RAlloc None, L, H)
             end
  | FreeOldest => (RDone, L ++ [hd 0 H], tl H)
  | FreeNewest => (RDone, L ++ [last H 0], removelast H)
  | _ => (RDone, L, H)
  end.

Fixpoint spec (L H : list Z) (ops : list fop) : list fres * list Z * list Z :=
  match ops with
  | [] => ([], L, H)
  | o :: r =>
      match o, H with
      | Alloc, _ | _, _ :: _ =>
          let '(x, L', H') := spec_op L H o in
          let '(xs, L'', H'') := spec L' H' r in (x :: xs, L'', H'')
      | _, [] => spec L H r     (* cannot start: dropped *)
      end
  end.

Definition idle_with (p : tlocal) (ops : list fop) (H : list Z) (rs : list fres) : Prop :=
  pc p = Idle /\ todo p = ops /\ held p = H /\ res p = rs /\ dead p = false.
(* an idle thread whose next operation that can start is o (operations that cannot start are dropped
   by normalize without taking a step) *)
Definition idle_n (p : tlocal) (o : fop) (r : list fop) (H : list Z) (rs : list fres) : Prop :=
  pc p = Idle /\ normalize H (todo p) = o :: r /\ held p = H /\ res p = rs /\ dead p = false.

Lemma iter_S k mp : iter (S k) mp = iter k (tstep (fst mp) (snd mp)).
Proof. reflexivity. Qed.
Lemma iter_0 mp : iter 0 mp = mp.
Proof. reflexivity. Qed.

(* one step at a time: never let cbn unfold the whole iteration (the stuck conditionals of one step
   would be duplicated into every branch of the next) *)
Ltac red1 :=
  cbn [tstep fst snd pc todo held res dead lost mk mkh finish normalize enter_loop after_push
       m_size m_head m_tail m_counter m_cpb m_n m_base m_len s_cap s_size s_start s_next s_flag
       set_size set_head set_tail set_counter set_ssize set_sstart set_snext set_sflag
       valid_off stride negb].
Ltac stp := rewrite ?iter_0; try rewrite iter_S; red1.

Lemma geom_refl_sets : forall m, geom m m.
Proof. intros; repeat split. Qed.

(* ---- alloc ---- *)
Lemma alloc_fail m p L H r rs :
  Rep m L H -> idle_n p Alloc r H rs -> (length L <= 1)%nat ->
  exists m' p', iter 3 (m, p) = (m', p') /\ m' = m /\ idle_with p' r H (rs ++ [RAlloc None]).
Proof.
  intros R [Hpc [Htd [Hh [Hr Hd]]]] Hlen. destruct p as [pc0 td hd0 rs0 dd ls]; cbn [pc todo held res dead lost] in *; subst.
  pose proof (r_size _ _ _ R) as Hs.
  assert (Hle : (m_size m - 1 <=? 0) = true) by (apply Z.leb_le; lia).
  eexists; eexists. split.
  - stp. rewrite Htd. red1. stp. rewrite Hle. stp. reflexivity.
  - split.
    + destruct m; unfold set_size; simpl; f_equal; lia.
    + repeat split; reflexivity.
Qed.

Lemma linked_tl m a r : r <> [] -> linked m (a :: r) -> linked m r.
Proof. destruct r; [congruence|]. intros _ [_ [_ H]]; exact H. Qed.

Lemma alloc_ok m p a b L' H r rs :
  Rep m (a :: b :: L') H -> idle_n p Alloc r H rs ->
  exists m' p', iter 13 (m, p) = (m', p') /\ Rep m' (b :: L') (H ++ [a]) /\ geom m m' /\
                idle_with p' r (H ++ [a]) (rs ++ [RAlloc (Some a)]).
Proof.
  intros R [Hpc [Htd [Hh [Hr Hd]]]]. destruct p as [pc0 td hd0 rs0 dd ls]; cbn [pc todo held res dead lost] in *; subst.
  pose proof (r_size _ _ _ R) as Hs. pose proof (r_head _ _ _ R) as Hhd. pose proof (r_link _ _ _ R) as Hl.
  cbn [hd length] in Hs, Hhd. cbn [linked] in Hl. destruct Hl as [Hf [Hnx Hl]].
  destruct (r_valid _ _ _ R a (or_introl eq_refl)) as [Hv Hv2].
  unfold valid_off, stride in Hv. unfold stride in Hv2.
  assert (Hle : (m_size m - 1 <=? 0) = false) by (apply Z.leb_gt; lia).
  assert (Hc : (a + (m_cpb m + c_bufferHeaderSize) <=? m_n m * (m_cpb m + c_bufferHeaderSize)) = true) by (apply Z.leb_le; lia).
  eexists; eexists. split; [|split; [|split]].
  - stp. rewrite Htd. red1. rewrite Hhd. stp. rewrite Hle. unfold enter_loop, valid_off, stride. rewrite retry_pos, Hv. red1.
    stp. rewrite Hf. stp. rewrite Hnx. stp. rewrite Hhd, Z.eqb_refl. red1.
    stp. stp. rewrite fupd_same. stp. stp. stp. unfold stride; red1. rewrite Hc. stp. stp. stp. red1. reflexivity.
  - pose proof (r_nd _ _ _ R) as Hnd. cbn [app] in Hnd.
    assert (Hna : ~ In a ((b :: L') ++ H)) by (inversion Hnd; auto).
    constructor; cbn [m_size m_head m_tail set_counter set_sflag set_head set_size hd length].
    + discriminate.
    + rewrite app_assoc. apply Permutation_NoDup with (l := a :: (b :: L') ++ H); [|exact Hnd].
      apply Permutation_cons_append.
    + intros o Ho. rewrite (valid_geom m) by (repeat split; reflexivity).
      rewrite (stride_geom m) by (repeat split; reflexivity).
      cbn [m_n set_counter set_sflag set_head set_size].
      apply (r_valid _ _ _ R). rewrite app_assoc in Ho. apply in_app_or in Ho. destruct Ho as [Ho|[Ho|[]]].
      * right; exact Ho.
      * left; auto.
    + reflexivity.
    + rewrite (r_tail _ _ _ R). reflexivity.
    + lia.
    + eapply linked_ext; [|exact Hl]. intros o Ho. cbn [s_flag s_next set_counter set_sflag set_head set_size].
      assert (o <> a) by (intros ->; apply Hna; apply in_or_app; left; exact Ho).
      rewrite !fupd_other by auto. split; reflexivity.
  - repeat split; reflexivity.
  - repeat split; reflexivity.
Qed.

(* ---- free ---- *)
Lemma last_in (l : list Z) d : l <> [] -> In (last l d) l.
Proof.
  intros H. destruct (exists_last H) as [l' [x ->]]. rewrite last_last. apply in_or_app; right; left; reflexivity.
Qed.

Lemma linked_snoc m m' L b :
  L <> [] -> linked m L -> NoDup L ->
  (forall o, In o L -> o <> last L 0 -> s_flag m' o = s_flag m o /\ s_next m' o = s_next m o) ->
  has_next (s_flag m' (last L 0)) = true -> s_next m' (last L 0) = b -> has_next (s_flag m' b) = false ->
  linked m' (L ++ [b]).
Proof.
  induction L as [|a r IH]; [congruence|]. intros _ Hl Hnd He Hf Hn Hb.
  destruct r as [|a2 r'].
  - cbn [app linked last] in *. auto.
  - change ((a :: a2 :: r') ++ [b]) with (a :: a2 :: (r' ++ [b])).
    change (last (a :: a2 :: r') 0) with (last (a2 :: r') 0) in *.
    destruct Hl as [H1 [H2 H3]]. apply NoDup_cons_iff in Hnd; destruct Hnd as [Hna Hnd'].
    assert (Hne : a <> last (a2 :: r') 0).
    { intros E. apply Hna. rewrite E. apply last_in. discriminate. }
    destruct (He a (or_introl eq_refl) Hne) as [Ef En].
    cbn [linked]. rewrite Ef, En. split; [exact H1|split; [exact H2|]].
    apply IH; auto; try discriminate. intros o Ho Hno. apply He; auto. right; exact Ho.
Qed.

Lemma NoDup_app_l (l1 l2 : list Z) : NoDup (l1 ++ l2) -> NoDup l1.
Proof.
  induction l1 as [|a l IH]; simpl; intros H; [constructor|].
  apply NoDup_cons_iff in H. destruct H as [Hn H]. constructor; auto.
  intros Hi; apply Hn; apply in_or_app; left; exact Hi.
Qed.
Lemma NoDup_app_r (l1 l2 : list Z) : NoDup (l1 ++ l2) -> NoDup l2.
Proof.
  induction l1 as [|a l IH]; simpl; intros H; auto.
  apply NoDup_cons_iff in H. destruct H as [_ H]. auto.
Qed.

Lemma hd_app_ne (l : list Z) x d : l <> [] -> hd d (l ++ [x]) = hd d l.
Proof. destruct l; [congruence|reflexivity]. Qed.

Lemma push_steps m b L H' td rs ls :
  Rep m L (b :: H') ->
  exists m', iter 9 (m, {| pc := PushR2 b None; todo := td; held := H'; res := rs; dead := false; lost := ls |}) =
     (m', {| pc := Idle; todo := tl td; held := H'; res := rs ++ [RDone]; dead := false; lost := ls |})
  /\ Rep m' (L ++ [b]) H' /\ geom m m'.
Proof.
  intros R. pose proof (r_ne _ _ _ R) as Hne. pose proof (r_tail _ _ _ R) as Ht.
  pose proof (r_nd _ _ _ R) as Hnd.
  assert (Hin : In (last L 0) (L ++ b :: H')) by (apply in_or_app; left; apply last_in; exact Hne).
  destruct (r_valid _ _ _ R _ Hin) as [Hv _]. rewrite <- Ht in Hv. unfold valid_off, stride in Hv.
  assert (HbL : ~ In b L).
  { intros Hb. apply NoDup_remove_2 in Hnd. apply Hnd. apply in_or_app; left; exact Hb. }
  assert (HndL : NoDup L) by (eapply NoDup_app_l; exact Hnd).
  assert (Hbt : b <> m_tail m) by (rewrite Ht; intros ->; apply HbL, last_in, Hne).
  eexists. split; [|split].
  - stp. stp. stp. stp. rewrite Z.eqb_refl. unfold valid_off, stride; red1. rewrite Hv. red1. stp. stp. stp. stp. stp. red1. reflexivity.
  - constructor; cbn [m_size m_head m_tail set_counter set_sflag set_snext set_tail set_sstart set_size].
    + destruct L; discriminate.
    + rewrite <- app_assoc. exact Hnd.
    + intros o Ho. rewrite (valid_geom m) by (repeat split; reflexivity).
      rewrite (stride_geom m) by (repeat split; reflexivity).
      cbn [m_n set_counter set_sflag set_snext set_tail set_sstart set_size].
      apply (r_valid _ _ _ R). rewrite <- app_assoc in Ho. exact Ho.
    + rewrite hd_app_ne by exact Hne. apply (r_head _ _ _ R).
    + rewrite last_last. reflexivity.
    + rewrite app_length, (r_size _ _ _ R). cbn [length]. lia.
    + apply (linked_snoc m); auto; try apply (r_link _ _ _ R);
        cbn [s_flag s_next set_counter set_sflag set_snext set_tail set_sstart set_size]; rewrite <- ?Ht.
      * intros o Ho Hno. assert (o <> b) by (intros ->; auto).
        rewrite !fupd_other by auto. split; reflexivity.
      * rewrite fupd_same. apply has_next_set.
      * apply fupd_same.
      * rewrite fupd_other by auto. rewrite fupd_same. apply has_next_zero.
  - repeat split; reflexivity.
Qed.

Lemma Rep_perm m L H H2 : Permutation H H2 -> Rep m L H -> Rep m L H2.
Proof.
  intros P R. assert (P' : Permutation (L ++ H) (L ++ H2)) by (apply Permutation_app_head; exact P).
  destruct R; constructor; auto.
  - eapply Permutation_NoDup; eauto.
  - intros o Ho. apply r_valid0. eapply Permutation_in; [apply Permutation_sym; exact P'|exact Ho].
Qed.

Lemma Rep_ssize m L H o v : Rep m L H -> Rep (set_ssize m o v) L H.
Proof.
  intros R; destruct R; constructor; auto.
  eapply linked_ext; [|eassumption]. intros; split; reflexivity.
Qed.

Lemma free_oldest_ok m p b H' L r rs :
  Rep m L (b :: H') -> idle_n p FreeOldest r (b :: H') rs ->
  exists m' p', iter 10 (m, p) = (m', p') /\ Rep m' (L ++ [b]) H' /\ geom m m' /\
                idle_with p' r H' (rs ++ [RDone]).
Proof.
  intros R [Hpc [Htd [Hh [Hr Hd]]]]. destruct p as [pc0 td hd0 rs0 dd ls]; cbn [pc todo held res dead lost] in *; subst.
  destruct (push_steps (set_ssize m b 0) b L H' (FreeOldest :: r) rs ls (Rep_ssize _ _ _ _ _ R)) as [m' [E [R' G]]].
  exists m'; eexists. split; [|split; [|split]].
  - stp. rewrite Htd. red1. exact E.
  - exact R'.
  - exact G.
  - repeat split; reflexivity.
Qed.

Lemma free_newest_ok m p b H' L r rs :
  Rep m L (H' ++ [b]) -> idle_n p FreeNewest r (H' ++ [b]) rs ->
  exists m' p', iter 10 (m, p) = (m', p') /\ Rep m' (L ++ [b]) H' /\ geom m m' /\
                idle_with p' r H' (rs ++ [RDone]).
Proof.
  intros R [Hpc [Htd [Hh [Hr Hd]]]]. destruct p as [pc0 td hd0 rs0 dd ls]; cbn [pc todo held res dead lost] in *; subst.
  assert (R2 : Rep m L (b :: H')).
  { eapply Rep_perm; [|exact R]. apply Permutation_sym, Permutation_cons_append. }
  destruct (push_steps (set_ssize m b 0) b L H' (FreeNewest :: r) rs ls (Rep_ssize _ _ _ _ _ R2)) as [m' [E [R' G]]].
  exists m'; eexists. split; [|split; [|split]].
  - stp. rewrite Htd. red1. rewrite last_last, removelast_last. exact E.
  - exact R'.
  - exact G.
  - repeat split; reflexivity.
Qed.

(* ---- update: writes only to the header of a HELD buffer ---- *)
Lemma Rep_ext m m' L H :
  Rep m L H -> geom m m' -> m_size m' = m_size m -> m_head m' = m_head m -> m_tail m' = m_tail m ->
  (forall o, In o L -> s_flag m' o = s_flag m o /\ s_next m' o = s_next m o) -> Rep m' L H.
Proof.
  intros R G Hs Hh Ht He. destruct R; constructor; auto; try congruence.
  - intros o Ho. rewrite (valid_geom m m' o G), (stride_geom m m' G). destruct G as [-> _]. auto.
  - eapply linked_ext; eauto.
Qed.

Lemma update_ok m p b H' L sz lk r rs :
  Rep m L (b :: H') -> idle_n p (Update sz lk) r (b :: H') rs ->
  exists k m' p', iter k (m, p) = (m', p') /\ Rep m' L (b :: H') /\ geom m m' /\
                  idle_with p' r (b :: H') (rs ++ [RDone]).
Proof.
  intros R [Hpc [Htd [Hh [Hr Hd]]]]. destruct p as [pc0 td hd0 rs0 dd ls]; cbn [pc todo held res dead lost] in *; subst.
  assert (HbL : forall o, In o L -> o <> b).
  { intros o Ho ->. pose proof (r_nd _ _ _ R) as Hnd. apply NoDup_remove_2 in Hnd. apply Hnd. apply in_or_app; left; exact Ho. }
  assert (Hcase : (lk = true /\ exists b2 H2, H' = b2 :: H2) \/
                  (if lk then match b :: H' with _ :: b2 :: _ => Some (b2 + m_base m) | _ => None end else None) = None).
  { destruct lk; [|right; reflexivity]. destruct H' as [|b2 H2]; [right; reflexivity|left; eauto]. }
  destruct Hcase as [[-> [b2 [H2 ->]]]|Hnone].
  - exists 5%nat. eexists; eexists. split; [|split; [|split]].
    + stp. rewrite Htd. red1. stp. stp. stp. stp. red1. reflexivity.
    + apply (Rep_ext m); auto; try reflexivity; try (repeat split; reflexivity).
      intros o Ho. cbn [s_flag s_next set_sflag set_snext set_sstart set_ssize].
      rewrite !fupd_other by (apply HbL; exact Ho). split; reflexivity.
    + repeat split; reflexivity.
    + repeat split; reflexivity.
  - exists 2%nat. eexists; eexists. split; [|split; [|split]].
    + stp. rewrite Htd. red1. rewrite Hnone. stp. red1. reflexivity.
    + apply (Rep_ext m); auto; try reflexivity; try (repeat split; reflexivity).
    + repeat split; reflexivity.
    + repeat split; reflexivity.
Qed.

(* ---------- any operation sequence ---------- *)
Lemma geom_trans m1 m2 m3 : geom m1 m2 -> geom m2 m3 -> geom m1 m3.
Proof. unfold geom; intros [A [B [C D]]] [A' [B' [C' D']]]; repeat split; congruence. Qed.

Lemma seq_refine ops : forall m p L H rs,
  forallb op_nochain ops = true -> Rep m L H ->
  pc p = Idle -> normalize H (todo p) = normalize H ops -> held p = H -> res p = rs -> dead p = false ->
  exists k m' p', iter k (m, p) = (m', p') /\ geom m m' /\
     Rep m' (snd (fst (spec L H ops))) (snd (spec L H ops)) /\
     pc p' = Idle /\ normalize (held p') (todo p') = [] /\ held p' = snd (spec L H ops) /\
     res p' = rs ++ fst (fst (spec L H ops)) /\ dead p' = false.
Proof.
  induction ops as [|o r IH]; intros m p L H rs Hnc R Hpc Htd Hh Hr Hd.
  - exists 0%nat, m, p. cbn [spec fst snd iter]. rewrite app_nil_r. rewrite Hh.
    split; [reflexivity|]. split; [repeat split|]. split; [exact R|]. rewrite Htd. repeat split; auto.
  - cbn [forallb] in Hnc. apply andb_true_iff in Hnc. destruct Hnc as [Ho Hnc].
    assert (Hcont : forall k1 m1 p1 x L1 H1,
               iter k1 (m, p) = (m1, p1) -> Rep m1 L1 H1 -> geom m m1 -> idle_with p1 r H1 (rs ++ [x]) ->
               exists k m' p', iter k (m, p) = (m', p') /\ geom m m' /\
                 Rep m' (snd (fst (spec L1 H1 r))) (snd (spec L1 H1 r)) /\
                 pc p' = Idle /\ normalize (held p') (todo p') = [] /\ held p' = snd (spec L1 H1 r) /\
                 res p' = rs ++ x :: fst (fst (spec L1 H1 r)) /\ dead p' = false).
    { intros k1 m1 p1 x L1 H1 E1 R1 G1 [I1 [I2 [I3 [I4 I5]]]].
      destruct (IH m1 p1 L1 H1 (rs ++ [x]) Hnc R1 I1 ltac:(rewrite I2; reflexivity) I3 I4 I5)
        as [k2 [m2 [p2 [E2 [G2 [R2 [J1 [J2 [J3 [J4 J5]]]]]]]]]].
      exists (k1 + k2)%nat, m2, p2. rewrite iter_add, E1, E2.
      rewrite <- app_assoc in J4. cbn [app] in J4.
      split; [reflexivity|]. split; [eapply geom_trans; eauto|]. split; [exact R2|]. repeat split; auto. }
    destruct o; cbn [op_nochain] in Ho; try discriminate.
    + (* Alloc *)
      assert (Hn : idle_n p Alloc r H rs) by (repeat split; auto).
      destruct L as [|a [|b L']].
      * exfalso. apply (r_ne _ _ _ R). reflexivity.
      * destruct (alloc_fail m p [a] H r rs R Hn ltac:(cbn [length]; lia)) as [m1 [p1 [E1 [-> I1]]]].
        destruct (Hcont 3%nat m p1 (RAlloc None) [a] H E1 R ltac:(repeat split; reflexivity) I1)
          as [k [m' [p' Hx]]].
        exists k, m', p'. cbn [spec spec_op].
        destruct (spec [a] H r) as [[xs L2] H2]. cbn [fst snd] in *. exact Hx.
      * destruct (alloc_ok m p a b L' H r rs R Hn) as [m1 [p1 [E1 [R1 [G1 I1]]]]].
        destruct (Hcont 13%nat m1 p1 (RAlloc (Some a)) (b :: L') (H ++ [a]) E1 R1 G1 I1)
          as [k [m' [p' Hx]]].
        exists k, m', p'. cbn [spec spec_op].
        destruct (spec (b :: L') (H ++ [a]) r) as [[xs L2] H2]. cbn [fst snd] in *. exact Hx.
    + (* FreeOldest *)
      destruct H as [|b H'].
      * cbn [normalize] in Htd. cbn [spec]. apply IH; auto.
      * assert (Hn : idle_n p FreeOldest r (b :: H') rs) by (repeat split; auto).
        destruct (free_oldest_ok m p b H' L r rs R Hn) as [m1 [p1 [E1 [R1 [G1 I1]]]]].
        destruct (Hcont 10%nat m1 p1 RDone (L ++ [b]) H' E1 R1 G1 I1) as [k [m' [p' Hx]]].
        exists k, m', p'. cbn [spec spec_op hd tl].
        destruct (spec (L ++ [b]) H' r) as [[xs L2] H2]. cbn [fst snd] in *. exact Hx.
    + (* FreeNewest *)
      destruct H as [|b0 H0].
      * cbn [normalize] in Htd. cbn [spec]. apply IH; auto.
      * destruct (@exists_last _ (b0 :: H0) ltac:(discriminate)) as [H' [b E]].
        assert (Hn : idle_n p FreeNewest r (H' ++ [b]) rs).
        { rewrite <- E. repeat split; auto. }
        rewrite E in R.
        destruct (free_newest_ok m p b H' L r rs R Hn) as [m1 [p1 [E1 [R1 [G1 I1]]]]].
        destruct (Hcont 10%nat m1 p1 RDone (L ++ [b]) H' E1 R1 G1 I1) as [k [m' [p' Hx]]].
        exists k, m', p'. cbn [spec spec_op]. rewrite E, last_last, removelast_last.
        destruct (spec (L ++ [b]) H' r) as [[xs L2] H2]. cbn [fst snd] in *. exact Hx.
    + (* Update *)
      destruct H as [|b H'].
      * cbn [normalize] in Htd. cbn [spec]. apply IH; auto.
      * assert (Hn : idle_n p (Update sz link) r (b :: H') rs) by (repeat split; auto).
        destruct (update_ok m p b H' L sz link r rs R Hn) as [k1 [m1 [p1 [E1 [R1 [G1 I1]]]]]].
        destruct (Hcont k1 m1 p1 RDone L (b :: H') E1 R1 G1 I1) as [k [m' [p' Hx]]].
        exists k, m', p'. cbn [spec spec_op].
        destruct (spec L (b :: H') r) as [[xs L2] H2]. cbn [fst snd] in *. exact Hx.
Qed.

(* ---------- the initial list ---------- *)
Definition slots0 (n : nat) (st : Z) : list Z := map (fun i => Z.of_nat i * st) (seq 0 n).
Definition L0 (n cpb : Z) : list Z := slots0 (Z.to_nat n) (cpb + c_bufferHeaderSize).

Lemma hdr_pos : 0 < c_bufferHeaderSize.
Proof. reflexivity. Qed.
Lemma has_next_flag : has_next c_hasNextBufferFlag = true.
Proof. vm_compute. reflexivity. Qed.

Lemma init_linked n cpb base len (N : nat) : n = Z.of_nat N -> 0 < cpb + c_bufferHeaderSize ->
  forall k j, (j + S k = N)%nat ->
  linked (init_mem n cpb base len) (map (fun i => Z.of_nat i * (cpb + c_bufferHeaderSize)) (seq j (S k))).
Proof.
  intros Hn Hst. induction k as [|k IH]; intros j Hj.
  - cbn [seq map linked init_mem s_flag].
    assert (E : (Z.of_nat j * (cpb + c_bufferHeaderSize) <? (n - 1) * (cpb + c_bufferHeaderSize)) = false).
    { apply Z.ltb_ge. apply Z.mul_le_mono_nonneg_r; lia. }
    rewrite E. apply has_next_zero.
  - change (seq j (S (S k))) with (j :: seq (S j) (S k)). cbn [map].
    specialize (IH (S j) ltac:(lia)). cbn [seq map] in IH.
    cbn [linked seq map]. cbn [init_mem s_flag s_next].
    assert (E : (Z.of_nat j * (cpb + c_bufferHeaderSize) <? (n - 1) * (cpb + c_bufferHeaderSize)) = true).
    { apply Z.ltb_lt. apply Z.mul_lt_mono_pos_r; lia. }
    rewrite E. split; [apply has_next_flag|]. split; [lia|]. exact IH.
Qed.

Lemma slot_inj st : 0 < st -> forall i j : nat, Z.of_nat i * st = Z.of_nat j * st -> i = j.
Proof. intros Hst i j E. apply Z.mul_cancel_r in E; lia. Qed.

Lemma slots0_nodup N st : 0 < st -> NoDup (slots0 N st).
Proof.
  intros Hst. unfold slots0. generalize 0%nat. induction N as [|N IH]; intros j; cbn [seq map]; constructor.
  - intros Hi. apply in_map_iff in Hi. destruct Hi as [i [E Hi]]. apply slot_inj in E; auto.
    apply in_seq in Hi. lia.
  - apply IH.
Qed.

Lemma slots0_in N st o : In o (slots0 N st) <-> exists i, (i < N)%nat /\ o = Z.of_nat i * st.
Proof.
  unfold slots0. rewrite in_map_iff. split.
  - intros [i [E Hi]]. apply in_seq in Hi. exists i; split; [lia|auto].
  - intros [i [Hi E]]. exists i; split; auto. apply in_seq. lia.
Qed.

Lemma init_rep n cpb base len : 1 <= n -> 0 <= cpb -> Rep (init_mem n cpb base len) (L0 n cpb) [].
Proof.
  intros Hn Hc. pose proof hdr_pos as Hh. unfold L0.
  remember (Z.to_nat n) as N. assert (HN : n = Z.of_nat N) by lia.
  destruct N as [|k]; [lia|].
  set (st := cpb + c_bufferHeaderSize). assert (Hst : 0 < st) by (unfold st; lia).
  constructor.
  - unfold slots0. cbn [seq map]. discriminate.
  - rewrite app_nil_r. apply slots0_nodup; exact Hst.
  - intros o Ho. rewrite app_nil_r in Ho. apply slots0_in in Ho. destruct Ho as [i [Hi ->]].
    unfold valid_off, stride. cbn [init_mem m_n m_cpb]. fold st.
    assert (Z.of_nat i * st + st <= n * st) by nia.
    split; [|lia]. apply andb_true_iff; split; apply Z.leb_le; [nia|unfold st in *; lia].
  - reflexivity.
  - unfold slots0. rewrite seq_S, map_app. cbn [map]. rewrite last_last. cbn [init_mem m_tail Nat.add].
    fold st. f_equal. lia.
  - unfold slots0. rewrite map_length, seq_length. cbn [init_mem m_size]. exact HN.
  - unfold slots0. apply (init_linked n cpb base len (S k)); auto.
Qed.

(* ---------- the abstract specification keeps the set of slots ---------- *)
Lemma spec_perm ops : forall L H, Permutation (snd (fst (spec L H ops)) ++ snd (spec L H ops)) (L ++ H).
Proof.
  induction ops as [|o r IH]; intros L H; [reflexivity|].
  assert (Hstep : forall x L1 H1, Permutation (L1 ++ H1) (L ++ H) ->
            Permutation (snd (fst (let '(xs, L'', H'') := spec L1 H1 r in (x :: xs, L'', H''))) ++
                         snd (let '(xs, L'', H'') := spec L1 H1 r in (x :: xs, L'', H''))) (L ++ H)).
  { intros x L1 H1 P. specialize (IH L1 H1). destruct (spec L1 H1 r) as [[xs L2] H2]. cbn [fst snd] in *.
    eapply Permutation_trans; eauto. }
  destruct o.
  - cbn [spec spec_op]. destruct L as [|a [|b L']]; try (apply Hstep; reflexivity).
    apply Hstep. rewrite app_assoc. cbn [app].
    apply Permutation_sym. apply (Permutation_cons_append ((b :: L') ++ H) a).
  - destruct H as [|b H']; [apply IH|]. cbn [spec spec_op hd tl]. apply Hstep.
    rewrite <- app_assoc. reflexivity.
  - destruct H as [|b0 H0]; [apply IH|]. cbn [spec spec_op].
    destruct (@exists_last _ (b0 :: H0) ltac:(discriminate)) as [H' [b E]].
    assert (El : last (b0 :: H0) 0 = b) by (rewrite E; apply last_last).
    assert (Er : removelast (b0 :: H0) = H') by (rewrite E; apply removelast_last).
    rewrite El, Er. apply Hstep. rewrite E, <- app_assoc.
    apply Permutation_app_head. apply Permutation_cons_append.
  - destruct H as [|b H']; [apply IH|]. cbn [spec spec_op]. apply Hstep. reflexivity.
  - destruct H as [|b H']; [apply IH|]. cbn [spec spec_op]. apply Hstep. reflexivity.
Qed.

(* ---------- observers shared with the property files ---------- *)
Fixpoint nodupb (l : list Z) : bool :=
  match l with [] => true | x :: r => negb (existsb (Z.eqb x) r) && nodupb r end.
Definition finished (p : tlocal) : bool :=
  match pc p, normalize (held p) (todo p) with Idle, [] => true | _, _ => false end.
Definition chain_whole (m : mem) : bool :=
  let w := walk m (m_head m) (S (Z.to_nat (m_n m))) in
  (Z.of_nat (length w) =? m_n m) && nodupb w && forallb (is_slot m) w && (last w (-1) =? m_tail m).

Lemma nodupb_true l : NoDup l -> nodupb l = true.
Proof.
  induction 1 as [|x l Hn Hnd IH]; cbn [nodupb]; auto. rewrite IH, andb_true_r.
  apply negb_true_iff. destruct (existsb (Z.eqb x) l) eqn:E; auto.
  apply existsb_exists in E. destruct E as [y [Hy E]]. apply Z.eqb_eq in E. subst. contradiction.
Qed.

Lemma walk_linked m L : forall fuel,
  L <> [] -> linked m L -> (forall o, In o L -> valid_off m o = true) -> (length L <= fuel)%nat ->
  walk m (hd 0 L) fuel = L.
Proof.
  induction L as [|a r IH]; intros fuel Hne Hl Hv Hlen; [congruence|].
  destruct fuel as [|f]; [cbn [length] in Hlen; lia|].
  cbn [walk hd]. rewrite (Hv a (or_introl eq_refl)). destruct r as [|b r'].
  - cbn [linked] in Hl. rewrite Hl. reflexivity.
  - destruct Hl as [H1 [H2 H3]]. rewrite H1, H2. f_equal.
    apply (IH f); auto; try discriminate.
    + intros o Ho. apply Hv. right; exact Ho.
    + cbn [length] in *. lia.
Qed.

(* a finished thread takes no further steps (its state is a fixpoint up to the dropped operations) *)
Lemma finished_step m p : finished p = true ->
  exists p', tstep m p = (m, p') /\ finished p' = true /\ held p' = held p /\ res p' = res p /\ pc p' = Idle.
Proof.
  unfold finished. destruct p as [pc0 td hd0 rs0 dd ls]. cbn [pc todo held].
  destruct pc0; try discriminate. destruct (normalize hd0 td) eqn:E; try discriminate. intros _.
  eexists. split.
  - unfold tstep. cbn [pc todo held res dead lost]. rewrite E. reflexivity.
  - cbn [pc todo held res]. destruct hd0; repeat split; reflexivity.
Qed.

Lemma finished_iter k : forall m p, finished p = true ->
  exists p', iter k (m, p) = (m, p') /\ finished p' = true /\ held p' = held p /\ res p' = res p.
Proof.
  induction k as [|k IH]; intros m p Hf.
  - exists p; repeat split; auto.
  - destruct (finished_step m p Hf) as [p1 [E1 [F1 [A1 [B1 _]]]]].
    destruct (IH m p1 F1) as [p2 [E2 [F2 [A2 B2]]]].
    exists p2. rewrite iter_S. cbn [fst snd]. rewrite E1, E2. repeat split; auto; congruence.
Qed.

Lemma iter_finished_agree k1 k2 x m1 p1 m2 p2 :
  iter k1 x = (m1, p1) -> finished p1 = true -> iter k2 x = (m2, p2) -> finished p2 = true ->
  m1 = m2 /\ held p1 = held p2 /\ res p1 = res p2.
Proof.
  assert (W : forall k1 k2 m1 p1 m2 p2, (k1 <= k2)%nat ->
    iter k1 x = (m1, p1) -> finished p1 = true -> iter k2 x = (m2, p2) ->
    m1 = m2 /\ held p1 = held p2 /\ res p1 = res p2).
  { clear. intros k1 k2 m1 p1 m2 p2 Hle E1 F1 E2.
    replace k2 with (k1 + (k2 - k1))%nat in E2 by lia. rewrite iter_add, E1 in E2.
    destruct (finished_iter (k2 - k1) m1 p1 F1) as [p' [E' [_ [A B]]]]. rewrite E' in E2.
    inversion E2; subst. auto. }
  intros E1 F1 E2 F2. destruct (Nat.le_ge_cases k1 k2) as [Hle|Hle].
  - eapply W; eauto.
  - destruct (W k2 k1 m2 p2 m1 p1 Hle E2 F2 E1) as [A [B C]]. auto.
Qed.

(* ---------- main theorems: one thread, any operation sequence ---------- *)
Definition p_init (ops : list fop) : tlocal :=
  {| pc := Idle; todo := ops; held := []; res := []; dead := false; lost := 0 |}.

Lemma seq_run_eq n cpb base len ops k :
  run (repeat O k) (init n cpb base len [ops]) =
  {| mm := fst (iter k (init_mem n cpb base len, p_init ops));
     thr := [snd (iter k (init_mem n cpb base len, p_init ops))] |}.
Proof. unfold init. cbn [map]. apply run_single. Qed.

Lemma seq_complete n cpb base len ops :
  1 <= n -> 0 <= cpb -> forallb op_nochain ops = true ->
  exists k m' p', iter k (init_mem n cpb base len, p_init ops) = (m', p') /\ finished p' = true /\
     geom (init_mem n cpb base len) m' /\
     Rep m' (snd (fst (spec (L0 n cpb) [] ops))) (snd (spec (L0 n cpb) [] ops)) /\
     held p' = snd (spec (L0 n cpb) [] ops) /\ res p' = fst (fst (spec (L0 n cpb) [] ops)).
Proof.
  intros Hn Hc Hnc.
  destruct (seq_refine ops (init_mem n cpb base len) (p_init ops) (L0 n cpb) [] [] Hnc
              (init_rep n cpb base len Hn Hc) eq_refl eq_refl eq_refl eq_refl eq_refl)
    as [k [m' [p' [E [G [R [A [B [C [D _]]]]]]]]]].
  exists k, m', p'. split; [exact E|]. split; [unfold finished; rewrite A, B; reflexivity|].
  repeat (split; [assumption|]). exact D.
Qed.

(* termination: the single-thread run completes *)
Theorem seq_terminates n cpb base len ops :
  1 <= n -> 0 <= cpb -> forallb op_nochain ops = true ->
  exists k, forallb finished (thr (run (repeat O k) (init n cpb base len [ops]))) = true.
Proof.
  intros Hn Hc Hnc. destruct (seq_complete n cpb base len ops Hn Hc Hnc) as [k [m' [p' [E [F _]]]]].
  exists k. rewrite seq_run_eq, E. cbn [thr snd forallb]. rewrite F. reflexivity.
Qed.

(* functional correctness: whenever the run has completed, the results are those of the abstract FIFO
   and the memory represents the abstract state *)
Theorem seq_functional n cpb base len ops k :
  1 <= n -> 0 <= cpb -> forallb op_nochain ops = true ->
  let s := run (repeat O k) (init n cpb base len [ops]) in
  forallb finished (thr s) = true ->
  map res (thr s) = [fst (fst (spec (L0 n cpb) [] ops))] /\
  all_held s = snd (spec (L0 n cpb) [] ops) /\
  Rep (mm s) (snd (fst (spec (L0 n cpb) [] ops))) (snd (spec (L0 n cpb) [] ops)) /\
  geom (init_mem n cpb base len) (mm s).
Proof.
  intros Hn Hc Hnc s. unfold s. rewrite seq_run_eq.
  destruct (iter k (init_mem n cpb base len, p_init ops)) as [mk pk] eqn:Ek.
  cbn [thr mm fst snd forallb map]. rewrite andb_true_r. intros Fk.
  destruct (seq_complete n cpb base len ops Hn Hc Hnc) as [k0 [m' [p' [E [F [G [R [A B]]]]]]]].
  destruct (iter_finished_agree k k0 _ mk pk m' p' Ek Fk E F) as [-> [Hh Hr]].
  unfold all_held. cbn [thr flat_map]. rewrite app_nil_r, Hh, Hr, A, B. auto.
Qed.

Lemma is_slot_geom m0 m o : geom m0 m -> is_slot m o = is_slot m0 o.
Proof. intros G. unfold is_slot. rewrite (stride_geom m0 m G). destruct G as [-> _]. reflexivity. Qed.

Lemma L0_is_slot n cpb base len o : 0 <= cpb -> In o (L0 n cpb) -> is_slot (init_mem n cpb base len) o = true.
Proof.
  intros Hc Ho. pose proof hdr_pos. apply slots0_in in Ho. destruct Ho as [i [Hi ->]].
  unfold is_slot, stride. cbn [init_mem m_n m_cpb]. set (st := cpb + c_bufferHeaderSize).
  assert (0 < st) by (unfold st; lia).
  rewrite Z_mod_mult, Z.eqb_refl, andb_true_r. apply andb_true_iff; split; [apply Z.leb_le|apply Z.ltb_lt]; nia.
Qed.

Lemma L0_length n cpb : 0 <= n -> Z.of_nat (length (L0 n cpb)) = n.
Proof. intros. unfold L0, slots0. rewrite map_length, seq_length. lia. Qed.

(* (i) C01 sequentially: no buffer is held twice and every buffer handed out is a slot of the region *)
Theorem seq_no_double_ownership n cpb base len ops k :
  1 <= n -> 0 <= cpb -> forallb op_nochain ops = true ->
  let s := run (repeat O k) (init n cpb base len [ops]) in
  forallb finished (thr s) = true ->
  nodupb (all_held s) = true /\ forallb (is_slot (mm s)) (all_held s) = true.
Proof.
  intros Hn Hc Hnc s Hf. destruct (seq_functional n cpb base len ops k Hn Hc Hnc Hf) as [_ [Hh [R G]]].
  fold s in Hh, R, G. rewrite Hh. split.
  - apply nodupb_true. eapply NoDup_app_r. apply (r_nd _ _ _ R).
  - apply forallb_forall. intros o Ho. rewrite (is_slot_geom _ _ o G). apply L0_is_slot; auto.
    assert (Hin : In o (L0 n cpb ++ [])).
    { eapply Permutation_in; [apply spec_perm|]. apply in_or_app; right; exact Ho. }
    rewrite app_nil_r in Hin. exact Hin.
Qed.

(* (ii) the last slot is never handed out: the list never becomes empty, the free count is its length,
   and an allocation that fails leaves the memory exactly as it found it (alloc_fail above) *)
Theorem seq_never_last n cpb base len ops k :
  1 <= n -> 0 <= cpb -> forallb op_nochain ops = true ->
  let s := run (repeat O k) (init n cpb base len [ops]) in
  forallb finished (thr s) = true ->
  1 <= m_size (mm s) /\ m_size (mm s) + Z.of_nat (length (all_held s)) = n.
Proof.
  intros Hn Hc Hnc s Hf. destruct (seq_functional n cpb base len ops k Hn Hc Hnc Hf) as [_ [Hh [R G]]].
  fold s in Hh, R, G. rewrite Hh, (r_size _ _ _ R).
  pose proof (Permutation_length (spec_perm ops (L0 n cpb) [])) as Hl.
  rewrite !app_length in Hl. cbn [length] in Hl. pose proof (L0_length n cpb ltac:(lia)).
  pose proof (r_ne _ _ _ R) as Hne. destruct (snd (fst (spec (L0 n cpb) [] ops))); [congruence|].
  cbn [length] in *. lia.
Qed.

Theorem seq_failed_alloc_restores m p L H r rs :
  Rep m L H -> idle_n p Alloc r H rs -> (length L <= 1)%nat ->
  exists p', iter 3 (m, p) = (m, p') /\ idle_with p' r H (rs ++ [RAlloc None]).
Proof. intros R I Hl. destruct (alloc_fail m p L H r rs R I Hl) as [m' [p' [E [-> I']]]]. eauto. Qed.

Lemma last_indep (l : list Z) d d' : l <> [] -> last l d = last l d'.
Proof. intros H. destruct (exists_last H) as [l' [x ->]]. rewrite !last_last. reflexivity. Qed.

(* (iii) C02 sequentially: when everything has been freed the free count is the capacity and the walk
   from head visits every slot exactly once and ends at tail *)
Theorem seq_quiescent_whole n cpb base len ops k :
  1 <= n -> 0 <= cpb -> forallb op_nochain ops = true ->
  let s := run (repeat O k) (init n cpb base len [ops]) in
  forallb finished (thr s) = true -> all_held s = [] ->
  m_size (mm s) = n /\ chain_whole (mm s) = true.
Proof.
  intros Hn Hc Hnc s Hf He.
  destruct (seq_functional n cpb base len ops k Hn Hc Hnc Hf) as [_ [Hh [R G]]].
  fold s in Hh, R, G. rewrite He in Hh.
  pose proof (spec_perm ops (L0 n cpb) []) as P. rewrite <- Hh in *. rewrite !app_nil_r in P.
  set (L := snd (fst (spec (L0 n cpb) [] ops))) in *.
  assert (Hlen : Z.of_nat (length L) = n).
  { rewrite (Permutation_length P). apply L0_length. lia. }
  assert (Hmn : m_n (mm s) = n) by (destruct G as [-> _]; reflexivity).
  split; [rewrite (r_size _ _ _ R); exact Hlen|].
  unfold chain_whole. rewrite (r_head _ _ _ R).
  rewrite (walk_linked (mm s) L); try apply R.
  - rewrite Hlen, Hmn, Z.eqb_refl. cbn [andb].
    rewrite nodupb_true by (pose proof (r_nd _ _ _ R) as X; rewrite app_nil_r in X; exact X). cbn [andb].
    rewrite (last_indep L (-1) 0) by apply R. rewrite (r_tail _ _ _ R), Z.eqb_refl, andb_true_r.
    apply forallb_forall. intros o Ho. rewrite (is_slot_geom _ _ o G). apply L0_is_slot; auto.
    eapply Permutation_in; eauto.
  - intros o Ho. apply (r_valid _ _ _ R). apply in_or_app; left; exact Ho.
  - rewrite Hmn. lia.
Qed.
