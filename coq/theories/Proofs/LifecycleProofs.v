(* C14 — proofs about Model/Lifecycle.v: the bookkeeping invariant over ALL schedules (any number of
   sessions, streams, Close / exitErr / remote-close calls, lambdas, user threads), the close procedure
   from ANY invariant state, idempotence, reference counts, and the refutation of "no access after
   unmap". *)
From Coq Require Import List ZArith Bool Lia Arith.
From Shm Require Import Gen.Consts Model.Lifecycle.
Import ListNotations.
Open Scope Z_scope.

(* ---- list / table facts ---- *)
Lemma nth_error_upd_same {A} (l : list A) i x y : nth_error l i = Some y -> nth_error (upd i x l) i = Some x.
Proof. revert i. induction l as [|a l IH]; intros [|i] H; cbn in *; try discriminate; auto. Qed.
Lemma nth_error_upd_other {A} (l : list A) i j x : i <> j -> nth_error (upd i x l) j = nth_error l j.
Proof. revert i j. induction l as [|a l IH]; intros [|i] [|j] H; cbn; auto; try congruence. Qed.
Lemma upd_none {A} (l : list A) i x : nth_error l i = None -> upd i x l = l.
Proof. revert i. induction l as [|a l IH]; intros [|i] H; cbn in *; try discriminate; auto; f_equal; auto. Qed.
Lemma nth_error_upd {A} (l : list A) i j x y : nth_error (upd i x l) j = Some y ->
  (i = j /\ y = x) \/ nth_error l j = Some y.
Proof.
  intros H. destruct (Nat.eq_dec i j) as [->|Hne].
  - destruct (nth_error l j) eqn:E.
    + rewrite (nth_error_upd_same _ _ _ _ E) in H. injection H as <-. auto.
    + rewrite (upd_none _ _ _ E) in H. congruence.
  - right. rewrite nth_error_upd_other in H by assumption. assumption.
Qed.

Lemma nth_error_app_cases {A} j (y : A) l x : nth_error (l ++ [x]) j = Some y -> nth_error l j = Some y \/ y = x.
Proof.
  intros H. destruct (Nat.lt_ge_cases j (length l)) as [Hl|Hl].
  - left. rewrite nth_error_app1 in H by assumption. assumption.
  - right. rewrite nth_error_app2 in H by assumption. destruct (j - length l)%nat as [|k]; cbn in H.
    + injection H as <-. reflexivity.
    + destruct k; discriminate.
Qed.

Lemma tbl_get_set_same p c t : tbl_get p (tbl_set p c t) = Some c.
Proof. induction t as [|[p' c'] t IH]; cbn; [rewrite Z.eqb_refl; reflexivity|].
  destruct (p =? p') eqn:E; cbn; [rewrite Z.eqb_refl; reflexivity|rewrite E; assumption]. Qed.
Lemma tbl_get_set_other p p' c t : p <> p' -> tbl_get p (tbl_set p' c t) = tbl_get p t.
Proof.
  intros H. induction t as [|[p0 c0] t IH]; cbn.
  - destruct (p =? p') eqn:E; [apply Z.eqb_eq in E; congruence|reflexivity].
  - destruct (p' =? p0) eqn:E; cbn.
    + apply Z.eqb_eq in E. subst. destruct (p =? p0) eqn:E2; [apply Z.eqb_eq in E2; congruence|].
      destruct (p =? p0) eqn:E3; [congruence|reflexivity].
    + destruct (p =? p0); [reflexivity|assumption].
Qed.
Lemma tbl_get_del_same p t : tbl_get p (tbl_del p t) = None.
Proof. induction t as [|[p' c'] t IH]; cbn; [reflexivity|]. destruct (p =? p') eqn:E; cbn; [assumption|rewrite E; assumption]. Qed.
Lemma tbl_get_del_other p p' t : p <> p' -> tbl_get p (tbl_del p' t) = tbl_get p t.
Proof.
  intros H. induction t as [|[p0 c0] t IH]; cbn; [reflexivity|].
  destruct (p' =? p0) eqn:E; cbn.
  - apply Z.eqb_eq in E. subst. destruct (p =? p0) eqn:E2; [apply Z.eqb_eq in E2; congruence|assumption].
  - destruct (p =? p0); [reflexivity|assumption].
Qed.

Definition h (p : Z) (s : sess) : Z := match bm s with Some p' => if p =? p' then 1 else 0 | None => 0 end.
Lemma holders_cons p s l : holders p (s :: l) = h p s + holders p l. Proof. reflexivity. Qed.
Lemma holders_app p a b : holders p (a ++ b) = holders p a + holders p b.
Proof. induction a as [|s a IH]; [reflexivity|]. cbn [app]. rewrite !holders_cons, IH. lia. Qed.
Lemma holders_upd p l : forall i s s', nth_error l i = Some s -> holders p (upd i s' l) = holders p l - h p s + h p s'.
Proof.
  induction l as [|a l IH]; intros [|i] s s' H; cbn [nth_error upd] in *; try discriminate.
  - injection H as ->. rewrite !holders_cons. lia.
  - rewrite !holders_cons, (IH _ _ _ H). lia.
Qed.
Lemma holders_nonneg p l : 0 <= holders p l.
Proof. induction l as [|s l IH]; [cbn; lia|]. rewrite holders_cons. unfold h. destruct (bm s) as [z|]; [destruct (p =? z)|]; lia. Qed.
Lemma holders_ge p l i s : nth_error l i = Some s -> h p s <= holders p l.
Proof.
  revert i. induction l as [|a l IH]; intros [|i] H; cbn [nth_error] in *; try discriminate.
  - injection H as ->. rewrite holders_cons. pose proof (holders_nonneg p l). lia.
  - rewrite holders_cons. specialize (IH _ H). unfold h at 2. destruct (bm a) as [z|]; [destruct (p =? z)|]; lia.
Qed.

Lemma count_app p a b : count_occ_z p (a ++ b) = count_occ_z p a + count_occ_z p b.
Proof. unfold count_occ_z. rewrite filter_app, app_length. lia. Qed.

(* ---- the invariant ---- *)
Definition sinv (s : sess) : Prop :=
  (sd s = false -> posted s = false /\ cleaned s = false) /\
  (sd s = true -> chclosed s = true /\ (posted s = true \/ cleaned s = true) /\ Forall (fun st => st_notified st = true) (streams s)) /\
  (posted s = true -> cleaned s = false) /\
  (cleaned s = true -> bm s = None /\ qmap s = None /\ conn_open s = false) /\
  (cleaned s = false -> bm s <> None /\ qmap s <> None).

Record WInv (w : world) : Prop := {
  w_s : forall i s, nth_error (ss w) i = Some s -> sinv s;
  w_ref : forall p, refcount p w = holders p (ss w);
  w_ghost : forall p, count_occ_z p (creates w) - count_occ_z p (unmaps w) =
                      match tbl_get p (tbl w) with Some _ => 1 | None => 0 end }.

Lemma winv_init : WInv init.
Proof. constructor; cbn; intros; try reflexivity. destruct i; discriminate. Qed.

Lemma sinv_close s : sinv s -> sinv (close_sess s).
Proof.
  intros Hs. unfold close_sess. destruct (sd s) eqn:Es; [assumption|].
  destruct Hs as (A & B & C & D & E). destruct (A Es) as [A1 A2]. destruct (E A2) as [E1 E2].
  unfold sinv. cbn.
  split; [discriminate|]. split.
  { intros _. split; [reflexivity|]. split; [left; reflexivity|].
    apply Forall_forall. intros x Hx. apply in_map_iff in Hx. destruct Hx as (y & <- & _). reflexivity. }
  split; [intros _; assumption|]. split; [intros H; congruence|]. intros _. split; assumption.
Qed.

Lemma sinv_mod s s' : sinv s ->
  sd s' = sd s -> chclosed s' = chclosed s -> posted s' = posted s -> cleaned s' = cleaned s ->
  bm s' = bm s -> qmap s' = qmap s -> (conn_open s' = conn_open s \/ conn_open s' = false) ->
  (Forall (fun st => st_notified st = true) (streams s) -> Forall (fun st => st_notified st = true) (streams s')) ->
  sinv s'.
Proof.
  intros (A & B & C & D & E) H1 H2 H3 H4 H5 H6 H7 H8. unfold sinv. rewrite H1, H2, H3, H4, H5, H6.
  split; [assumption|]. split; [intros H; destruct (B H) as (B1 & B2 & B3); auto|].
  split; [assumption|]. split; [|assumption].
  intros H. destruct (D H) as (D1 & D2 & D3). repeat split; auto. destruct H7 as [H7|H7]; congruence.
Qed.

Lemma notified_upd l k st st' : nth_error l k = Some st -> st_notified st' = st_notified st ->
  Forall (fun x => st_notified x = true) l -> Forall (fun x => st_notified x = true) (upd k st' l).
Proof.
  intros Hk Hn F. rewrite Forall_forall in *. intros x Hx. apply In_nth_error in Hx. destruct Hx as [j Hj].
  apply nth_error_upd in Hj. destruct Hj as [[_ ->]|Hj].
  - rewrite Hn. apply F. eapply nth_error_In; eassumption.
  - apply F. eapply nth_error_In; eassumption.
Qed.

Lemma h_close p s : h p (close_sess s) = h p s.
Proof. unfold close_sess, h. destruct (sd s); reflexivity. Qed.

Lemma winv_set w i s s' : WInv w -> nth_error (ss w) i = Some s -> sinv s' -> (forall p, h p s' = h p s) -> WInv (set_sess w i s').
Proof.
  intros [Ws Wr Wg] Hn Hs Hh. constructor; unfold set_sess; cbn.
  - intros j y Hj. apply nth_error_upd in Hj. destruct Hj as [[_ ->]|Hj]; [assumption|eauto].
  - intros p. unfold refcount in *. cbn. rewrite (holders_upd _ _ _ _ _ Hn), Hh. rewrite Wr. lia.
  - assumption.
Qed.

Lemma remote_close_inv w i : WInv w -> WInv (remote_close w i).
Proof.
  intros W. pose proof W as [Ws Wr Wg]. unfold remote_close.
  destruct (nth_error (ss w) i) as [s|] eqn:E; [|assumption]. destruct (conn_open s) eqn:Ec; [|assumption].
  apply (winv_set w i s); auto.
  + apply (sinv_mod (close_sess s)); cbn; auto. apply sinv_close. eauto.
  + intros p. rewrite <- (h_close p s). reflexivity.
Qed.

Lemma step_inv w l : WInv w -> WInv (step w l).
Proof.
  intros W. pose proof W as [Ws Wr Wg]. destruct l as [p q n|i|i|i|i k|i k|i|i|i ev|p]; cbn [step].
  - (* LOpen *)
    unfold tbl_acquire. destruct (tbl_get p (tbl w)) as [c|] eqn:E; constructor; cbn.
    + intros j y Hj. destruct (nth_error_app_cases j y (ss w) _ Hj) as [Hj'|Hj']; [eauto|].
      subst y. unfold sinv. cbn. repeat split; auto; try discriminate.
    + intros p0. unfold refcount. cbn. rewrite holders_app, holders_cons. unfold h at 1. cbn.
      destruct (p0 =? p) eqn:E0.
      * apply Z.eqb_eq in E0. subst. rewrite tbl_get_set_same. specialize (Wr p). unfold refcount in Wr. rewrite E in Wr. cbn. lia.
      * apply Z.eqb_neq in E0. rewrite tbl_get_set_other by assumption. specialize (Wr p0). unfold refcount in Wr. cbn. lia.
    + intros p0. destruct (Z.eq_dec p0 p) as [->|Hne].
      * rewrite tbl_get_set_same. specialize (Wg p). rewrite E in Wg. assumption.
      * rewrite tbl_get_set_other by assumption. apply Wg.
    + intros j y Hj. destruct (nth_error_app_cases j y (ss w) _ Hj) as [Hj'|Hj']; [eauto|].
      subst y. unfold sinv. cbn. repeat split; auto; try discriminate.
    + intros p0. unfold refcount. cbn. rewrite holders_app, holders_cons. unfold h at 1. cbn.
      destruct (p0 =? p) eqn:E0.
      * apply Z.eqb_eq in E0. subst. rewrite tbl_get_set_same. specialize (Wr p). unfold refcount in Wr. rewrite E in Wr. cbn. lia.
      * apply Z.eqb_neq in E0. rewrite tbl_get_set_other by assumption. specialize (Wr p0). unfold refcount in Wr. cbn. lia.
    + intros p0. rewrite count_app. destruct (Z.eq_dec p0 p) as [->|Hne].
      * rewrite tbl_get_set_same. specialize (Wg p). rewrite E in Wg. unfold count_occ_z at 2. cbn. rewrite Z.eqb_refl. cbn. lia.
      * rewrite tbl_get_set_other by assumption. specialize (Wg p0). unfold count_occ_z at 2. cbn.
        destruct (p0 =? p) eqn:E0; [apply Z.eqb_eq in E0; congruence|]. cbn. lia.
  - (* LClose *)
    destruct (nth_error (ss w) i) as [s|] eqn:E; [|assumption].
    apply (winv_set w i s); auto using sinv_close, h_close. apply sinv_close. eauto.
  - (* LRemote *) apply remote_close_inv. assumption.
  - (* LLambda *)
    destruct (nth_error (ss w) i) as [s|] eqn:E; [|assumption]. destruct (posted s) eqn:Ep; [|assumption].
    destruct (Ws _ _ E) as (A & B & C & D & F). specialize (C Ep). destruct (F C) as [Fb Fq].
    destruct (bm s) as [p|] eqn:Eb; [|congruence].
    assert (Hh : h p s = 1) by (unfold h; rewrite Eb, Z.eqb_refl; reflexivity).
    pose proof (holders_ge p _ _ _ E) as Hge. rewrite Hh in Hge.
    unfold tbl_release. pose proof (Wr p) as Wrp. unfold refcount in Wrp.
    destruct (tbl_get p (tbl w)) as [c|] eqn:Et; [|lia].
    assert (Hs' : sinv {| sd := sd s; chclosed := chclosed s; posted := false; cleaned := true;
                          streams := map lambda_close_stream (streams s); conn_open := false; bm := None; qmap := None;
                          inflight := inflight s |}).
    { destruct (sd s) eqn:Es; [|destruct (A eq_refl); congruence].
      destruct (B eq_refl) as (B1 & B2 & B3). unfold sinv. cbn. repeat split; auto; try discriminate.
      apply Forall_forall. intros x Hx. apply in_map_iff in Hx. destruct Hx as (y & <- & Hy).
      rewrite Forall_forall in B3. specialize (B3 _ Hy). unfold lambda_close_stream.
      destruct (st_incb y); cbn; [assumption|]. destruct (st_state y =? c_streamClosed); [assumption|reflexivity]. }
    destruct (c - 1 <=? 0) eqn:Ec; constructor; cbn.
    + intros j y Hj. apply nth_error_upd in Hj. destruct Hj as [[_ ->]|Hj]; [assumption|eauto].
    + intros p0. unfold refcount. cbn. rewrite (holders_upd _ _ _ _ _ E). unfold h at 2. cbn.
      destruct (Z.eq_dec p0 p) as [->|Hne].
      * rewrite tbl_get_del_same, Hh. apply Z.leb_le in Ec. lia.
      * rewrite tbl_get_del_other by assumption. specialize (Wr p0). unfold refcount in Wr.
        unfold h. rewrite Eb. destruct (p0 =? p) eqn:E0; [apply Z.eqb_eq in E0; congruence|]. lia.
    + intros p0. rewrite count_app. destruct (Z.eq_dec p0 p) as [->|Hne].
      * rewrite tbl_get_del_same. specialize (Wg p). rewrite Et in Wg. unfold count_occ_z at 3. cbn. rewrite Z.eqb_refl. cbn. lia.
      * rewrite tbl_get_del_other by assumption. specialize (Wg p0). unfold count_occ_z at 3. cbn.
        destruct (p0 =? p) eqn:E0; [apply Z.eqb_eq in E0; congruence|]. cbn. lia.
    + intros j y Hj. apply nth_error_upd in Hj. destruct Hj as [[_ ->]|Hj]; [assumption|eauto].
    + intros p0. unfold refcount. cbn. rewrite (holders_upd _ _ _ _ _ E). unfold h at 2. cbn.
      destruct (Z.eq_dec p0 p) as [->|Hne].
      * rewrite tbl_get_set_same, Hh. lia.
      * rewrite tbl_get_set_other by assumption. specialize (Wr p0). unfold refcount in Wr.
        unfold h. rewrite Eb. destruct (p0 =? p) eqn:E0; [apply Z.eqb_eq in E0; congruence|]. lia.
    + intros p0. destruct (Z.eq_dec p0 p) as [->|Hne].
      * rewrite tbl_get_set_same. specialize (Wg p). rewrite Et in Wg. assumption.
      * rewrite tbl_get_set_other by assumption. apply Wg.
  - (* LCbBegin *)
    destruct (nth_error (ss w) i) as [s|] eqn:E; [|assumption].
    destruct (nth_error (streams s) k) as [st|] eqn:Ek; [|assumption].
    destruct ((st_state st =? c_streamOpened) && negb (st_incb st)); [|assumption].
    apply (winv_set w i s); auto.
    apply (sinv_mod s); cbn; eauto. apply (notified_upd _ _ st); auto.
  - (* LCbEnd *)
    destruct (nth_error (ss w) i) as [s|] eqn:E; [|assumption].
    destruct (nth_error (streams s) k) as [st|] eqn:Ek; [|assumption].
    destruct (st_incb st); [|assumption].
    apply (winv_set w i s); auto.
    apply (sinv_mod s); cbn; eauto. apply (notified_upd _ _ st); auto.
  - (* LEnter *)
    destruct (nth_error (ss w) i) as [s|] eqn:E; [|assumption].
    destruct (existsb _ (streams s)); [|assumption].
    apply (winv_set w i s); auto. apply (sinv_mod s); cbn; eauto.
  - (* LAccess *)
    destruct (nth_error (ss w) i) as [s|] eqn:E; [|assumption].
    destruct (inflight s) as [|n]; [assumption|].
    destruct (qmap s) eqn:Eq.
    + apply (winv_set w i s); auto. apply (sinv_mod s); cbn; eauto.
    + assert (W' : WInv (set_sess w i {| sd := sd s; chclosed := chclosed s; posted := posted s; cleaned := cleaned s;
                           streams := streams s; conn_open := conn_open s; bm := bm s; qmap := qmap s; inflight := n |})).
      { apply (winv_set w i s); auto. apply (sinv_mod s); cbn; eauto. }
      destruct W' as [A1 A2 A3]. unfold set_sess, refcount in *. cbn in *. rewrite Eq in A1, A2. constructor; unfold refcount; cbn; auto.
  - (* LEvent *) destruct (reports_remote_close ev); [apply remote_close_inv|]; assumption.
  - (* LOpenFail: acquire, then release exactly that reference *)
    unfold tbl_acquire, tbl_release. pose proof (Wr p) as Wrp. unfold refcount in Wrp.
    pose proof (holders_nonneg p (ss w)) as Hn.
    destruct (tbl_get p (tbl w)) as [c|] eqn:E.
    + rewrite tbl_get_set_same. destruct (c + 1 - 1 <=? 0) eqn:Ec; constructor; cbn; auto.
      * intros p0. unfold refcount. cbn. apply Z.leb_le in Ec. destruct (Z.eq_dec p0 p) as [->|Hne].
        -- rewrite tbl_get_del_same. lia.
        -- rewrite tbl_get_del_other, tbl_get_set_other by assumption. apply Wr.
      * intros p0. rewrite count_app. destruct (Z.eq_dec p0 p) as [->|Hne].
        -- rewrite tbl_get_del_same. specialize (Wg p). rewrite E in Wg. unfold count_occ_z at 3. cbn. rewrite Z.eqb_refl. cbn. lia.
        -- rewrite tbl_get_del_other, tbl_get_set_other by assumption. specialize (Wg p0). unfold count_occ_z at 3. cbn.
           destruct (p0 =? p) eqn:E0; [apply Z.eqb_eq in E0; congruence|]. cbn. lia.
      * intros p0. unfold refcount. cbn. destruct (Z.eq_dec p0 p) as [->|Hne].
        -- rewrite tbl_get_set_same. lia.
        -- rewrite !tbl_get_set_other by assumption. apply Wr.
      * intros p0. destruct (Z.eq_dec p0 p) as [->|Hne].
        -- rewrite tbl_get_set_same. specialize (Wg p). rewrite E in Wg. assumption.
        -- rewrite !tbl_get_set_other by assumption. apply Wg.
    + rewrite tbl_get_set_same. cbn [Z.sub Z.leb]. change (1 - 1 <=? 0) with true. cbv iota. constructor; cbn; auto.
      * intros p0. unfold refcount. cbn. destruct (Z.eq_dec p0 p) as [->|Hne].
        -- rewrite tbl_get_del_same. lia.
        -- rewrite tbl_get_del_other, tbl_get_set_other by assumption. apply Wr.
      * intros p0. rewrite !count_app. destruct (Z.eq_dec p0 p) as [->|Hne].
        -- rewrite tbl_get_del_same. specialize (Wg p). rewrite E in Wg. unfold count_occ_z at 2 4. cbn. rewrite Z.eqb_refl. cbn. lia.
        -- rewrite tbl_get_del_other, tbl_get_set_other by assumption. specialize (Wg p0). unfold count_occ_z at 2 4. cbn.
           destruct (p0 =? p) eqn:E0; [apply Z.eqb_eq in E0; congruence|]. cbn. lia.
Qed.

Lemma winv_run sch : forall w, WInv w -> WInv (run sch w).
Proof. unfold run. induction sch as [|l sch IH]; intros w W; cbn; [assumption|]. apply IH, step_inv, W. Qed.

(* ---- reference counts ---- *)
Theorem refcount_exact sch p :
  let w := run sch init in
  refcount p w = holders p (ss w) /\ 0 <= refcount p w /\
  count_occ_z p (unmaps w) <= count_occ_z p (creates w) /\
  count_occ_z p (creates w) - count_occ_z p (unmaps w) = match tbl_get p (tbl w) with Some _ => 1 | None => 0 end.
Proof.
  intros w. destruct (winv_run sch init winv_init) as [Ws Wr Wg]. fold w in Ws, Wr, Wg.
  split; [apply Wr|]. split; [rewrite Wr; apply holders_nonneg|]. split; [|apply Wg].
  specialize (Wg p). destruct (tbl_get p (tbl w)); lia.
Qed.

Theorem flags_inv sch i s : nth_error (ss (run sch init)) i = Some s -> sinv s.
Proof. intros H. exact (w_s _ (winv_run sch init winv_init) _ _ H). Qed.

(* ---- idempotence ---- *)
Lemma upd_same {A} (l : list A) i x : nth_error l i = Some x -> upd i x l = l.
Proof. revert i. induction l as [|a l IH]; intros [|i] H; cbn in *; try discriminate; [congruence|f_equal; auto]. Qed.

Theorem close_again_noop w i s : nth_error (ss w) i = Some s -> sd s = true -> step w (LClose i) = w.
Proof.
  intros H Hs. cbn. rewrite H. unfold close_sess. rewrite Hs. unfold set_sess. rewrite (upd_same _ _ _ H).
  destruct w; reflexivity.
Qed.
Theorem lambda_without_post_noop w i s : nth_error (ss w) i = Some s -> posted s = false -> step w (LLambda i) = w.
Proof. intros H Hp. cbn. rewrite H, Hp. reflexivity. Qed.
(* ---- the close procedure from any invariant state ---- *)
Lemma dead_after_lambda y : st_notified y = true -> strm_dead (lambda_close_stream y) = true.
Proof.
  intros Hn. unfold lambda_close_stream, strm_dead. destruct (st_incb y) eqn:Ei; cbn; [rewrite Hn; apply orb_true_r|].
  destruct (st_state y =? c_streamClosed) eqn:Ec.
  - rewrite Hn, Ei. apply Z.eqb_eq in Ec. rewrite Ec. reflexivity.
  - cbn. reflexivity.
Qed.
Lemma closed_after_lambda y : st_incb (lambda_close_stream y) = false -> st_state (lambda_close_stream y) = c_streamClosed.
Proof.
  unfold lambda_close_stream. destruct (st_incb y) eqn:Ei; cbn; [discriminate|].
  destruct (st_state y =? c_streamClosed) eqn:Ec; [intros _; apply Z.eqb_eq in Ec; assumption|reflexivity].
Qed.

Theorem close_from_any_state w i s :
  WInv w -> nth_error (ss w) i = Some s -> cleaned s = false ->
  let w' := step (step w (LClose i)) (LLambda i) in
  exists s', nth_error (ss w') i = Some s' /\
    sd s' = true /\ chclosed s' = true /\ cleaned s' = true /\ posted s' = false /\ sess_released s' = true /\
    Forall (fun st => strm_dead st = true) (streams s') /\
    Forall (fun st => st_incb st = false -> st_state st = c_streamClosed) (streams s') /\
    length (streams s') = length (streams s) /\
    (forall p, bm s = Some p ->
       refcount p w' = refcount p w - 1 /\
       (refcount p w = 1 -> tbl_get p (tbl w') = None /\ unmaps w' = unmaps w ++ [p]) /\
       (1 < refcount p w -> unmaps w' = unmaps w)) /\
    (forall q, qmap s = Some q -> qunmaps w' = qunmaps w ++ [q]) /\
    WInv w'.
Proof.
  intros W H Hc w'. pose proof W as [Ws Wr Wg].
  assert (W' : WInv w') by (apply step_inv, step_inv, W).
  set (s1 := close_sess s).
  assert (Hw1 : step w (LClose i) = set_sess w i s1) by (cbn; rewrite H; reflexivity).
  pose proof (sinv_close s (Ws _ _ H)) as S1. fold s1 in S1.
  assert (Hcl : cleaned s1 = false) by (unfold s1, close_sess; destruct (sd s); assumption).
  assert (Hsd : sd s1 = true) by (unfold s1, close_sess; destruct (sd s) eqn:E; [assumption|reflexivity]).
  destruct S1 as (A & B & C & D & F). destruct (B Hsd) as (B1 & B2 & B3).
  assert (Hp : posted s1 = true) by (destruct B2; [assumption|congruence]).
  assert (Hbm : bm s1 = bm s) by (unfold s1, close_sess; destruct (sd s); reflexivity).
  assert (Hq : qmap s1 = qmap s) by (unfold s1, close_sess; destruct (sd s); reflexivity).
  assert (Hlen : length (streams s1) = length (streams s)) by (unfold s1, close_sess; destruct (sd s); cbn; [reflexivity|apply map_length]).
  destruct (F Hcl) as [Fb Fq]. rewrite Hbm in Fb. destruct (bm s) as [p|] eqn:Eb; [|congruence].
  assert (Hh : h p s = 1) by (unfold h; rewrite Eb, Z.eqb_refl; reflexivity).
  pose proof (holders_ge p _ _ _ H) as Hge. rewrite Hh in Hge.
  pose proof (Wr p) as Wrp. unfold refcount in Wrp.
  destruct (tbl_get p (tbl w)) as [c|] eqn:Et; [|lia].
  assert (Hn1 : nth_error (upd i s1 (ss w)) i = Some s1) by (eapply nth_error_upd_same; eassumption).
  assert (Hw' : w' = let '(t, um) := tbl_release p (tbl w) (unmaps w) in
                {| ss := upd i {| sd := sd s1; chclosed := chclosed s1; posted := false; cleaned := true;
                                  streams := map lambda_close_stream (streams s1); conn_open := false; bm := None; qmap := None;
                                  inflight := inflight s1 |} (upd i s1 (ss w));
                   tbl := t; creates := creates w; unmaps := um;
                   qunmaps := match qmap s with Some q => qunmaps w ++ [q] | None => qunmaps w end;
                   faults := faults w |}).
  { unfold w'. rewrite Hw1. unfold set_sess. cbn [step ss tbl creates unmaps qunmaps faults]. rewrite Hn1, Hp, Hbm, Hq. reflexivity. }
  clearbody w'. subst w'. unfold tbl_release in *. rewrite Et in *.
  exists {| sd := sd s1; chclosed := chclosed s1; posted := false; cleaned := true;
            streams := map lambda_close_stream (streams s1); conn_open := false; bm := None; qmap := None;
            inflight := inflight s1 |}.
  assert (Hdead : Forall (fun st => strm_dead st = true) (map lambda_close_stream (streams s1))).
  { apply Forall_forall; intros x Hx; apply in_map_iff in Hx; destruct Hx as (y & <- & Hy).
    apply dead_after_lambda; rewrite Forall_forall in B3; auto. }
  assert (Hclosed : Forall (fun st => st_incb st = false -> st_state st = c_streamClosed) (map lambda_close_stream (streams s1))).
  { apply Forall_forall; intros x Hx; apply in_map_iff in Hx; destruct Hx as (y & <- & Hy); apply closed_after_lambda. }
  destruct (c - 1 <=? 0) eqn:Ec; cbn [ss tbl unmaps qunmaps sd chclosed cleaned posted streams].
  - apply Z.leb_le in Ec. assert (c = 1) by lia. subst c.
    split; [eapply nth_error_upd_same; eassumption|].
    split; [assumption|]. split; [assumption|]. split; [reflexivity|]. split; [reflexivity|]. split; [reflexivity|].
    split; [assumption|]. split; [assumption|]. split; [rewrite map_length; assumption|].
    split.
    { intros p0 E0. injection E0 as <-. unfold refcount. cbn [tbl unmaps]. rewrite tbl_get_del_same, Et.
      split; [lia|]. split; [intros _; split; reflexivity|lia]. }
    split; [intros q E0; rewrite E0; reflexivity|]. exact W'.
  - apply Z.leb_gt in Ec.
    split; [eapply nth_error_upd_same; eassumption|].
    split; [assumption|]. split; [assumption|]. split; [reflexivity|]. split; [reflexivity|]. split; [reflexivity|].
    split; [assumption|]. split; [assumption|]. split; [rewrite map_length; assumption|].
    split.
    { intros p0 E0. injection E0 as <-. unfold refcount. cbn [tbl unmaps]. rewrite tbl_get_set_same, Et.
      split; [lia|]. split; [lia|intros _; reflexivity]. }
    split; [intros q E0; rewrite E0; reflexivity|]. exact W'.
Qed.

(* ---- "no access to the queue after the unmap": false ---- *)
Definition no_access_after_unmap_full : Prop := forall sch, faults (run sch init) = O.
(* a user thread passes Flush's state check, Close and the dispatcher's cleanup run, the thread goes on *)
Definition unmap_witness : list label := [LOpen 1 2 1; LEnter 0; LClose 0; LLambda 0; LAccess 0].
Lemma no_access_after_unmap_refuted : ~ no_access_after_unmap_full.
Proof. intros F. specialize (F unmap_witness). vm_compute in F. discriminate. Qed.

(* what does hold: without a user thread in flight at the time of the cleanup nothing faults *)
Definition quiet_label (l : label) : bool := match l with LEnter _ => false | _ => true end.
Lemma faults_need_inflight w l : faults (step w l) = faults w \/
  exists i s n, l = LAccess i /\ nth_error (ss w) i = Some s /\ inflight s = S n /\ qmap s = None.
Proof.
  destruct l as [p q n|i|i|i|i k|i k|i|i|i ev|p]; cbn [step].
  - unfold tbl_acquire. destruct (tbl_get p (tbl w)); left; reflexivity.
  - destruct (nth_error (ss w) i); left; reflexivity.
  - unfold remote_close. destruct (nth_error (ss w) i) as [s|]; [destruct (conn_open s)|]; left; reflexivity.
  - destruct (nth_error (ss w) i) as [s|]; [|left; reflexivity]. destruct (posted s); [|left; reflexivity].
    destruct (bm s); [unfold tbl_release; destruct (tbl_get z (tbl w)); [destruct (z0 - 1 <=? 0)|]|]; left; reflexivity.
  - destruct (nth_error (ss w) i) as [s|]; [|left; reflexivity]. destruct (nth_error (streams s) k) as [st|]; [|left; reflexivity].
    destruct ((st_state st =? c_streamOpened) && negb (st_incb st)); left; reflexivity.
  - destruct (nth_error (ss w) i) as [s|]; [|left; reflexivity]. destruct (nth_error (streams s) k) as [st|]; [|left; reflexivity].
    destruct (st_incb st); left; reflexivity.
  - destruct (nth_error (ss w) i) as [s|]; [|left; reflexivity]. destruct (existsb _ (streams s)); left; reflexivity.
  - destruct (nth_error (ss w) i) as [s|] eqn:E; [|left; reflexivity]. destruct (inflight s) as [|n] eqn:Ei; [left; reflexivity|].
    destruct (qmap s) eqn:Eq; [left; reflexivity|]. right. exists i, s, n. auto.
  - left. destruct (reports_remote_close ev); [|reflexivity].
    unfold remote_close. destruct (nth_error (ss w) i) as [s|]; [destruct (conn_open s)|]; reflexivity.
  - left. destruct (tbl_acquire p (tbl w) (creates w)) as [t cr]. destruct (tbl_release p t (unmaps w)) as [t' um]. reflexivity.
Qed.

Definition no_inflight (w : world) : Prop := forall i s, nth_error (ss w) i = Some s -> inflight s = O.
Lemma no_inflight_remote w i : no_inflight w -> no_inflight (remote_close w i).
Proof.
  intros N j y Hj. unfold remote_close in Hj.
  destruct (nth_error (ss w) i) as [s|] eqn:E; [|eauto]. destruct (conn_open s); [|eauto]. cbn in Hj. apply nth_error_upd in Hj.
  destruct Hj as [[_ ->]|Hj]; [|eauto]. unfold close_sess. destruct (sd s); cbn; eauto.
Qed.
Lemma no_inflight_step w l : quiet_label l = true -> no_inflight w -> no_inflight (step w l).
Proof.
  intros Hq N. destruct l as [p q n|i|i|i|i k|i k|i|i|i ev|p]; try discriminate; cbn [step]; intros j y Hj.
  - unfold tbl_acquire in Hj. destruct (tbl_get p (tbl w)); cbn in Hj;
      (apply nth_error_app_cases in Hj; destruct Hj as [Hj|Hj]; [eauto|subst y; reflexivity]).
  - destruct (nth_error (ss w) i) as [s|] eqn:E; [|eauto]. cbn in Hj. apply nth_error_upd in Hj.
    destruct Hj as [[_ ->]|Hj]; [|eauto]. unfold close_sess. destruct (sd s); cbn; eauto.
  - revert Hj. apply no_inflight_remote. assumption.
  - destruct (nth_error (ss w) i) as [s|] eqn:E; [|eauto]. destruct (posted s); [|eauto].
    destruct (match bm s with Some p => tbl_release p (tbl w) (unmaps w) | None => (tbl w, unmaps w) end) as [t um].
    cbn in Hj. apply nth_error_upd in Hj. destruct Hj as [[_ ->]|Hj]; [cbn|]; eauto.
  - destruct (nth_error (ss w) i) as [s|] eqn:E; [|eauto]. destruct (nth_error (streams s) k) as [st|]; [|eauto].
    destruct ((st_state st =? c_streamOpened) && negb (st_incb st)); [|eauto]. cbn in Hj. apply nth_error_upd in Hj.
    destruct Hj as [[_ ->]|Hj]; [cbn|]; eauto.
  - destruct (nth_error (ss w) i) as [s|] eqn:E; [|eauto]. destruct (nth_error (streams s) k) as [st|]; [|eauto].
    destruct (st_incb st); [|eauto]. cbn in Hj. apply nth_error_upd in Hj.
    destruct Hj as [[_ ->]|Hj]; [cbn|]; eauto.
  - destruct (nth_error (ss w) i) as [s|] eqn:E; [|eauto]. rewrite (N _ _ E) in Hj. eauto.
  - destruct (reports_remote_close ev); [|eauto]. revert Hj. apply no_inflight_remote. assumption.
  - destruct (tbl_acquire p (tbl w) (creates w)) as [t cr]. destruct (tbl_release p t (unmaps w)) as [t' um]. cbn in Hj. eauto.
Qed.

Theorem no_fault_without_inflight sch : forallb quiet_label sch = true -> faults (run sch init) = O.
Proof.
  intros Hq. assert (G : forall w, no_inflight w -> faults w = O -> faults (run sch w) = O /\ no_inflight (run sch w)).
  { unfold run. induction sch as [|l sch IH]; intros w N F; cbn; [auto|].
    cbn in Hq. apply andb_true_iff in Hq. destruct Hq as [Hl Hq]. apply IH; auto.
    - apply no_inflight_step; assumption.
    - destruct (faults_need_inflight w l) as [E|(i & s & n & _ & E1 & E2 & _)]; [congruence|].
      rewrite (N _ _ E1) in E2. discriminate. }
  apply G; [intros i s H; destruct i; discriminate|reflexivity].
Qed.

(* ---- a failed establishment next to established siblings ---- *)
(* the failed newSession took one reference on path p and its error path gives back exactly that one:
   no session changes, every path keeps its count, and while anybody holds p it stays mapped and in the
   table (nothing is unmapped) *)
Theorem failed_open_neutral w p :
  WInv w ->
  let w' := step w (LOpenFail p) in
  ss w' = ss w /\ (forall p', refcount p' w' = refcount p' w) /\
  (1 <= holders p (ss w) -> unmaps w' = unmaps w /\ tbl_get p (tbl w') = tbl_get p (tbl w)) /\
  (tbl_get p (tbl w) = None -> tbl_get p (tbl w') = None) /\ WInv w'.
Proof.
  intros W w'. pose proof (step_inv w (LOpenFail p) W) as W'. fold w' in W'.
  assert (Hss : ss w' = ss w).
  { unfold w'. cbn [step]. destruct (tbl_acquire p (tbl w) (creates w)) as [t cr]. destruct (tbl_release p t (unmaps w)) as [t' um]. reflexivity. }
  split; [assumption|]. split.
  { intros p'. rewrite (w_ref _ W'), (w_ref _ W), Hss. reflexivity. }
  split; [|split; [|assumption]].
  - intros Hh. pose proof (w_ref _ W p) as Wr. unfold refcount in Wr.
    unfold w'. cbn [step]. unfold tbl_acquire, tbl_release.
    destruct (tbl_get p (tbl w)) as [c|] eqn:E; [|lia].
    rewrite tbl_get_set_same. destruct (c + 1 - 1 <=? 0) eqn:Ec; [apply Z.leb_le in Ec; lia|].
    cbn. split; [reflexivity|]. rewrite tbl_get_set_same. f_equal. lia.
  - intros E. unfold w'. cbn [step]. unfold tbl_acquire, tbl_release. rewrite E, tbl_get_set_same.
    change (1 - 1 <=? 0) with true. cbn. apply tbl_get_del_same.
Qed.

(* ---- the peer's death as the dispatcher sees it ---- *)
(* Whatever the first read(2) after the peer's death returns — 0 when the peer had consumed everything,
   ECONNRESET when bytes this end wrote were still unread in its socket, data, EAGAIN — an event that
   carries EPOLLRDHUP closes the session: handleEvent tests EPOLLRDHUP before it reads. *)
Theorem peer_death_event_closes w i s ev :
  WInv w -> nth_error (ss w) i = Some s -> conn_open s = true -> e_rdhup ev = true ->
  let w' := step w (LEvent i ev) in
  exists s', nth_error (ss w') i = Some s' /\ sd s' = true /\ chclosed s' = true /\ conn_open s' = false /\
             (posted s' = true \/ cleaned s' = true) /\
             Forall (fun st => st_notified st = true) (streams s') /\ WInv w'.
Proof.
  intros W H Hc Hr w'. assert (W' : WInv w') by (apply step_inv; assumption).
  assert (Hw : w' = remote_close w i) by (unfold w'; cbn [step]; unfold reports_remote_close; rewrite Hr; reflexivity).
  rewrite Hw in *. unfold remote_close in *. rewrite H, Hc in *.
  eexists. cbn. split; [eapply nth_error_upd_same; eassumption|]. cbn.
  pose proof (sinv_close s (w_s _ W _ _ H)) as (A & B & C & D & F).
  assert (Hsd : sd (close_sess s) = true) by (unfold close_sess; destruct (sd s) eqn:E; [assumption|reflexivity]).
  destruct (B Hsd) as (B1 & B2 & B3).
  split; [exact Hsd|]. split; [exact B1|]. split; [reflexivity|]. split; [exact B2|]. split; [exact B3|exact W'].
Qed.

(* the same without EPOLLRDHUP: an EOF read closes, a read ERROR is swallowed (onReadReady returns with
   err = nil) — harmless only because the kernel reports a dead peer with EPOLLRDHUP and handleEvent looks
   at that bit first *)
Theorem read_eof_closes_read_error_is_silent w i ev :
  e_rdhup ev = false -> e_in ev = true ->
  (e_read ev = RdEOF -> step w (LEvent i ev) = remote_close w i) /\
  (e_read ev = RdErr -> step w (LEvent i ev) = w).
Proof.
  intros Hr Hi. split; intros He; cbn [step]; unfold reports_remote_close; rewrite Hr, Hi, He; reflexivity.
Qed.

(* ---- OpenStream racing Close ---- *)
(* the base world under the layer is a base run: every base invariant carries over *)
Lemma ob_winv fixed sch : forall w, WInv (ob w) -> WInv (ob (orun fixed sch w)).
Proof.
  unfold orun. induction sch as [|l sch IH]; intros w W; cbn; [assumption|]. apply IH.
  destruct l as [b|i|i]; cbn [ostep].
  - cbn. apply step_inv. assumption.
  - destruct (nth_error (ss (ob w)) i) as [s|]; [destruct (sd s)|]; assumption.
  - destruct (remove_one i (opening w)) as [op'|]; [|assumption].
    destruct (nth_error (ss (ob w)) i) as [s|]; [|assumption].
    destruct (cleaned s); [destruct fixed|destruct (sd s)]; assumption.
Qed.

(* with the repaired OpenStream no call panics, whatever the interleaving of checks, registrations,
   Close / exitErr / remote close, cleanups and everything else *)
Theorem open_after_close_safe sch : panics (orun true sch oinit) = O.
Proof.
  assert (G : forall w, panics w = O -> panics (orun true sch w) = O).
  { unfold orun. induction sch as [|l sch IH]; intros w H; cbn; [assumption|]. apply IH.
    destruct l as [b|i|i]; cbn [ostep].
    - assumption.
    - destruct (nth_error (ss (ob w)) i) as [s|]; [destruct (sd s)|]; assumption.
    - destruct (remove_one i (opening w)) as [op'|]; [|assumption].
      destruct (nth_error (ss (ob w)) i) as [s|]; [|assumption].
      destruct (cleaned s); [|destruct (sd s)]; assumption. }
  apply G. reflexivity.
Qed.

(* a registration that finds the table dropped returns the shutdown error and changes nothing else *)
Theorem open_reg_on_dropped_table w i s op' :
  remove_one i (opening w) = Some op' -> nth_error (ss (ob w)) i = Some s -> cleaned s = true ->
  let w' := ostep true w (OReg i) in
  ob w' = ob w /\ late w' = late w /\ open_errs w' = S (open_errs w) /\ panics w' = panics w /\ opening w' = op'.
Proof. intros H1 H2 H3. cbn. rewrite H1, H2, H3. cbn. auto. Qed.

(* the check itself refuses once shutdown is set *)
Theorem open_chk_after_close w i s : nth_error (ss (ob w)) i = Some s -> sd s = true ->
  let w' := ostep true w (OChk i) in opening w' = opening w /\ open_errs w' = S (open_errs w).
Proof. intros H1 H2. cbn. rewrite H1, H2. cbn. auto. Qed.

(* a stream registered late never outlives the cleanup: no late stream belongs to a session whose
   table was dropped *)
Theorem late_streams_closed_by_cleanup fixed sch j :
  In j (late (orun fixed sch oinit)) -> table_dropped (ob (orun fixed sch oinit)) j = false.
Proof.
  assert (G : forall w, (forall k, In k (late w) -> table_dropped (ob w) k = false) ->
                        forall k, In k (late (orun fixed sch w)) -> table_dropped (ob (orun fixed sch w)) k = false).
  { unfold orun. induction sch as [|l sch IH]; intros w H; cbn; [assumption|]. apply IH.
    destruct l as [b|i|i]; cbn [ostep].
    - cbn. intros k Hk. apply filter_In in Hk. destruct Hk as [_ Hk]. apply negb_true_iff in Hk. assumption.
    - destruct (nth_error (ss (ob w)) i) as [s|]; [destruct (sd s)|]; cbn; assumption.
    - destruct (remove_one i (opening w)) as [op'|]; [|assumption].
      destruct (nth_error (ss (ob w)) i) as [s|] eqn:E; [|assumption].
      destruct (cleaned s) eqn:Ec; [destruct fixed; cbn; assumption|].
      destruct (sd s); cbn; [|assumption].
      intros k [<-|Hk]; [unfold table_dropped; rewrite E; assumption|auto]. }
  apply G. intros k [].
Qed.

(* the unrepaired OpenStream (fixed = false): regression witness — a thread passes the check, the session
   is closed and cleaned up, the thread registers: assignment to entry in nil map *)
Definition open_race_witness : list olabel :=
  [OBase (LOpen 1 2 1); OChk 0; OBase (LClose 0); OBase (LLambda 0); OReg 0].
Lemma open_racing_close_unrepaired_panics : ~ (forall sch, panics (orun false sch oinit) = O).
Proof. intros F. specialize (F open_race_witness). vm_compute in F. discriminate. Qed.
Lemma open_race_witness_repaired :
  let w := orun true open_race_witness oinit in panics w = O /\ open_errs w = 1%nat /\ opening w = [] /\ late w = [].
Proof. vm_compute. repeat split. Qed.

(* ---- slices held by a session's streams ---- *)
Lemma total_held_split (f : nat * nat -> bool) l :
  total_held l = (total_held (filter f l) + total_held (filter (fun x => negb (f x)) l))%nat.
Proof. unfold total_held. induction l as [|x l IH]; [reflexivity|]. cbn. destruct (f x); cbn; lia. Qed.
Lemma total_held_drop k : forall l i n, nth_error l k = Some (i, n) -> (total_held (drop_nth k l) + n = total_held l)%nat.
Proof. unfold total_held. induction k as [|k IH]; intros [|x l] i n H; cbn in *; try discriminate; [injection H as ->; cbn; lia|]. specialize (IH _ _ _ H). lia. Qed.
Lemma in_drop_nth {A} k : forall (l : list A) x, In x (drop_nth k l) -> In x l.
Proof. induction k as [|k IH]; intros [|y l] x H; cbn in *; auto. destruct H as [H|H]; auto. Qed.

Record PInv (w : pworld) : Prop := {
  p_base : WInv (pb w);
  p_live : forall h, In h (holds w) -> table_dropped (pb w) (fst h) = false;
  p_cons : taken w = (returned w + total_held (holds w))%nat }.

Lemma pinv_init : PInv pinit.
Proof. constructor; cbn; [apply winv_init|intros h []|reflexivity]. Qed.

Lemma total_held_cons x l : total_held (x :: l) = (snd x + total_held l)%nat.
Proof. reflexivity. Qed.

Lemma pstep_inv w l : PInv w -> PInv (pstep code_ok w l).
Proof.
  intros [B L C]. destruct l as [b|i n|k|k]; cbn [pstep].
  - constructor; cbn [pb holds taken returned clean_recycles close_exit_recycles code_ok].
    + apply step_inv. assumption.
    + intros h Hh. apply filter_In in Hh. destruct Hh as [_ Hh]. apply negb_true_iff in Hh. assumption.
    + rewrite C. rewrite (total_held_split (fun x => table_dropped (step (pb w) b) (fst x)) (holds w)). lia.
  - destruct (nth_error (ss (pb w)) i) as [s|] eqn:E; [|constructor; assumption].
    destruct (cleaned s) eqn:Ec; [constructor; assumption|].
    constructor; cbn [pb holds taken returned clean_recycles close_exit_recycles code_ok]; auto.
    + intros h [<-|Hh]; [cbn [fst]; unfold table_dropped; rewrite E; assumption|auto].
    + rewrite C, total_held_cons. cbn [snd]. lia.
  - destruct (nth_error (holds w) k) as [[i n]|] eqn:E; [|constructor; assumption].
    constructor; cbn [pb holds taken returned clean_recycles close_exit_recycles code_ok]; auto.
    + intros h Hh. apply L. eapply in_drop_nth. eassumption.
    + rewrite C. pose proof (total_held_drop _ _ _ _ E). lia.
  - destruct (nth_error (holds w) k) as [[i n]|] eqn:E; [|constructor; assumption].
    destruct (nth_error (ss (pb w)) i) as [s|]; [|constructor; assumption].
    destruct (sd s); [|constructor; assumption].
    constructor; cbn [pb holds taken returned clean_recycles close_exit_recycles code_ok]; auto.
    + intros h Hh. apply L. eapply in_drop_nth. eassumption.
    + rewrite C. pose proof (total_held_drop _ _ _ _ E). lia.
Qed.

Lemma pinv_run sch : forall w, PInv w -> PInv (prun code_ok sch w).
Proof. unfold prun. induction sch as [|l sch IH]; intros w P; cbn; [assumption|]. apply IH, pstep_inv, P. Qed.

(* every slice ever taken is back in the free lists or held by a stream of a session whose cleanup has
   not run yet — whatever the manager's reference count: it need not reach 0 for the slices to return *)
Theorem slices_conserved sch :
  let w := prun code_ok sch pinit in
  taken w = (returned w + total_held (holds w))%nat /\
  (forall h, In h (holds w) -> table_dropped (pb w) (fst h) = false) /\ WInv (pb w).
Proof. intros w. destruct (pinv_run sch pinit pinv_init) as [B L C]. auto. Qed.

Lemma filter_all_true {A} (f : A -> bool) l : (forall x, In x l -> f x = true) -> filter f l = l.
Proof. induction l as [|x l IH]; intros H; cbn; [reflexivity|]. rewrite (H x (or_introl eq_refl)). f_equal. apply IH. intros y Hy. apply H. right. assumption. Qed.
Lemma filter_all_false {A} (f : A -> bool) l : (forall x, In x l -> f x = false) -> filter f l = [].
Proof. induction l as [|x l IH]; intros H; cbn; [reflexivity|]. rewrite (H x (or_introl eq_refl)). apply IH. intros y Hy. apply H. right. assumption. Qed.

Lemma dropped_close b i j : table_dropped (step b (LClose i)) j = table_dropped b j.
Proof.
  cbn [step]. destruct (nth_error (ss b) i) as [s|] eqn:E; [|reflexivity].
  unfold table_dropped, set_sess. cbn. destruct (Nat.eq_dec i j) as [<-|Hne].
  - rewrite (nth_error_upd_same _ _ _ _ E), E. unfold close_sess. destruct (sd s); reflexivity.
  - rewrite nth_error_upd_other by assumption. reflexivity.
Qed.
Lemma dropped_lambda_other b i j : i <> j -> table_dropped (step b (LLambda i)) j = table_dropped b j.
Proof.
  intros Hne. cbn [step]. destruct (nth_error (ss b) i) as [s|] eqn:E; [|reflexivity].
  destruct (posted s); [|reflexivity].
  destruct (match bm s with Some p => tbl_release p (tbl b) (unmaps b) | None => (tbl b, unmaps b) end) as [t um].
  unfold table_dropped. cbn. rewrite nth_error_upd_other by assumption. reflexivity.
Qed.
Lemma dropped_lambda_self b i s : nth_error (ss b) i = Some s -> posted s = true -> table_dropped (step b (LLambda i)) i = true.
Proof.
  intros E Hp. cbn [step]. rewrite E, Hp.
  destruct (match bm s with Some p => tbl_release p (tbl b) (unmaps b) | None => (tbl b, unmaps b) end) as [t um].
  unfold table_dropped. cbn. rewrite (nth_error_upd_same _ _ _ _ E). reflexivity.
Qed.

Lemma held_by_cons a n j l : held_by j ((a, n) :: l) = ((if Nat.eqb a j then n else O) + held_by j l)%nat.
Proof. unfold held_by. cbn [filter fst]. destruct (Nat.eqb a j); reflexivity. Qed.
Lemma held_by_filter_other i j l : i <> j ->
  held_by j (filter (fun x => negb (Nat.eqb (fst x) i)) l) = held_by j l.
Proof.
  intros Hne. induction l as [|[a n] l IH]; [reflexivity|]. cbn [filter fst]. rewrite held_by_cons.
  destruct (Nat.eqb a i) eqn:Ea; cbn [negb].
  - apply Nat.eqb_eq in Ea. subst a. destruct (Nat.eqb i j) eqn:E2; [apply Nat.eqb_eq in E2; congruence|]. rewrite IH. reflexivity.
  - rewrite held_by_cons, IH. reflexivity.
Qed.
Lemma held_by_filter_self i l : held_by i (filter (fun x => negb (Nat.eqb (fst x) i)) l) = O.
Proof.
  induction l as [|[a n] l IH]; [reflexivity|]. cbn [filter fst].
  destruct (Nat.eqb a i) eqn:Ea; cbn [negb]; [assumption|]. rewrite held_by_cons, Ea, IH. reflexivity.
Qed.

(* the cleanup of a dead session, from any invariant state: every slice its streams held is back in the
   free lists, the other sessions' holdings are untouched, nothing is taken — and this does not depend on
   the buffer manager being released: it may live on with any number of other references *)
Theorem dead_session_returns_slices w i s :
  PInv w -> nth_error (ss (pb w)) i = Some s -> cleaned s = false ->
  let w' := pstep code_ok (pstep code_ok w (PBase (LClose i))) (PBase (LLambda i)) in
  held_by i (holds w') = O /\
  returned w' = (returned w + held_by i (holds w))%nat /\
  (forall j, i <> j -> held_by j (holds w') = held_by j (holds w)) /\
  taken w' = taken w /\ PInv w'.
Proof.
  intros P E Hc w'. assert (P' : PInv w') by (apply pstep_inv, pstep_inv, P).
  destruct P as [B L C].
  set (b1 := step (pb w) (LClose i)). set (b2 := step b1 (LLambda i)).
  assert (E1 : nth_error (ss b1) i = Some (close_sess s)).
  { unfold b1. cbn [step]. rewrite E. unfold set_sess. cbn. eapply nth_error_upd_same. eassumption. }
  assert (Hp : posted (close_sess s) = true).
  { pose proof (sinv_close s (w_s _ B _ _ E)) as (A0 & B0 & C0 & D0 & F0).
    assert (Hsd : sd (close_sess s) = true) by (unfold close_sess; destruct (sd s) eqn:E0; [assumption|reflexivity]).
    assert (Hcl : cleaned (close_sess s) = false) by (unfold close_sess; destruct (sd s); assumption).
    destruct (B0 Hsd) as (_ & [H|H] & _); [assumption|congruence]. }
  (* the first step changes no holding *)
  set (w1 := pstep code_ok w (PBase (LClose i))) in *.
  assert (Hb1 : pb w1 = b1) by reflexivity.
  assert (Ht1 : taken w1 = taken w) by reflexivity.
  assert (F : forall x, In x (holds w) -> table_dropped b1 (fst x) = false) by (intros x Hx; unfold b1; rewrite dropped_close; auto).
  assert (Hh1 : holds w1 = holds w).
  { unfold w1. cbn [pstep holds]. fold b1. apply filter_all_true. intros x Hx. rewrite (F x Hx). reflexivity. }
  assert (Hr1 : returned w1 = returned w).
  { unfold w1. cbn [pstep returned clean_recycles close_exit_recycles code_ok]. fold b1. rewrite (filter_all_false _ _ F). cbn. lia. }
  clearbody w1.
  assert (Hd : forall x, In x (holds w) -> table_dropped b2 (fst x) = Nat.eqb (fst x) i).
  { intros x Hx. destruct (Nat.eqb (fst x) i) eqn:Ex.
    - apply Nat.eqb_eq in Ex. rewrite Ex. unfold b2. eapply dropped_lambda_self; eassumption.
    - apply Nat.eqb_neq in Ex. unfold b2. rewrite dropped_lambda_other by congruence. unfold b1. rewrite dropped_close. auto. }
  assert (Hh2 : holds w' = filter (fun x => negb (Nat.eqb (fst x) i)) (holds w)).
  { unfold w'. cbn [pstep holds]. rewrite Hb1, Hh1. fold b2. apply filter_ext_in. intros x Hx. rewrite (Hd x Hx). reflexivity. }
  assert (Hr2 : returned w' = (returned w + held_by i (holds w))%nat).
  { unfold w'. cbn [pstep returned clean_recycles close_exit_recycles code_ok]. rewrite Hb1, Hh1, Hr1. fold b2. f_equal. unfold held_by. f_equal.
    apply filter_ext_in. intros x Hx. apply Hd. assumption. }
  split; [rewrite Hh2; apply held_by_filter_self|]. split; [assumption|].
  split; [intros j Hne; rewrite Hh2; apply held_by_filter_other; assumption|].
  split; [unfold w'; cbn [pstep taken]; assumption|assumption].
Qed.

(* regression: a clean() that returns early once the session is closed ("a closed session releases its
   share memory as a whole") loses the slices while a sibling keeps the manager alive *)
Definition slices_witness : list plabel :=
  [PBase (LOpen 7 100 1); PBase (LOpen 7 101 1); PTake 0 50; PTake 1 5; PBase (LRemote 0); PBase (LLambda 0)].
Lemma early_return_loses_slices :
  ~ (forall sch, let w := prun code_early_return_clean sch pinit in taken w = (returned w + total_held (holds w))%nat).
Proof. intros F. specialize (F slices_witness). vm_compute in F. discriminate. Qed.
Lemma slices_witness_ok :
  let w := prun code_ok slices_witness pinit in
  taken w = 55%nat /\ returned w = 50%nat /\ holds w = [(1%nat, 5%nat)] /\ refcount 7 (pb w) = 1.
Proof. vm_compute. repeat split. Qed.

(* regression: a Flush whose close-notified exit returns at once (skipping the common buf.recycle()) — the
   session-level close notifies first and recycles later, so the woken Flush leaves nothing for the cleanup *)
Definition flush_close_witness : list plabel :=
  [PBase (LOpen 7 100 1); PBase (LOpen 7 101 1); PTake 0 8; PBase (LRemote 0); PFlushClosedExit 0; PBase (LLambda 0)].
Lemma flush_close_exit_loses_slices :
  ~ (forall sch, let w := prun code_flush_returns_on_close sch pinit in taken w = (returned w + total_held (holds w))%nat).
Proof. intros F. specialize (F flush_close_witness). vm_compute in F. discriminate. Qed.
Lemma flush_close_witness_ok :
  let w := prun code_ok flush_close_witness pinit in
  taken w = 8%nat /\ returned w = 8%nat /\ holds w = [] /\ refcount 7 (pb w) = 1.
Proof. vm_compute. repeat split. Qed.
