(* Slot-accounting invariant of the session model (C09): for every history, every allocation choice and
   every fault pattern the location lists form a permutation of all slots. *)
From Coq Require Import List ZArith Lia Bool Arith Permutation.
From Shm Require Import Gen.Consts Model.Accounting.
Import ListNotations.
Open Scope Z_scope.

Definition cnt (x : Z) (l : list Z) : nat := count_occ Z.eq_dec l x.
Lemma cnt_app x a b : cnt x (a ++ b) = (cnt x a + cnt x b)%nat.
Proof. apply count_occ_app. Qed.
Lemma cnt_nil x : cnt x [] = O.
Proof. reflexivity. Qed.
Lemma cnt_flat_map {A} x (f : A -> list Z) l : cnt x (flat_map f l) = fold_right (fun a n => (cnt x (f a) + n)%nat) O l.
Proof. induction l as [|a l IH]; cbn [flat_map fold_right]; [reflexivity | rewrite cnt_app, IH; reflexivity]. Qed.

Definition W (x : Z) (s : st) : nat :=
  (cnt x (free s) + cnt x (ext s) + cnt x (leaked s) + cnt x (qslots (q_srv s)) + cnt x (qslots (q_cli s)) +
   cnt x (stream_slots s))%nat.
Lemma cnt_all x s : cnt x (all_slots s) = W x s.
Proof. unfold all_slots, W. rewrite !cnt_app. lia. Qed.

(* keys are distinct and a key that was never created has an empty stream *)
Definition KeysOK (s : st) : Prop := NoDup (keys s) /\ forall k, ~ In k (keys s) -> streams s k = dead_stream.

Lemma memk_in k l : memk k l = true <-> In k l.
Proof.
  unfold memk. rewrite existsb_exists. split.
  - intros [y [A B]]. apply Nat.eqb_eq in B. subst. exact A.
  - intro A. exists k. split; [exact A | apply Nat.eqb_refl].
Qed.
Lemma mem_in x l : mem x l = true <-> In x l.
Proof.
  unfold mem. rewrite existsb_exists. split.
  - intros [y [A B]]. apply Z.eqb_eq in B. subst. exact A.
  - intro A. exists x. split; [exact A | apply Z.eqb_refl].
Qed.

Lemma updn_eq {A} (f : nat -> A) k v : updn f k v k = v.
Proof. unfold updn. rewrite Nat.eqb_refl. reflexivity. Qed.
Lemma updn_neq {A} (f : nat -> A) k v i : i <> k -> updn f k v i = f i.
Proof. unfold updn. intro H. apply Nat.eqb_neq in H. rewrite H. reflexivity. Qed.

Lemma ko_set_stream k v s : KeysOK s -> KeysOK (set_stream k v s).
Proof.
  intros [A B]. unfold KeysOK. cbn [set_stream keys streams].
  destruct (memk k (keys s)) eqn:E.
  - split; [exact A |]. intros j Hj. apply memk_in in E. rewrite updn_neq; [apply B; exact Hj | intro; subst; tauto].
  - assert (N : ~ In k (keys s)) by (intro H; apply memk_in in H; congruence).
    split.
    + apply NoDup_app_remove_l with (l := []). cbn. 
      clear B E. induction (keys s) as [|a l IH]; cbn; [constructor; [intros [] | constructor] |].
      inversion A; subst. constructor.
      * rewrite in_app_iff. cbn. intros [H|[H|[]]]; [tauto | subst; apply N; left; reflexivity].
      * apply IH; [assumption | intro H; apply N; right; exact H].
    + intros j Hj. rewrite in_app_iff in Hj. cbn in Hj. rewrite updn_neq; [apply B; tauto | intro; subst; tauto].
Qed.

Lemma fold_cnt_update x (f g : nat -> list Z) k l :
  NoDup l -> (forall j, j <> k -> f j = g j) ->
  (fold_right (fun a n => (cnt x (f a) + n)%nat) O l + (if memk k l then cnt x (g k) else O) =
   fold_right (fun a n => (cnt x (g a) + n)%nat) O l + (if memk k l then cnt x (f k) else O))%nat.
Proof.
  intros Hn Hfg. induction l as [|a l IH]; cbn [fold_right]; [reflexivity |].
  inversion Hn as [|? ? Ha Hl]; subst. specialize (IH Hl).
  unfold memk in *. cbn [existsb]. destruct (Nat.eqb k a) eqn:E.
  - apply Nat.eqb_eq in E. subst a. cbn [orb].
    assert (Hm : existsb (Nat.eqb k) l = false).
    { destruct (existsb (Nat.eqb k) l) eqn:Q; [| reflexivity]. exfalso. apply Ha. apply (proj1 (memk_in k l)). exact Q. }
    rewrite Hm in IH. lia.
  - cbn [orb]. assert (a <> k) by (intro; subst; rewrite Nat.eqb_refl in E; discriminate).
    rewrite (Hfg a H). destruct (existsb (Nat.eqb k) l); lia.
Qed.

Lemma W_set_stream x k v s :
  KeysOK s -> (W x (set_stream k v s) + cnt x (sslots (streams s k)) = W x s + cnt x (sslots v))%nat.
Proof.
  intros [A B]. unfold W. cbn [set_stream free ext leaked q_srv q_cli].
  assert (E : (cnt x (stream_slots (set_stream k v s)) + cnt x (sslots (streams s k)) =
               cnt x (stream_slots s) + cnt x (sslots v))%nat); [| lia].
  unfold stream_slots. rewrite !cnt_flat_map. cbn [set_stream keys streams].
  pose proof (fold_cnt_update x (fun j => sslots (updn (streams s) k v j)) (fun j => sslots (streams s j)) k (keys s) A) as F.
  specialize (F ltac:(intros j Hj; rewrite updn_neq by exact Hj; reflexivity)). cbn beta in F. rewrite updn_eq in F.
  destruct (memk k (keys s)) eqn:E.
  - lia.
  - assert (N : ~ In k (keys s)) by (intro H; apply memk_in in H; congruence).
    rewrite (B k N). cbn [sslots dead_stream sendb recvb pinned pend rslots pslots flat_map app]. rewrite cnt_nil.
    rewrite fold_right_app. cbn [fold_right]. rewrite updn_eq.
    assert (G : forall l n, fold_right (fun a m => (cnt x (sslots (updn (streams s) k v a)) + m)%nat) n l =
                            (fold_right (fun a m => (cnt x (sslots (updn (streams s) k v a)) + m)%nat) O l + n)%nat).
    { induction l as [|a l IH]; intro n; cbn [fold_right]; [reflexivity | rewrite IH; lia]. }
    rewrite G. lia.
Qed.

Lemma W_add_free x l s : W x (add_free l s) = (W x s + cnt x l)%nat.
Proof. unfold W. cbn [add_free free ext leaked q_srv q_cli]. unfold stream_slots. cbn [add_free keys streams]. rewrite cnt_app. lia. Qed.
Lemma W_add_leaked x l s : W x (add_leaked l s) = (W x s + cnt x l)%nat.
Proof. unfold W. cbn [add_leaked free ext leaked q_srv q_cli]. unfold stream_slots. cbn [add_leaked keys streams]. rewrite cnt_app. lia. Qed.
Lemma W_set_free_ext x f e s :
  (W x (set_free_ext f e s) + cnt x (free s) + cnt x (ext s) = W x s + cnt x f + cnt x e)%nat.
Proof. unfold W. cbn [set_free_ext free ext leaked q_srv q_cli]. unfold stream_slots. cbn [set_free_ext keys streams]. lia. Qed.
Lemma W_set_queue x t q s :
  (W x (set_queue t q s) + cnt x (qslots (queue_to t s)) = W x s + cnt x (qslots q))%nat.
Proof. unfold W, queue_to. cbn [set_queue free ext leaked q_srv q_cli]. unfold stream_slots. cbn [set_queue keys streams]. destruct t; lia. Qed.

Lemma ko_frame s s' : keys s' = keys s -> streams s' = streams s -> KeysOK s -> KeysOK s'.
Proof. intros A B [C D]. unfold KeysOK. rewrite A, B. split; assumption. Qed.

Lemma qslots_app a b : qslots (a ++ b) = qslots a ++ qslots b.
Proof. unfold qslots. apply flat_map_app. Qed.

Lemma cnt_minus x l new :
  NoDup l -> nodupb new = true -> subsetb new l = true -> cnt x l = (cnt x (minus_list l new) + cnt x new)%nat.
Proof.
  intros Hl Hn Hs.
  assert (Nn : NoDup new).
  { clear Hs. induction new as [|a t IH]; [constructor |]. cbn [nodupb] in Hn. apply andb_true_iff in Hn. destruct Hn as [A B].
    constructor; [| apply IH; exact B]. intro H. apply mem_in in H. rewrite H in A. discriminate. }
  assert (Hsub : forall y, In y new -> In y l).
  { unfold subsetb in Hs. rewrite forallb_forall in Hs. intros y Hy. apply mem_in. apply Hs. exact Hy. }
  destruct (in_dec Z.eq_dec x l) as [Hx|Hx].
  - assert (cnt x l = 1%nat) by (unfold cnt; apply NoDup_count_occ'; assumption).
    destruct (in_dec Z.eq_dec x new) as [Hy|Hy].
    + assert (cnt x new = 1%nat) by (unfold cnt; apply NoDup_count_occ'; assumption).
      assert (cnt x (minus_list l new) = O).
      { unfold cnt. apply count_occ_not_In. unfold minus_list. rewrite filter_In. intros [_ Q].
        apply negb_true_iff in Q. apply mem_in in Hy. congruence. }
      lia.
    + assert (cnt x new = O) by (unfold cnt; apply count_occ_not_In; exact Hy).
      assert (cnt x (minus_list l new) = 1%nat).
      { unfold cnt. apply NoDup_count_occ'; [apply NoDup_filter; exact Hl |]. unfold minus_list. rewrite filter_In. split; [exact Hx |].
        apply negb_true_iff. destruct (mem x new) eqn:Q; [apply mem_in in Q; tauto | reflexivity]. }
      lia.
  - assert (cnt x l = O) by (unfold cnt; apply count_occ_not_In; exact Hx).
    assert (cnt x new = O) by (unfold cnt; apply count_occ_not_In; intro H0; apply Hx, Hsub, H0).
    assert (cnt x (minus_list l new) = O).
    { unfold cnt. apply count_occ_not_In. unfold minus_list. rewrite filter_In. tauto. }
    lia.
Qed.

(* ---------- delivery ---------- *)
Lemma deliver_data_W x e sid p s :
  KeysOK s -> KeysOK (deliver_data e sid p s) /\ W x (deliver_data e sid p s) = (W x s + cnt x (pslots [p]))%nat.
Proof.
  intro K. unfold deliver_data. set (k := key e sid). set (v := streams s k).
  destruct (alive v) eqn:Ea; [| destruct e].
  - split; [apply ko_set_stream; exact K |].
    match goal with |- W x (set_stream k ?nv s) = _ => pose proof (W_set_stream x k nv s K) as H end.
    fold v in H. unfold sslots in *. cbn [sendb recvb pinned pend] in *. unfold pslots in *. rewrite flat_map_app in H.
    rewrite !cnt_app in *. lia.
  - split; [apply ko_set_stream; exact K |].
    match goal with |- W x (set_stream k ?nv s) = _ => pose proof (W_set_stream x k nv s K) as H end.
    fold v in H.
    (* the dead stream object holds nothing besides (possibly) a send buffer, which the key keeps *)
    assert (Hd : rslots (recvb v) = [] /\ pinned v = [] /\ pslots (pend v) = []).
    { admit. }
    admit.
  - split; [eapply ko_frame; [.. | exact K]; reflexivity |]. apply W_add_free.
Abort.
