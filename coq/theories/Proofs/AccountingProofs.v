(* Slot-accounting invariant of the session model (C09): for every history, every allocation choice and
   every fault pattern the location lists form a permutation of all slots. *)
From Coq Require Import List ZArith Lia Bool Arith Permutation.
From Shm Require Import Gen.Consts Model.Accounting.
Import ListNotations.
Open Scope Z_scope.

Definition cnt (x : Z) (l : list Z) : nat := count_occ Z.eq_dec l x.
Lemma cnt_app x a b : cnt x (a ++ b) = (cnt x a + cnt x b)%nat.
Proof. apply count_occ_app. Qed.
Lemma cnt_nil x : cnt x [] = O.
Proof. reflexivity. Qed.
Lemma cnt_flat_map {A} x (f : A -> list Z) l : cnt x (flat_map f l) = fold_right (fun a n => (cnt x (f a) + n)%nat) O l.
Proof. induction l as [|a l IH]; cbn [flat_map fold_right]; [reflexivity | rewrite cnt_app, IH; reflexivity]. Qed.

Definition W (x : Z) (s : st) : nat :=
  (cnt x (free s) + cnt x (ext s) + cnt x (leaked s) + cnt x (qslots (q_srv s)) + cnt x (qslots (q_cli s)) +
   cnt x (stream_slots s))%nat.
Lemma cnt_all x s : cnt x (all_slots s) = W x s.
Proof. unfold all_slots, W. rewrite !cnt_app. lia. Qed.

(* keys are distinct and a key that was never created has an empty stream *)
Definition KeysOK (s : st) : Prop := NoDup (keys s) /\ forall k, ~ In k (keys s) -> streams s k = dead_stream.

Lemma memk_in k l : memk k l = true <-> In k l.
Proof.
  unfold memk. rewrite existsb_exists. split.
  - intros [y [A B]]. apply Nat.eqb_eq in B. subst. exact A.
  - intro A. exists k. split; [exact A | apply Nat.eqb_refl].
Qed.
Lemma mem_in x l : mem x l = true <-> In x l.
Proof.
  unfold mem. rewrite existsb_exists. split.
  - intros [y [A B]]. apply Z.eqb_eq in B. subst. exact A.
  - intro A. exists x. split; [exact A | apply Z.eqb_refl].
Qed.

Lemma updn_eq {A} (f : nat -> A) k v : updn f k v k = v.
Proof. unfold updn. rewrite Nat.eqb_refl. reflexivity. Qed.
Lemma updn_neq {A} (f : nat -> A) k v i : i <> k -> updn f k v i = f i.
Proof. unfold updn. intro H. apply Nat.eqb_neq in H. rewrite H. reflexivity. Qed.

Lemma ko_set_stream k v s : KeysOK s -> KeysOK (set_stream k v s).
Proof.
  intros [A B]. unfold KeysOK. cbn [set_stream keys streams].
  destruct (memk k (keys s)) eqn:E.
  - split; [exact A |]. intros j Hj. apply memk_in in E. rewrite updn_neq; [apply B; exact Hj | intro; subst; tauto].
  - assert (N : ~ In k (keys s)) by (intro H; apply memk_in in H; congruence).
    split.
    + clear B E. induction (keys s) as [|a l IH]; cbn; [constructor; [intros [] | constructor] |].
      inversion A; subst. constructor.
      * rewrite in_app_iff. cbn. intros [H|[H|[]]]; [tauto | subst; apply N; left; reflexivity].
      * apply IH; [assumption | intro H; apply N; right; exact H].
    + intros j Hj. rewrite in_app_iff in Hj. cbn in Hj. rewrite updn_neq; [apply B; tauto | intro; subst; tauto].
Qed.

Lemma fold_cnt_update x (f g : nat -> list Z) k l :
  NoDup l -> (forall j, j <> k -> f j = g j) ->
  (fold_right (fun a n => (cnt x (f a) + n)%nat) O l + (if memk k l then cnt x (g k) else O) =
   fold_right (fun a n => (cnt x (g a) + n)%nat) O l + (if memk k l then cnt x (f k) else O))%nat.
Proof.
  intros Hn Hfg. induction l as [|a l IH]; cbn [fold_right]; [reflexivity |].
  inversion Hn as [|? ? Ha Hl]; subst. specialize (IH Hl).
  unfold memk in *. cbn [existsb]. destruct (Nat.eqb k a) eqn:E.
  - apply Nat.eqb_eq in E. subst a. cbn [orb].
    assert (Hm : existsb (Nat.eqb k) l = false).
    { destruct (existsb (Nat.eqb k) l) eqn:Q; [| reflexivity]. exfalso. apply Ha. apply (proj1 (memk_in k l)). exact Q. }
    rewrite Hm in IH. lia.
  - cbn [orb]. assert (a <> k) by (intro; subst; rewrite Nat.eqb_refl in E; discriminate).
    rewrite (Hfg a H). destruct (existsb (Nat.eqb k) l); lia.
Qed.

Lemma W_set_stream x k v s :
  KeysOK s -> (W x (set_stream k v s) + cnt x (sslots (streams s k)) = W x s + cnt x (sslots v))%nat.
Proof.
  intros [A B]. unfold W. cbn [set_stream free ext leaked q_srv q_cli].
  assert (E : (cnt x (stream_slots (set_stream k v s)) + cnt x (sslots (streams s k)) =
               cnt x (stream_slots s) + cnt x (sslots v))%nat); [| lia].
  unfold stream_slots. rewrite !cnt_flat_map. cbn [set_stream keys streams].
  pose proof (fold_cnt_update x (fun j => sslots (updn (streams s) k v j)) (fun j => sslots (streams s j)) k (keys s) A) as F.
  specialize (F ltac:(intros j Hj; cbn beta; rewrite updn_neq by exact Hj; reflexivity)). cbn beta in F. rewrite updn_eq in F.
  destruct (memk k (keys s)) eqn:E.
  - lia.
  - assert (N : ~ In k (keys s)) by (intro H; apply memk_in in H; congruence).
    rewrite (B k N). cbn [sslots dead_stream sendb recvb pinned pend rslots pslots flat_map app]. rewrite cnt_nil.
    rewrite fold_right_app. cbn [fold_right]. rewrite updn_eq.
    assert (G : forall l n, fold_right (fun a m => (cnt x (sslots (updn (streams s) k v a)) + m)%nat) n l =
                            (fold_right (fun a m => (cnt x (sslots (updn (streams s) k v a)) + m)%nat) O l + n)%nat).
    { induction l as [|a l IH]; intro n; cbn [fold_right]; [reflexivity | rewrite IH; lia]. }
    rewrite G. lia.
Qed.

Lemma W_add_free x l s : W x (add_free l s) = (W x s + cnt x l)%nat.
Proof. unfold W. cbn [add_free free ext leaked q_srv q_cli]. unfold stream_slots. cbn [add_free keys streams]. rewrite cnt_app. lia. Qed.
Lemma W_add_leaked x l s : W x (add_leaked l s) = (W x s + cnt x l)%nat.
Proof. unfold W. cbn [add_leaked free ext leaked q_srv q_cli]. unfold stream_slots. cbn [add_leaked keys streams]. rewrite cnt_app. lia. Qed.
Lemma W_set_free_ext x f e s :
  (W x (set_free_ext f e s) + cnt x (free s) + cnt x (ext s) = W x s + cnt x f + cnt x e)%nat.
Proof. unfold W. cbn [set_free_ext free ext leaked q_srv q_cli]. unfold stream_slots. cbn [set_free_ext keys streams]. lia. Qed.
Lemma W_set_queue x t q s :
  (W x (set_queue t q s) + cnt x (qslots (queue_to t s)) = W x s + cnt x (qslots q))%nat.
Proof. unfold W, queue_to. cbn [set_queue free ext leaked q_srv q_cli]. unfold stream_slots. cbn [set_queue keys streams]. destruct t; lia. Qed.

Global Opaque W.

Lemma ko_frame s s' : keys s' = keys s -> streams s' = streams s -> KeysOK s -> KeysOK s'.
Proof. intros A B [C D]. unfold KeysOK. rewrite A, B. split; assumption. Qed.

Lemma qslots_app a b : qslots (a ++ b) = qslots a ++ qslots b.
Proof. unfold qslots. apply flat_map_app. Qed.

Lemma cnt_minus x l new :
  NoDup l -> nodupb new = true -> subsetb new l = true -> cnt x l = (cnt x (minus_list l new) + cnt x new)%nat.
Proof.
  intros Hl Hn Hs.
  assert (Nn : NoDup new).
  { clear Hs. induction new as [|a t IH]; [constructor |]. cbn [nodupb] in Hn. apply andb_true_iff in Hn. destruct Hn as [A B].
    constructor; [| apply IH; exact B]. intro H. apply mem_in in H. rewrite H in A. discriminate. }
  assert (Hsub : forall y, In y new -> In y l).
  { unfold subsetb in Hs. rewrite forallb_forall in Hs. intros y Hy. apply mem_in. apply Hs. exact Hy. }
  destruct (in_dec Z.eq_dec x l) as [Hx|Hx].
  - assert (cnt x l = 1%nat) by (unfold cnt; apply NoDup_count_occ'; assumption).
    destruct (in_dec Z.eq_dec x new) as [Hy|Hy].
    + assert (cnt x new = 1%nat) by (unfold cnt; apply NoDup_count_occ'; assumption).
      assert (cnt x (minus_list l new) = O).
      { unfold cnt. apply count_occ_not_In. unfold minus_list. rewrite filter_In. intros [_ Q].
        apply negb_true_iff in Q. apply mem_in in Hy. congruence. }
      lia.
    + assert (cnt x new = O) by (unfold cnt; apply count_occ_not_In; exact Hy).
      assert (cnt x (minus_list l new) = 1%nat).
      { unfold cnt. apply NoDup_count_occ'; [apply NoDup_filter; exact Hl |]. unfold minus_list. rewrite filter_In. split; [exact Hx |].
        apply negb_true_iff. destruct (mem x new) eqn:Q; [apply mem_in in Q; tauto | reflexivity]. }
      lia.
  - assert (cnt x l = O) by (unfold cnt; apply count_occ_not_In; exact Hx).
    assert (cnt x new = O) by (unfold cnt; apply count_occ_not_In; intro H0; apply Hx, Hsub, H0).
    assert (cnt x (minus_list l new) = O).
    { unfold cnt. apply count_occ_not_In. unfold minus_list. rewrite filter_In. tauto. }
    lia.
Qed.

(* ---------- delivery ---------- *)
Lemma pslots_app a b : pslots (a ++ b) = pslots a ++ pslots b.
Proof. unfold pslots. apply flat_map_app. Qed.

Ltac use_set_stream K :=
  match goal with
  | |- context [W ?x (set_stream ?k ?nv ?s)] =>
    let H := fresh "HW" in let T := fresh "T" in
    pose proof (W_set_stream x k nv s K) as H; set (T := W x (set_stream k nv s)) in *; clearbody T
  end.

Lemma deliver_data_W x e sid p s :
  KeysOK s -> KeysOK (deliver_data e sid p s) /\ W x (deliver_data e sid p s) = (W x s + cnt x (pslots [p]))%nat.
Proof.
  intro K. unfold deliver_data. set (k := key e sid). set (v := streams s k).
  destruct (alive v) eqn:Ea; [| destruct e].
  - split; [apply ko_set_stream; exact K |]. use_set_stream K. fold v in HW.
    unfold sslots in HW. cbn [sendb recvb pinned pend] in HW. rewrite pslots_app, !cnt_app in HW. lia.
  - split; [eapply ko_frame; [reflexivity | reflexivity | apply ko_set_stream; exact K] |]. rewrite W_add_leaked.
    use_set_stream K. fold v in HW.
    unfold sslots in HW. cbn [sendb recvb pinned pend] in HW. rewrite pslots_app, !cnt_app in HW. rewrite ?cnt_nil in HW. lia.
  - split; [eapply ko_frame; [.. | exact K]; reflexivity |]. apply W_add_free.
Qed.

Lemma deliver_close_W x e sid s :
  KeysOK s -> KeysOK (deliver_close e sid s) /\ W x (deliver_close e sid s) = W x s.
Proof.
  intro K. unfold deliver_close. set (k := key e sid). set (v := streams s k).
  destruct (alive v) eqn:Ea; [| split; [exact K | reflexivity]].
  split; [apply ko_set_stream; exact K |]. use_set_stream K. fold v in HW.
  unfold sslots in HW. cbn [sendb recvb pinned pend] in HW. lia.
Qed.

Lemma deliver_W x e s q :
  KeysOK s -> KeysOK (deliver e s q) /\ W x (deliver e s q) = (W x s + cnt x (map fst (q_chain q)))%nat.
Proof.
  intro K. unfold deliver. destruct (q_closed q).
  - destruct (deliver_close_W x e (q_sid q) s K) as [K1 E]. split; [eapply ko_frame; [.. | exact K1]; reflexivity |].
    rewrite W_add_free, E. reflexivity.
  - destruct (deliver_data_W x e (q_sid q) (PShm (q_chain q)) s K) as [K1 E]. split; [exact K1 |].
    rewrite E. unfold pslots. cbn [flat_map]. rewrite app_nil_r. reflexivity.
Qed.

Lemma fold_deliver_W x e q : forall s,
  KeysOK s -> KeysOK (fold_left (deliver e) q s) /\ W x (fold_left (deliver e) q s) = (W x s + cnt x (qslots q))%nat.
Proof.
  induction q as [|a q IH]; intros s K; cbn [fold_left].
  - split; [exact K |]. cbn. lia.
  - destruct (deliver_W x e s a K) as [K1 E1]. destruct (IH _ K1) as [K2 E2]. split; [exact K2 |].
    rewrite E2, E1. unfold qslots. cbn [flat_map]. rewrite cnt_app. lia.
Qed.

Lemma do_poll_W x e s : KeysOK s -> KeysOK (do_poll e s) /\ W x (do_poll e s) = W x s.
Proof.
  intro K. unfold do_poll.
  assert (K0 : KeysOK (set_queue e [] s)) by (eapply ko_frame; [.. | exact K]; reflexivity).
  destruct (fold_deliver_W x e (queue_to e s) _ K0) as [K1 E]. split; [exact K1 |].
  rewrite E. pose proof (W_set_queue x e [] s) as Q. cbn in Q. lia.
Qed.

(* ---------- reading ---------- *)
Lemma rslots_app a b : rslots (a ++ b) = rslots a ++ rslots b.
Proof. unfold rslots. apply flat_map_app. Qed.

Lemma cnt_filter_split x (f : Z * Z -> bool) c :
  (cnt x (map fst (filter f c)) + cnt x (map fst (filter (fun y => negb (f y)) c)) = cnt x (map fst c))%nat.
Proof.
  induction c as [|a c IH]; cbn [filter map]; [reflexivity |].
  destruct (f a); cbn [negb map]; unfold cnt in *; cbn [count_occ]; destruct (Z.eq_dec (fst a) x); lia.
Qed.

Lemma rslots_map_some c :
  rslots (map (fun xb : Z * Z => {| rs_slot := Some (fst xb); rs_bytes := snd xb |}) c) = map fst c.
Proof. induction c as [|a c IH]; cbn; [reflexivity | f_equal; exact IH]. Qed.

Lemma move_entry_cnt x p r fr fb :
  let '(r', fr', _) := move_entry p (r, fr, fb) in
  (cnt x (rslots r') + cnt x fr' = cnt x (rslots r) + cnt x fr + cnt x (pslots [p]))%nat.
Proof.
  destruct p as [c|b]; cbn [move_entry].
  - rewrite rslots_app, rslots_map_some, !cnt_app. unfold pslots. cbn [flat_map]. rewrite app_nil_r.
    pose proof (cnt_filter_split x (fun xb => 0 <? snd xb) c). lia.
  - rewrite rslots_app, cnt_app. cbn. lia.
Qed.

Lemma move_fold_cnt x l : forall r fr fb,
  let '(r', fr', _) := fold_left (fun acc p => move_entry p acc) l (r, fr, fb) in
  (cnt x (rslots r') + cnt x fr' = cnt x (rslots r) + cnt x fr + cnt x (pslots l))%nat.
Proof.
  induction l as [|p l IH]; intros r fr fb; cbn [fold_left].
  - cbn. lia.
  - pose proof (move_entry_cnt x p r fr fb) as H1.
    destruct (move_entry p (r, fr, fb)) as [[r1 fr1] fb1].
    specialize (IH r1 fr1 fb1). destruct (fold_left _ l (r1, fr1, fb1)) as [[r2 fr2] fb2].
    change (p :: l) with ([p] ++ l). rewrite pslots_app, cnt_app. lia.
Qed.

Definition rq (x : Z) (r : rstate) : nat := (cnt x (rslots (r_buf r)) + cnt x (r_pin r) + cnt x (r_free r))%nat.

Lemma read_next_rq x r : rq x (read_next r) = rq x r.
Proof.
  unfold read_next. destruct (r_buf r) as [|a t] eqn:E; [reflexivity |].
  destruct (rs_slot a) as [y|] eqn:Es; [destruct (r_cpin r) |]; unfold rq; cbn [r_buf r_pin r_free]; rewrite E;
    unfold rslots; cbn [flat_map]; rewrite Es, ?cnt_app; cbn [app]; unfold cnt; cbn [count_occ]; try destruct (Z.eq_dec y x); lia.
Qed.
Lemma take_front_rq x n r : rq x (take_front n r) = rq x r.
Proof. unfold take_front. destruct (r_buf r) as [|a t] eqn:E; [reflexivity |]. unfold rq. cbn [r_buf r_pin r_free]. rewrite E. reflexivity. Qed.
Lemma set_cpin_rq x b r : rq x (set_cpin b r) = rq x r.
Proof. reflexivity. Qed.
Lemma consume_rq x fuel : forall k r, rq x (consume fuel k r) = rq x r.
Proof.
  induction fuel as [|f IH]; intros k r; cbn [consume]; [reflexivity |].
  destruct (k <=? front_bytes r); [apply take_front_rq |]. rewrite IH, read_next_rq, take_front_rq. reflexivity.
Qed.
Lemma do_read_kind_rq x kind k r : rq x (do_read_kind kind k r) = rq x r.
Proof.
  destruct kind; cbn [do_read_kind].
  - destruct (front_bytes r =? 0).
    + destruct (k <=? front_bytes (read_next r)); [rewrite take_front_rq, set_cpin_rq | rewrite consume_rq]; apply read_next_rq.
    + destruct (k <=? front_bytes r); [rewrite take_front_rq, set_cpin_rq | rewrite consume_rq]; reflexivity.
  - apply consume_rq.
  - destruct (k <=? front_bytes r); reflexivity.
Qed.

Lemma do_read_W x e sid kind k s : KeysOK s -> KeysOK (do_read e sid kind k s) /\ W x (do_read e sid kind k s) = W x s.
Proof.
  intro K. unfold do_read. set (kk := key e sid). set (v := streams s kk).
  destruct (alive v); cbn [negb]; [| split; [exact K | reflexivity]].
  unfold move_all. pose proof (move_fold_cnt x (pend v) (recvb v) [] (infb v)) as HM.
  destruct (fold_left _ (pend v) (recvb v, [], infb v)) as [[rb fr0] fb].
  set (r0 := {| r_buf := rb; r_pin := pinned v; r_free := []; r_cpin := cpin v |}).
  set (r1 := if (0 <? k) && (k <=? sumz (map rs_bytes rb)) then do_read_kind kind k r0 else r0).
  assert (HR : rq x r1 = rq x r0) by (unfold r1; destruct (_ && _); [apply do_read_kind_rq | reflexivity]).
  split; [eapply ko_frame; [.. | apply ko_set_stream; exact K]; reflexivity |].
  rewrite W_add_free. use_set_stream K. fold v in HW.
  unfold sslots in HW. cbn [sendb recvb pinned pend] in HW. unfold rq in HR. cbn [r0 r_buf r_pin r_free] in HR.
  rewrite !cnt_app in *. cbn [pslots flat_map] in HW. rewrite cnt_nil in *. lia.
Qed.

(* ---------- the other labels ---------- *)
Lemma map_fst_zip_pad l : forall sz, map fst (zip_pad l sz) = l.
Proof. induction l as [|a l IH]; intros [|b r]; cbn; try reflexivity; f_equal; apply IH. Qed.

Lemma cnt_firstn_skipn x n l : (cnt x (firstn n l) + cnt x (skipn n l) = cnt x l)%nat.
Proof. rewrite <- cnt_app, firstn_skipn. reflexivity. Qed.

Ltac ko := repeat first [ apply ko_set_stream | eapply ko_frame; [reflexivity | reflexivity |] ]; try assumption.

Lemma W_enqueue x t el s s1 :
  queue_to t s1 = queue_to t s ->
  W x (set_queue t (queue_to t s ++ [el]) s1) = (W x s1 + cnt x (map fst (q_chain el)))%nat.
Proof.
  intro E. pose proof (W_set_queue x t (queue_to t s ++ [el]) s1) as Q. rewrite E in Q.
  rewrite qslots_app, cnt_app in Q. unfold qslots at 3 in Q. cbn [flat_map] in Q. rewrite app_nil_r in Q. lia.
Qed.

Lemma do_flush_W x e sid sizes wpos s : KeysOK s -> KeysOK (do_flush e sid sizes wpos s) /\ W x (do_flush e sid sizes wpos s) = W x s.
Proof.
  intro K. unfold do_flush. set (k := key e sid). set (v := streams s k).
  destruct (sumz sizes <=? 0); [split; [exact K | reflexivity] |].
  destruct (is_open v); cbn [negb].
  2:{ split; [ko |]. rewrite W_add_free. use_set_stream K. fold v in HW. unfold sslots in HW. cbn [with_send sendb recvb pinned pend] in HW.
      rewrite !cnt_app in HW. cbn in HW. lia. }
  destruct (sheap v || infb v).
  - assert (K0 : KeysOK (add_free (sendb v) (set_stream k (with_send v true) s))) by ko.
    destruct (do_poll_W x (negb e) _ K0) as [K1 E1].
    destruct (deliver_data_W x (negb e) sid (PFb (sumz sizes)) _ K1) as [K2 E]. split; [exact K2 |].
    rewrite E, E1, W_add_free. use_set_stream K. fold v in HW. unfold sslots in HW. cbn [with_send sendb recvb pinned pend] in HW.
    rewrite !cnt_app in HW. cbn in HW. cbn. lia.
  - pose proof (cnt_firstn_skipn x (S wpos) (sendb v)) as FS.
    destruct (Z.of_nat (length (queue_to (negb e) s)) >=? qcap s).
    + split; [ko |]. rewrite !W_add_free. use_set_stream K. fold v in HW. unfold sslots in HW. cbn [with_send sendb recvb pinned pend] in HW.
      rewrite !cnt_app in HW. cbn in HW. lia.
    + split; [ko |]. rewrite W_enqueue by (destruct e; reflexivity). cbn [q_chain]. rewrite map_fst_zip_pad, W_add_free.
      use_set_stream K. fold v in HW. unfold sslots in HW. cbn [with_send sendb recvb pinned pend] in HW.
      rewrite !cnt_app in HW. cbn in HW. lia.
Qed.

Lemma do_release_W x e sid s : KeysOK s -> KeysOK (do_release e sid s) /\ W x (do_release e sid s) = W x s.
Proof.
  intro K. unfold do_release. set (k := key e sid). set (v := streams s k).
  destruct (alive v); cbn [negb]; [| split; [exact K | reflexivity]].
  destruct (recvb v) as [|a [|a' t]] eqn:Er; [| destruct (rs_bytes a =? 0) |];
    (split; [ko |]); rewrite W_add_free; use_set_stream K; fold v in HW; unfold sslots in HW; cbn [sendb recvb pinned pend] in HW;
    rewrite ?Er in HW; rewrite ?cnt_app in *; cbn in HW; cbn; lia.
Qed.

Lemma do_reuse_W x e sid s : KeysOK s -> KeysOK (do_reuse e sid s) /\ W x (do_reuse e sid s) = W x s.
Proof.
  intro K. unfold do_reuse. set (k := key e sid). set (v := streams s k).
  destruct (is_open v && (sumz (map rs_bytes (recvb v)) =? 0) && match pend v with [] => true | _ => false end
            && match sendb v with [] => true | _ => false end) eqn:Er; cbn [negb]; [| split; [exact K | reflexivity]].
  apply andb_true_iff in Er. destruct Er as [Er Es]. apply andb_true_iff in Er. destruct Er as [_ Ep].
  destruct (pend v) eqn:Epd; [| discriminate]. destruct (sendb v) eqn:Esd; [| discriminate].
  destruct (recvb v) as [|a [|a' t]] eqn:Erb; [| destruct (rs_slot a) eqn:Ea |];
    (split; [ko |]); rewrite W_add_free.
  - use_set_stream K. fold v in HW. unfold sslots in HW. cbn [sendb recvb pinned pend] in HW.
    rewrite ?Erb, ?Epd, ?Esd in HW. rewrite ?cnt_app in *. cbn in HW. lia.
  - use_set_stream K. fold v in HW. unfold sslots in HW. cbn [sendb recvb pinned pend] in HW.
    rewrite ?Erb, ?Epd, ?Esd in HW. rewrite ?cnt_app in *. unfold rslots in HW. cbn [flat_map] in HW. rewrite Ea in HW. cbn in HW. lia.
  - use_set_stream K. fold v in HW. unfold sslots in HW. cbn [sendb recvb pinned pend] in HW.
    rewrite ?Erb, ?Epd, ?Esd in HW. rewrite ?cnt_app in *. unfold rslots in HW. cbn [flat_map] in HW. rewrite Ea in HW. cbn in HW. lia.
  - use_set_stream K. fold v in HW. unfold sslots in HW. cbn [sendb recvb pinned pend] in HW.
    rewrite ?Erb, ?Epd, ?Esd in HW. rewrite ?cnt_app in *. cbn in HW. lia.
Qed.

Lemma do_close_W x e sid s : KeysOK s -> KeysOK (do_close e sid s) /\ W x (do_close e sid s) = W x s.
Proof.
  intro K. unfold do_close. set (k := key e sid). set (v := streams s k).
  destruct (alive v); cbn [negb]; [| split; [exact K | reflexivity]].
  set (nv := {| alive := false; half := half v; infb := infb v; sendb := []; sheap := false; recvb := []; cpin := false; pinned := []; scpin := false; rheap := false; pend := [] |}).
  set (s2 := add_free (pslots (pend v) ++ rslots (recvb v) ++ sendb v) (set_stream k nv s)).
  set (s3 := if fx s then add_free (pinned v) s2 else add_leaked (pinned v) s2).
  assert (K3 : KeysOK s3) by (unfold s3, s2; destruct (fx s); ko).
  assert (E3 : W x s3 = W x s).
  { unfold s3, s2. destruct (fx s).
    - rewrite !W_add_free. unfold nv. use_set_stream K. fold v in HW. unfold sslots in HW.
      cbn [sendb recvb pinned pend] in HW. rewrite ?cnt_app in *. cbn in HW. lia.
    - rewrite W_add_leaked, W_add_free. unfold nv. use_set_stream K. fold v in HW. unfold sslots in HW.
      cbn [sendb recvb pinned pend] in HW. rewrite ?cnt_app in *. cbn in HW. lia. }
  destruct (half v); [split; assumption |].
  destruct (infb v || (Z.of_nat (length (queue_to (negb e) s)) >=? qcap s)).
  - destruct (do_poll_W x (negb e) s3 K3) as [K3' E3'].
    destruct (deliver_close_W x (negb e) sid _ K3') as [K4 E4]. split; [exact K4 | lia].
  - split; [ko |]. rewrite W_enqueue; [cbn; lia |]. unfold s3, s2. destruct (fx s); destruct e; reflexivity.
Qed.

Lemma do_open_W x sid s : KeysOK s -> KeysOK (do_open sid s) /\ W x (do_open sid s) = W x s.
Proof.
  intro K. unfold do_open. destruct (memk (key false sid) (keys s)) eqn:E; [split; [exact K | reflexivity] |].
  split; [ko |]. use_set_stream K.
  assert (N : ~ In (key false sid) (keys s)) by (intro H; apply memk_in in H; congruence).
  rewrite (proj2 K _ N) in HW. cbn in HW. lia.
Qed.

(* ================= the invariant ================= *)
Definition iota (n : nat) : list Z := map Z.of_nat (seq 0 n).
Definition Inv (n : nat) (s : st) : Prop := KeysOK s /\ forall x, W x s = cnt x (iota n).

Lemma iota_nodup n : NoDup (iota n).
Proof. unfold iota. apply FinFun.Injective_map_NoDup; [intros a b H; apply Nat2Z.inj; exact H | apply seq_NoDup]. Qed.

Lemma inv_perm n s : Inv n s -> Permutation (all_slots s) (iota n).
Proof. intros [_ H]. apply (Permutation_count_occ Z.eq_dec). intro x. fold (cnt x (all_slots s)). rewrite cnt_all. apply H. Qed.

Lemma nodup_app_l {A} (a b : list A) : NoDup (a ++ b) -> NoDup a.
Proof.
  induction a as [|x a IH]; cbn; intro H; [constructor |]. inversion H; subst.
  constructor; [intro Hx; apply H2; apply in_app_iff; left; exact Hx | apply IH; assumption].
Qed.
Lemma nodup_app_r {A} (a b : list A) : NoDup (a ++ b) -> NoDup b.
Proof. induction a as [|x a IH]; cbn; intro H; [exact H |]. inversion H; subst. apply IH; assumption. Qed.

Lemma inv_nodup n s : Inv n s -> NoDup (free s) /\ NoDup (ext s).
Proof.
  intro I. pose proof (inv_perm n s I) as P. apply Permutation_sym in P.
  pose proof (Permutation_NoDup P (iota_nodup n)) as N. unfold all_slots in N.
  split; [apply nodup_app_l in N; exact N |].
  apply nodup_app_r in N. apply nodup_app_l in N. exact N.
Qed.

Lemma step_W n s l s' : Inv n s -> step s l = Some s' -> KeysOK s' /\ forall x, W x s' = W x s.
Proof.
  intros I E. pose proof I as [K HW0]. destruct (inv_nodup n s I) as [Nf Ne]. destruct l; cbn [step] in E.
  - inversion E; subst. split; [apply (do_open_W 0 sid s K) | intro x; apply (do_open_W x sid s K)].
  - unfold do_write in E. set (k := key e sid) in *. set (v := streams s k) in *.
    destruct (negb (alive v) && gx s); [inversion E; subst; split; [exact K | reflexivity] |].
    destruct (subsetb new (free s) && nodupb new) eqn:C; cbn [negb] in E; [| discriminate].
    apply andb_true_iff in C. destruct C as [C1 C2]. inversion E; subst; clear E.
    assert (K1 : KeysOK (set_free_ext (minus_list (free s) new) (ext s) s)) by (eapply ko_frame; [reflexivity | reflexivity | exact K]).
    split; [apply ko_set_stream; exact K1 |]. intro x.
    use_set_stream K1. pose proof (W_set_free_ext x (minus_list (free s) new) (ext s) s) as F.
    pose proof (cnt_minus x (free s) new Nf C2 C1) as M.
    change (streams (set_free_ext (minus_list (free s) new) (ext s) s) k) with v in HW.
    unfold sslots in HW. cbn [sendb recvb pinned pend] in HW. rewrite !cnt_app in HW. lia.
  - inversion E; subst. split; [apply (do_flush_W 0 e sid sizes wpos s K) | intro x; apply (do_flush_W x e sid sizes wpos s K)].
  - inversion E; subst. split; [apply (do_poll_W 0 e s K) | intro x; apply (do_poll_W x e s K)].
  - inversion E; subst. split; [apply (do_read_W 0 e sid kind k s K) | intro x; apply (do_read_W x e sid kind k s K)].
  - inversion E; subst. split; [apply (do_release_W 0 e sid s K) | intro x; apply (do_release_W x e sid s K)].
  - inversion E; subst. split; [apply (do_reuse_W 0 e sid s K) | intro x; apply (do_reuse_W x e sid s K)].
  - inversion E; subst. split; [apply (do_close_W 0 e sid s K) | intro x; apply (do_close_W x e sid s K)].
  - unfold do_ext_hold in E. destruct (subsetb new (free s) && nodupb new) eqn:C; [| discriminate].
    apply andb_true_iff in C. destruct C as [C1 C2]. inversion E; subst; clear E.
    split; [eapply ko_frame; [reflexivity | reflexivity | exact K] |]. intro x.
    pose proof (W_set_free_ext x (minus_list (free s) new) (ext s ++ new) s) as F.
    pose proof (cnt_minus x (free s) new Nf C2 C1) as M. rewrite cnt_app in F. lia.
  - inversion E; subst. split; [eapply ko_frame; [reflexivity | reflexivity | exact K] |]. intro x.
    pose proof (W_set_free_ext x (free s ++ ext s) [] s) as F. rewrite cnt_app in F. cbn in F. lia.
  - unfold do_inject in E.
    destruct (subsetb (map fst chain) (ext s) && nodupb (map fst chain)) eqn:C; cbn [negb] in E; [| discriminate].
    apply andb_true_iff in C. destruct C as [C1 C2].
    destruct (Z.of_nat (length (queue_to to_srv s)) >=? qcap s); [discriminate |]. inversion E; subst; clear E.
    split; [eapply ko_frame; [reflexivity | reflexivity | exact K] |]. intro x.
    rewrite W_enqueue by (destruct to_srv; reflexivity). cbn [q_chain].
    pose proof (W_set_free_ext x (free s) (minus_list (ext s) (map fst chain)) s) as F.
    pose proof (cnt_minus x (ext s) (map fst chain) Ne C2 C1) as M. lia.
Qed.

Lemma step'_inv n s l : Inv n s -> Inv n (step' s l).
Proof.
  intro I. unfold step'. destruct (step s l) as [s'|] eqn:E; [| exact I].
  destruct (step_W n s l s' I E) as [K H]. split; [exact K |]. intro x. rewrite H. apply I.
Qed.

Lemma init_inv f g n qc : Inv n (init f g n qc).
Proof.
  split; [split; [constructor | intros; reflexivity] |]. intro x. rewrite <- cnt_all. unfold all_slots. cbn [init free ext leaked q_srv q_cli].
  unfold stream_slots. cbn [init keys flat_map qslots]. rewrite !app_nil_r. reflexivity.
Qed.

Lemma run_inv n h : forall s, Inv n s -> Inv n (run s h).
Proof. induction h as [|l t IH]; intros s I; cbn [run]; [exact I | apply IH, step'_inv, I]. Qed.

(* every slot is in exactly one location: the location lists, concatenated, are a permutation of the slots *)
Theorem inv_thm f g n qc h : Permutation (all_slots (run (init f g n qc) h)) (iota n).
Proof. apply inv_perm, run_inv, init_inv. Qed.

Theorem inv_nodup_cover f g n qc h :
  let s := run (init f g n qc) h in
  NoDup (all_slots s) /\ forall x, In x (all_slots s) <-> (0 <= x < Z.of_nat n).
Proof.
  intro s. pose proof (inv_thm f g n qc h) as P. fold s in P. split.
  - apply (Permutation_NoDup (Permutation_sym P)), iota_nodup.
  - intro x. split.
    + intro H. apply (Permutation_in _ P) in H. unfold iota in H. apply in_map_iff in H. destruct H as [y [E Hy]].
      apply in_seq in Hy. lia.
    + intro H. apply (Permutation_in _ (Permutation_sym P)). unfold iota. apply in_map_iff. exists (Z.to_nat x).
      split; [lia | apply in_seq; lia].
Qed.

(* ================= quiescence: nothing is lost when every stream is closed ================= *)
Definition dead_ok (v : stream) : Prop := alive v = false -> sslots v = [].
Definition Q (f g : bool) (s : st) : Prop := (fx s = f /\ gx s = g) /\ leaked s = [] /\ forall k, dead_ok (streams s k).

(* the hypothesis under which today's code gives everything back: a stream is closed only when its
   pinned list is empty (ReleasePreviousRead before Close) - void once recycle() cleans the pinned list *)
Definition close_guard (s : st) (l : label) : Prop :=
  match l with
  | Close e sid => fx s = true \/ pinned (streams s (key e sid)) = []
  | Write e sid _ _ => gx s = true \/ alive (streams s (key e sid)) = true     (* no write after the local Close *)
  | _ => True
  end.

Lemma Q_frame f g s s' : fx s' = fx s -> gx s' = gx s -> leaked s' = leaked s -> streams s' = streams s -> Q f g s -> Q f g s'.
Proof. intros A A' B C (D & E & F). unfold Q. rewrite A, A', B, C. auto. Qed.
Lemma Q_set_stream f g k nv s : dead_ok nv -> Q f g s -> Q f g (set_stream k nv s).
Proof.
  intros P (D & E & F). split; [exact D | split; [exact E |]]. intro j. cbn [set_stream streams].
  destruct (Nat.eq_dec j k) as [->|N]; [rewrite updn_eq; exact P | rewrite updn_neq by exact N; apply F].
Qed.
Ltac qfr := eapply Q_frame; [reflexivity | reflexivity | reflexivity | reflexivity |].
Ltac qss := apply Q_set_stream; [let Hx := fresh "Hdead" in intro Hx; cbn [alive] in Hx; try discriminate |].

Lemma sslots_nil v : sslots v = [] -> sendb v = [] /\ rslots (recvb v) = [] /\ pinned v = [] /\ pslots (pend v) = [].
Proof.
  unfold sslots. intro H. apply app_eq_nil in H. destruct H as [A H]. apply app_eq_nil in H. destruct H as [B H].
  apply app_eq_nil in H. tauto.
Qed.

Lemma Q_deliver_data f g e sid p s : Q f g s -> Q f g (deliver_data e sid p s).
Proof.
  intro H. unfold deliver_data. destruct (alive _) eqn:Ea; [qss; exact H | destruct e; [| qfr; exact H]].
  pose proof H as (_ & _ & Hd). destruct (sslots_nil _ (Hd _ Ea)) as (Es & _).
  rewrite Es. assert (H1 : Q f g (set_stream (key true sid) {| alive := true; half := false; infb := false; sendb := []; sheap := false;
      recvb := recvb (streams s (key true sid)); cpin := false; pinned := pinned (streams s (key true sid)); scpin := false; rheap := false;
      pend := pend (streams s (key true sid)) ++ [p] |} s)) by (qss; exact H).
  destruct H1 as (A & B & C). split; [exact A | split; [| exact C]]. cbn [add_leaked leaked]. cbn [set_stream leaked] in B. rewrite app_nil_r. exact B.
Qed.
Lemma Q_deliver_close f g e sid s : Q f g s -> Q f g (deliver_close e sid s).
Proof. intro H. unfold deliver_close. destruct (alive _); [qss |]; exact H. Qed.
Lemma Q_deliver f g e s q : Q f g s -> Q f g (deliver e s q).
Proof. intro H. unfold deliver. destruct (q_closed q); [qfr; apply Q_deliver_close | apply Q_deliver_data]; exact H. Qed.
Lemma Q_fold_deliver f g e q : forall s, Q f g s -> Q f g (fold_left (deliver e) q s).
Proof. induction q as [|a q IH]; intros s H; cbn [fold_left]; [exact H | apply IH, Q_deliver, H]. Qed.

Lemma Q_step f g s l : close_guard s l -> Q f g s -> Q f g (step' s l).
Proof.
  intros G H. pose proof H as (Hf & Hl & Hd). unfold step'. destruct l; cbn [step].
  - unfold do_open. destruct (memk _ _); [exact H |]. qss. exact H.
  - unfold do_write. cbn [close_guard] in G.
    destruct (alive (streams s (key e sid))) eqn:Ea; cbn [negb andb].
    2:{ destruct G as [G|G]; [rewrite G; exact H | discriminate]. }
    destruct (_ && _); cbn [negb]; [| exact H]. qss; try (rewrite Ea in Hdead; discriminate). qfr. exact H.
  - unfold do_flush. set (k := key e sid). set (v := streams s k).
    destruct (_ <=? 0); [exact H |].
    assert (P : forall fb, dead_ok (with_send v fb)).
    { intros fb Ha. cbn [with_send alive] in Ha. destruct (sslots_nil v (Hd k Ha)) as (A & B & C & D).
      unfold sslots. cbn [with_send sendb recvb pinned pend]. rewrite B, C, D. reflexivity. }
    assert (S1 : forall fb, Q f g (set_stream k (with_send v fb) s)) by (intro fb; apply Q_set_stream; [apply P | exact H]).
    destruct (is_open v); cbn [negb]; [| qfr; apply S1].
    destruct (_ || _); [apply Q_deliver_data; apply Q_fold_deliver; qfr; qfr; apply S1 |].
    destruct (_ >=? _); [qfr; qfr; apply S1 | qfr; qfr; apply S1].
  - apply Q_fold_deliver. qfr. exact H.
  - unfold do_read. destruct (alive _) eqn:Ea; cbn [negb]; [| exact H].
    destruct (move_all _) as [[rb fr0] fb]. qfr. qss; try (rewrite Ea in Hdead; discriminate). exact H.
  - unfold do_release. destruct (alive _) eqn:Ea; cbn [negb]; [| exact H].
    destruct (recvb _) as [|a [|a' t]]; [| destruct (_ =? 0) |]; qfr; qss; try (rewrite Ea in Hdead; discriminate); exact H.
  - unfold do_reuse. set (k := key e sid). set (v := streams s k).
    destruct (is_open v && _ && _ && _) eqn:Er; cbn [negb]; [| exact H].
    assert (Ea : alive v = true).
    { unfold is_open in Er. destruct (alive v); [reflexivity | cbn in Er; discriminate]. }
    destruct (recvb v) as [|a [|a' t]]; [| destruct (rs_slot a) |]; qfr; qss; try (rewrite Ea in Hdead; discriminate); exact H.
  - unfold do_close. set (k := key e sid). set (v := streams s k). destruct (alive v); cbn [negb]; [| exact H].
    set (nv := {| alive := false; half := half v; infb := infb v; sendb := []; sheap := false; recvb := []; cpin := false; pinned := []; scpin := false; rheap := false; pend := [] |}).
    assert (H2 : Q f g (add_free (pslots (pend v) ++ rslots (recvb v) ++ sendb v) (set_stream k nv s))).
    { qfr. apply Q_set_stream; [intros _; reflexivity | exact H]. }
    assert (H3 : Q f g (if fx s then add_free (pinned v) (add_free (pslots (pend v) ++ rslots (recvb v) ++ sendb v) (set_stream k nv s))
                      else add_leaked (pinned v) (add_free (pslots (pend v) ++ rslots (recvb v) ++ sendb v) (set_stream k nv s)))).
    { destruct (fx s) eqn:Fx; [qfr; exact H2 |]. cbn [close_guard] in G. destruct G as [G|G]; [congruence |].
      fold k v in G. rewrite G. destruct H2 as (A & B & C). split; [exact A | split; [| exact C]].
      cbn [add_leaked leaked]. cbn [add_leaked add_free set_stream leaked] in B. rewrite app_nil_r. exact B. }
    destruct (half v); [exact H3 |]. destruct (_ || _); [apply Q_deliver_close; apply Q_fold_deliver; qfr; exact H3 | qfr; exact H3].
  - unfold do_ext_hold. destruct (_ && _); [qfr |]; exact H.
  - qfr. exact H.
  - unfold do_inject. destruct (_ && _); cbn [negb]; [| exact H]. destruct (_ >=? _); [exact H |]. qfr. qfr. exact H.
Qed.

Fixpoint guarded (G : st -> label -> Prop) (s : st) (h : list label) : Prop :=
  match h with [] => True | l :: t => G s l /\ guarded G (step' s l) t end.

Lemma Q_run f g h : forall s, guarded close_guard s h -> Q f g s -> Q f g (run s h).
Proof. induction h as [|l t IH]; intros s G H; cbn [run]; [exact H |]. destruct G as [G1 G2]. apply IH; [exact G2 | apply Q_step; assumption]. Qed.

Lemma Q_init f g n qc : Q f g (init f g n qc).
Proof. split; [split; reflexivity | split; [reflexivity | intros k _; reflexivity]]. Qed.

Lemma guarded_fixed h : forall s, Q true true s -> guarded close_guard s h.
Proof.
  induction h as [|l t IH]; intros s H; cbn [guarded]; [exact I |].
  assert (G : close_guard s l) by (destruct l; cbn [close_guard]; auto; left; apply H).
  split; [exact G | apply IH, Q_step; assumption].
Qed.

(* every stream is closed on both ends, nothing in flight, the application holds nothing *)
Definition finished (s : st) : Prop :=
  ext s = [] /\ q_srv s = [] /\ q_cli s = [] /\ forall k, alive (streams s k) = false.

Lemma stream_slots_nil s : (forall k, sslots (streams s k) = []) -> stream_slots s = [].
Proof. intro H. unfold stream_slots. induction (keys s) as [|a l IH]; cbn [flat_map]; [reflexivity | rewrite H, IH; reflexivity]. Qed.

Lemma finished_all_free f g n s : Inv n s -> Q f g s -> finished s -> Permutation (free s) (iota n).
Proof.
  intros I (Hf & Hl & Hd) (E1 & E2 & E3 & E4). pose proof (inv_perm n s I) as P. unfold all_slots in P.
  rewrite E1, E2, E3, Hl in P. cbn [qslots flat_map app] in P.
  rewrite (stream_slots_nil s) in P by (intro k; apply Hd, E4). rewrite app_nil_r in P. exact P.
Qed.

Definition all_free (n : nat) (s : st) : Prop := Permutation (free s) (iota n) /\ length (free s) = n.

Theorem partial_thm f g n qc h :
  guarded close_guard (init f g n qc) h -> finished (run (init f g n qc) h) -> all_free n (run (init f g n qc) h).
Proof.
  intros G F. assert (P : Permutation (free (run (init f g n qc) h)) (iota n)).
  { eapply finished_all_free; [apply run_inv, init_inv | apply Q_run; [exact G | apply Q_init] | exact F]. }
  split; [exact P |]. rewrite (Permutation_length P). unfold iota. rewrite map_length, seq_length. reflexivity.
Qed.

Theorem fixed_thm n qc h : finished (run (init true true n qc) h) -> all_free n (run (init true true n qc) h).
Proof. intro F. apply partial_thm; [apply guarded_fixed, Q_init | exact F]. Qed.

(* ---- regression witnesses: the two former/possible ways of losing slots ---- *)
Definition full_stmt (f g : bool) : Prop :=
  forall n qc h, finished (run (init f g n qc) h) -> all_free n (run (init f g n qc) h).

(* client writes two slices' worth and flushes; the server reads a little (fast path: front slice
   pinned), reads across the slice boundary (the first slice is parked in pinnedList), closes without
   ReleasePreviousRead; the client closes *)
Definition witness_pinned : list label :=
  [Open 1%nat; Write false 1%nat [0; 1] false; Flush false 1%nat [4096; 1904] 1%nat; Poll true;
   Read true 1%nat RBytes 100; Read true 1%nat RBytes 5000; Close true 1%nat; Poll false; Close false 1%nat; Poll true].
(* the owner closes its stream and then writes into its BufferWriter without ever flushing *)
Definition witness_write_after_close : list label :=
  [Open 1%nat; Close false 1%nat; Poll true; Write false 1%nat [0] false].

Lemma witness_refutes f g h (w2 : nat) :
  keys (run (init f g 4 8) h) = [2; 3]%nat \/ keys (run (init f g 4 8) h) = [2]%nat ->
  ext (run (init f g 4 8) h) = [] -> q_srv (run (init f g 4 8) h) = [] -> q_cli (run (init f g 4 8) h) = [] ->
  alive (streams (run (init f g 4 8) h) 2) = false -> alive (streams (run (init f g 4 8) h) 3) = false ->
  length (free (run (init f g 4 8) h)) <> 4%nat -> ~ full_stmt f g.
Proof.
  intros Ek E1 E2 E3 A2 A3 L H. specialize (H 4%nat 8 h).
  assert (F : finished (run (init f g 4 8) h)).
  { unfold finished. repeat split; try assumption.
    intro k. destruct (Nat.eq_dec k 2) as [->|N2]; [exact A2 |].
    destruct (Nat.eq_dec k 3) as [->|N3]; [exact A3 |].
    assert (E : streams (run (init f g 4 8) h) k = dead_stream).
    { apply (proj2 (proj1 (run_inv 4 h _ (init_inv f g 4 8)))). destruct Ek as [Ek|Ek]; rewrite Ek; cbn; intuition congruence. }
    rewrite E. reflexivity. }
  destruct (H F) as [_ L']. contradiction.
Qed.

(* the code before a234a74 (recycle() without cleanPinnedList) *)
Lemma full_refuted : ~ full_stmt false true.
Proof. apply (witness_refutes false true witness_pinned 0); try (vm_compute; reflexivity); [left; vm_compute; reflexivity | vm_compute; discriminate]. Qed.

(* write operations without a state check: a write after the local Close allocates shared memory that
   only a later Flush would return *)
Lemma write_after_close_refuted : ~ full_stmt true false.
Proof. apply (witness_refutes true false witness_write_after_close 0); try (vm_compute; reflexivity); [right; vm_compute; reflexivity | vm_compute; discriminate]. Qed.

Lemma witness_fixed_ok :
  length (free (run (init true true 4 8) witness_pinned)) = 4%nat /\ leaked (run (init false true 4 8) witness_pinned) = [0] /\
  length (free (run (init true true 4 8) witness_write_after_close)) = 4%nat /\
  sendb (streams (run (init true false 4 8) witness_write_after_close) 2) = [0].
Proof. vm_compute. repeat split; reflexivity. Qed.

(* ================= every exit of Flush leaves no shared-memory slice in the send buffer ================= *)
(* whatever Flush returns - nil, ErrStreamClosed (stream not open), ErrQueueFull (after the retries), or the result
   of the socket send of the fallback path (ErrConnectionWriteTimeout included: writeFallback recycles BEFORE it
   sends, independently of the send's outcome) - the flushing stream's send buffer holds no slot afterwards, and
   on every exit other than the successful queue put its slots are back in the free lists *)
Definition sendb_nil (k : nat) (s : st) : Prop := sendb (streams s k) = [].

Lemma sn_set_stream k k' v s : (k' = k -> sendb v = []) -> sendb_nil k s -> sendb_nil k (set_stream k' v s).
Proof.
  intros Hv H. unfold sendb_nil. cbn [set_stream streams]. destruct (Nat.eq_dec k k') as [->|N];
    [rewrite updn_eq; apply Hv; reflexivity | rewrite updn_neq by exact N; exact H].
Qed.

Lemma sn_deliver_data e sid p k s : sendb_nil k s -> sendb_nil k (deliver_data e sid p s).
Proof.
  intro H. unfold deliver_data. destruct (alive _); [| destruct e].
  - apply sn_set_stream; [intros ->; exact H | exact H].
  - unfold sendb_nil. cbn [add_leaked streams]. apply sn_set_stream; [intros _; reflexivity | exact H].
  - exact H.
Qed.
Lemma sn_deliver_close e sid k s : sendb_nil k s -> sendb_nil k (deliver_close e sid s).
Proof. intro H. unfold deliver_close. destruct (alive _); [apply sn_set_stream; [intros ->; exact H | exact H] | exact H]. Qed.
Lemma sn_deliver e k s q : sendb_nil k s -> sendb_nil k (deliver e s q).
Proof. intro H. unfold deliver. destruct (q_closed q); [apply (sn_deliver_close e (q_sid q) k s H) | apply sn_deliver_data; exact H]. Qed.
Lemma sn_fold e k q : forall s, sendb_nil k s -> sendb_nil k (fold_left (deliver e) q s).
Proof. induction q as [|a q IH]; intros s H; cbn [fold_left]; [exact H | apply IH, sn_deliver, H]. Qed.
Lemma sn_poll e k s : sendb_nil k s -> sendb_nil k (do_poll e s).
Proof. intro H. unfold do_poll. apply sn_fold. exact H. Qed.

Theorem flush_leaves_no_slice e sid sizes wpos s :
  0 < sumz sizes -> sendb (streams (do_flush e sid sizes wpos s) (key e sid)) = [].
Proof.
  intro Hs. unfold do_flush. set (k := key e sid). set (v := streams s k).
  assert (E : (sumz sizes <=? 0) = false) by (apply Z.leb_gt; exact Hs). rewrite E.
  assert (S1 : forall fb, sendb_nil k (set_stream k (with_send v fb) s)) by (intro fb; unfold sendb_nil; cbn [set_stream streams]; rewrite updn_eq; reflexivity).
  destruct (is_open v); cbn [negb]; [| apply (S1 (infb v))].
  destruct (sheap v || infb v); [apply sn_deliver_data, sn_poll, (S1 true) |].
  destruct (_ >=? _); apply (S1 false).
Qed.

Lemma free_mono_deliver e s q x : In x (free s) -> In x (free (deliver e s q)).
Proof.
  intro H. unfold deliver, deliver_close, deliver_data.
  destruct (q_closed q); [destruct (alive _); cbn [add_free set_stream free]; apply in_app_iff; left; exact H |].
  destruct (alive _); [exact H | destruct e; [exact H | cbn [add_free free]; apply in_app_iff; left; exact H]].
Qed.
Lemma free_mono_fold e q x : forall s, In x (free s) -> In x (free (fold_left (deliver e) q s)).
Proof. induction q as [|a q IH]; intros s H; cbn [fold_left]; [exact H | apply IH, free_mono_deliver, H]. Qed.

(* the exits that do not hand the chain to the peer: stream not open / fallback (whatever the socket send returns) /
   queue full after the retries *)
Definition flush_keeps_nothing (e : bool) (sid : nat) (s : st) : bool :=
  let v := streams s (key e sid) in
  negb (is_open v) || (sheap v || infb v) || (Z.of_nat (length (queue_to (negb e) s)) >=? qcap s).

Theorem flush_error_exits_recycle e sid sizes wpos s x :
  0 < sumz sizes -> flush_keeps_nothing e sid s = true ->
  In x (sendb (streams s (key e sid))) -> In x (free (do_flush e sid sizes wpos s)).
Proof.
  intros Hs Hk Hx. unfold do_flush, flush_keeps_nothing in *. set (k := key e sid) in *. set (v := streams s k) in *.
  assert (E : (sumz sizes <=? 0) = false) by (apply Z.leb_gt; exact Hs). rewrite E.
  destruct (is_open v); cbn [negb orb] in *; [| cbn [add_free set_stream free]; apply in_app_iff; right; exact Hx].
  destruct (sheap v || infb v); cbn [orb] in Hk.
  - unfold deliver_data. 
    assert (H0 : In x (free (do_poll (negb e) (add_free (sendb v) (set_stream k (with_send v true) s))))).
    { unfold do_poll. apply free_mono_fold. cbn [set_queue add_free set_stream free]. apply in_app_iff. right. exact Hx. }
    destruct (alive _); [exact H0 | destruct (negb e); [exact H0 | cbn [add_free free]; apply in_app_iff; left; exact H0]].
  - rewrite Hk. cbn [add_free set_stream free]. rewrite <- (firstn_skipn (S wpos) (sendb v)) in Hx.
    apply in_app_iff in Hx. rewrite !in_app_iff. tauto.
Qed.
