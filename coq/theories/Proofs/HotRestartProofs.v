(* Invariants of the hot-restart bookkeeping model (C16). *)
From Coq Require Import List ZArith Bool Arith Lia.
From Shm Require Import Gen.Consts Model.HotRestart.
Import ListNotations.
Open Scope Z_scope.

(* ------------------------------------------------------------------ generic list facts *)
Lemma upd_length : forall A (l : list A) i x, length (upd l i x) = length l.
Proof. induction l as [|h t IH]; intros [|i] x; cbn; auto. Qed.

Lemma nth_error_upd_same : forall A (l : list A) i x y, nth_error l i = Some y -> nth_error (upd l i x) i = Some x.
Proof. induction l as [|h t IH]; intros [|i] x y H; cbn in *; try discriminate; eauto. Qed.

Lemma nth_error_upd_other : forall A (l : list A) i j x, i <> j -> nth_error (upd l i x) j = nth_error l j.
Proof.
  induction l as [|h t IH]; intros [|i] [|j] x H; cbn; auto; try congruence.
Qed.

Lemma Forall_upd : forall A (P : A -> Prop) (l : list A) i x, Forall P l -> P x -> Forall P (upd l i x).
Proof.
  induction l as [|h t IH]; intros [|i] x HF Hx; cbn; auto; inversion HF; subst; constructor; auto.
Qed.

Lemma Forall_nth_error : forall A (P : A -> Prop) (l : list A) i x, Forall P l -> nth_error l i = Some x -> P x.
Proof.
  induction l as [|h t IH]; intros [|i] x HF H; cbn in *; try discriminate; inversion HF; subst.
  - inversion H; subst; auto.
  - eauto.
Qed.

Lemma Forall_repeat : forall A (P : A -> Prop) x n, P x -> Forall P (repeat x n).
Proof. induction n; cbn; auto. Qed.

Lemma nth_error_repeat_some : forall A (x y : A) n i, nth_error (repeat x n) i = Some y -> y = x.
Proof. induction n; intros [|i] H; cbn in *; try discriminate; try congruence; eauto. Qed.

Lemma filter_len_le : forall A (f : A -> bool) (l : list A), (length (filter f l) <= length l)%nat.
Proof. induction l as [|h t IH]; cbn; [lia|]. destruct (f h); cbn; lia. Qed.

Lemma count_some_le : forall A (l : list (option A)), (count_some l <= length l)%nat.
Proof. intros. unfold count_some. apply filter_len_le. Qed.

Lemma count_some_full : forall A (l : list (option A)) i,
  count_some l = length l -> (i < length l)%nat -> exists x, nth_error l i = Some (Some x).
Proof.
  induction l as [|h t IH]; intros i Hc Hi; cbn in *; [lia|].
  unfold count_some in *. cbn in Hc. destruct h as [a|].
  - cbn in Hc. destruct i as [|i]; cbn; [eauto|]. apply IH; lia.
  - pose proof (filter_len_le _ (fun o : option A => match o with Some _ => true | None => false end) t). lia.
Qed.

Lemma run_app : forall a b s, run (a ++ b) s = run b (run a s).
Proof. intros. unfold run. apply fold_left_app. Qed.

Lemma run_inv : forall (P : state -> Prop), (forall s ev, P s -> P (step s ev)) ->
  forall evs s, P s -> P (run evs s).
Proof. intros P Hs evs. induction evs as [|ev r IH]; intros s H; cbn; auto. Qed.

Lemma states_distinct : st_default <> st_hr /\ st_done <> st_hr /\ st_default <> st_done.
Proof. vm_compute. repeat split; discriminate. Qed.

Lemma zeqb_hr_default : (st_default =? st_hr) = false.
Proof. apply Z.eqb_neq. apply states_distinct. Qed.
Lemma zeqb_hr_done : (st_done =? st_hr) = false.
Proof. apply Z.eqb_neq. apply states_distinct. Qed.

(* ------------------------------------------------------------------ the loop of Listener.HotRestart *)
Definition all_hs (ss : list lsess) : Prop := Forall (fun x => ls_hs x = true) ss.

Lemma hr_loop_no_early : forall e ss ch, all_hs ss -> snd (hr_loop e ss ch) = false.
Proof.
  induction ss as [|x ss IH]; intros ch H; cbn; auto.
  destruct ch as [|c ch]; cbn; auto.
  inversion H as [|? ? Hx Hr]; subst.
  specialize (IH ch Hr).
  destruct (hr_loop e ss ch) as [[[a b] k] st]. cbn in IH. subst st.
  rewrite Hx. cbn.
  destruct (ls_present x); cbn; auto.
  destruct (ls_state x =? st_default); cbn; auto.
Qed.

Lemma hr_loop_hs : forall e ss ch, all_hs ss -> all_hs (fst (fst (fst (hr_loop e ss ch)))).
Proof.
  induction ss as [|x ss IH]; intros ch H; cbn; auto.
  destruct ch as [|c ch]; cbn; auto.
  inversion H as [|? ? Hx Hr]; subst.
  specialize (IH ch Hr).
  destruct (hr_loop e ss ch) as [[[a b] k] st]. cbn in IH.
  rewrite Hx. cbn.
  destruct (ls_present x); cbn; [|constructor; auto].
  destruct (ls_state x =? st_default); cbn; constructor; auto.
Qed.

(* number of sessions still in the table that are waiting for an ack *)
Fixpoint count_hr (ss : list lsess) : Z :=
  match ss with
  | [] => 0
  | x :: r => (if ls_present x && (ls_state x =? st_hr) then 1 else 0) + count_hr r
  end.

Lemma count_hr_nonneg : forall ss, 0 <= count_hr ss.
Proof. induction ss as [|x r IH]; cbn [count_hr]; [lia|]. destruct (ls_present x && (ls_state x =? st_hr)); lia. Qed.

Lemma hr_loop_count : forall e ss ch a b k st, hr_loop e ss ch = (a, b, k, st) ->
  count_hr a = count_hr ss + k /\ 0 <= k.
Proof.
  induction ss as [|x ss IH]; intros ch a b k st H; cbn in H.
  - inversion H; subst. cbn. lia.
  - destruct ch as [|c ch]; [inversion H; subst; lia|].
    destruct (ls_present x) eqn:Hp; cbn in H.
    + destruct (ls_hs x); cbn in H; [|inversion H; subst; lia].
      destruct (ls_state x =? st_default) eqn:Hd; cbn in H.
      * destruct (hr_loop e ss ch) as [[[a' b'] k'] st'] eqn:Hl. inversion H; subst.
        destruct (IH ch a' b' k' st Hl) as [H1 H2].
        cbn [count_hr ls_set_state ls_present ls_state]. rewrite Hp.
        apply Z.eqb_eq in Hd. rewrite Hd. rewrite zeqb_hr_default. rewrite Z.eqb_refl. cbn [andb]. lia.
      * destruct (hr_loop e ss ch) as [[[a' b'] k'] st'] eqn:Hl. inversion H; subst.
        destruct (IH ch a' b' k st Hl) as [H1 H2].
        cbn [count_hr]. lia.
    + destruct (hr_loop e ss ch) as [[[a' b'] k'] st'] eqn:Hl. inversion H; subst.
      destruct (IH ch a' b' k st Hl) as [H1 H2].
      cbn [count_hr]. rewrite Hp. cbn [andb]. lia.
Qed.

Lemma hr_loop_lengths : forall e ss ch a b k st, hr_loop e ss ch = (a, b, k, st) ->
  length a = length ss /\ length b = length ch.
Proof.
  induction ss as [|x ss IH]; intros ch a b k st H; cbn in H.
  - inversion H; subst; auto.
  - destruct ch as [|c ch]; [inversion H; subst; auto|].
    destruct (hr_loop e ss ch) as [[[a' b'] k'] st'] eqn:Hl.
    destruct (IH ch a' b' k' st' Hl) as [L1 L2].
    destruct (ls_present x); cbn in H.
    + destruct (ls_hs x); cbn in H; [|inversion H; subst; auto].
      destruct (ls_state x =? st_default); cbn in H; inversion H; subst; cbn; split; congruence.
    + inversion H; subst; cbn; split; congruence.
Qed.

(* ------------------------------------------------------------------ the invariant *)
Definition ok_sess (c : csess) : Prop := cs_alive c = true \/ cs_self c = true.
Definition ok_osess (o : option csess) : Prop := match o with Some c => ok_sess c | None => True end.

Record Inv (s : state) : Prop := {
  inv_hs : all_hs (l_sess (lis s));
  inv_lchk : l_state (lis s) = st_hr <-> l_chk (lis s) = true;
  inv_mchk : m_state (mgr s) = st_hr <-> m_chk (mgr s) = true;
  inv_shape : length (m_reserve (mgr s)) = length (m_pools (mgr s));
  inv_pools : Forall ok_sess (m_pools (mgr s));
  inv_reserve : Forall ok_osess (m_reserve (mgr s));
  inv_swapped : forall i old, nth_error (m_reserve (mgr s)) i = Some (Some old) ->
                exists q, nth_error (m_pools (mgr s)) i = Some q /\ cs_epoch q = m_epoch (mgr s) /\ cs_srv q = None
}.

Lemma init_hs_inv : forall hs, Forall (fun h => h = true) hs -> Inv (init_hs hs).
Proof.
  intros hs H. constructor; cbn.
  - unfold all_hs. induction H; cbn; constructor; auto.
  - split; intro X; [exfalso; revert X; apply states_distinct | discriminate].
  - split; intro X; [exfalso; revert X; apply states_distinct | discriminate].
  - rewrite repeat_length, map_length, seq_length. reflexivity.
  - apply Forall_forall. intros c Hc. apply in_map_iff in Hc. destruct Hc as [j [Hj _]]. subst c. left. reflexivity.
  - apply Forall_repeat. exact I.
  - intros i old Hn. apply nth_error_repeat_some in Hn. discriminate.
Qed.

Lemma init_inv : forall n, Inv (init n).
Proof. intro n. apply init_hs_inv. apply Forall_repeat. reflexivity. Qed.

Lemma ok_kill : forall c, ok_sess (kill_self c).
Proof. intro c. right. reflexivity. Qed.

Lemma mgr_on_restart_inv : forall s i e ok ch,
  Inv s -> Inv {| lis := lis s; mgr := mgr_on_restart (mgr s) i e ok; to_client := ch; to_server := to_server s |}.
Proof.
  intros s i e ok ch H. destruct H as [Hhs Hl Hm Hsh Hp Hr Hsw].
  unfold mgr_on_restart.
  destruct ((m_state (mgr s) =? st_hr) && negb (m_epoch (mgr s) =? e)) eqn:Hstale.
  { constructor; cbn; auto. }
  (* m1 satisfies the manager part of the invariant *)
  set (m1 := if m_state (mgr s) =? st_hr then mgr s
             else {| m_state := st_hr; m_epoch := e; m_chk := true; m_pools := m_pools (mgr s);
                     m_reserve := repeat None (length (m_pools (mgr s))); m_created := m_created (mgr s) |}).
  assert (H1 : (m_state m1 = st_hr <-> m_chk m1 = true) /\ length (m_reserve m1) = length (m_pools m1)
               /\ Forall ok_sess (m_pools m1) /\ Forall ok_osess (m_reserve m1)
               /\ (forall j old, nth_error (m_reserve m1) j = Some (Some old) ->
                     exists q, nth_error (m_pools m1) j = Some q /\ cs_epoch q = m_epoch m1 /\ cs_srv q = None)).
  { subst m1. destruct (m_state (mgr s) =? st_hr); cbn.
    - repeat split; auto; apply Hm.
    - repeat split; auto.
      + apply repeat_length.
      + apply Forall_repeat. exact I.
      + intros j old Hn. apply nth_error_repeat_some in Hn. discriminate. }
  destruct H1 as [Hm1 [Hsh1 [Hp1 [Hr1 Hsw1]]]].
  clearbody m1.
  destruct (nth_error (m_reserve m1) i) as [[old|]|] eqn:Hri.
  - constructor; cbn; auto.
  - destruct ok; cbn; [|constructor; cbn; auto].
    destruct (nth_error (m_pools m1) i) as [old|] eqn:Hpi; [|constructor; cbn; auto].
    constructor; cbn; auto.
    + rewrite !upd_length. exact Hsh1.
    + apply Forall_upd; auto. left. reflexivity.
    + apply Forall_upd; auto. cbn. eapply Forall_nth_error; eauto.
    + intros j old' Hn. destruct (Nat.eq_dec i j) as [->|Hne].
      * exists (new_sess (m_epoch m1)). split; [eapply nth_error_upd_same; eauto|]. split; reflexivity.
      * rewrite nth_error_upd_other in Hn by exact Hne. rewrite nth_error_upd_other by exact Hne. apply (Hsw1 j old' Hn).
  - (* i beyond the reserve table: nothing is indexed *)
    destruct ok; cbn; [|constructor; cbn; auto].
    destruct (nth_error (m_pools m1) i) as [old|] eqn:Hpi; [|constructor; cbn; auto].
    exfalso. apply nth_error_None in Hri. assert (nth_error (m_pools m1) i <> None) as X by congruence.
    apply nth_error_Some in X. lia.
Qed.

Lemma step_inv : forall s ev, Inv s -> Inv (step s ev).
Proof.
  intros s ev H. unfold step. destruct (enabled s ev) eqn:He; [|exact H].
  pose proof H as [Hhs Hl Hm Hsh Hp Hr Hsw].
  destruct ev; cbn [apply_event].
  - (* ServerHotRestart *)
    unfold hot_restart. destruct (l_state (lis s) =? st_hr) eqn:Hst; cbn; [exact H|].
    pose proof (hr_loop_no_early e (l_sess (lis s)) (to_client s) Hhs) as Hne.
    pose proof (hr_loop_hs e (l_sess (lis s)) (to_client s) Hhs) as Hhs'.
    destruct (hr_loop e (l_sess (lis s)) (to_client s)) as [[[ss ch] k] early]. cbn in Hne, Hhs'. subst early.
    cbn. constructor; cbn; auto. split; auto.
  - (* DeliverRestart *)
    unfold pop_head. destruct (nth_error (to_client s) i) as [[|e q]|]; try exact H.
    apply mgr_on_restart_inv. exact H.
  - (* SendRestart *)
    destruct (nth_error (to_client s) i); [|exact H]. constructor; cbn; auto.
  - constructor; cbn; auto.
  - (* ManagerTick *)
    destruct (count_some (m_reserve (mgr s)) =? length (m_pools (mgr s)))%nat; [|exact H].
    constructor; cbn; auto.
    split; intro X; [exfalso; revert X; apply states_distinct | discriminate].
  - (* ManagerTimeout *)
    constructor; cbn; auto.
    + split; intro X; [exfalso; revert X; apply states_distinct | discriminate].
    + apply repeat_length.
    + apply Forall_repeat. exact I.
    + intros i old Hn. apply nth_error_repeat_some in Hn. discriminate.
  - (* DeliverAck *)
    unfold pop_head. destruct (nth_error (to_server s) i) as [[|e q]|]; try exact H.
    unfold lis_on_ack.
    destruct ((l_state (lis s) =? st_hr) && (e =? l_epoch (lis s)) &&
              match nth_error (l_sess (lis s)) i with Some x => ls_state x =? st_hr | None => false end);
      [|constructor; cbn; auto].
    constructor; cbn; auto.
    destruct (nth_error (l_sess (lis s)) i) as [x|] eqn:Hx; [|exact Hhs].
    apply Forall_upd; [exact Hhs|]. cbn. eapply (Forall_nth_error _ _ _ _ _ Hhs Hx).
  - destruct (nth_error (to_server s) i); [|exact H]. constructor; cbn; auto.
  - constructor; cbn; auto.
  - (* ListenerTick *)
    cbn in He.
    destruct (l_state (lis s) =? st_hr) eqn:Hst; cbn.
    + destruct (l_ack (lis s) =? 0); [|exact H].
      constructor; cbn; auto. split; intro X; [exfalso; revert X; apply states_distinct | discriminate].
    + exfalso. apply Hl in He. rewrite He in Hst. rewrite Z.eqb_refl in Hst. discriminate.
  - (* ListenerTimeout *)
    constructor; cbn; auto.
    + unfold all_hs in *. apply Forall_forall. intros x Hx. apply in_map_iff in Hx. destruct Hx as [y [Hy Hin]].
      rewrite Forall_forall in Hhs. specialize (Hhs y Hin). subst x. destruct (ls_present y); cbn; auto.
    + split; intro X; [exfalso; revert X; apply states_distinct | discriminate].
  - (* PoolSessionDies *)
    destruct (nth_error (m_pools (mgr s)) i) as [c|] eqn:Hc; [|exact H].
    constructor; cbn; auto.
    + rewrite upd_length. exact Hsh.
    + apply Forall_upd; auto. apply ok_kill.
    + intros j old Hn. destruct (Hsw j old Hn) as [q [Hq [He1 He2]]].
      destruct (Nat.eq_dec i j) as [->|Hne].
      * exists (kill_self c). split; [eapply nth_error_upd_same; eauto|].
        rewrite Hc in Hq. inversion Hq; subst. cbn. auto.
      * exists q. rewrite nth_error_upd_other by exact Hne. auto.
  - (* ParkedSessionDies *)
    destruct (nth_error (m_reserve (mgr s)) i) as [[c|]|] eqn:Hc; try exact H.
    constructor; cbn; auto.
    + rewrite upd_length. exact Hsh.
    + apply Forall_upd; auto. cbn. apply ok_kill.
    + intros j old Hn. destruct (Nat.eq_dec i j) as [->|Hne].
      * apply (Hsw j c Hc).
      * rewrite nth_error_upd_other in Hn by exact Hne. apply (Hsw j old Hn).
  - (* ListenerSessionGone *)
    destruct (nth_error (l_sess (lis s)) i) as [x|] eqn:Hx; [|exact H].
    constructor; cbn; auto.
    apply Forall_upd; [exact Hhs|]. cbn. eapply (Forall_nth_error _ _ _ _ _ Hhs Hx).
  - exact H.
Qed.

Lemma reach_inv : forall hs evs, Forall (fun h => h = true) hs -> Inv (run evs (init_hs hs)).
Proof. intros. apply run_inv; [exact step_inv | apply init_hs_inv; assumption]. Qed.

(* ------------------------------------------------------------------ C16_exit *)
Theorem exit_no_stuck : forall hs evs, Forall (fun h => h = true) hs ->
  let s := run evs (init_hs hs) in
  (l_state (lis s) = st_hr <-> l_chk (lis s) = true) /\ (m_state (mgr s) = st_hr <-> m_chk (mgr s) = true).
Proof. intros hs evs H s. destruct (reach_inv hs evs H). auto. Qed.

Theorem exit_timeout_leaves : forall s,
  (l_chk (lis s) = true ->
     l_state (lis (step s ListenerTimeout)) = st_default /\ l_chk (lis (step s ListenerTimeout)) = false
     /\ l_ack (lis (step s ListenerTimeout)) = 0) /\
  (m_chk (mgr s) = true ->
     m_state (mgr (step s ManagerTimeout)) = st_default /\ m_chk (mgr (step s ManagerTimeout)) = false
     /\ count_some (m_reserve (mgr (step s ManagerTimeout))) = 0%nat).
Proof.
  intro s. split; intro H; unfold step; cbn [enabled]; rewrite H; cbn; repeat split; auto.
  induction (length (m_pools (mgr s))); cbn; auto.
Qed.

(* a tick either terminates the checker with state <> hotRestartState or leaves everything unchanged *)
Theorem exit_tick : forall s,
  (l_chk (lis (step s ListenerTick)) = false -> l_chk (lis s) = true -> l_state (lis (step s ListenerTick)) <> st_hr) /\
  (m_chk (mgr (step s ManagerTick)) = false -> m_chk (mgr s) = true -> m_state (mgr (step s ManagerTick)) <> st_hr).
Proof.
  intro s. split; intros H1 H2; unfold step in *; cbn [enabled] in *; rewrite H2 in *; cbn in *.
  - destruct (l_state (lis s) =? st_hr) eqn:Hst; cbn in *.
    + destruct (l_ack (lis s) =? 0); cbn in *; [apply states_distinct | congruence].
    + apply Z.eqb_neq. exact Hst.
  - destruct (count_some (m_reserve (mgr s)) =? length (m_pools (mgr s)))%nat; cbn in *; [apply states_distinct | congruence].
Qed.

(* without the handshake guard the early return of Listener.HotRestart leaves a stuck state *)
Theorem exit_stuck_witness :
  let s := run [ServerHotRestart 7] (init_hs [false]) in
  l_state (lis s) = st_hr /\ l_chk (lis s) = false /\
  (forall evs, l_state (lis (run evs s)) = st_hr /\ l_chk (lis (run evs s)) = false).
Proof.
  cbn zeta. split; [reflexivity|]. split; [reflexivity|].
  set (s0 := run [ServerHotRestart 7] (init_hs [false])).
  assert (G : forall evs s, l_state (lis s) = st_hr /\ l_chk (lis s) = false ->
                            l_state (lis (run evs s)) = st_hr /\ l_chk (lis (run evs s)) = false).
  { induction evs as [|ev r IH]; intros s Hs; cbn; auto. apply IH.
    destruct Hs as [Ha Hb]. unfold step. destruct (enabled s ev) eqn:He; [|auto].
    destruct ev; cbn [apply_event]; cbn in He; try congruence.
    - unfold hot_restart. rewrite Ha. rewrite Z.eqb_refl. cbn. auto.
    - unfold pop_head. destruct (nth_error (to_client s) i) as [[|e q]|]; cbn; auto.
    - destruct (nth_error (to_client s) i); cbn; auto.
    - cbn. auto.
    - destruct (count_some (m_reserve (mgr s)) =? length (m_pools (mgr s)))%nat; cbn; auto.
    - cbn. auto.
    - unfold pop_head. destruct (nth_error (to_server s) i) as [[|e q]|]; cbn; auto.
      unfold lis_on_ack.
      destruct ((l_state (lis s) =? st_hr) && (e =? l_epoch (lis s)) &&
                match nth_error (l_sess (lis s)) i with Some x => ls_state x =? st_hr | None => false end); cbn; auto.
    - destruct (nth_error (to_server s) i); cbn; auto.
    - cbn. auto.
    - destruct (nth_error (m_pools (mgr s)) i); cbn; auto.
    - destruct (nth_error (m_reserve (mgr s)) i) as [[c|]|]; cbn; auto.
    - destruct (nth_error (l_sess (lis s)) i); cbn; auto.
    - auto. }
  intro evs. apply G. split; reflexivity.
Qed.

(* ------------------------------------------------------------------ C16_complete *)
Theorem complete_swapped : forall n evs i old,
  let s := run evs (init n) in
  nth_error (m_reserve (mgr s)) i = Some (Some old) ->
  ok_sess old /\
  exists q, nth_error (m_pools (mgr s)) i = Some q /\ cs_epoch q = m_epoch (mgr s) /\ cs_srv q = None.
Proof.
  intros n evs i old s Hn. destruct (init_inv n) as [_ _ _ _ _ _ _].
  pose proof (run_inv Inv step_inv evs (init n) (init_inv n)) as [_ _ _ _ _ Hr Hsw].
  split; [|apply (Hsw i old Hn)].
  apply (Forall_nth_error _ ok_osess _ _ _ Hr Hn).
Qed.

Theorem complete_all : forall n evs,
  let s := run evs (init n) in
  count_some (m_reserve (mgr s)) = length (m_pools (mgr s)) ->
  forall i, (i < length (m_pools (mgr s)))%nat ->
  exists q old, nth_error (m_pools (mgr s)) i = Some q /\ cs_epoch q = m_epoch (mgr s) /\ cs_srv q = None /\
                nth_error (m_reserve (mgr s)) i = Some (Some old) /\ ok_sess old.
Proof.
  intros n evs s Hc i Hi.
  pose proof (run_inv Inv step_inv evs (init n) (init_inv n)) as [_ _ _ Hsh _ Hr Hsw].
  fold s in Hsh, Hr, Hsw.
  destruct (count_some_full _ (m_reserve (mgr s)) i) as [old Ho]; [congruence | lia |].
  destruct (Hsw i old Ho) as [q [Hq [He Hs]]].
  exists q, old. repeat split; auto.
  apply (Forall_nth_error _ ok_osess _ _ _ Hr Ho).
Qed.

(* the manager's checker completes (state := default, acks) only when every pool has been swapped *)
Theorem complete_tick : forall s, m_chk (mgr s) = true -> m_state (mgr s) = st_hr ->
  m_state (mgr (step s ManagerTick)) = st_default ->
  count_some (m_reserve (mgr (step s ManagerTick))) = length (m_pools (mgr (step s ManagerTick))).
Proof.
  intros s Hc Hs H. unfold step in *. cbn [enabled] in *. rewrite Hc in *. cbn in *.
  destruct (count_some (m_reserve (mgr s)) =? length (m_pools (mgr s)))%nat eqn:E; cbn in *.
  - apply Nat.eqb_eq. exact E.
  - exfalso. rewrite Hs in H. revert H. apply not_eq_sym. apply states_distinct.
Qed.

(* ------------------------------------------------------------------ C16_available *)
Theorem available : forall n evs k,
  let s := run evs (init n) in
  (k < length (m_pools (mgr s)))%nat ->
  get_stream s k = true \/ exists c, nth_error (m_pools (mgr s)) k = Some c /\ cs_self c = true.
Proof.
  intros n evs k s Hk.
  pose proof (run_inv Inv step_inv evs (init n) (init_inv n)) as [_ _ _ _ Hp _ _]. fold s in Hp.
  unfold get_stream. destruct (nth_error (m_pools (mgr s)) k) as [c|] eqn:Hc.
  - destruct (Forall_nth_error _ _ _ _ _ Hp Hc) as [Ha|Hs]; [left; exact Ha | right; eauto].
  - apply nth_error_None in Hc. lia.
Qed.

Lemma step_pools_length : forall s ev, length (m_pools (mgr (step s ev))) = length (m_pools (mgr s)).
Proof.
  intros s ev. unfold step. destruct (enabled s ev); [|reflexivity].
  destruct ev; cbn [apply_event]; try reflexivity.
  - unfold hot_restart. destruct (l_state (lis s) =? st_hr); cbn; [reflexivity|].
    destruct (hr_loop e (l_sess (lis s)) (to_client s)) as [[[ss ch] k] early]. destruct early; reflexivity.
  - unfold pop_head. destruct (nth_error (to_client s) i) as [[|e q]|]; try reflexivity. cbn.
    unfold mgr_on_restart.
    destruct ((m_state (mgr s) =? st_hr) && negb (m_epoch (mgr s) =? e)); [reflexivity|].
    destruct (m_state (mgr s) =? st_hr); cbn.
    + destruct (nth_error (m_reserve (mgr s)) i) as [[o|]|]; try reflexivity;
        destruct ok; cbn; try reflexivity;
        destruct (nth_error (m_pools (mgr s)) i); cbn; try reflexivity; apply upd_length.
    + destruct (nth_error (repeat None (length (m_pools (mgr s)))) i) as [[o|]|]; try reflexivity;
        destruct ok; cbn; try reflexivity;
        destruct (nth_error (m_pools (mgr s)) i); cbn; try reflexivity; apply upd_length.
  - destruct (nth_error (to_client s) i); reflexivity.
  - destruct (count_some (m_reserve (mgr s)) =? length (m_pools (mgr s)))%nat; reflexivity.
  - unfold pop_head. destruct (nth_error (to_server s) i) as [[|e q]|]; reflexivity.
  - destruct (nth_error (to_server s) i); reflexivity.
  - destruct (l_state (lis s) =? st_hr); cbn; [|reflexivity]. destruct (l_ack (lis s) =? 0); reflexivity.
  - destruct (nth_error (m_pools (mgr s)) i); cbn; [apply upd_length | reflexivity].
  - destruct (nth_error (m_reserve (mgr s)) i) as [[c|]|]; reflexivity.
  - destruct (nth_error (l_sess (lis s)) i); reflexivity.
Qed.

Lemma run_pools_length : forall evs s, length (m_pools (mgr (run evs s))) = length (m_pools (mgr s)).
Proof.
  induction evs as [|ev r IH]; intro s; cbn; [reflexivity|]. rewrite IH. apply step_pools_length.
Qed.

Lemma init_pools_length : forall n, length (m_pools (mgr (init n))) = n.
Proof. intro n. cbn. rewrite map_length, seq_length, repeat_length. reflexivity. Qed.

(* ------------------------------------------------------------------ C16_stale_epoch *)
Theorem stale_restart : forall m i e ok, m_state m = st_hr -> e <> m_epoch m -> mgr_on_restart m i e ok = m.
Proof.
  intros m i e ok Hs He. unfold mgr_on_restart. rewrite Hs, Z.eqb_refl. cbn.
  destruct (m_epoch m =? e) eqn:E; [apply Z.eqb_eq in E; congruence | reflexivity].
Qed.

Theorem stale_ack : forall l i e, e <> l_epoch l -> lis_on_ack l i e = l.
Proof.
  intros l i e He. unfold lis_on_ack. destruct (e =? l_epoch l) eqn:E; [apply Z.eqb_eq in E; congruence|].
  rewrite andb_false_r. reflexivity.
Qed.

(* an ack handled outside hotRestartState (late: after the time-out reset the count; or after the
   checker declared the restart done) changes nothing; nor does a second ack on the same session *)
Theorem late_ack_ignored : forall l i e, l_state l <> st_hr -> lis_on_ack l i e = l.
Proof.
  intros l i e H. unfold lis_on_ack. apply Z.eqb_neq in H. rewrite H. reflexivity.
Qed.

Theorem repeated_ack_ignored : forall l i e x, nth_error (l_sess l) i = Some x -> ls_state x <> st_hr ->
  lis_on_ack l i e = l.
Proof.
  intros l i e x Hx H. unfold lis_on_ack. rewrite Hx. apply Z.eqb_neq in H. rewrite H, andb_false_r. reflexivity.
Qed.

(* the same at the level of events: delivering a message whose epoch differs only consumes it *)
Theorem stale_deliver_restart : forall s i ok e q,
  nth_error (to_client s) i = Some (e :: q) -> m_state (mgr s) = st_hr -> e <> m_epoch (mgr s) ->
  lis (step s (DeliverRestart i ok)) = lis s /\ mgr (step s (DeliverRestart i ok)) = mgr s /\
  to_server (step s (DeliverRestart i ok)) = to_server s.
Proof.
  intros s i ok e q Hq Hs He. unfold step. destruct (enabled s (DeliverRestart i ok)); [|auto].
  cbn [apply_event]. unfold pop_head. rewrite Hq. cbn. rewrite stale_restart by assumption. auto.
Qed.

Theorem stale_deliver_ack : forall s i e q,
  nth_error (to_server s) i = Some (e :: q) -> e <> l_epoch (lis s) ->
  lis (step s (DeliverAck i)) = lis s /\ mgr (step s (DeliverAck i)) = mgr s /\
  to_client (step s (DeliverAck i)) = to_client s.
Proof.
  intros s i e q Hq He. unfold step. destruct (enabled s (DeliverAck i)); [|auto].
  cbn [apply_event]. unfold pop_head. rewrite Hq. cbn. rewrite stale_ack by assumption. auto.
Qed.

(* ------------------------------------------------------------------ the ack counter *)
Definition AckInv (s : state) : Prop :=
  count_hr (l_sess (lis s)) <= l_ack (lis s) /\ (l_state (lis s) <> st_hr -> count_hr (l_sess (lis s)) = 0).

Lemma count_hr_upd_done : forall ss i x, nth_error ss i = Some x ->
  count_hr (upd ss i (ls_set_state x st_done)) =
  count_hr ss - (if ls_present x && (ls_state x =? st_hr) then 1 else 0).
Proof.
  induction ss as [|y r IH]; intros [|i] x H; cbn in H; try discriminate.
  - inversion H; subst. cbn [upd count_hr ls_set_state ls_present ls_state]. rewrite zeqb_hr_done.
    rewrite andb_false_r. lia.
  - cbn [upd count_hr]. rewrite (IH i x H). lia.
Qed.

Lemma count_hr_upd_gone : forall ss i x, nth_error ss i = Some x ->
  count_hr (upd ss i {| ls_state := ls_state x; ls_hs := ls_hs x; ls_present := false |}) <= count_hr ss.
Proof.
  induction ss as [|y r IH]; intros [|i] x H; cbn in H; try discriminate.
  - inversion H; subst. cbn [upd count_hr ls_present]. cbn [andb]. destruct (ls_present x && (ls_state x =? st_hr)); lia.
  - cbn [upd count_hr]. specialize (IH i x H). lia.
Qed.

Lemma count_hr_reset : forall ss,
  count_hr (map (fun x => if ls_present x then ls_set_state x st_default else x) ss) = 0.
Proof.
  induction ss as [|x r IH]; cbn [map count_hr]; [reflexivity|]. rewrite IH.
  destruct (ls_present x) eqn:Hp; cbn [ls_set_state ls_present ls_state].
  - rewrite zeqb_hr_default, andb_false_r. reflexivity.
  - rewrite Hp. reflexivity.
Qed.

Lemma step_ackinv : forall s ev, AckInv s -> AckInv (step s ev).
Proof.
  intros s ev [H1 H2]. unfold step, AckInv. destruct (enabled s ev) eqn:He; [|split; assumption].
  destruct ev; cbn [apply_event]; try (split; assumption).
  - (* ServerHotRestart *)
    unfold hot_restart. destruct (l_state (lis s) =? st_hr) eqn:Hst; cbn; [split; assumption|].
    apply Z.eqb_neq in Hst.
    destruct (hr_loop e (l_sess (lis s)) (to_client s)) as [[[ss ch] k] early] eqn:Hl.
    destruct (hr_loop_count _ _ _ _ _ _ _ Hl) as [Hc Hk].
    destruct early; unfold AckInv; cbn; (split; [lia | intro X; exfalso; apply X; reflexivity]).
  - unfold pop_head. destruct (nth_error (to_client s) i) as [[|e q]|]; split; assumption.
  - destruct (nth_error (to_client s) i); split; assumption.
  - destruct (count_some (m_reserve (mgr s)) =? length (m_pools (mgr s)))%nat; split; assumption.
  - (* DeliverAck: counted only in hotRestartState, on a waiting session that is in the table *)
    cbn [enabled] in He. apply andb_prop in He. destruct He as [_ Hpres].
    unfold pop_head.
    destruct (nth_error (to_server s) i) as [[|e q]|]; try (split; assumption). cbn.
    unfold lis_on_ack.
    destruct (nth_error (l_sess (lis s)) i) as [x|] eqn:Hxi; [|discriminate].
    destruct ((l_state (lis s) =? st_hr) && (e =? l_epoch (lis s)) && (ls_state x =? st_hr)) eqn:Hc; [|split; assumption].
    apply andb_prop in Hc. destruct Hc as [Hc Hx]. apply andb_prop in Hc. destruct Hc as [Hst _].
    cbn. rewrite (count_hr_upd_done _ _ _ Hxi). rewrite Hpres, Hx. cbn [andb].
    apply Z.eqb_eq in Hst. split; [lia | intro X; congruence].
  - destruct (nth_error (to_server s) i); split; assumption.
  - (* ListenerTick *)
    destruct (l_state (lis s) =? st_hr) eqn:Hst; cbn.
    + destruct (l_ack (lis s) =? 0) eqn:Ha; [|split; assumption]. cbn.
      apply Z.eqb_eq in Ha. pose proof (count_hr_nonneg (l_sess (lis s))). split; [lia | intros _; lia].
    + split; assumption.
  - (* ListenerTimeout *)
    cbn. rewrite count_hr_reset. split; [lia | auto].
  - destruct (nth_error (m_pools (mgr s)) i); split; assumption.
  - destruct (nth_error (m_reserve (mgr s)) i) as [[c|]|]; split; assumption.
  - (* ListenerSessionGone *)
    destruct (nth_error (l_sess (lis s)) i) as [x|] eqn:Hx; [|split; assumption]. cbn.
    pose proof (count_hr_upd_gone _ _ _ Hx) as Hle.
    pose proof (count_hr_nonneg (upd (l_sess (lis s)) i {| ls_state := ls_state x; ls_hs := ls_hs x; ls_present := false |})).
    split; [lia | intro X; specialize (H2 X); lia].
Qed.

Lemma init_ackinv : forall n, AckInv (init n).
Proof.
  intro n. unfold AckInv, init, init_hs. cbn [lis l_sess l_ack l_state].
  assert (G : forall hs, count_hr (map (fun h => {| ls_state := st_default; ls_hs := h; ls_present := true |}) hs) = 0).
  { induction hs as [|h r IH]; cbn [map count_hr ls_present ls_state]; [reflexivity|].
    rewrite IH, zeqb_hr_default. reflexivity. }
  rewrite G. split; [lia | auto].
Qed.

(* for ALL histories: the count is never negative, it covers every session in the table that still
   waits for its ack, and outside hotRestartState (in particular when the checker declared the
   restart done) no session in the table is still waiting *)
Theorem ack_full : forall n evs,
  let s := run evs (init n) in
  0 <= l_ack (lis s) /\ count_hr (l_sess (lis s)) <= l_ack (lis s) /\
  (l_state (lis s) <> st_hr -> count_hr (l_sess (lis s)) = 0).
Proof.
  intros n evs. cbn zeta.
  destruct (run_inv AckInv step_ackinv evs (init n) (init_ackinv n)) as [H1 H2].
  pose proof (count_hr_nonneg (l_sess (lis (run evs (init n))))). repeat split; [lia | exact H1 | exact H2].
Qed.

(* the former witness: the listener times out, then the ack arrives — now ignored *)
Definition late_ack_history : list event :=
  [ServerHotRestart 5; DeliverRestart 0 true; ManagerTick; ListenerTimeout; DeliverAck 0].

(* ------------------------------------------------------------------ the old sessions survive a completed hand-over *)
(* Outside hotRestartState (in particular after the manager's checker declared the hand-over done and
   RETURNED: ManagerTick's completion case clears m_chk) no step except the first event of a NEW hot
   restart removes or closes a parked pool: the manager's checker has no enabled step (its tick and its
   time-out need a running checker), a parked session can only die by itself (the old server lets go). *)
Theorem old_sessions_survive : forall hs evs ev i c, Forall (fun h => h = true) hs ->
  let s := run evs (init_hs hs) in
  m_state (mgr s) <> st_hr -> (forall j ok, ev <> DeliverRestart j ok) ->
  nth_error (m_reserve (mgr s)) i = Some (Some c) ->
  m_chk (mgr s) = false /\
  exists c', nth_error (m_reserve (mgr (step s ev))) i = Some (Some c') /\ (c' = c \/ c' = kill_self c).
Proof.
  intros hs evs ev i c Hhs s Hst Hne Hr.
  destruct (reach_inv hs evs Hhs) as [_ _ Hm _ _ _ _]. fold s in Hm.
  assert (Hc : m_chk (mgr s) = false).
  { destruct (m_chk (mgr s)) eqn:E; [|reflexivity]. exfalso. apply Hst. apply Hm. reflexivity. }
  split; [exact Hc|].
  unfold step. destruct (enabled s ev) eqn:He; [|exists c; auto].
  destruct ev; cbn [apply_event]; cbn [enabled] in He; try (exists c; cbn; auto; fail).
  - unfold hot_restart. destruct (l_state (lis s) =? st_hr); cbn; [exists c; auto|].
    destruct (hr_loop e (l_sess (lis s)) (to_client s)) as [[[ss ch] k] early]. destruct early; cbn; exists c; auto.
  - exfalso. apply (Hne i0 ok). reflexivity.
  - destruct (nth_error (to_client s) i0); cbn; exists c; auto.
  - rewrite Hc in He. discriminate.
  - rewrite Hc in He. discriminate.
  - unfold pop_head. destruct (nth_error (to_server s) i0) as [[|e q]|]; cbn; exists c; auto.
  - destruct (nth_error (to_server s) i0); cbn; exists c; auto.
  - destruct (l_state (lis s) =? st_hr); cbn; [|exists c; auto]. destruct (l_ack (lis s) =? 0); cbn; exists c; auto.
  - destruct (nth_error (m_pools (mgr s)) i0); cbn; exists c; auto.
  - (* ParkedSessionDies *)
    destruct (nth_error (m_reserve (mgr s)) i0) as [[c0|]|] eqn:Hc0; try (exists c; auto; fail). cbn.
    destruct (Nat.eq_dec i0 i) as [->|Hn].
    + rewrite Hr in Hc0. inversion Hc0; subst. exists (kill_self c0). split; [eapply nth_error_upd_same; eauto | auto].
    + exists c. rewrite nth_error_upd_other by exact Hn. auto.
  - destruct (nth_error (l_sess (lis s)) i0); cbn; exists c; auto.
Qed.

(* the completion case of the manager's tick ends the checker (the `return` of the "all pools moved"
   branch) and keeps every parked pool *)
Theorem manager_done_returns : forall s, m_chk (mgr s) = true ->
  count_some (m_reserve (mgr s)) = length (m_pools (mgr s)) ->
  m_chk (mgr (step s ManagerTick)) = false /\ m_state (mgr (step s ManagerTick)) = st_default /\
  m_reserve (mgr (step s ManagerTick)) = m_reserve (mgr s) /\ m_pools (mgr (step s ManagerTick)) = m_pools (mgr s).
Proof.
  intros s Hc Hn. unfold step. cbn [enabled]. rewrite Hc. cbn [apply_event].
  rewrite Hn, Nat.eqb_refl. cbn. auto.
Qed.
