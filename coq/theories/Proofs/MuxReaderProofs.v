(* The synchronous reader (Model/MuxReader.v): end of stream is reported by the wait loop only after a moveTo
   that follows the close notification; at the entry of readMore it is not. *)
From Coq Require Import List Bool Arith Lia.
From Shm Require Import Gen.SwitchC07 Model.MuxReader.
Import ListNotations.

Record RInv (em : bool) (s : rst) : Prop := {
  r_cls : rcls s = true -> ropen s = false;
  r_close : rp s = RClose -> rcls s = true;
  r_closel : rp s = RCloseL -> rpend s = 0 /\ ropen s = false;
  r_entry : rp s = REntry -> ropen s = false;
  r_entryl : rp s = REntryL -> rpend s = 0 /\ ropen s = false;
  r_sel : rsel s = true -> rp s = RDone REos /\ rpend s = 0 /\ ropen s = false;
  r_eos : em = true -> rp s = RDone REos -> rpend s = 0 /\ ropen s = false }.

Lemma rinit_inv em min : RInv em (rinit min).
Proof. constructor; simpl; intros; discriminate. Qed.

Ltac use_all := repeat match goal with H : ?P -> _, E : ?P |- _ => specialize (H E) end.
Ltac fin := constructor; simpl; intros; use_all; intuition (try congruence; try discriminate; try lia).

Lemma rstep_inv em s a : RInv em s -> RInv em (rstep true em s a).
Proof.
  intros H. pose proof H as [Hc Hcl Hl He Hel Hs Hd]. destruct a; simpl.
  - destruct (ropen s) eqn:Eo; fin.
  - fin.
  - destruct (ropen s) eqn:Eo; fin.
  - fin.
  - (* a reader step *)
    destruct (rp s) eqn:Ep; simpl.
    + fin.
    + destruct (rmin s <=? rbuf s); fin.
    + destruct (Nat.eqb l 0 && negb (ropen s)) eqn:Ec; [|fin].
      apply andb_true_iff in Ec. destruct Ec as [_ Ec]. apply negb_true_iff in Ec.
      destruct em; fin.
    + (* REntry: moveTo after the state was seen to have left opened *)
      specialize (He eq_refl). fin.
    + destruct (Hel eq_refl) as [Hp Ho]. destruct (rmin s <=? rbuf s); [fin|]. destruct (Nat.eqb (rbuf s) 0); fin.
    + exact H.
    + destruct (rmin s <=? rbuf s + rpend s); fin.
    + specialize (Hcl eq_refl). fin.
    + destruct (Hl eq_refl) as [Hp Ho]. destruct (rmin s <=? rbuf s); fin.
    + exact H.
  - destruct (rp s) eqn:Ep; simpl; try exact H.
    destruct b.
    + destruct (rtok s); fin.
    + destruct (rcls s) eqn:Ec; fin.
    + destruct (rtmo s); fin.
Qed.

Lemma rrun_inv em l min : RInv em (rrun_g true em l min).
Proof.
  unfold rrun_g. generalize (rinit_inv em min). generalize (rinit min).
  induction l as [|a l IH]; simpl; intros s H; auto. apply IH, rstep_inv, H.
Qed.

(* THE POINT AT WHICH THE THEOREMS DEPEND ON THE SOURCE (Gen/SwitchC07.v, regenerated from readMore) *)
Lemma sw_close_moves : sw_close_branch_moves = true.
Proof. reflexivity. Qed.

(* end of stream reported by the wait loop (the closeNotifyCh branch): every byte that arrived before the close
   has been moved into recvBuf (offered); all schedules of dispatcher and reader, every choice of the select *)
Theorem eos_from_wait_after_last_bytes l min :
  rsel (rrun l min) = true -> told_eos (rrun l min) = true /\ rpend (rrun l min) = 0.
Proof.
  unfold rrun. rewrite sw_close_moves. intros E.
  destruct (r_sel _ _ (rrun_inv _ l min) E) as [A [B _]]. unfold told_eos. rewrite A. auto.
Qed.

(* the full statement: whenever the reader is told the stream ended, nothing is left un-offered *)
Definition eos_full_g (em : bool) : Prop := forall l min, eos_ok (rrun_g true em l min) = true.

(* it holds if the entry test of readMore moves pending data again before it reports the end ... *)
Theorem eos_full_if_entry_rechecks : eos_full_g true.
Proof.
  intros l min. unfold eos_ok, told_eos. pose proof (rrun_inv true l min) as H.
  destruct (rp (rrun_g true true l min)) eqn:Ep; auto. destruct r; auto.
  destruct (r_eos _ _ H eq_refl Ep) as [A _]. rewrite A. reflexivity.
Qed.

(* ... and is false if it does not (the code as of 1ff1743): readMore's entry test `recvLen == 0 && !IsOpen()` uses a
   length read BEFORE the last message and the close arrived (they land between the moveTo at the top and the
   IsOpen load) *)
Definition wit_entry := [AStep; AStep; AData 8; ACloseState; ACloseChan; AStep].
Lemma wit_entry_run :
  let s := rrun_g true false wit_entry 8 in
  rp s = RDone REos /\ rpend s = 8 /\ rbuf s = 0 /\ rsel s = false /\ eos_ok s = false.
Proof. vm_compute. repeat split. Qed.
Theorem eos_refuted_if_entry_does_not_recheck : ~ eos_full_g false.
Proof.
  intros H. assert (E : eos_ok (rrun_g true false wit_entry 8) = false) by (vm_compute; reflexivity).
  rewrite (H wit_entry 8) in E. discriminate E.
Qed.

(* the statement about the code that exists, whichever of the two entry shapes the translator finds *)
Definition eos_full : Prop := forall l min, eos_ok (rrun l min) = true.
Theorem eos_by_entry_shape : if sw_entry_rechecks then eos_full else ~ eos_full.
Proof.
  unfold eos_full, rrun. rewrite sw_close_moves.
  generalize sw_entry_rechecks. intros [|]; [exact eos_full_if_entry_rechecks | exact eos_refuted_if_entry_does_not_recheck].
Qed.

(* what the wait-loop theorem depends on: without the moveTo in the closeNotifyCh branch the select may pick that
   branch while the last message (data notification also ready) is still in pendingData *)
Definition wit_sel := [AStep; AStep; AStep; AData 8; ACloseState; ACloseChan; APick BClose; AStep; AStep].
Lemma close_branch_needs_move :
  (let s := rrun_g false false wit_sel 8 in rp s = RDone REos /\ rsel s = true /\ rpend s = 8 /\ rtok s = true) /\
  (let s := rrun_g true false wit_sel 8 in rp s = RDone ROk /\ rpend s = 0 /\ rbuf s = 8).
Proof. vm_compute. repeat split. Qed.
Theorem no_move_refutes :
  ~ (forall em l min, let s := rrun_g false em l min in rsel s = true -> rpend s = 0).
Proof.
  intros H. specialize (H false wit_sel 8). cbv zeta in H.
  assert (E1 : rsel (rrun_g false false wit_sel 8) = true) by (vm_compute; reflexivity).
  assert (E2 : rpend (rrun_g false false wit_sel 8) = 8) by (vm_compute; reflexivity).
  rewrite (H E1) in E2. discriminate E2.
Qed.
