(* C07, the order statement at full strength (after the two repairs: "close through the socket when the
   stream is in fallback state" and "empty the queue before a socket item is handed to its stream"):
   for EVERY schedule, any number of streams and every pattern of shared-memory exhaustion / queue-full,
   every stream is delivered in the order its writer handed its items over, with the end mark last.

   Why it holds: a stream only ever switches from the queue to the socket (sticky fallback; the close
   follows the data); the consumer hands a socket item to its stream only at a moment at which the queue
   is empty, so every queue item of that stream (all of them were published before the socket item was
   written) has been delivered; each transport is FIFO (MuxProofs). *)
From Coq Require Import List ZArith Lia Bool Arith Permutation.
From Shm Require Import Gen.Consts Gen.SwitchC07 Model.Wakeup Model.Mux Proofs.WakeupProofs Proofs.MuxProofs.
Import ListNotations.
Open Scope nat_scope.

Definition has_q (i : nat) (q : list item) : bool := existsb (of_stream i) q.
Definition fS (i : nat) (l : list entry) : list item := filter (of_stream i) (projV VS l).
Definition fQ (i : nat) (l : list entry) : list item := filter (of_stream i) (projV VQ l).
Definition fA (i : nat) (l : list entry) : list item := filter (of_stream i) (map fst l).

Record OX (q : list item) (pr : list mlocal) (F D : list entry) : Prop := {
  (* a stream that has handed something to the socket never uses the queue again *)
  x_phase : forall i p, nth_error pr i = Some p -> fS i F <> [] -> infb p = true \/ closed p = true;
  (* once a socket item of a stream has been delivered the queue holds nothing of that stream *)
  x_sd : forall i, fS i D <> [] -> has_q i q = false;
  (* per stream, handed over = queue items then socket items; delivered likewise *)
  x_fl : forall i, fA i F = fQ i F ++ fS i F;
  x_dl : forall i, fA i D = fQ i D ++ fS i D }.

(* ---------- list lemmas ---------- *)
Lemma nth_set_cases {A} (l : list A) i j p p' q :
  nth_error l i = Some p -> nth_error (set_nth i p' l) j = Some q ->
  (j = i /\ q = p') \/ (j <> i /\ nth_error l j = Some q).
Proof.
  intros Hp Hq. destruct (Nat.eq_dec i j) as [->|Hne].
  - rewrite (nth_error_set_nth_eq _ _ _ _ Hp) in Hq. inversion Hq. left; auto.
  - rewrite nth_error_set_nth_neq in Hq by auto. right; auto.
Qed.

Lemma has_q_app i a b : has_q i (a ++ b) = has_q i a || has_q i b.
Proof. unfold has_q. apply existsb_app. Qed.
Lemma has_q_filter i q : has_q i q = false <-> filter (of_stream i) q = [].
Proof.
  induction q as [|x q IH]; simpl; [tauto|]. destruct (of_stream i x); simpl; [split; discriminate|exact IH].
Qed.

Lemma fS_app i a b : fS i (a ++ b) = fS i a ++ fS i b.
Proof. unfold fS. rewrite projV_app, filter_app. reflexivity. Qed.
Lemma fQ_app i a b : fQ i (a ++ b) = fQ i a ++ fQ i b.
Proof. unfold fQ. rewrite projV_app, filter_app. reflexivity. Qed.
Lemma fA_app i a b : fA i (a ++ b) = fA i a ++ fA i b.
Proof. unfold fA. rewrite map_app, filter_app. reflexivity. Qed.
Lemma fS_one_q i x : fS i [(x, VQ)] = []. Proof. reflexivity. Qed.
Lemma fQ_one_s i x : fQ i [(x, VS)] = []. Proof. reflexivity. Qed.
Lemma fS_one_s i x : fS i [(x, VS)] = filter (of_stream i) [x]. Proof. reflexivity. Qed.
Lemma fQ_one_q i x : fQ i [(x, VQ)] = filter (of_stream i) [x]. Proof. reflexivity. Qed.
Lemma fA_one i x v : fA i [(x, v)] = filter (of_stream i) [x]. Proof. reflexivity. Qed.
Lemma of_stream_other i j x : fst x = i -> j <> i -> of_stream j x = false.
Proof. intros E Hn. unfold of_stream. apply Nat.eqb_neq. congruence. Qed.
Lemma of_stream_own i x : fst x = i -> of_stream i x = true.
Proof. intros E. unfold of_stream. apply Nat.eqb_eq. auto. Qed.

Definition f1 (j : nat) (x : item) : list item := filter (of_stream j) [x].
Lemma f1_other i j x : fst x = i -> j <> i -> f1 j x = [].
Proof. intros E Hn. unfold f1. simpl. rewrite (of_stream_other i j x E Hn). reflexivity. Qed.
Lemma f1_own i x : fst x = i -> f1 i x = [x].
Proof. intros E. unfold f1. simpl. rewrite (of_stream_own i x E). reflexivity. Qed.


Ltac cases_j Hp Hj :=
  let Hne := fresh "Hne" in let Hj' := fresh "Hj'" in
  destruct (nth_set_cases _ _ _ _ _ _ Hp Hj) as [[-> ->]|[Hne Hj']].

(* ---------- preservation, at the level of the components ---------- *)
Lemma ox_pc q pr F D i p p' :
  OX q pr F D -> nth_error pr i = Some p -> infb p' = infb p -> closed p' = closed p ->
  OX q (set_nth i p' pr) F D.
Proof.
  intros [Hph Hsd Hfl Hdl] Hp Ei Ec. constructor; auto.
  intros j pj Hj Hne0. cases_j Hp Hj; [rewrite Ei, Ec|]; eauto.
Qed.

(* an element is published in the queue (Flush / close through shared memory) *)
Lemma ox_put_q q pr F D i p p' x :
  OX q pr F D -> (forall j, fS j F = [] -> fS j D = []) -> nth_error pr i = Some p -> fst x = i ->
  infb p = false -> closed p = false ->
  OX (q ++ [x]) (set_nth i p' pr) (F ++ [(x, VQ)]) D.
Proof.
  intros [Hph Hsd Hfl Hdl] Hsub Hp Hx Ei Ec.
  assert (HS : fS i F = []).
  { destruct (fS i F) eqn:E; auto. exfalso. destruct (Hph i p Hp) as [A|A]; congruence. }
  constructor; auto.
  - intros j pj Hj Hne0. rewrite fS_app, fS_one_q, app_nil_r in Hne0. cases_j Hp Hj; [congruence|eauto].
  - intros j Hne0. rewrite has_q_app. simpl. rewrite orb_false_r.
    rewrite (Hsd j Hne0). simpl. destruct (Nat.eq_dec j i) as [->|Hne]; [|apply (of_stream_other i j x Hx Hne)].
    exfalso. apply Hne0. apply Hsub. exact HS.
  - intros j. rewrite fA_app, fQ_app, fS_app, fS_one_q, app_nil_r, fA_one, fQ_one_q, Hfl.
    fold (f1 j x). destruct (Nat.eq_dec j i) as [->|Hne].
    + rewrite HS, !app_nil_r. reflexivity.
    + rewrite (f1_other i j x Hx Hne), !app_nil_r. reflexivity.
Qed.

(* an item is handed to the socket path (writeFallback / close through the socket) *)
Lemma ox_put_s q pr F D i p p' x :
  OX q pr F D -> nth_error pr i = Some p -> fst x = i -> (infb p' = true \/ closed p' = true) ->
  OX q (set_nth i p' pr) (F ++ [(x, VS)]) D.
Proof.
  intros [Hph Hsd Hfl Hdl] Hp Hx Hic. constructor; auto.
  - intros j pj Hj Hne0. cases_j Hp Hj; auto.
    rewrite fS_app, fS_one_s in Hne0. fold (f1 j x) in Hne0. rewrite (f1_other i j x Hx Hne), app_nil_r in Hne0. eauto.
  - intros j. rewrite fA_app, fQ_app, fS_app, fQ_one_s, app_nil_r, fA_one, fS_one_s, Hfl, app_assoc. reflexivity.
Qed.

(* the consumer pops an element (inside handlePolling or in front of a socket item) *)
Lemma ox_pop x q pr F D : OX (x :: q) pr F D -> OX q pr F (D ++ [(x, VQ)]).
Proof.
  intros [Hph Hsd Hfl Hdl]. constructor; auto.
  - intros j Hne0. rewrite fS_app, fS_one_q, app_nil_r in Hne0. specialize (Hsd j Hne0).
    simpl in Hsd. apply orb_false_iff in Hsd. tauto.
  - intros j. rewrite fA_app, fQ_app, fS_app, fS_one_q, app_nil_r, fA_one, fQ_one_q, Hdl.
    simpl. destruct (of_stream j x) eqn:Eo; [|rewrite !app_nil_r; reflexivity].
    destruct (fS j D) eqn:Es; [rewrite !app_nil_r; reflexivity|].
    assert (Hne0 : fS j D <> []) by (rewrite Es; discriminate).
    specialize (Hsd j Hne0). simpl in Hsd. rewrite Eo in Hsd. discriminate.
Qed.

(* the socket item reaches its stream: the queue is empty at this moment *)
Lemma ox_deliver x pr F D : OX [] pr F D -> OX [] pr F (D ++ [(x, VS)]).
Proof.
  intros [Hph Hsd Hfl Hdl]. constructor; auto.
  intros j. rewrite fA_app, fQ_app, fS_app, fQ_one_s, app_nil_r, fA_one, fS_one_s, Hdl, app_assoc. reflexivity.
Qed.

(* ---------- the invariant on states ---------- *)
Definition OXs (st : mst) : Prop := OX (queue st) (mprods st) (flog st) (deliv st).
Record OInv (st : mst) : Prop := { o_m : MInv st; o_x : OXs st }.

Lemma sub_ok st : MInv st -> forall j, fS j (flog st) = [] -> fS j (deliv st) = [].
Proof.
  intros H j E. unfold fS in *. rewrite <- (m_fs st H), filter_app in E. apply app_eq_nil in E. tauto.
Qed.

(* THE POINT AT WHICH THE ORDER THEOREM DEPENDS ON THE SOURCE: Stream.Flush only ever sets inFallbackState
   (Gen/SwitchC07.v is regenerated from stream.go on every run; if Flush assigns the flag from the current
   buffer instead, this lemma — and with it C07_order — no longer compiles, and unsticky_refutes_order below
   shows the statement is then false). *)
Lemma sw_sticky : sw_fallback_sticky = true.
Proof. reflexivity. Qed.

Lemma oxs_pstep i st : MInv st -> OXs st -> OXs (mpstep i st).
Proof.
  intros HM H. pose proof (sub_ok st HM) as Hsub. pose proof H as H'. unfold OXs in H'.
  unfold mpstep, mpstep_g. rewrite sw_sticky. cbn [andb].
  destruct (nth_error (mprods st) i) as [p|] eqn:Hp; auto.
  destruct (mpc_ p) eqn:Epc.
  - (* MIdle *)
    destruct (mtodo p) as [|[shmok qfull|qfull] r] eqn:Et; auto.
    + destruct (closed p) eqn:Ecl.
      { unfold OXs; simpl. apply ox_pc with (p := p); auto. }
      destruct (infb p || negb shmok) eqn:Efb.
      * unfold OXs; simpl. apply ox_put_s with (p := p); auto.
      * apply orb_false_iff in Efb. destruct Efb as [Efb _]. destruct qfull.
        -- unfold OXs; simpl. apply ox_pc with (p := p); auto.
        -- unfold OXs; simpl. apply ox_put_q with (p := p); auto.
    + destruct (closed p) eqn:Ecl.
      { unfold OXs; simpl. apply ox_pc with (p := p); auto. }
      destruct (infb p || qfull) eqn:Efb.
      * unfold OXs; simpl. apply ox_put_s with (p := p); auto.
      * apply orb_false_iff in Efb. destruct Efb as [Efb _].
        unfold OXs; simpl. apply ox_put_q with (p := p); auto.
  - destruct (mflag st); unfold OXs; simpl; apply ox_pc with (p := p); auto.
  - destruct (mwriting st); unfold OXs; simpl; apply ox_pc with (p := p); auto.
  - unfold OXs; simpl; apply ox_pc with (p := p); auto.
  - unfold OXs; simpl; apply ox_pc with (p := p); auto.
  - unfold OXs; simpl; apply ox_pc with (p := p); auto.
  - unfold OXs; simpl; apply ox_pc with (p := p); auto.
  - destruct (existsb (Nat.eqb i) (acks st)); auto. unfold OXs; simpl; apply ox_pc with (p := p); auto.
Qed.

Lemma oxs_cstep st : OXs st -> OXs (mcstep st).
Proof.
  intros H. unfold mcstep. unfold OXs in *.
  destruct (mcons st) eqn:Ec; simpl; auto.
  - destruct (msock st) as [|[|x] r]; simpl; auto.
  - destruct (queue st) eqn:Eq; simpl; rewrite ?Eq; auto.
  - destruct (queue st) as [|x q] eqn:Eq; simpl; [rewrite Eq; auto|]. apply ox_pop. exact H.
  - destruct empty; simpl; auto.
  - destruct (queue st) as [|e q] eqn:Eq; simpl; [|rewrite Eq; auto]. rewrite Eq. apply ox_deliver. exact H.
  - destruct (queue st) as [|e q] eqn:Eq; simpl; [rewrite Eq; auto|]. apply ox_pop. exact H.
Qed.

Lemma oxs_sstep st : OXs st -> OXs (msstep st).
Proof.
  intros H. unfold msstep. unfold OXs in *.
  destruct (msl st) as [|e|e|e|o]; simpl; auto.
  - destruct (msendch st); simpl; auto.
  - destruct (mwriting st); simpl; auto.
  - destruct (mnotif st); simpl; auto.
Qed.

Lemma oinit progs : OInv (minit progs).
Proof.
  constructor; [apply minit_inv|]. unfold OXs; simpl. constructor; simpl; auto; try discriminate.
Qed.

Lemma ostep st w : OInv st -> OInv (mstep st w).
Proof.
  intros [HM HX]. constructor; [apply mstep_inv; exact HM|].
  destruct w; unfold mstep, mstep_g; [apply oxs_pstep | apply oxs_cstep | apply oxs_sstep]; auto.
Qed.

Theorem orun progs sched : OInv (mrun sched (minit progs)).
Proof.
  unfold mrun, mrun_g. generalize (oinit progs). generalize (minit progs).
  induction sched as [|w r IH]; simpl; intros st H; auto. apply IH, ostep, H.
Qed.

(* ---------- from the invariant to the statement ---------- *)
Lemma split_ordered st s rest :
  MInv st ->
  filter (of_stream s) (map fst (deliv st)) ++ rest = filter (of_stream s) (map fst (flog st)) ->
  ordered s st = true.
Proof.
  intros H Hsplit.
  unfold ordered, seen, sent. rewrite <- Hsplit, map_app, is_prefix_app. simpl.
  unfold end_after_all, seen, sent. rewrite <- Hsplit.
  destruct (existsb (ditem_eqb DEnd) (map snd (filter (of_stream s) (map fst (deliv st))))) eqn:Ee; auto.
  apply (existsb_end_in s) in Ee; [|intros x Hx; eapply filter_of_stream_fst; eauto].
  pose proof (m_end st H s) as Hel.
  assert (Hrest : rest = []) by (eapply end_last_filter; [exact Hel | symmetry; exact Hsplit | exact Ee]).
  subst rest. rewrite app_nil_r in *.
  apply in_split in Ee. destruct Ee as [l1 [l2 El]].
  assert (Hl2 : l2 = []).
  { eapply (end_last_filter s _ (l1 ++ [(s, DEnd)]) l2 Hel).
    - rewrite <- Hsplit, El, <- app_assoc. reflexivity.
    - apply in_or_app. right; left; reflexivity. }
  subst l2. rewrite El, map_app, rev_app_distr. simpl. apply Nat.eqb_refl.
Qed.


Lemma oinv_ordered st s : OInv st -> ordered s st = true.
Proof.
  intros [HM HX]. unfold OXs in HX.
  pose proof (x_dl _ _ _ _ HX s) as Hd. pose proof (x_fl _ _ _ _ HX s) as Hf.
  assert (Hs : fS s (flog st) = fS s (deliv st) ++
               filter (of_stream s) (sockpart st ++ lhand (msl st) ++ xitems (map fst (msendch st)))).
  { unfold fS. rewrite <- (m_fs st HM), filter_app. reflexivity. }
  assert (Hq : fQ s (flog st) = fQ s (deliv st) ++ filter (of_stream s) (queue st)).
  { unfold fQ. rewrite <- (m_fq st HM), filter_app. reflexivity. }
  unfold fA in Hd, Hf.
  destruct (fS s (deliv st)) eqn:Es.
  - apply (split_ordered st s (filter (of_stream s) (queue st) ++ fS s (flog st))); auto.
    rewrite Hd, Hf, Hq, app_nil_r, <- app_assoc. reflexivity.
  - assert (Hne : fS s (deliv st) <> []) by (rewrite Es; discriminate).
    pose proof (x_sd _ _ _ _ HX s Hne) as Hn. apply has_q_filter in Hn.
    apply (split_ordered st s (filter (of_stream s) (sockpart st ++ lhand (msl st) ++ xitems (map fst (msendch st))))); auto.
    rewrite Hd, Hf, Hq, Hn, app_nil_r, Hs. rewrite <- app_assoc. reflexivity.
Qed.

(* THE THEOREM: the order statement at full strength *)
Theorem order_holds : order_full.
Proof. intros progs sched s. apply oinv_ordered, orun. Qed.

(* ---------- what the theorem depends on: a fallback flag that is not sticky refutes it ---------- *)
(* one stream: m0 through the queue (polling event written, not yet handled), shared memory exhausted: m1
   through the socket, shared memory recovers: with a non-sticky flag m2 goes through the queue again
   (markWorking fails: the flag is still up) and the consumer, handling the polling event, delivers m0, m2
   before it reaches m1 on the socket.  With the sticky flag of the code that exists the same schedule
   delivers m0, m1, m2. *)
Definition wit_u_progs := [[OFlush true false; OFlush false false; OFlush true false]].
Definition wit_u_sched := rP 0 6 ++ rP 0 1 ++ rS 4 ++ rP 0 1 ++ rP 0 2 ++ rC 40 ++ rS 5 ++ rP 0 1 ++ rC 20.
Lemma unsticky_run :
  (let st := mrun_g false wit_u_sched (minit wit_u_progs) in
   seen 0 st = [DData 0; DData 2; DData 1] /\ sent 0 st = [DData 0; DData 1; DData 2] /\
   map snd (flog st) = [VQ; VS; VQ] /\ ordered 0 st = false) /\
  (let st := mrun_g true wit_u_sched (minit wit_u_progs) in
   seen 0 st = [DData 0; DData 1; DData 2] /\ map snd (flog st) = [VQ; VS; VS] /\ ordered 0 st = true).
Proof. vm_compute. repeat split. Qed.
Theorem unsticky_refutes_order :
  ~ (forall progs sched s, ordered s (mrun_g false sched (minit progs)) = true).
Proof.
  intros H. assert (E : ordered 0 (mrun_g false wit_u_sched (minit wit_u_progs)) = false) by (vm_compute; reflexivity).
  rewrite (H wit_u_progs wit_u_sched 0) in E. discriminate E.
Qed.

(* ---------- callback mode: the end-of-stream clause is false (Model/MuxCallback.v) ---------- *)
From Shm Require Import Model.MuxCallback.

Definition callback_end_full : Prop := forall l, end_after_data (crun l) = true.

(* the peer does write; Flush; Close: both reach the event loop before the callback goroutine runs; the
   goroutine tests IsOpen(), finds the stream half-closed and never offers the message *)
Definition wit_c := [AData 7; AClose; AGo; AGo; AGo; AGo; AGo].
Lemma wit_c_run :
  let s := crun wit_c in
  ccalls s = [CRemoteClose] /\ carrived s = [7] /\ crbuf s = [7] /\ cg s = GNone /\ end_after_data s = false.
Proof. vm_compute. repeat split. Qed.
Theorem callback_end_refuted : ~ callback_end_full.
Proof.
  intros H. assert (E : end_after_data (crun wit_c) = false) by (vm_compute; reflexivity).
  rewrite (H wit_c) in E. discriminate E.
Qed.
(* the same messages with the goroutine scheduled before the close: offered, then the end *)
Lemma callback_good_run :
  let s := crun [AData 7; AGo; AGo; AClose; AGo; AGo; AGo] in
  ccalls s = [COnData [7]; CRemoteClose] /\ end_after_data s = true.
Proof. vm_compute. repeat split. Qed.
