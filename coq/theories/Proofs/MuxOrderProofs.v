(* C07, order for streams that switch transport (after the repair "close through the socket when the
   stream is in fallback state"): in every run that never hands an item to the socket while a won
   markWorking has not yet produced its polling event (the window of the known defect
   C07:fallback-overtakes-unpublished-wakeup), EVERY stream is delivered in order with its end mark last —
   whatever the fault pattern and however often streams switch from the queue to the socket. *)
From Coq Require Import List ZArith Lia Bool Arith Permutation.
From Shm Require Import Gen.Consts Model.Wakeup Model.Mux Proofs.WakeupProofs Proofs.MuxProofs.
Import ListNotations.
Open Scope nat_scope.

(* ---------- vocabulary ---------- *)
Definition lhandx (x : mspc) : list xev :=
  match x with LCas e | LWait e | LWrite e => [fst e] | _ => [] end.
(* everything written or queued to be written to the connection, in the order it will arrive *)
Definition pipe (st : mst) : list xev := msock st ++ lhandx (msl st) ++ map fst (msendch st).

(* a writer that won markWorking and whose polling event is not in the pipe yet *)
Definition owingb (p : mlocal) : bool := match mpc_ p with MWr | MSlow | MEv => true | _ => false end.
Definition ow1 (p : mlocal) : nat := if owingb p then 1 else 0.
Definition nowing (st : mst) : nat := sumf ow1 (mprods st).
Definition wake (p : mlocal) : bool :=
  match mpc_ p with MMark | MWr | MSlow | MEv | MRel | MNotify => true | _ => false end.

Definition is_xpoll (e : xev) : bool := match e with XPoll => true | _ => false end.
Definition npollx (l : list xev) : nat := length (filter is_xpoll l).
(* a polling event precedes every item of stream i in the pipe *)
Fixpoint guard (i : nat) (l : list xev) : bool :=
  match l with
  | [] => false
  | XPoll :: _ => true
  | XItem x :: r => if of_stream i x then false else guard i r
  end.
Definition not_of (i : nat) (e : xev) : bool := match e with XItem x => negb (of_stream i x) | XPoll => true end.
Definition noitems (i : nat) (l : list xev) : bool := forallb (not_of i) l.
Definition has_q (i : nat) (q : list item) : bool := existsb (of_stream i) q.
Definition will_drain (c : mcpc) : bool := match c with KIdle | KSizeH true => false | _ => true end.
Definition low (c : mcpc) : bool := match c with KIdle | KSizeT | KSizeH _ => true | _ => false end.

Definition fS (i : nat) (l : list entry) : list item := filter (of_stream i) (projV VS l).
Definition fQ (i : nat) (l : list entry) : list item := filter (of_stream i) (projV VQ l).
Definition fA (i : nat) (l : list entry) : list item := filter (of_stream i) (map fst l).

(* the undelivered queue items of stream i are certain to be delivered before any socket item of i *)
Definition G (i : nat) (c : mcpc) (P : list xev) (n : nat) : Prop :=
  will_drain c = true \/ guard i P = true \/ (n > 0 /\ noitems i P = true).

(* the step hands an item to the socket path (writeFallback / close through the socket) *)
Definition hands_sock (st : mst) (w : who) : bool :=
  match w with
  | WProd i =>
    match nth_error (mprods st) i with
    | Some p =>
      match mpc_ p, mtodo p with
      | MIdle, OFlush shmok _ :: _ => negb (closed p) && (infb p || negb shmok)
      | MIdle, OClose qfull :: _ => negb (closed p) && (infb p || qfull)
      | _, _ => false
      end
    | None => false
    end
  | _ => false
  end.
(* the run never does so while a polling event is owed *)
Fixpoint no_window (sched : list who) (st : mst) : bool :=
  match sched with
  | [] => true
  | w :: r => negb (hands_sock st w && (0 <? nowing st)) && no_window r (mstep st w)
  end.

Record OX (q : list item) (P : list xev) (fl : bool) (c : mcpc) (pr : list mlocal) (F D : list entry) : Prop := {
  x_flag : low c = true -> fl = true -> npollx P + sumf ow1 pr > 0;
  x_wake : forall i p, nth_error pr i = Some p -> wake p = true -> fS i F = [];
  x_phase : forall i p, nth_error pr i = Some p -> fS i F <> [] -> infb p = true \/ closed p = true;
  x_guar : forall i p, nth_error pr i = Some p -> mpc_ p <> MMark -> has_q i q = true -> G i c P (sumf ow1 pr);
  x_sd : forall i, fS i D <> [] -> has_q i q = false;
  x_fl : forall i, fA i F = fQ i F ++ fS i F;
  x_dl : forall i, fA i D = fQ i D ++ fS i D }.

(* ---------- list lemmas ---------- *)
Lemma nth_set_cases {A} (l : list A) i j p p' q :
  nth_error l i = Some p -> nth_error (set_nth i p' l) j = Some q ->
  (j = i /\ q = p') \/ (j <> i /\ nth_error l j = Some q).
Proof.
  intros Hp Hq. destruct (Nat.eq_dec i j) as [->|Hne].
  - rewrite (nth_error_set_nth_eq _ _ _ _ Hp) in Hq. inversion Hq. left; auto.
  - rewrite nth_error_set_nth_neq in Hq by auto. right; auto.
Qed.

Lemma guard_app_l i a b : guard i a = true -> guard i (a ++ b) = true.
Proof. induction a as [|[|x] a IH]; simpl; intros H; auto; try discriminate. destruct (of_stream i x); auto. Qed.
Lemma guard_insert i a b : guard i (a ++ b) = true -> guard i (a ++ XPoll :: b) = true.
Proof. induction a as [|[|x] a IH]; simpl; intros H; auto. destruct (of_stream i x); auto. Qed.
Lemma noitems_app i a b : noitems i (a ++ b) = noitems i a && noitems i b.
Proof. unfold noitems. apply forallb_app. Qed.
Lemma noitems_guard_insert i a b : noitems i (a ++ b) = true -> guard i (a ++ XPoll :: b) = true.
Proof.
  induction a as [|[|x] a IH]; simpl; intros H; auto.
  apply andb_true_iff in H. destruct H as [Hx H]. apply negb_true_iff in Hx. rewrite Hx. auto.
Qed.
Lemma noitems_npoll_guard i l : noitems i l = true -> npollx l > 0 -> guard i l = true.
Proof.
  induction l as [|[|x] l IH]; simpl; intros H Hn; auto.
  - unfold npollx in Hn; simpl in Hn; lia.
  - apply andb_true_iff in H. destruct H as [Hx H]. apply negb_true_iff in Hx. rewrite Hx. apply IH; auto.
Qed.
Lemma noitems_of_filter i l : filter (of_stream i) (xitems l) = [] -> noitems i l = true.
Proof.
  induction l as [|[|x] l IH]; simpl; intros H; auto.
  destruct (of_stream i x) eqn:E; simpl in *; [discriminate|auto].
Qed.
Lemma npollx_app a b : npollx (a ++ b) = npollx a + npollx b.
Proof. unfold npollx. rewrite filter_app, app_length. reflexivity. Qed.
Lemma has_q_app i a b : has_q i (a ++ b) = has_q i a || has_q i b.
Proof. unfold has_q. apply existsb_app. Qed.
Lemma has_q_filter i q : has_q i q = false <-> filter (of_stream i) q = [].
Proof.
  induction q as [|x q IH]; simpl; [tauto|]. destruct (of_stream i x); simpl; [split; discriminate|exact IH].
Qed.

Lemma fS_app i a b : fS i (a ++ b) = fS i a ++ fS i b.
Proof. unfold fS. rewrite projV_app, filter_app. reflexivity. Qed.
Lemma fQ_app i a b : fQ i (a ++ b) = fQ i a ++ fQ i b.
Proof. unfold fQ. rewrite projV_app, filter_app. reflexivity. Qed.
Lemma fA_app i a b : fA i (a ++ b) = fA i a ++ fA i b.
Proof. unfold fA. rewrite map_app, filter_app. reflexivity. Qed.
Lemma fS_one_q i x : fS i [(x, VQ)] = []. Proof. reflexivity. Qed.
Lemma fQ_one_s i x : fQ i [(x, VS)] = []. Proof. reflexivity. Qed.
Lemma fS_one_s i x : fS i [(x, VS)] = filter (of_stream i) [x]. Proof. reflexivity. Qed.
Lemma fQ_one_q i x : fQ i [(x, VQ)] = filter (of_stream i) [x]. Proof. reflexivity. Qed.
Lemma fA_one i x v : fA i [(x, v)] = filter (of_stream i) [x]. Proof. reflexivity. Qed.
Lemma of_stream_other i j x : fst x = i -> j <> i -> of_stream j x = false.
Proof. intros E Hn. unfold of_stream. apply Nat.eqb_neq. congruence. Qed.
Lemma of_stream_own i x : fst x = i -> of_stream i x = true.
Proof. intros E. unfold of_stream. apply Nat.eqb_eq. auto. Qed.

(* ---------- G ---------- *)
Lemma G_drain i c P n : will_drain c = true -> G i c P n.
Proof. left; auto. Qed.
Lemma G_mono i c P n n' : n <= n' -> G i c P n -> G i c P n'.
Proof. intros Hn [H|[H|[H1 H2]]]; [left|right; left|right; right]; auto. split; auto; lia. Qed.
Lemma G_insert_poll i c a b n n' : G i c (a ++ b) n -> G i c (a ++ XPoll :: b) n'.
Proof.
  intros [H|[H|[H1 H2]]]; [left; auto | right; left; apply guard_insert; auto |
                           right; left; apply noitems_guard_insert; auto].
Qed.
Lemma G_app_other i c P e n : not_of i e = true -> G i c P n -> G i c (P ++ [e]) n.
Proof.
  intros He [H|[H|[H1 H2]]]; [left; auto | right; left; apply guard_app_l; auto | right; right].
  split; auto. rewrite noitems_app, H2. simpl. rewrite He. reflexivity.
Qed.
Lemma G_app_own i c P e : G i c P 0 -> G i c (P ++ [e]) 0.
Proof. intros [H|[H|[H1 H2]]]; [left; auto | right; left; apply guard_app_l; auto | lia]. Qed.
Lemma G_cons i c c' P n :
  (will_drain c = true -> will_drain c' = true) -> G i c P n -> G i c' P n.
Proof. intros Hc [H|[H|H]]; [left; auto | right; left; auto | right; right; auto]. Qed.

(* ---------- preservation, at the level of the components ---------- *)
Ltac cases_j Hp Hj :=
  let Hne := fresh "Hne" in let Hj' := fresh "Hj'" in
  destruct (nth_set_cases _ _ _ _ _ _ Hp Hj) as [[-> ->]|[Hne Hj']].

Lemma sum_same pr i p p' : nth_error pr i = Some p -> ow1 p' = ow1 p -> sumf ow1 (set_nth i p' pr) = sumf ow1 pr.
Proof. intros Hp E. pose proof (sumf_set_nth ow1 pr i p p' Hp). lia. Qed.

(* a writer moves its program counter only *)
Lemma ox_pc q P fl c pr F D i p p' :
  OX q P fl c pr F D -> nth_error pr i = Some p ->
  ow1 p' = ow1 p -> (wake p' = true -> wake p = true) -> infb p' = infb p -> closed p' = closed p ->
  (mpc_ p' <> MMark -> mpc_ p <> MMark) ->
  OX q P fl c (set_nth i p' pr) F D.
Proof.
  intros [Hf Hw Hph Hg Hsd Hfl Hdl] Hp Eo Ew Ei Ec Em.
  constructor; rewrite ?(sum_same pr i p p' Hp Eo); auto.
  - intros j pj Hj Hwj. cases_j Hp Hj; eauto.
  - intros j pj Hj Hne0. cases_j Hp Hj; [rewrite Ei, Ec|]; eauto.
  - intros j pj Hj Hm Hq. cases_j Hp Hj; eauto.
Qed.

Definition pipe_ok (P : list xev) (F D : list entry) : Prop :=
  forall i, fS i F = fS i D ++ filter (of_stream i) (xitems P).

Lemma wake_noitems q P fl c pr F D i p :
  OX q P fl c pr F D -> pipe_ok P F D -> nth_error pr i = Some p -> wake p = true -> noitems i P = true.
Proof.
  intros H Hpi Hp Hw. apply noitems_of_filter. pose proof (x_wake _ _ _ _ _ _ _ H i p Hp Hw) as E.
  rewrite (Hpi i) in E. apply app_eq_nil in E. tauto.
Qed.

(* markWorking fails: the flag is up *)
Lemma ox_mark_fail q P c pr F D i p p' :
  OX q P true c pr F D -> pipe_ok P F D -> nth_error pr i = Some p ->
  mpc_ p = MMark -> mpc_ p' = MIdle -> infb p' = infb p -> closed p' = closed p ->
  OX q P true c (set_nth i p' pr) F D.
Proof.
  intros H Hpi Hp Em Em' Ei Ec. pose proof H as [Hf Hw Hph Hg Hsd Hfl Hdl].
  assert (Eo : ow1 p' = ow1 p) by (unfold ow1, owingb; rewrite Em, Em'; reflexivity).
  constructor; rewrite ?(sum_same pr i p p' Hp Eo); auto.
  - intros j pj Hj Hwj. cases_j Hp Hj; eauto. unfold wake in Hwj. rewrite Em' in Hwj. discriminate.
  - intros j pj Hj Hne0. cases_j Hp Hj; [rewrite Ei, Ec|]; eauto.
  - intros j pj Hj Hm Hq. cases_j Hp Hj; eauto.
    (* the loser itself: somebody else's wake-up is on its way, or the consumer is still draining *)
    assert (Hni : noitems i P = true).
    { eapply wake_noitems; eauto. unfold wake. rewrite Em. reflexivity. }
    destruct (will_drain c) eqn:Ed; [left; auto|].
    assert (Hl : low c = true) by (destruct c as [| | | | | |[|]|]; simpl in *; auto; discriminate).
    specialize (Hf Hl eq_refl).
    destruct (sumf ow1 pr) eqn:En.
    + right; left. apply noitems_npoll_guard; auto. lia.
    + right; right. split; auto. lia.
Qed.

(* markWorking succeeds *)
Lemma ox_mark_win q P c pr F D i p p' :
  OX q P false c pr F D -> pipe_ok P F D -> nth_error pr i = Some p ->
  mpc_ p = MMark -> mpc_ p' = MWr -> infb p' = infb p -> closed p' = closed p ->
  OX q P true c (set_nth i p' pr) F D.
Proof.
  intros H Hpi Hp Em Em' Ei Ec. pose proof H as [Hf Hw Hph Hg Hsd Hfl Hdl].
  assert (Es : sumf ow1 (set_nth i p' pr) = S (sumf ow1 pr)).
  { pose proof (sumf_set_nth ow1 pr i p p' Hp) as E.
    assert (A1 : ow1 p = 0) by (unfold ow1, owingb; rewrite Em; reflexivity).
    assert (A2 : ow1 p' = 1) by (unfold ow1, owingb; rewrite Em'; reflexivity). lia. }
  constructor; rewrite ?Es; auto.
  - intros; lia.
  - intros j pj Hj Hwj. cases_j Hp Hj; eauto. apply (Hw i p Hp). unfold wake. rewrite Em. reflexivity.
  - intros j pj Hj Hne0. cases_j Hp Hj; [rewrite Ei, Ec|]; eauto.
  - intros j pj Hj Hm Hq. cases_j Hp Hj.
    + right; right. split; [lia|]. eapply wake_noitems; eauto. unfold wake. rewrite Em. reflexivity.
    + eapply G_mono; [|eapply Hg; eauto]. lia.
Qed.

(* an owed polling event enters the pipe (fast path: end of the socket; slow path: end of sendCh) *)
Lemma ox_poll q a b fl c pr F D i p p' :
  OX q (a ++ b) fl c pr F D -> nth_error pr i = Some p ->
  ow1 p = 1 -> ow1 p' = 0 -> (wake p' = true -> wake p = true) -> infb p' = infb p -> closed p' = closed p ->
  mpc_ p <> MMark ->
  OX q (a ++ XPoll :: b) fl c (set_nth i p' pr) F D.
Proof.
  intros [Hf Hw Hph Hg Hsd Hfl Hdl] Hp E1 E0 Ew Ei Ec Em.
  assert (Es : S (sumf ow1 (set_nth i p' pr)) = sumf ow1 pr).
  { pose proof (sumf_set_nth ow1 pr i p p' Hp) as E. lia. }
  assert (En : npollx (a ++ XPoll :: b) = S (npollx (a ++ b))).
  { rewrite !npollx_app. unfold npollx at 2. simpl. fold (npollx b). lia. }
  constructor; auto.
  - intros Hl Hfl'. specialize (Hf Hl Hfl'). lia.
  - intros j pj Hj Hwj. cases_j Hp Hj; eauto.
  - intros j pj Hj Hne0. cases_j Hp Hj; [rewrite Ei, Ec|]; eauto.
  - intros j pj Hj Hm Hq. cases_j Hp Hj; eapply G_insert_poll; eauto.
Qed.

Definition f1 (j : nat) (x : item) : list item := filter (of_stream j) [x].
Lemma f1_other i j x : fst x = i -> j <> i -> f1 j x = [].
Proof. intros E Hn. unfold f1. simpl. rewrite (of_stream_other i j x E Hn). reflexivity. Qed.
Lemma f1_own i x : fst x = i -> f1 i x = [x].
Proof. intros E. unfold f1. simpl. rewrite (of_stream_own i x E). reflexivity. Qed.

(* an element is published in the queue (Flush / close through shared memory) *)
Lemma ox_put_q q P fl c pr F D i p p' x :
  OX q P fl c pr F D -> pipe_ok P F D -> nth_error pr i = Some p -> fst x = i ->
  mpc_ p = MIdle -> infb p = false -> closed p = false -> mpc_ p' = MMark ->
  OX (q ++ [x]) P fl c (set_nth i p' pr) (F ++ [(x, VQ)]) D.
Proof.
  intros [Hf Hw Hph Hg Hsd Hfl Hdl] Hpi Hp Hx Em Ei Ec Em'.
  assert (Eo : ow1 p' = ow1 p) by (unfold ow1, owingb; rewrite Em, Em'; reflexivity).
  assert (HS : fS i F = []).
  { destruct (fS i F) eqn:E; auto. exfalso. destruct (Hph i p Hp) as [A|A]; congruence. }
  constructor; rewrite ?(sum_same pr i p p' Hp Eo); auto.
  - intros j pj Hj Hwj. rewrite fS_app, fS_one_q, app_nil_r. cases_j Hp Hj; eauto.
  - intros j pj Hj Hne0. rewrite fS_app, fS_one_q, app_nil_r in Hne0. cases_j Hp Hj; [congruence|eauto].
  - intros j pj Hj Hm Hq. cases_j Hp Hj; [congruence|].
    rewrite has_q_app in Hq. simpl in Hq. rewrite (of_stream_other i j x Hx Hne) in Hq. simpl in Hq.
    rewrite orb_false_r in Hq. eauto.
  - intros j Hne0. rewrite has_q_app. simpl. rewrite orb_false_r.
    rewrite (Hsd j Hne0). simpl. destruct (Nat.eq_dec j i) as [->|Hne]; [|apply (of_stream_other i j x Hx Hne)].
    exfalso. rewrite (Hpi i) in HS. apply app_eq_nil in HS. tauto.
  - intros j. rewrite fA_app, fQ_app, fS_app, fS_one_q, app_nil_r, fA_one, fQ_one_q, Hfl.
    fold (f1 j x). destruct (Nat.eq_dec j i) as [->|Hne].
    + rewrite HS, !app_nil_r. reflexivity.
    + rewrite (f1_other i j x Hx Hne), !app_nil_r. reflexivity.
Qed.

(* an item is handed to the socket path while no polling event is owed *)
Lemma ox_put_s q P fl c pr F D i p p' x :
  OX q P fl c pr F D -> nth_error pr i = Some p -> fst x = i -> sumf ow1 pr = 0 ->
  mpc_ p = MIdle -> mpc_ p' = MWait -> (infb p' = true \/ closed p' = true) ->
  OX q (P ++ [XItem x]) fl c (set_nth i p' pr) (F ++ [(x, VS)]) D.
Proof.
  intros [Hf Hw Hph Hg Hsd Hfl Hdl] Hp Hx Hz Em Em' Hic.
  assert (Eo : ow1 p' = ow1 p) by (unfold ow1, owingb; rewrite Em, Em'; reflexivity).
  assert (En : npollx (P ++ [XItem x]) = npollx P) by (rewrite npollx_app; unfold npollx at 2; simpl; lia).
  constructor; rewrite ?(sum_same pr i p p' Hp Eo), ?En; auto.
  - intros j pj Hj Hwj. cases_j Hp Hj.
    + unfold wake in Hwj. rewrite Em' in Hwj. discriminate.
    + rewrite fS_app, fS_one_s. fold (f1 j x). rewrite (f1_other i j x Hx Hne), app_nil_r. eauto.
  - intros j pj Hj Hne0. cases_j Hp Hj; auto.
    rewrite fS_app, fS_one_s in Hne0. fold (f1 j x) in Hne0. rewrite (f1_other i j x Hx Hne), app_nil_r in Hne0. eauto.
  - intros j pj Hj Hm Hq. cases_j Hp Hj.
    + rewrite Hz. apply G_app_own. rewrite <- Hz. apply (Hg i p Hp); auto. congruence.
    + apply G_app_other; [|eauto]. simpl. rewrite (of_stream_other i j x Hx Hne). reflexivity.
  - intros j. rewrite fA_app, fQ_app, fS_app, fQ_one_s, app_nil_r, fA_one, fS_one_s, Hfl, app_assoc. reflexivity.
Qed.

(* the consumer takes a polling event from the connection *)
Lemma ox_take_poll q P fl pr F D :
  OX q (XPoll :: P) fl KIdle pr F D -> OX q P fl KPopH pr F D.
Proof.
  intros [Hf Hw Hph Hg Hsd Hfl Hdl]. constructor; auto.
  - simpl; discriminate.
  - intros. apply G_drain. reflexivity.
Qed.

Lemma G_idle_own i x P n : of_stream i x = true -> ~ G i KIdle (XItem x :: P) n.
Proof.
  intros Ho [H|[H|[_ H]]]; simpl in *; try discriminate; rewrite Ho in H; simpl in H; discriminate.
Qed.

(* the consumer takes a fallback-data / stream-close event: by then no element of that stream is left in the queue *)
Lemma ox_take_item q P fl pr F D x :
  OX q (XItem x :: P) fl KIdle pr F D -> pipe_ok (XItem x :: P) F D ->
  (exists p, nth_error pr (fst x) = Some p) ->
  OX q P fl KIdle pr F (D ++ [(x, VS)]).
Proof.
  intros H Hpi [p Hp]. pose proof H as [Hf Hw Hph Hg Hsd Hfl Hdl].
  assert (Hnone : has_q (fst x) q = false).
  { destruct (has_q (fst x) q) eqn:Eq; auto. exfalso.
    assert (Ho : of_stream (fst x) x = true) by (apply of_stream_own; reflexivity).
    assert (Hm : mpc_ p <> MMark).
    { intros Em. assert (Hwk : wake p = true) by (unfold wake; rewrite Em; reflexivity).
      pose proof (Hw _ p Hp Hwk) as E. rewrite (Hpi (fst x)) in E. apply app_eq_nil in E. destruct E as [_ E].
      simpl in E. rewrite Ho in E. discriminate. }
    exact (G_idle_own _ x P _ Ho (Hg _ p Hp Hm Eq)). }
  constructor; auto.
  - intros j pj Hj Hm Hq. specialize (Hg j pj Hj Hm Hq).
    destruct (of_stream j x) eqn:Eo; [exfalso; exact (G_idle_own j x P _ Eo Hg)|].
    destruct Hg as [Hd|[Hd|[Hn Hd]]]; simpl in *; try discriminate; rewrite Eo in Hd; simpl in Hd.
    + right; left; auto.
    + right; right; auto.
  - intros j Hne0. rewrite fS_app, fS_one_s in Hne0. simpl in Hne0.
    destruct (of_stream j x) eqn:Eo.
    + unfold of_stream in Eo. apply Nat.eqb_eq in Eo. subst j. exact Hnone.
    + rewrite app_nil_r in Hne0. auto.
  - intros j. rewrite fA_app, fQ_app, fS_app, fQ_one_s, app_nil_r, fA_one, fS_one_s, Hdl, app_assoc. reflexivity.
Qed.

(* the consumer moves without touching queue, flag or connection *)
Lemma ox_cons q P fl c c' pr F D :
  (low c' = true -> low c = true) -> (will_drain c = true -> will_drain c' = true) ->
  OX q P fl c pr F D -> OX q P fl c' pr F D.
Proof.
  intros Hl Hd [Hf Hw Hph Hg Hsd Hfl Hdl]. constructor; auto.
  intros. eapply G_cons; eauto.
Qed.

(* the consumer pops an element *)
Lemma ox_pop x q P fl c pr F D :
  OX (x :: q) P fl c pr F D -> OX q P fl KPopH pr F (D ++ [(x, VQ)]).
Proof.
  intros [Hf Hw Hph Hg Hsd Hfl Hdl]. constructor; auto.
  - simpl; discriminate.
  - intros. apply G_drain. reflexivity.
  - intros j Hne0. rewrite fS_app, fS_one_q, app_nil_r in Hne0. specialize (Hsd j Hne0).
    simpl in Hsd. apply orb_false_iff in Hsd. tauto.
  - intros j. rewrite fA_app, fQ_app, fS_app, fS_one_q, app_nil_r, fA_one, fQ_one_q, Hdl.
    simpl. destruct (of_stream j x) eqn:Eo; [|rewrite !app_nil_r; reflexivity].
    destruct (fS j D) eqn:Es; [rewrite !app_nil_r; reflexivity|].
    assert (Hne0 : fS j D <> []) by (rewrite Es; discriminate).
    specialize (Hsd j Hne0). simpl in Hsd. rewrite Eo in Hsd. discriminate.
Qed.

Lemma ox_flag0 q P fl c pr F D : OX q P fl c pr F D -> OX q P false KSizeT pr F D.
Proof.
  intros [Hf Hw Hph Hg Hsd Hfl Hdl]. constructor; auto.
  - intros _ E; discriminate.
  - intros. apply G_drain. reflexivity.
Qed.
Lemma ox_flag1 q P fl c pr F D : OX q P fl c pr F D -> OX q P true KPopH pr F D.
Proof.
  intros [Hf Hw Hph Hg Hsd Hfl Hdl]. constructor; auto.
  - simpl; discriminate.
  - intros. apply G_drain. reflexivity.
Qed.
Lemma ox_sizet q P fl pr F D :
  OX q P fl KSizeT pr F D -> OX q P fl (KSizeH (match q with [] => true | _ => false end)) pr F D.
Proof.
  intros [Hf Hw Hph Hg Hsd Hfl Hdl]. constructor; auto.
  intros i p Hp Hm Hq. destruct q; [discriminate|]. apply G_drain. reflexivity.
Qed.

(* ---------- the invariant on states ---------- *)
Definition OXs (st : mst) : Prop :=
  OX (queue st) (pipe st) (mflag st) (mcons st) (mprods st) (flog st) (deliv st).
Record OInv (st : mst) : Prop := { o_m : MInv st; o_x : OXs st }.

Lemma lhand_x x : lhand x = xitems (lhandx x).
Proof. destruct x; reflexivity. Qed.
Lemma pipe_ok_inv st : MInv st -> pipe_ok (pipe st) (flog st) (deliv st).
Proof.
  intros H i. unfold fS. rewrite <- (m_fs st H), filter_app. f_equal. f_equal.
  unfold pipe. rewrite !xitems_app, lhand_x. reflexivity.
Qed.

Ltac side Epc :=
  first [ reflexivity
        | solve [unfold ow1, owingb, wake; simpl; rewrite ?Epc; simpl;
                 first [reflexivity | discriminate | congruence | (intros; discriminate) | (intros; congruence)]]
        | solve [auto] ].

Lemma oxs_pstep i st :
  MInv st -> OXs st -> (hands_sock st (WProd i) = true -> nowing st = 0) -> OXs (mpstep i st).
Proof.
  intros HM H Hw. pose proof (pipe_ok_inv st HM) as Hpi. unfold mpstep.
  destruct (nth_error (mprods st) i) as [p|] eqn:Hp; auto.
  unfold hands_sock in Hw. rewrite Hp in Hw.
  destruct (mpc_ p) eqn:Epc.
  - (* MIdle *)
    destruct (mtodo p) as [|[shmok qfull|qfull] r] eqn:Et; auto.
    + destruct (closed p) eqn:Ecl.
      { unfold OXs, pipe; simpl. apply ox_pc with (p := p); auto; side Epc. }
      destruct (infb p || negb shmok) eqn:Efb.
      * unfold OXs; simpl.
        replace (pipe _) with (pipe st ++ [XItem (i, DData (nxt p))])
          by (unfold pipe; simpl; rewrite map_app, <- !app_assoc; reflexivity).
        apply ox_put_s with (p := p); auto; try side Epc; try (apply Hw; reflexivity).
      * apply orb_false_iff in Efb. destruct Efb as [Efb _]. destruct qfull.
        -- unfold OXs, pipe; simpl. apply ox_pc with (p := p); auto; simpl; try side Epc; congruence.
        -- unfold OXs; simpl. change (pipe _) with (pipe st). apply ox_put_q with (p := p); auto; side Epc.
    + destruct (closed p) eqn:Ecl.
      { unfold OXs, pipe; simpl. apply ox_pc with (p := p); auto; side Epc. }
      destruct (infb p || qfull) eqn:Efb.
      * unfold OXs; simpl.
        replace (pipe _) with (pipe st ++ [XItem (i, DEnd)])
          by (unfold pipe; simpl; rewrite map_app, <- !app_assoc; reflexivity).
        apply ox_put_s with (p := p); auto; try side Epc; try (apply Hw; reflexivity).
      * apply orb_false_iff in Efb. destruct Efb as [Efb _].
        unfold OXs; simpl. change (pipe _) with (pipe st). apply ox_put_q with (p := p); auto; side Epc.
  - (* MMark *)
    unfold OXs in H. destruct (mflag st) eqn:Ef.
    + unfold OXs, pipe; simpl. rewrite Ef. apply ox_mark_fail with (p := p); auto; side Epc.
    + unfold OXs; simpl. change (pipe _) with (pipe st). apply ox_mark_win with (p := p); auto; side Epc.
  - (* MWr *)
    destruct (mwriting st); unfold OXs; simpl; change (pipe _) with (pipe st);
      apply ox_pc with (p := p); auto; side Epc.
  - (* MSlow: the polling event goes onto sendCh *)
    unfold OXs; simpl.
    replace (pipe _) with (pipe st ++ XPoll :: [])
      by (unfold pipe; simpl; rewrite map_app, <- !app_assoc; reflexivity).
    apply ox_poll with (p := p); auto; try side Epc. rewrite app_nil_r. exact H.
  - (* MEv: the polling event is written to the connection *)
    unfold OXs; simpl.
    replace (pipe _) with (msock st ++ XPoll :: (lhandx (msl st) ++ map fst (msendch st)))
      by (unfold pipe; simpl; rewrite <- app_assoc; reflexivity).
    apply ox_poll with (p := p); auto; side Epc.
  - unfold OXs; simpl; change (pipe _) with (pipe st). apply ox_pc with (p := p); auto; side Epc.
  - unfold OXs; simpl; change (pipe _) with (pipe st). apply ox_pc with (p := p); auto; side Epc.
  - destruct (existsb (Nat.eqb i) (acks st)); auto.
    unfold OXs; simpl; change (pipe _) with (pipe st). apply ox_pc with (p := p); auto; side Epc.
Qed.

Lemma oxs_cstep st : MInv st -> OXs st -> OXs (mcstep st).
Proof.
  intros HM H. pose proof (pipe_ok_inv st HM) as Hpi. unfold mcstep. unfold OXs in *.
  destruct (mcons st) eqn:Ec.
  - (* KIdle *)
    destruct (msock st) as [|[|x] r] eqn:Es.
    + rewrite Ec. unfold pipe in *. rewrite Es in *. exact H.
    + unfold pipe in *; simpl. rewrite Es in H. simpl in H. apply ox_take_poll. exact H.
    + unfold pipe in *; simpl. rewrite Es in H, Hpi. simpl in H, Hpi. rewrite Ec.
      apply ox_take_item; auto.
      assert (Hin : In x (map fst (flog st))).
      { apply (projV_incl VS). rewrite <- (m_fs st HM), Es. apply in_or_app. right. simpl. left; reflexivity. }
      destruct (m_valid st HM x Hin) as [p [Hp _]]. exists p; exact Hp.
  - simpl. change (pipe _) with (pipe st). eapply ox_cons; [| |exact H]; simpl; auto.
  - destruct (queue st) eqn:Eq; simpl; change (pipe _) with (pipe st); rewrite ?Eq; (eapply ox_cons; [| |exact H]; simpl; auto).
  - destruct (queue st) as [|x q] eqn:Eq.
    + simpl; change (pipe _) with (pipe st). rewrite Eq. eapply ox_cons; [| |exact H]; simpl; auto.
    + simpl. change (pipe _) with (pipe st). eapply ox_pop. exact H.
  - simpl. change (pipe _) with (pipe st). eapply ox_flag0. exact H.
  - simpl. change (pipe _) with (pipe st). apply ox_sizet. exact H.
  - destruct empty; simpl; change (pipe _) with (pipe st); (eapply ox_cons; [| |exact H]; simpl; auto).
  - simpl. change (pipe _) with (pipe st). eapply ox_flag1. exact H.
Qed.

Lemma oxs_sstep st : OXs st -> OXs (msstep st).
Proof.
  intros H. unfold msstep.
  destruct (msl st) as [|e|e|e|o] eqn:El.
  - destruct (msendch st) as [|e r] eqn:Es; [exact H|].
    unfold OXs, pipe in *. rewrite El, Es in H. simpl in *. exact H.
  - destruct (mwriting st); unfold OXs, pipe in *; rewrite El in H; simpl in *; exact H.
  - destruct (mnotif st); [|exact H]. unfold OXs, pipe in *; rewrite El in H; simpl in *; exact H.
  - unfold OXs, pipe in *; rewrite El in H; simpl in *. rewrite <- app_assoc. simpl. exact H.
  - unfold OXs, pipe in *; rewrite El in H; simpl in *. exact H.
Qed.

Lemma oinit progs : OInv (minit progs).
Proof.
  constructor; [apply minit_inv|]. unfold OXs; simpl. constructor; simpl; auto; try discriminate.
Qed.

Lemma ostep st w :
  OInv st -> (hands_sock st w = true -> nowing st = 0) -> OInv (mstep st w).
Proof.
  intros [HM HX] Hw. constructor; [apply mstep_inv; exact HM|].
  destruct w; simpl; [apply oxs_pstep | apply oxs_cstep | apply oxs_sstep]; auto.
Qed.

Lemma orun sched : forall st, OInv st -> no_window sched st = true -> OInv (mrun sched st).
Proof.
  induction sched as [|w r IH]; simpl; intros st H Hn; auto.
  apply andb_true_iff in Hn. destruct Hn as [Hn1 Hn2]. apply IH; auto. apply ostep; auto.
  intros Hh. rewrite Hh in Hn1. simpl in Hn1. apply negb_true_iff in Hn1. apply Nat.ltb_ge in Hn1. lia.
Qed.

(* ---------- from the invariant to the statement ---------- *)
Lemma split_ordered st s rest :
  MInv st ->
  filter (of_stream s) (map fst (deliv st)) ++ rest = filter (of_stream s) (map fst (flog st)) ->
  ordered s st = true.
Proof.
  intros H Hsplit.
  unfold ordered, seen, sent. rewrite <- Hsplit, map_app, is_prefix_app. simpl.
  unfold end_after_all, seen, sent. rewrite <- Hsplit.
  destruct (existsb (ditem_eqb DEnd) (map snd (filter (of_stream s) (map fst (deliv st))))) eqn:Ee; auto.
  apply (existsb_end_in s) in Ee; [|intros x Hx; eapply filter_of_stream_fst; eauto].
  pose proof (m_end st H s) as Hel.
  assert (Hrest : rest = []) by (eapply end_last_filter; [exact Hel | symmetry; exact Hsplit | exact Ee]).
  subst rest. rewrite app_nil_r in *.
  apply in_split in Ee. destruct Ee as [l1 [l2 El]].
  assert (Hl2 : l2 = []).
  { eapply (end_last_filter s _ (l1 ++ [(s, DEnd)]) l2 Hel).
    - rewrite <- Hsplit, El, <- app_assoc. reflexivity.
    - apply in_or_app. right; left; reflexivity. }
  subst l2. rewrite El, map_app, rev_app_distr. simpl. apply Nat.eqb_refl.
Qed.

Lemma oinv_ordered st s : OInv st -> ordered s st = true.
Proof.
  intros [HM HX]. unfold OXs in HX.
  pose proof (x_dl _ _ _ _ _ _ _ HX s) as Hd. pose proof (x_fl _ _ _ _ _ _ _ HX s) as Hf.
  pose proof (pipe_ok_inv st HM s) as Hs.
  assert (Hq : fQ s (flog st) = fQ s (deliv st) ++ filter (of_stream s) (queue st)).
  { unfold fQ. rewrite <- (m_fq st HM), filter_app. reflexivity. }
  unfold fA in Hd, Hf.
  destruct (fS s (deliv st)) eqn:Es.
  - apply (split_ordered st s (filter (of_stream s) (queue st) ++ fS s (flog st))); auto.
    rewrite Hd, Hf, Hq, app_nil_r, <- app_assoc. reflexivity.
  - assert (Hne : fS s (deliv st) <> []) by (rewrite Es; discriminate).
    pose proof (x_sd _ _ _ _ _ _ _ HX s Hne) as Hn. apply has_q_filter in Hn.
    apply (split_ordered st s (filter (of_stream s) (xitems (pipe st)))); auto.
    rewrite Hd, Hf, Hq, Hn, app_nil_r, Hs, <- app_assoc. reflexivity.
Qed.

(* THE THEOREM: every stream is delivered in order, end mark last, in every run without the window *)
Theorem order_without_window progs sched :
  no_window sched (minit progs) = true ->
  forall s, ordered s (mrun sched (minit progs)) = true.
Proof. intros Hn s. apply oinv_ordered. apply orun; [apply oinit | exact Hn]. Qed.

(* the former witness schedule of (a) contains no window: it is covered by the theorem (and was a
   counterexample to this very statement before the repair: the hypothesis is not what rescues it) *)
Lemma reg_a_no_window : no_window wit_a_sched (minit wit_a_progs) = true.
Proof. vm_compute. reflexivity. Qed.
(* the two remaining witnesses both contain the window *)
Lemma wit_b_window : no_window wit_b_sched (minit wit_b_progs) = false.
Proof. vm_compute. reflexivity. Qed.
Lemma wit_e_window : no_window wit_e_sched (minit wit_e_progs) = false.
Proof. vm_compute. reflexivity. Qed.
